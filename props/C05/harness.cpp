// C05 harness: for each probe, does the user-replaceable assertion handler run, from which header,
// and is the object still bit-identical to its pre-call state at that moment?
// impl leg:  "ok"  |  "contract <unmodified 0/1> # <file-basename of the firing check>"
// reference leg (the documented precondition, evaluated here with plain wide arithmetic): "ok" | "contract 1"
#ifndef TETL_ENABLE_CUSTOM_ASSERT_HANDLER
#define TETL_ENABLE_CUSTOM_ASSERT_HANDLER 1
#endif
#include <csetjmp>
#include <cstdio>
#include <cstdlib>
#include <cstring>
#include <memory>
#include <new>
#include <regex>
#include <string>
#include <vector>

#include <etl/array.hpp>
#include <etl/bit.hpp>
#include <etl/bitset.hpp>
#include <etl/cassert.hpp>
#include <etl/chrono.hpp>
#include <etl/cstring.hpp>
#include <etl/expected.hpp>
#include <etl/format.hpp>
#include <etl/inplace_vector.hpp>
#include <etl/linalg.hpp>
#include <etl/mdspan.hpp>
#include <etl/numeric.hpp>
#include <etl/optional.hpp>
#include <etl/set.hpp>
#include <etl/span.hpp>
#include <etl/string.hpp>
#include <etl/cwchar.hpp>
#include <etl/string_view.hpp>
#include <etl/variant.hpp>
#include <etl/vector.hpp>

namespace probe {
inline std::jmp_buf jmp;
inline bool armed               = false;
inline void const* obj          = nullptr;
inline std::size_t obj_size     = 0;
inline unsigned char before[4096];
inline bool unmodified          = false;
inline std::string file;
inline unsigned char const* guard_a = nullptr;
inline unsigned char const* guard_b = nullptr;
inline std::size_t guard_n = 0;
inline bool with_expr = false;   // probes whose model leg also names the check that fires (expression text)
inline std::string expr;
} // namespace probe

namespace etl {
template <typename Assertion>
[[noreturn]] auto assert_handler(Assertion const& msg) -> void
{
    if (!probe::armed) { std::fprintf(stderr, "contract outside probe: %s:%d\n", msg.file, msg.line); std::_Exit(70); }
    // snapshot comparison happens HERE, i.e. at the moment the handler runs
    probe::unmodified = probe::obj == nullptr || std::memcmp(probe::obj, probe::before, probe::obj_size) == 0;
    for (std::size_t i = 0; i < probe::guard_n; ++i) {
        if (probe::guard_a[i] != 0xA5 || probe::guard_b[i] != 0xA5) { probe::unmodified = false; }
    }
    if (char const* log = std::getenv("VERIF_C05_SITELOG")) {   // coverage aid: which sites did the probes reach
        if (FILE* fp = std::fopen(log, "a")) { std::fprintf(fp, "%s:%d\n", msg.file != nullptr ? msg.file : "?", msg.line); std::fclose(fp); }
    }
    std::string f = msg.file != nullptr ? msg.file : "?";
    auto slash  = f.find_last_of('/');
    probe::file = slash == std::string::npos ? f : f.substr(slash + 1);
    // the failing location the handler is given: file, a positive line, a function name, and the expression text "(<expr>)"
    std::string e = msg.expression != nullptr ? msg.expression : "?";
    if (e.size() >= 2 && e.front() == '(' && e.back() == ')') { e = e.substr(1, e.size() - 2); }
    for (auto& ch : e) { if (ch == ' ') { ch = '_'; } }
    // ... and the enclosing function's name (hosted builds pass __PRETTY_FUNCTION__ / __func__)
    probe::expr = msg.line > 0 ? ((msg.func != nullptr && msg.func[0] != '\0') ? e : "?nofunc") : "?noline";
    if (probe::with_expr) { probe::file += " " + probe::expr; }
    std::longjmp(probe::jmp, 1);
}
} // namespace etl

#define VERIF_COMMON_NO_HANDLER 1
#include "common.hpp"

using namespace vh;
using u64 = unsigned long long;

// ---- which of the two contract macros this build defines (_contracts/check.hpp selects what TETL_PRECONDITION and
//      TETL_PRECONDITION_SAFE expand to from exactly these two)
#if defined(TETL_ENABLE_CONTRACT_CHECKS)
static constexpr bool kChecks = true;
#else
static constexpr bool kChecks = false;
#endif
#if defined(TETL_ENABLE_CONTRACT_CHECKS_SAFE)
static constexpr bool kSafe = true;
#else
static constexpr bool kSafe = false;
#endif
// the two macros used directly (harmless in every build mode: nothing happens behind the check)
static int direct_precondition(long long v) { TETL_PRECONDITION(v != 0); return 1; }
static int direct_precondition_safe(long long v) { TETL_PRECONDITION_SAFE(v != 0); return 1; }

// run f with the handler armed, watching the bytes of `o`
template <typename T, typename F>
static void watch(Out& out, T const& o, F&& f)
{
    static_assert(sizeof(T) <= sizeof(probe::before));
    probe::obj      = &o;
    probe::obj_size = sizeof(T);
    std::memcpy(probe::before, &o, sizeof(T));
    probe::armed = true;
    if (setjmp(probe::jmp) == 0) {
        f();
        out.tok("ok");
    } else {
        out.tok("contract").b(probe::unmodified).tok("#").tok(probe::file);
    }
    probe::armed = false;
}
template <typename F>
static void watch_none(Out& out, F&& f)
{
    probe::obj = nullptr;
    probe::armed = true;
    if (setjmp(probe::jmp) == 0) { f(); out.tok("ok"); } else { out.tok("contract").b(true).tok("#").tok(probe::file); }
    probe::armed = false;
}
// construct an object by placement new in the middle of an arena whose guard bytes (GUARD on each side) are
// compared at the moment the handler runs: a constructor that writes outside its own object before the check fires
// shows up as "contract 0"
template <typename T, typename F>
static void watch_ctor(Out& out, F&& construct)
{
    constexpr std::size_t GUARD = 64;
    struct Arena { unsigned char lo[GUARD]; alignas(T) unsigned char obj[sizeof(T)]; unsigned char hi[GUARD]; };
    static Arena arena;
    static Arena pattern;
    std::memset(&arena, 0xA5, sizeof(Arena));
    std::memset(&pattern, 0xA5, sizeof(Arena));
    probe::obj = nullptr;
    probe::armed = true;
    probe::guard_a = arena.lo; probe::guard_b = arena.hi; probe::guard_n = GUARD;
    if (setjmp(probe::jmp) == 0) {
        construct(static_cast<void*>(arena.obj));
        bool clean = std::memcmp(arena.lo, pattern.lo, GUARD) == 0 && std::memcmp(arena.hi, pattern.hi, GUARD) == 0;
        out.tok(clean ? "ok" : "ok-but-wrote-outside");
    } else {
        out.tok("contract").b(probe::unmodified).tok("#").tok(probe::file);
    }
    probe::guard_a = nullptr; probe::guard_b = nullptr; probe::guard_n = 0;
    probe::armed = false;
}
// the property: a violation makes the handler run with the object unmodified ("contract 1"), a valid call does not
static void doc(Out& ref, bool pre) { ref.tok(pre ? "ok" : "contract 1"); }

static volatile long long sink;

template <typename UInt>
static void bit_probe(std::string const& which, u64 word, u64 pos, Out& impl)
{
    auto w = static_cast<UInt>(word);
    auto p = static_cast<UInt>(pos);
    watch_none(impl, [&] {
        if (which == "set") { sink = etl::set_bit(w, p); }
        else if (which == "set3") { sink = etl::set_bit(w, p, true); }
        else if (which == "reset") { sink = etl::reset_bit(w, p); }
        else if (which == "flip") { sink = etl::flip_bit(w, p); }
        else { sink = etl::test_bit(w, p); }
    });
}

template <std::size_t N>
static void bitset_probe(std::string const& which, u64 pos, Out& impl)
{
    etl::bitset<N> b;
    b.set(0);
    watch(impl, b, [&] {
        if (which == "set") { b.set(pos); }
        else if (which == "reset") { b.reset(pos); }
        else if (which == "flip") { b.flip(pos); }
        else if (which == "idx") { sink = b[pos]; }
        else if (which == "cidx") { sink = static_cast<etl::bitset<N> const&>(b)[pos]; }
        else if (which == "test") { sink = b.test(pos); }
        else if (which == "uset") { etl::basic_bitset<N, unsigned char> bb; bb.unchecked_set(pos); }
        else if (which == "ureset") { etl::basic_bitset<N, unsigned char> bb; bb.unchecked_reset(pos); }
        else if (which == "uflip") { etl::basic_bitset<N, unsigned char> bb; bb.unchecked_flip(pos); }
        else if (which == "utest") { etl::basic_bitset<N, unsigned char> bb; sink = bb.unchecked_test(pos); }
        else if (which == "cbidx") { etl::basic_bitset<N, unsigned char> const bb; sink = bb[pos]; }
        else { etl::basic_bitset<N, unsigned char> bb; sink = bb[pos]; }
    });
}

// an iterator over a character array that is NOT a pointer and NOT random access (forward-only, multi-pass):
// append(first, last) / basic_inplace_string(first, last) / assign(first, last) have no up-front length check for it
template <typename Char>
struct FwdIt {
    using iterator_category = etl::forward_iterator_tag;
    using value_type        = Char;
    using difference_type   = std::ptrdiff_t;
    using pointer           = Char const*;
    using reference         = Char const&;
    Char const* p;
    auto operator*() const -> Char const& { return *p; }
    auto operator->() const -> Char const* { return p; }
    auto operator++() -> FwdIt& { ++p; return *this; }
    auto operator++(int) -> FwdIt { auto t = *this; ++p; return t; }
    friend auto operator==(FwdIt a, FwdIt b) -> bool { return a.p == b.p; }
    friend auto operator!=(FwdIt a, FwdIt b) -> bool { return a.p != b.p; }
};

// a random access iterator that is NOT a pointer and not a reverse_iterator: a class with the random_access tag. The
// headers treat it as a sized range (detail::RandomAccessIterator<It>): the length check comes before the first element
template <typename Char>
struct RaIt {
    using iterator_category = etl::random_access_iterator_tag;
    using value_type        = Char;
    using difference_type   = std::ptrdiff_t;
    using pointer           = Char const*;
    using reference         = Char const&;
    Char const* p;
    auto operator*() const -> Char const& { return *p; }
    auto operator->() const -> Char const* { return p; }
    auto operator[](difference_type n) const -> Char const& { return p[n]; }
    auto operator++() -> RaIt& { ++p; return *this; }
    auto operator++(int) -> RaIt { auto t = *this; ++p; return t; }
    auto operator--() -> RaIt& { --p; return *this; }
    auto operator--(int) -> RaIt { auto t = *this; --p; return t; }
    auto operator+=(difference_type n) -> RaIt& { p += n; return *this; }
    auto operator-=(difference_type n) -> RaIt& { p -= n; return *this; }
    friend auto operator+(RaIt a, difference_type n) -> RaIt { return RaIt{a.p + n}; }
    friend auto operator+(difference_type n, RaIt a) -> RaIt { return RaIt{a.p + n}; }
    friend auto operator-(RaIt a, difference_type n) -> RaIt { return RaIt{a.p - n}; }
    friend auto operator-(RaIt a, RaIt b) -> difference_type { return a.p - b.p; }
    friend auto operator==(RaIt a, RaIt b) -> bool { return a.p == b.p; }
    friend auto operator!=(RaIt a, RaIt b) -> bool { return a.p != b.p; }
    friend auto operator<(RaIt a, RaIt b) -> bool { return a.p < b.p; }
    friend auto operator>(RaIt a, RaIt b) -> bool { return a.p > b.p; }
    friend auto operator<=(RaIt a, RaIt b) -> bool { return a.p <= b.p; }
    friend auto operator>=(RaIt a, RaIt b) -> bool { return a.p >= b.p; }
};
static_assert(etl::detail::RandomAccessIterator<RaIt<int>> and not etl::is_pointer_v<RaIt<int>>);
static_assert(etl::detail::RandomAccessIterator<etl::reverse_iterator<int const*>>);
static_assert(etl::detail::RandomAccessIterator<etl::array<int, 8>::reverse_iterator>);
static_assert(not etl::detail::RandomAccessIterator<FwdIt<int>>);

// ---- vector probes: initial content 1..k in a static_vector<int,4> / inplace_vector<int,4>
// element type with a non-trivial destructor (selects static_vector's non-trivial storage); bytes comparable
struct NT {
    int v = 0;
    NT() = default;
    NT(int x) : v{x} { }
    NT(NT const& o) : v{o.v} { }
    auto operator=(NT const& o) -> NT& { v = o.v; return *this; }
    ~NT() { v = v; }
    operator int() const { return v; }
};

// static_vector<int, 0> (zero-size storage) and static_vector<NT, 4> (non-trivial storage): the operations whose checks
// live in the storage classes
template <typename V, std::size_t Cap>
static void vec_storage_probe(Toks& in, Out& impl, Out& ref)
{
    auto k  = in.num();
    auto op = in.str();
    u64 n   = in.more() ? in.sz() : 0ULL;
    V v;
    if constexpr (Cap > 0) { for (int i = 1; i <= k; ++i) { v.push_back(i); } } else { k = 0; }
    u64 sz = static_cast<u64>(k);
    watch(impl, v, [&] {
        if (op == "pb") { v.push_back(9); }
        else if (op == "eb") { v.emplace_back(9); }
        else if (op == "pop") { v.pop_back(); }
        else if (op == "rsz") { v.resize(static_cast<std::size_t>(n)); }
        else if (op == "fr") { sink = static_cast<int>(v.front()); }
        else if (op == "bk") { sink = static_cast<int>(v.back()); }
        else if (op == "cbk") { sink = static_cast<int>(static_cast<V const&>(v).back()); }
        else if (op == "cfr") { sink = static_cast<int>(static_cast<V const&>(v).front()); }
        else if (op == "at") { sink = static_cast<int>(v[static_cast<std::size_t>(n)]); }
    });
    bool pre = true;
    if (op == "pb" || op == "eb") { pre = sz < Cap; }
    else if (op == "pop" || op == "fr" || op == "bk" || op == "cbk" || op == "cfr") { pre = sz >= 1; }
    else if (op == "rsz") { pre = n <= Cap; }
    else if (op == "at") { pre = n < sz; }
    doc(ref, pre);
}

static void vec_probe(Toks& in, Out& impl, Out& ref)
{
    auto k  = in.num();
    auto op = in.str();
    std::vector<long long> a;
    std::vector<u64> ua;
    while (in.more()) { auto save = in.i; a.push_back(in.num()); in.i = save; ua.push_back(in.sz()); }
    auto A = [&](std::size_t i) { return i < a.size() ? a[i] : 0; };
    etl::static_vector<int, 4> v;
    for (int i = 1; i <= k; ++i) { v.push_back(i); }
    int src[8] = {7, 7, 7, 7, 7, 7, 7, 7};
    etl::array<int, 8> srca{7, 7, 7, 7, 7, 7, 7, 7};
    using RevIt = etl::reverse_iterator<int const*>;
    // the n-element ranges of the sized iterator categories (|n| <= 8): array::rbegin()/rend(), reverse_iterator<T const*>,
    // a random access class; n < 0: last lies |n| elements BEFORE first (last - first == n)
    auto clamp8 = [](long long n) { return n < -8 ? -8LL : (n > 8 ? 8LL : n); };
    auto arevF  = [&](long long n) { n = clamp8(n); return n >= 0 ? srca.rend() - n : srca.rend(); };
    auto arevL  = [&](long long n) { n = clamp8(n); return n >= 0 ? srca.rend() : srca.rend() + n; };
    auto rev2F  = [&](long long n) { n = clamp8(n); return RevIt(n >= 0 ? src + n : src); };
    auto rev2L  = [&](long long n) { n = clamp8(n); return RevIt(n >= 0 ? src : src - n); };
    auto raF    = [&](long long n) { n = clamp8(n); return RaIt<int>{n >= 0 ? src : src - n}; };
    auto raL    = [&](long long n) { n = clamp8(n); return RaIt<int>{n >= 0 ? src + n : src}; };
    auto U     = [&](std::size_t i) { return i < ua.size() ? ua[i] : 0ULL; };
    u64 sz     = static_cast<u64>(k);
    u64 room   = 4 - sz;
    bool pre   = true;
    watch(impl, v, [&] {
        if (op == "pb") { v.push_back(9); }
        else if (op == "eb") { v.emplace_back(9); }
        else if (op == "pop") { v.pop_back(); }
        else if (op == "icr") { int c = 9; v.insert(v.begin() + A(0), c); }
        else if (op == "irv") { v.insert(v.begin() + A(0), 9); }
        else if (op == "emp") { v.emplace(v.begin() + A(0), 9); }
        else if (op == "inn") { int c = 9; v.insert(v.begin() + A(0), static_cast<std::size_t>(U(1)), c); }
        else if (op == "irg") { v.insert(v.begin() + A(0), src, src + A(1)); }
        // ranges given by forward-only iterators: no up-front length check is possible without walking the range, the
        // elements are appended until emplace_back's own check fires (the vector IS modified by then unless it was full)
        else if (op == "irg_fwd") { v.insert(v.begin() + A(0), FwdIt<int>{src}, FwdIt<int>{src + A(1)}); }
        else if (op == "asr_fwd") { v.assign(FwdIt<int>{src}, FwdIt<int>{src + A(0)}); }
        else if (op == "ctor_rg_fwd") { etl::static_vector<int, 4> w(FwdIt<int>{src}, FwdIt<int>{src + A(0)}); sink = static_cast<long long>(w.size()); }
        // sized ranges that are not pointer ranges (random access): the length is checked BEFORE the first element is
        // appended, exactly as for pointers — insert, move_insert, assign, the range constructor
        else if (op == "irg_rev") { v.insert(v.begin() + A(0), arevF(A(1)), arevL(A(1))); }
        else if (op == "irg_rev2") { v.insert(v.begin() + A(0), rev2F(A(1)), rev2L(A(1))); }
        else if (op == "irg_ra") { v.insert(v.begin() + A(0), raF(A(1)), raL(A(1))); }
        else if (op == "mins") { v.move_insert(v.begin() + A(0), src, src + A(1)); }
        else if (op == "mins_rev") { v.move_insert(v.begin() + A(0), arevF(A(1)), arevL(A(1))); }
        else if (op == "mins_ra") { v.move_insert(v.begin() + A(0), raF(A(1)), raL(A(1))); }
        else if (op == "mins_fwd") { v.move_insert(v.begin() + A(0), FwdIt<int>{src}, FwdIt<int>{src + (A(1) < 0 ? 0 : clamp8(A(1)))}); }
        else if (op == "asr_rev") { v.assign(arevF(A(0)), arevL(A(0))); }
        else if (op == "asr_rev2") { v.assign(rev2F(A(0)), rev2L(A(0))); }
        else if (op == "asr_ra") { v.assign(raF(A(0)), raL(A(0))); }
        else if (op == "ctor_rg_rev") { etl::static_vector<int, 4> w(arevF(A(0)), arevL(A(0))); sink = static_cast<long long>(w.size()); }
        else if (op == "ctor_rg_ra") { etl::static_vector<int, 4> w(raF(A(0)), raL(A(0))); sink = static_cast<long long>(w.size()); }
        // static_vector(c_array<T, Size>&&) (Size <= Capacity is a compile-time requirement): move_insert of Size elements,
        // must never fire
        else if (op == "ctor_carr") {
            if (A(0) == 1) { int c[1] = {7}; etl::static_vector<int, 4> w(etl::move(c)); sink = static_cast<long long>(w.size()); }
            else { int c[4] = {7, 7, 7, 7}; etl::static_vector<int, 4> w(etl::move(c)); sink = static_cast<long long>(w.size()); }
        }
        else if (op == "era") { v.erase(v.begin() + A(0)); }
        else if (op == "err") { v.erase(v.begin() + A(0), v.begin() + A(1)); }
        else if (op == "rsz") { v.resize(static_cast<std::size_t>(U(0))); }
        else if (op == "rsv") { v.resize(static_cast<std::size_t>(U(0)), 9); }
        else if (op == "asn") { v.assign(static_cast<std::size_t>(U(0)), 9); }
        else if (op == "asr") { v.assign(src, src + A(0)); }
        else if (op == "at") { sink = v[static_cast<std::size_t>(U(0))]; }
        else if (op == "cat") { sink = static_cast<etl::static_vector<int, 4> const&>(v)[static_cast<std::size_t>(U(0))]; }
        else if (op == "fr") { sink = v.front(); }
        else if (op == "bk") { sink = v.back(); }
        else if (op == "cbk") { sink = static_cast<etl::static_vector<int, 4> const&>(v).back(); }
        else if (op == "cfr") { sink = static_cast<etl::static_vector<int, 4> const&>(v).front(); }
        else if (op == "ctor_n") { etl::static_vector<int, 4> w(static_cast<std::size_t>(U(0))); sink = static_cast<long long>(w.size()); }
        else if (op == "ctor_nv") { etl::static_vector<int, 4> w(static_cast<std::size_t>(U(0)), 3); sink = static_cast<long long>(w.size()); }
        else if (op == "ctor_rg") { etl::static_vector<int, 4> w(src, src + A(0)); sink = static_cast<long long>(w.size()); }
    });
    auto pos_ok = [&](long long p) { return p >= 0 && static_cast<u64>(p) <= sz; };
    if (op == "pb" || op == "eb") { pre = room >= 1; }
    else if (op == "pop" || op == "fr" || op == "bk" || op == "cbk" || op == "cfr") { pre = sz >= 1; }
    else if (op == "icr" || op == "irv" || op == "emp") { pre = pos_ok(A(0)) && room >= 1; }
    else if (op == "inn") { pre = pos_ok(A(0)) && U(1) <= room; }
    else if (op == "irg" || op == "mins") { pre = pos_ok(A(0)) && A(1) >= 0 && static_cast<u64>(A(1)) <= room; }
    else if (op == "irg_rev" || op == "irg_rev2" || op == "irg_ra" || op == "mins_rev" || op == "mins_ra") {
        pre = pos_ok(A(0)) && A(1) >= 0 && static_cast<u64>(clamp8(A(1))) <= room;
    }
    else if (op == "asr_rev" || op == "asr_rev2" || op == "asr_ra" || op == "ctor_rg_rev" || op == "ctor_rg_ra") { pre = A(0) >= 0 && clamp8(A(0)) <= 4; }
    else if (op == "era") { pre = A(0) >= 0 && static_cast<u64>(A(0)) < sz; }
    else if (op == "err") { pre = A(0) >= 0 && A(0) <= A(1) && static_cast<u64>(A(1)) <= sz; }
    else if (op == "rsz" || op == "rsv" || op == "asn" || op == "ctor_n" || op == "ctor_nv") { pre = U(0) <= 4; }
    else if (op == "asr" || op == "ctor_rg") { pre = A(0) >= 0 && A(0) <= 4; }
    else if (op == "at" || op == "cat") { pre = U(0) < sz; }
    if (op == "irg_fwd" || op == "mins_fwd") {
        bool const fits = static_cast<u64>(A(1)) <= room;
        ref.tok(pos_ok(A(0)) && fits ? "ok" : ((!pos_ok(A(0)) || room == 0) ? "contract 1" : "contract 0"));
        return;
    }
    if (op == "asr_fwd") { ref.tok(A(0) <= 4 ? "ok" : "contract 0"); return; }
    if (op == "ctor_rg_fwd") { pre = A(0) <= 4; }
    doc(ref, pre);
}

template <std::size_t N>
static void ivec_probe_n(long long k, std::string const& op, u64 arg, Out& impl)
{
    etl::inplace_vector<int, N> v{};
    for (int i = 1; i <= k; ++i) { (void)v.try_push_back(i); }
    watch(impl, v, [&] {
        if (op == "upb") { v.unchecked_push_back(9); }
        else if (op == "ueb") { v.unchecked_emplace_back(9); }
        else if (op == "pop") { v.pop_back(); }
        else if (op == "at") { sink = v[static_cast<std::size_t>(arg)]; }
        else if (op == "cat") { sink = static_cast<etl::inplace_vector<int, N> const&>(v)[static_cast<std::size_t>(arg)]; }
        else if (op == "fr") { sink = v.front(); }
        else if (op == "bk") { sink = v.back(); }
        else if (op == "cfr") { sink = static_cast<etl::inplace_vector<int, N> const&>(v).front(); }
        else if (op == "cbk") { sink = static_cast<etl::inplace_vector<int, N> const&>(v).back(); }
        else if (op == "upbc") { int const c = 9; v.unchecked_push_back(c); }
        else if (op == "tpb") { sink = v.try_push_back(9) != nullptr; }
    });
}


// ---- inplace_string probes: inplace_string<Cap> holding the first k characters of "abcdefghijklmnopqrst";
//      sources are prefixes of SRC.  Numeric arguments are size_t values (negative = two's complement).
static char const SRC[] = "uvwxyz0123456789ABCDEFGHIJ";   // 26 characters
static constexpr u64 SRCLEN = 26;

template <std::size_t Cap, typename C>
static bool str_probe_n(long long k, std::string const& op, std::vector<u64> const& a, Out& impl, Out& ref)
{
    using S  = etl::basic_inplace_string<C, Cap>;
    using SV = etl::basic_string_view<C>;
    static C init[21];
    static C SRCC[27];
    for (int i = 0; i < 21; ++i) { init[i] = static_cast<C>("abcdefghijklmnopqrst"[i]); }
    for (int i = 0; i < 27; ++i) { SRCC[i] = static_cast<C>(SRC[i]); }
    S s(init, static_cast<std::size_t>(k));
    u64 const size = static_cast<u64>(k);
    u64 const cap  = Cap;
    auto A = [&](std::size_t i) -> u64 { return i < a.size() ? a[i] : 0ULL; };
    auto Z = [&](std::size_t i) -> std::size_t { return static_cast<std::size_t>(A(i)); };
    auto minu = [](u64 x, u64 y) { return x < y ? x : y; };
    // a C string holding the first n characters of SRC
    C cbuf[32] = {};
    auto cstr = [&](u64 n) -> C const* { for (u64 i = 0; i < minu(n, SRCLEN); ++i) { cbuf[i] = SRCC[i]; } cbuf[minu(n, SRCLEN)] = C(0); return cbuf; };
    bool pre = true;
    bool known = true;
    auto run = [&](auto&& f) { watch(impl, s, f); };
    if (op == "ctor_ptr") { watch_ctor<S>(impl, [&](void* at) { auto* t = new (at) S(SRCC, Z(0)); sink = static_cast<long long>(t->size()); }); pre = A(0) <= cap; }
    else if (op == "ctor_fill") { watch_ctor<S>(impl, [&](void* at) { auto* t = new (at) S(Z(0), C('z')); sink = static_cast<long long>(t->size()); }); pre = A(0) <= cap; }
    else if (op == "asg_cstr") { auto const* c = cstr(A(0)); run([&] { s = c; }); pre = A(0) <= cap; }
    else if (op == "asg_fill") { run([&] { s.assign(Z(0), C('z')); }); pre = A(0) <= cap; }
    else if (op == "asg_ptr") { run([&] { s.assign(SRCC, Z(0)); }); pre = A(0) <= cap; }
    else if (op == "asg_view_sub") { SV v(SRCC, Z(0)); run([&] { s.assign(v, Z(1), Z(2)); }); pre = A(1) <= A(0) && minu(A(2), A(0) - A(1)) <= cap; }
    // the range / view / C-string constructors and assignments (0c6dc7f: the range constructor appends with append(first, last))
    else if (op == "ctor_cstr") { auto const* c = cstr(A(0)); watch_ctor<S>(impl, [&](void* at) { auto* t = new (at) S(c); sink = static_cast<long long>(t->size()); }); pre = minu(A(0), SRCLEN) <= cap; }
    else if (op == "ctor_rng") { watch_ctor<S>(impl, [&](void* at) { auto* t = new (at) S(SRCC, SRCC + A(0)); sink = static_cast<long long>(t->size()); }); pre = A(0) <= cap; }
    else if (op == "ctor_rng_rev") { watch_ctor<S>(impl, [&](void* at) { auto* t = new (at) S(SRCC + A(0), SRCC); sink = static_cast<long long>(t->size()); }); pre = A(0) == 0; }
    else if (op == "ctor_rev") {
        using R = etl::reverse_iterator<C const*>;
        watch_ctor<S>(impl, [&](void* at) { auto* t = new (at) S(R(SRCC + A(0)), R(SRCC)); sink = static_cast<long long>(t->size()); }); pre = A(0) <= cap;
    }
    else if (op == "ctor_ra") { watch_ctor<S>(impl, [&](void* at) { auto* t = new (at) S(RaIt<C>{SRCC}, RaIt<C>{SRCC + A(0)}); sink = static_cast<long long>(t->size()); }); pre = A(0) <= cap; }
    else if (op == "ctor_fwd") { watch_ctor<S>(impl, [&](void* at) { auto* t = new (at) S(FwdIt<C>{SRCC}, FwdIt<C>{SRCC + A(0)}); sink = static_cast<long long>(t->size()); }); pre = A(0) <= cap; }
    else if (op == "ctor_view") { SV v(SRCC, Z(0)); watch_ctor<S>(impl, [&](void* at) { auto* t = new (at) S(v); sink = static_cast<long long>(t->size()); }); pre = A(0) <= cap; }
    else if (op == "ctor_view_sub") {
        SV v(SRCC, Z(0)); watch_ctor<S>(impl, [&](void* at) { auto* t = new (at) S(v, Z(1), Z(2)); sink = static_cast<long long>(t->size()); });
        pre = A(1) <= A(0) && minu(A(2), A(0) - A(1)) <= cap;
    }
    // (str, pos[, count]): [string.cons] / [string.assign] / [string.append] pos <= str.size() (std throws out_of_range; the
    // library goes through its own substr, which returns an empty string: KF-C05-string-substr-pos-unchecked)
    else if (op == "ctor_str_sub") { S o(SRCC, Z(0)); watch_ctor<S>(impl, [&](void* at) { auto* t = new (at) S(o, Z(1), Z(2)); sink = static_cast<long long>(t->size()); }); pre = A(1) <= A(0); }
    else if (op == "ctor_str_pos") { S o(SRCC, Z(0)); watch_ctor<S>(impl, [&](void* at) { auto* t = new (at) S(o, Z(1)); sink = static_cast<long long>(t->size()); }); pre = A(1) <= A(0); }
    else if (op == "asg_cstr2") { auto const* c = cstr(A(0)); run([&] { s.assign(c); }); pre = minu(A(0), SRCLEN) <= cap; }
    else if (op == "asg_rng") { run([&] { s.assign(SRCC, SRCC + A(0)); }); pre = A(0) <= cap; }
    else if (op == "asg_rng_rev") { run([&] { s.assign(SRCC + A(0), SRCC); }); pre = A(0) == 0; }
    else if (op == "asg_rev") { using R = etl::reverse_iterator<C const*>; run([&] { s.assign(R(SRCC + A(0)), R(SRCC)); }); pre = A(0) <= cap; }
    else if (op == "asg_ra") { run([&] { s.assign(RaIt<C>{SRCC}, RaIt<C>{SRCC + A(0)}); }); pre = A(0) <= cap; }
    else if (op == "asg_fwd") { run([&] { s.assign(FwdIt<C>{SRCC}, FwdIt<C>{SRCC + A(0)}); }); pre = A(0) <= cap; }
    else if (op == "asg_view") { SV v(SRCC, Z(0)); run([&] { s.assign(v); }); pre = A(0) <= cap; }
    else if (op == "opeq_view") { SV v(SRCC, Z(0)); run([&] { s = v; }); pre = A(0) <= cap; }
    else if (op == "opeq_ch") { run([&] { s = C('z'); }); pre = 1 <= cap; }
    else if (op == "asg_str_sub") { S o(SRCC, Z(0)); run([&] { s.assign(o, Z(1), Z(2)); }); pre = A(1) <= A(0); }
    // append(first, last) with iterators that are not pointers: reverse_iterator (random access: checked up front) and a
    // forward-only iterator (no up-front check: characters are appended until push_back's own precondition fires, so
    // the string IS modified when the handler runs unless it was already full — documented at append(first, last))
    else if (op == "app_rev") { using R = etl::reverse_iterator<C const*>; run([&] { s.append(R(SRCC + A(0)), R(SRCC)); }); pre = size + A(0) <= cap; }
    else if (op == "app_ra") { run([&] { s.append(RaIt<C>{SRCC}, RaIt<C>{SRCC + A(0)}); }); pre = size + A(0) <= cap; }
    else if (op == "app_fwd") {
        run([&] { s.append(FwdIt<C>{SRCC}, FwdIt<C>{SRCC + A(0)}); });
        if (known) { ref.tok(size + A(0) <= cap ? "ok" : (size == cap ? "contract 1" : "contract 0")); }
        return true;
    }
    // operator+ (same capacity): a copy of the left operand, then append(rhs) -> append(first, last); other capacity /
    // C string / character: the clamping overloads, never fire
    else if (op == "plus_str") { S o(SRCC, Z(0)); run([&] { sink = static_cast<long long>((s + o).size()); }); pre = size + A(0) <= cap; }
    else if (op == "plus_cstr") { auto const* c = cstr(A(0)); run([&] { sink = static_cast<long long>((s + c).size()); }); }
    else if (op == "plus_ch") { run([&] { sink = static_cast<long long>((s + C('z')).size()); }); }
    else if (op == "app_view") { SV v(SRCC, Z(0)); run([&] { s.append(v); }); }
    else if (op == "app_cstr") { auto const* c = cstr(A(0)); run([&] { s.append(c); }); }
    else if (op == "pluseq_ch") { run([&] { s += C('z'); }); }
    else if (op == "resize1") { run([&] { s.resize(Z(0)); }); }
    else if (op == "copy") { C dest[32]; run([&] { sink = static_cast<long long>(s.copy(dest, Z(0) > 26 ? 26 : Z(0), Z(1))); }); }
    else if (op == "front") { run([&] { sink = s.front(); }); pre = size > 0; }
    else if (op == "cfront") { run([&] { sink = static_cast<S const&>(s).front(); }); pre = size > 0; }
    else if (op == "back") { run([&] { sink = s.back(); }); pre = size > 0; }
    else if (op == "cback") { run([&] { sink = static_cast<S const&>(s).back(); }); pre = size > 0; }
    else if (op == "idx") { run([&] { sink = s[Z(0)]; }); pre = A(0) <= size; }
    else if (op == "cidx") { run([&] { sink = static_cast<S const&>(s)[Z(0)]; }); pre = A(0) <= size; }
    else if (op == "era_it") {
        // erase(first, last) with first = begin() + a0, last = first + a1 (a1 may be negative: last before first)
        auto const d = static_cast<long long>(A(1));
        run([&] { s.erase(s.cbegin() + static_cast<long long>(A(0)), s.cbegin() + static_cast<long long>(A(0)) + d); });
        pre = A(0) <= size && d >= 0 && static_cast<u64>(d) <= size - A(0);
    }
    // iterator-based replace overloads: first = begin() + a0, last = first + a1 (either may be negative), a2 = source length / count
    else if (op == "rep_it" || op == "rep_it_ptr" || op == "rep_it_cstr" || op == "rep_it_fill") {
        auto const a0 = static_cast<long long>(A(0)); auto const d = static_cast<long long>(A(1));
        if (op == "rep_it") { S o(SRCC, Z(2)); run([&] { s.replace(s.cbegin() + a0, s.cbegin() + a0 + d, o); }); }
        else if (op == "rep_it_ptr") { run([&] { s.replace(s.cbegin() + a0, s.cbegin() + a0 + d, SRCC, Z(2)); }); }
        else if (op == "rep_it_cstr") { auto const* c = cstr(A(2)); run([&] { s.replace(s.cbegin() + a0, s.cbegin() + a0 + d, c); }); }
        else { run([&] { s.replace(s.cbegin() + a0, s.cbegin() + a0 + d, Z(2), C('z')); }); }
        pre = a0 >= 0 && static_cast<u64>(a0) <= size && d >= 0 && static_cast<u64>(d) <= size - static_cast<u64>(a0);
    }
    else if (op == "era_pos") { run([&] { s.erase(s.cbegin() + static_cast<long long>(A(0))); }); pre = A(0) < size; }
    else if (op == "era") { run([&] { s.erase(Z(0), Z(1)); }); pre = A(0) <= size; }
    else if (op == "pb") { run([&] { s.push_back(C('z')); }); pre = size < cap; }
    else if (op == "pop") { run([&] { s.pop_back(); }); pre = size > 0; }
    else if (op == "ins_fill") { run([&] { s.insert(Z(0), Z(1), C('z')); }); pre = A(0) <= size; }
    else if (op == "ins_cstr") { auto const* c = cstr(A(1)); run([&] { s.insert(Z(0), c); }); pre = A(0) <= size; }
    else if (op == "ins_ptr") { run([&] { s.insert(Z(0), SRCC, Z(1)); }); pre = A(0) <= size; }
    else if (op == "ins_str") { S o(SRCC, Z(1)); run([&] { s.insert(Z(0), o); }); pre = A(0) <= size; }
    else if (op == "ins_str_sub") { S o(SRCC, Z(1)); run([&] { s.insert(Z(0), o, Z(2), Z(3)); }); pre = A(0) <= size && A(2) <= A(1); }
    else if (op == "ins_view") { SV v(SRCC, Z(1)); run([&] { s.insert(Z(0), v); }); pre = A(0) <= size; }
    else if (op == "ins_view_sub") { SV v(SRCC, Z(1)); run([&] { s.insert(Z(0), v, Z(2), Z(3)); }); pre = A(0) <= size && A(2) <= A(1); }
    else if (op == "rep") { S o(SRCC, Z(2)); run([&] { s.replace(Z(0), Z(1), o); }); pre = A(0) <= size; }
    else if (op == "rep5") { S o(SRCC, Z(2)); run([&] { s.replace(Z(0), Z(1), o, Z(3), Z(4)); }); pre = A(0) <= size && A(3) <= A(2); }
    else if (op == "rep_ptr") { run([&] { s.replace(Z(0), Z(1), SRCC, Z(2)); }); pre = A(0) <= size; }
    else if (op == "rep_cstr") { auto const* c = cstr(A(2)); run([&] { s.replace(Z(0), Z(1), c); }); pre = A(0) <= size; }
    else if (op == "app_view_sub") { SV v(SRCC, Z(0)); run([&] { s.append(v, Z(1), Z(2)); }); pre = A(1) <= A(0); }
    else if (op == "app_str") { S o(SRCC, Z(0)); run([&] { s.append(o); }); pre = size + A(0) <= cap; }
    else if (op == "app_str_sub") {
        S o(SRCC, Z(0)); run([&] { s.append(o, Z(1), Z(2)); });
        pre = A(1) <= A(0) && size + minu(A(2), A(0) - A(1)) <= cap;
    }
    else if (op == "app_rng") { run([&] { s.append(SRCC, SRCC + A(0)); }); pre = size + A(0) <= cap; }
    else if (op == "app_rng_rev") { run([&] { s.append(SRCC + A(0), SRCC); }); pre = A(0) == 0; }
    else if (op == "pluseq_str") { S o(SRCC, Z(0)); run([&] { s += o; }); pre = size + A(0) <= cap; }
    // operations without a precondition (they clamp): the handler must stay silent for EVERY argument
    else if (op == "app_fill") { run([&] { s.append(Z(0), C('z')); }); }
    else if (op == "app_ptr") { run([&] { s.append(SRCC, Z(0)); }); }
    else if (op == "resize") { run([&] { s.resize(Z(0), C('z')); }); }
    else if (op == "substr") { run([&] { sink = static_cast<long long>(s.substr(Z(0), Z(1)).size()); }); }
    else if (op == "clear") { run([&] { s.clear(); }); }
    else { known = false; }
    if (known) { doc(ref, pre); }
    return known;
}

static bool str_probe(Toks& in, Out& impl, Out& ref)
{
    auto cap = in.num(); auto k = in.num(); auto op = in.str();
    std::vector<u64> a;
    while (in.more()) { a.push_back(in.sz()); }
    if (cap == 4) { return str_probe_n<4, char>(k, op, a, impl, ref); }
    if (cap == 15) { return str_probe_n<15, char>(k, op, a, impl, ref); }
    if (cap == 16) { return str_probe_n<16, char>(k, op, a, impl, ref); }
    return str_probe_n<20, char>(k, op, a, impl, ref);
}

static bool u16str_probe(Toks& in, Out& impl, Out& ref)
{
    auto cap = in.num(); auto k = in.num(); auto op = in.str();
    std::vector<u64> a;
    while (in.more()) { a.push_back(in.sz()); }
    if (cap == 15) { return str_probe_n<15, char16_t>(k, op, a, impl, ref); }
    return str_probe_n<16, char16_t>(k, op, a, impl, ref);
}

static bool wstr_probe(Toks& in, Out& impl, Out& ref)
{
    auto cap = in.num(); auto k = in.num(); auto op = in.str();
    std::vector<u64> a;
    while (in.more()) { a.push_back(in.sz()); }
    if (cap == 15) { return str_probe_n<15, wchar_t>(k, op, a, impl, ref); }
    return str_probe_n<16, wchar_t>(k, op, a, impl, ref);
}

// ---- the remaining components
static bool more_probe(std::string const& op, Toks& in, Out& impl, Out& ref)
{
    if (op == "sset") {
        // static_set<int, 4>(first, first + d) over pointers; d may be negative
        auto d = in.num();
        static int const vals[12] = {5, 3, 9, 1, 7, 2, 8, 4, 6, 0, 11, 10};
        int const* first = vals + 4;
        watch_none(impl, [&] { etl::static_set<int, 4> st(first, first + d); sink = static_cast<long long>(st.size()); });
        doc(ref, d >= 0 && d <= 4);
        return true;
    }
    if (op == "sset_dup") {
        // a range of d elements that holds only two distinct keys: the distinct elements always fit, but the constructor
        // checks the LENGTH of a random access range against max_size() (conservative; the header documents no
        // precondition, std::set accepts any valid range) — pinned as it is, no reference / spec answer beyond max_size()
        auto d = in.num();
        static int const dup[12] = {5, 3, 5, 3, 5, 3, 5, 3, 5, 3, 5, 3};
        watch_none(impl, [&] { etl::static_set<int, 4> st(dup, dup + d); sink = static_cast<long long>(st.size()); });
        if (d >= 0 && d <= 4) { doc(ref, true); } else { ref.tok("na"); }
        return true;
    }
    if (op == "cpy") {
        auto which = in.str(); auto dnull = in.num() != 0; auto snull = in.num() != 0;
        char dbuf[8] = "xy"; char sbuf[8] = "ab"; wchar_t wd[8] = L"xy"; wchar_t ws[8] = L"ab";
        watch_none(impl, [&] {
            if (which == "strncpy") { sink = etl::strncpy(dnull ? nullptr : dbuf, snull ? nullptr : sbuf, 2) != nullptr; }
            else if (which == "wcscpy") { sink = etl::wcscpy(dnull ? nullptr : wd, snull ? nullptr : ws) != nullptr; }
            else { sink = etl::wcsncpy(dnull ? nullptr : wd, snull ? nullptr : ws, 2) != nullptr; }
        });
        doc(ref, !dnull && !snull);
        return true;
    }
    if (op == "linalg") {
        // operands are mdspans with dynamic extents over one shared buffer; extents given per operand
        auto which = in.str();
        float bx[64] = {}; float by[64] = {}; float bz[64] = {};
        using e1 = etl::dextents<int, 1>; using e2 = etl::dextents<int, 2>;
        if (which == "add1" || which == "copy1" || which == "swap1") {
            auto nx = static_cast<int>(in.num()); auto ny = static_cast<int>(in.num()); auto nz = static_cast<int>(in.num());
            etl::mdspan<float, e1> x(bx, nx); etl::mdspan<float, e1> y(by, ny); etl::mdspan<float, e1> z(bz, nz);
            watch_none(impl, [&] {
                if (which == "add1") { etl::linalg::add(x, y, z); } else if (which == "copy1") { etl::linalg::copy(x, y); } else { etl::linalg::swap_elements(x, y); }
            });
            doc(ref, which == "add1" ? (nx == ny && nx == nz) : nx == ny);
            return true;
        }
        if (which == "add2" || which == "copy2" || which == "swap2") {
            int e[6]; for (int& v : e) { v = static_cast<int>(in.num()); }
            etl::mdspan<float, e2> x(bx, e[0], e[1]); etl::mdspan<float, e2> y(by, e[2], e[3]); etl::mdspan<float, e2> z(bz, e[4], e[5]);
            watch_none(impl, [&] {
                if (which == "add2") { etl::linalg::add(x, y, z); } else if (which == "copy2") { etl::linalg::copy(x, y); } else { etl::linalg::swap_elements(x, y); }
            });
            bool xy = e[0] == e[2] && e[1] == e[3]; bool xz = e[0] == e[4] && e[1] == e[5];
            doc(ref, which == "add2" ? (xy && xz) : xy);
            return true;
        }
        if (which == "copy1m" || which == "copy1s") {
            // mixed index types (int / unsigned long: extents are compared with cmp_not_equal) and a static extent 3
            // against a dynamic one
            auto nx = static_cast<int>(in.num()); auto ny = in.sz();
            if (which == "copy1m") {
                etl::mdspan<float, e1> x(bx, nx); etl::mdspan<float, etl::dextents<unsigned long, 1>> y(by, static_cast<unsigned long>(ny));
                watch_none(impl, [&] { etl::linalg::copy(x, y); });
                doc(ref, static_cast<u64>(nx) == ny);
            } else {
                etl::mdspan<float, etl::extents<int, 3>> x(bx); etl::mdspan<float, e1> y(by, static_cast<int>(ny));
                watch_none(impl, [&] { etl::linalg::copy(x, y); });
                doc(ref, ny == 3);
            }
            return true;
        }
        if (which == "mvp") {
            auto a0 = static_cast<int>(in.num()); auto a1 = static_cast<int>(in.num()); auto x0 = static_cast<int>(in.num()); auto y0 = static_cast<int>(in.num());
            etl::mdspan<float, e2> am(bx, a0, a1); etl::mdspan<float, e1> x(by, x0); etl::mdspan<float, e1> y(bz, y0);
            watch_none(impl, [&] { etl::linalg::matrix_vector_product(am, x, y); });
            doc(ref, a1 == x0 && a0 == y0);
            return true;
        }
        return false;
    }
    if (op == "sstride") {
        auto r = static_cast<std::size_t>(in.sz());
        using ext = etl::extents<int, 2, 3>;
        watch_none(impl, [&] { etl::layout_stride::mapping<ext> m{}; sink = m.stride(r); });
        doc(ref, r < 2);
        return true;
    }
    if (op == "bsstr" || op == "bsstr2" || op == "bscstr") {
        // bsstr:  bitset<8>(string_view of the given characters, pos, n)            (zero = '0', one = '1')
        // bsstr2: bitset<2>(wstring_view of the given characters, pos, n, L'0', L'2'): more characters than bits (ALL of
        //         the min(n, size - pos) characters are checked, not only the 2 that are used), other zero / one, wide
        // bscstr: bitset<8>(char const*, n): the C-string overload (n == npos: up to the terminator, else n characters)
        auto chars = in.list(); auto pos = in.sz(); auto n = in.sz();
        std::string text; for (auto c : chars) { text.push_back(static_cast<char>(c)); }
        std::wstring wtext(text.begin(), text.end());
        char one = op == "bsstr2" ? '2' : '1';
        if (op == "bscstr") {
            if (pos != 0 || (n != ~0ULL && n > text.size())) { return false; }
            watch_none(impl, [&] { etl::bitset<8> b(text.c_str(), static_cast<std::size_t>(n)); sink = static_cast<long long>(b.count()); });
        } else if (op == "bsstr2") {
            etl::wstring_view v(wtext.data(), wtext.size());
            watch_none(impl, [&] { etl::bitset<2> b(v, static_cast<std::size_t>(pos), static_cast<std::size_t>(n), L'0', L'2'); sink = static_cast<long long>(b.count()); });
        } else {
            etl::string_view v(text.data(), text.size());
            watch_none(impl, [&] { etl::bitset<8> b(v, static_cast<std::size_t>(pos), static_cast<std::size_t>(n)); sink = static_cast<long long>(b.count()); });
        }
        bool pre = pos <= text.size();
        if (pre) {
            u64 rlen = n < text.size() - pos ? n : text.size() - pos;
            for (u64 i = 0; i < rlen; ++i) { char c = text[static_cast<std::size_t>(pos + i)]; if (c != '0' && c != one) { pre = false; } }
        }
        doc(ref, pre);
        return true;
    }
    if (op == "tostr") {
        // to_string<Cap>(value): all six overloads (int, long, long long, unsigned, unsigned long = "ul", unsigned long long = "ulong")
        auto cap = in.num(); auto ty = in.str(); auto v = in.sz();
        auto digits = [](unsigned long long m) { int d = 1; while (m >= 10) { m /= 10; ++d; } return d; };
        auto call = [&](auto x) {
            if (cap == 0) { sink = static_cast<long long>(etl::to_string<0>(x).size()); } else if (cap == 1) { sink = static_cast<long long>(etl::to_string<1>(x).size()); }
            else if (cap == 3) { sink = static_cast<long long>(etl::to_string<3>(x).size()); } else if (cap == 10) { sink = static_cast<long long>(etl::to_string<10>(x).size()); }
            else if (cap == 19) { sink = static_cast<long long>(etl::to_string<19>(x).size()); }
            else { sink = static_cast<long long>(etl::to_string<20>(x).size()); }
        };
        watch_none(impl, [&] {
            if (ty == "int") { call(static_cast<int>(v)); }
            else if (ty == "long") { call(static_cast<long>(v)); }
            else if (ty == "llong") { call(static_cast<long long>(v)); }
            else if (ty == "ul") { call(static_cast<unsigned long>(v)); }
            else if (ty == "uint") { call(static_cast<unsigned>(v)); }
            else { call(static_cast<unsigned long long>(v)); }
        });
        bool neg = false; unsigned long long mag = v;
        if (ty == "int") { auto x = static_cast<long long>(static_cast<int>(v)); neg = x < 0; mag = neg ? 0ULL - static_cast<unsigned long long>(x) : static_cast<unsigned long long>(x); }
        else if (ty == "long" || ty == "llong") { auto x = static_cast<long long>(v); neg = x < 0; mag = neg ? 0ULL - static_cast<unsigned long long>(x) : static_cast<unsigned long long>(x); }
        else if (ty == "uint") { mag = static_cast<unsigned>(v); }
        int len = digits(mag) + (neg ? 1 : 0);
        doc(ref, len <= cap);
        return true;
    }
    if (op == "exparrow") {
        // expected::operator->: no check in the header; std::expected requires has_value()
        auto hasv = in.num() != 0; auto o = in.str();
        etl::expected<int, long> e = hasv ? etl::expected<int, long>(etl::in_place, 4) : etl::expected<int, long>(etl::unexpect, 7L);
        if (o == "arrow") { watch(impl, e, [&] { sink = e.operator->() != nullptr; }); }
        else { watch(impl, e, [&] { sink = static_cast<etl::expected<int, long> const&>(e).operator->() != nullptr; }); }
        doc(ref, hasv);
        return true;
    }
    if (op == "arrfb") {
        // array<int, N>::front / back, N in {0, 3}; operator[] of array<int, 0> (executed only where it is checked)
        auto n = in.num(); auto o = in.str();
        etl::array<int, 0> a0{}; etl::array<int, 3> a3{1, 2, 3};
        if (n == 0) {
            if (o == "idx" || o == "cidx") {
#if defined(TETL_ENABLE_CONTRACT_CHECKS_SAFE)
                if (o == "idx") { watch(impl, a0, [&] { sink = a0[0]; }); } else { watch(impl, a0, [&] { sink = static_cast<etl::array<int, 0> const&>(a0)[0]; }); }
#else
                impl.tok("skip");   // not executed: etl::unreachable() without the SAFE check (see KF-C05-array-index-only-checked-in-safe-mode)
                ref.tok("na");
                return true;
#endif
            }
            else if (o == "front") { watch(impl, a0, [&] { sink = a0.front(); }); }
            else if (o == "cfront") { watch(impl, a0, [&] { sink = static_cast<etl::array<int, 0> const&>(a0).front(); }); }
            else if (o == "back") { watch(impl, a0, [&] { sink = a0.back(); }); }
            else { watch(impl, a0, [&] { sink = static_cast<etl::array<int, 0> const&>(a0).back(); }); }
            doc(ref, false);
        } else {
            if (o == "front") { watch(impl, a3, [&] { sink = a3.front(); }); }
            else if (o == "cfront") { watch(impl, a3, [&] { sink = static_cast<etl::array<int, 3> const&>(a3).front(); }); }
            else if (o == "back") { watch(impl, a3, [&] { sink = a3.back(); }); }
            else if (o == "cback") { watch(impl, a3, [&] { sink = static_cast<etl::array<int, 3> const&>(a3).back(); }); }
            else { watch(impl, a3, [&] { sink = a3[0]; }); }
            doc(ref, true);
        }
        return true;
    }
    if (op == "fmt") {
        // detail::format_escaped_sequences(text, ctx): what format_to runs on every slice of text between arguments
        auto chars = in.list();
        std::string text; for (auto c : chars) { text.push_back(static_cast<char>(c)); }
        // (etl::format_to itself cannot be instantiated with a caller's iterator; the detail function is called with
        //  a minimal context whose out() is a raw buffer)
        struct Ctx { char* p; auto out() -> char* { return p; } };
        char outbuf[256];
        Ctx ctx{outbuf};
        watch_none(impl, [&] { etl::detail::format_escaped_sequences(etl::string_view(text.data(), text.size()), ctx); sink = outbuf[0]; });
        // documented form, as a regular expression: (plain "{{" inner "}}")* tail, tail = no '{' or its first '{' is not followed by '{'
        static std::regex const well_formed(R"((?:[^{]*\{\{[^}]*\}\})*(?:[^{]*|[^{]*\{(?:[^{][\s\S]*)?))");
        doc(ref, std::regex_match(text, well_formed));
        return true;
    }
    return false;
}

// ---- span: the compile-time forms first<Count>() / last<Count>() / subspan<Offset, Count>() on a span of dynamic
//      extent (fix b24e9dc: the same run-time checks as first(count) / last(count) / subspan(offset, count)) and the
//      run-time forms on a span of static extent
template <typename Span, std::size_t... Is>
static bool span_tfirst(Span s, u64 c, bool last, std::index_sequence<Is...>)
{
    return ((c == Is ? (sink = static_cast<long long>(last ? s.template last<Is>().size() : s.template first<Is>().size()), true) : false) || ...);
}
template <std::size_t Off, typename Span>
static bool span_tsub_c(Span s, u64 c)
{
    constexpr std::size_t dyn = etl::dynamic_extent;
    if (c == 0) { sink = static_cast<long long>(s.template subspan<Off, 0>().size()); return true; }
    if (c == 1) { sink = static_cast<long long>(s.template subspan<Off, 1>().size()); return true; }
    if (c == 2) { sink = static_cast<long long>(s.template subspan<Off, 2>().size()); return true; }
    if (c == 3) { sink = static_cast<long long>(s.template subspan<Off, 3>().size()); return true; }
    if (c == 4) { sink = static_cast<long long>(s.template subspan<Off, 4>().size()); return true; }
    if (c == dyn) { sink = static_cast<long long>(s.template subspan<Off, dyn>().size()); return true; }
    return false;
}
template <typename Span, std::size_t... Is>
static bool span_tsub(Span s, u64 off, u64 c, std::index_sequence<Is...>)
{
    return ((off == Is ? span_tsub_c<Is>(s, c) : false) || ...);
}

// ---- the macro selection of _contracts/check.hpp itself: `mode <checks 0/1> <safe 0/1> <sub-op> <arg>` is run only by the
//      build whose two macros are exactly (checks, safe); every other build prints `skip`. All sub-ops are harmless in
//      every build mode (nothing dangerous happens behind the check), so they also run in the build with NEITHER macro,
//      where nothing may fire.  Documented (CMakeLists.txt: TETL_BUILD_CONTRACT_CHECKS "contract assertions",
//      TETL_BUILD_CONTRACT_CHECKS_SAFE "all/slow contract assertions"): TETL_PRECONDITION is active iff either macro is
//      defined, TETL_PRECONDITION_SAFE iff TETL_ENABLE_CONTRACT_CHECKS_SAFE is defined — whatever else is defined.
static bool mode_probe(Toks& in, Out& impl, Out& ref)
{
    auto const c = in.num() != 0; auto const s = in.num() != 0; auto sub = in.str();
    if (c != kChecks || s != kSafe) { impl.tok("skip"); ref.tok("na"); return true; }
    bool const plain_active = c || s;
    bool const safe_active  = s;
    if (sub == "pre") { auto v = in.num(); watch_none(impl, [&] { sink = direct_precondition(v); }); doc(ref, !plain_active || v != 0); return true; }
    if (sub == "safe") { auto v = in.num(); watch_none(impl, [&] { sink = direct_precondition_safe(v); }); doc(ref, !safe_active || v != 0); return true; }
    if (sub == "arr" || sub == "carr") {
        // array<int, 3>::operator[] (TETL_PRECONDITION_SAFE) inside a larger object: indices < 8 stay inside memory we own
        auto i = in.sz();
        if (i >= 8) { return false; }
        struct Holder { etl::array<int, 3> a{1, 2, 3}; int pad[8]{}; } h;
        if (sub == "arr") { watch(impl, h.a, [&] { sink = h.a[static_cast<std::size_t>(i)]; }); }
        else { watch(impl, h.a, [&] { sink = static_cast<etl::array<int, 3> const&>(h.a)[static_cast<std::size_t>(i)]; }); }
        doc(ref, !safe_active || i < 3);
        return true;
    }
    if (sub == "day" || sub == "month") {
        // chrono::day{d} / month{d} (TETL_PRECONDITION; the value is narrowed behind the check, nothing else happens)
        auto d = static_cast<unsigned>(in.num());
        watch_none(impl, [&] { if (sub == "day") { sink = static_cast<unsigned>(etl::chrono::day{d}); } else { sink = static_cast<unsigned>(etl::chrono::month{d}); } });
        doc(ref, !plain_active || d <= 255U);
        return true;
    }
    return false;
}

bool vh::run_case(std::string const& op, Toks& in, Out& impl, Out& ref)
{
    // every probe names the check that fires (header + expression text)
    probe::with_expr = true;
    if (op == "mode") { return mode_probe(in, impl, ref); }
    // the build without any contract macro runs only the `mode` probes: every other probe passes violating arguments and
    // would have undefined behaviour without the checks
    if (!kChecks && !kSafe) { impl.tok("skip"); ref.tok("na"); return true; }
    if (op == "strpos") {   // see driver.ml: the (str, pos, count) overloads with pos > str.size(), KF-C05-string-substr-pos-unchecked
        auto flavour = in.str();
        if (flavour == "str") { return str_probe(in, impl, ref); }
        if (flavour == "wstr") { return wstr_probe(in, impl, ref); }
        if (flavour == "u16str") { return u16str_probe(in, impl, ref); }
        return false;
    }
    if (op == "str") { return str_probe(in, impl, ref); }
    if (op == "wstr") { return wstr_probe(in, impl, ref); }
    if (op == "u16str") { return u16str_probe(in, impl, ref); }
    if (op == "sset" || op == "sset_dup" || op == "cpy" || op == "linalg" || op == "sstride" || op == "bsstr" || op == "bsstr2" || op == "bscstr" || op == "tostr" || op == "fmt" || op == "exparrow" || op == "arrfb") { return more_probe(op, in, impl, ref); }
    if (op == "vec") { vec_probe(in, impl, ref); return true; }
    if (op == "vec0") { vec_storage_probe<etl::static_vector<int, 0>, 0>(in, impl, ref); return true; }
    if (op == "vecnt") { vec_storage_probe<etl::static_vector<NT, 4>, 4>(in, impl, ref); return true; }
    if (op == "ivec") {
        auto cap = in.num(); auto k = in.num(); auto o = in.str(); auto arg = in.sz();
        if (cap == 0) { ivec_probe_n<0>(0, o, arg, impl); k = 0; } else { ivec_probe_n<4>(k, o, arg, impl); }
        u64 sz = static_cast<u64>(k); u64 c = static_cast<u64>(cap);
        bool pre = true;
        if (o == "upb" || o == "ueb" || o == "upbc") { pre = sz < c; }
        else if (o == "pop" || o == "fr" || o == "bk" || o == "cfr" || o == "cbk") { pre = sz >= 1; }
        else if (o == "at" || o == "cat") { pre = arg < sz; }
        doc(ref, pre);
        return true;
    }
    if (op == "span" || op == "sspan") {
        auto n = in.num(); auto o = in.str(); auto a = in.sz(); auto b = in.sz();
        // exact-size heap allocation: under ASan a read one past the n elements (before the check) is a report
        std::unique_ptr<int[]> heap(new int[static_cast<std::size_t>(n)]);
        int* data = heap.get();
        for (long long i = 0; i < n; ++i) { data[i] = 10 + static_cast<int>(i); }
        u64 sz = static_cast<u64>(n);
        bool known = true;
        auto probe_span = [&](auto s) {
            constexpr bool dynamic = decltype(s)::extent == etl::dynamic_extent;
            watch(impl, s, [&] {
                if (o == "front") { sink = s.front(); }
                else if (o == "back") { sink = s.back(); }
                else if (o == "idx") { sink = s[static_cast<std::size_t>(a)]; }
                else if (o == "first") { sink = static_cast<long long>(s.first(static_cast<std::size_t>(a)).size()); }
                else if (o == "last") { sink = static_cast<long long>(s.last(static_cast<std::size_t>(a)).size()); }
                else if (o == "tfirst" || o == "tlast") { if constexpr (dynamic) { known = span_tfirst(s, a, o == "tlast", std::make_index_sequence<7>{}); } else { known = false; } }
                else if (o == "tsub") { if constexpr (dynamic) { known = span_tsub(s, a, b, std::make_index_sequence<6>{}); } else { known = false; } }
                else { sink = static_cast<long long>(s.subspan(static_cast<std::size_t>(a), static_cast<std::size_t>(b)).size()); }
            });
        };
        if (op == "span") { probe_span(etl::span<int>(data, static_cast<std::size_t>(n))); }
        else if (n == 0) { probe_span(etl::span<int const, 0>(data, 0)); }     // span of static extent (size() is the template argument)
        else if (n == 3) { probe_span(etl::span<int const, 3>(data, 3)); }
        else { return false; }
        if (!known) { return false; }
        bool pre = true;
        if (o == "front" || o == "back") { pre = sz > 0; }
        else if (o == "idx") { pre = a < sz; }
        else if (o == "first" || o == "last" || o == "tfirst" || o == "tlast") { pre = a <= sz; }
        else { pre = a <= sz && (b == ~0ULL || static_cast<unsigned __int128>(a) + b <= sz); }
        doc(ref, pre);
        return true;
    }
    if (op == "spanctor") {
        // span<int, Extent>(pointer, count) / (sized contiguous range of count elements) / (span<int, dynamic_extent> of count
        // elements), Extent in {0, 3, dynamic_extent}: [span.cons] extent == dynamic_extent || count == extent
        auto ext = in.sz(); auto which = in.str(); auto count = in.sz();
        static int a[8] = {1, 2, 3, 4, 5, 6, 7, 8};
        etl::static_vector<int, 8> v;
        if (which == "rng") { if (count > 8) { return false; } for (u64 i = 0; i < count; ++i) { v.push_back(static_cast<int>(i)); } }
        etl::span<int> d(a, static_cast<std::size_t>(count));
        bool known = true;
        auto make = [&]<std::size_t E>() {
            if (which == "ptr") { etl::span<int, E> s(a, static_cast<std::size_t>(count)); sink = static_cast<long long>(s.size()); }
            else if (which == "rng") { etl::span<int const, E> s(v); sink = static_cast<long long>(s.size()); }
            else if (which == "dyn") { etl::span<int, E> s(static_cast<etl::span<int> const&>(d)); sink = static_cast<long long>(s.size()); }
            else if (which == "dynl") { etl::span<int, E> s(d); sink = static_cast<long long>(s.size()); }   // non-const lvalue span: the range constructor is the better match
            else { known = false; }
        };
        watch_none(impl, [&] {
            if (ext == 0) { make.template operator()<0>(); }
            else if (ext == 3) { make.template operator()<3>(); }
            else if (ext == ~0ULL) { make.template operator()<etl::dynamic_extent>(); }
            else { known = false; }
        });
        if (!known) { return false; }
        doc(ref, ext == ~0ULL || count == ext);
        return true;
    }
    if (op == "sv" || op == "wsv") {
        // string_view (char) and wstring_view (wchar_t: 4-byte elements)
        auto n = in.num(); auto o = in.str(); auto a = in.sz(); auto b = in.sz();
        u64 sz = static_cast<u64>(n);
        auto probe_sv = [&]<typename Ch>() {
            std::unique_ptr<Ch[]> heap(new Ch[static_cast<std::size_t>(n)]);   // exact size, no terminator (see span)
            Ch* text = heap.get();
            for (long long i = 0; i < n; ++i) { text[i] = static_cast<Ch>('a' + i); }
            etl::basic_string_view<Ch> s(text, static_cast<std::size_t>(n));
            Ch dest[16];
            watch(impl, s, [&] {
                if (o == "idx") { sink = s[static_cast<std::size_t>(a)]; }
                else if (o == "front") { sink = s.front(); }
                else if (o == "back") { sink = s.back(); }
                else if (o == "rmp") { s.remove_prefix(static_cast<std::size_t>(a)); }
                else if (o == "rms") { s.remove_suffix(static_cast<std::size_t>(a)); }
                else if (o == "copy") { sink = static_cast<long long>(s.copy(dest, static_cast<std::size_t>(a > 8 ? 8 : a), static_cast<std::size_t>(b))); }
                // compare(pos1, count1, v) = substr(pos1, count1).compare(v): substr's check is the one that fires
                else if (o == "cmp3") { sink = s.compare(static_cast<std::size_t>(a), static_cast<std::size_t>(b), s); }
                else { sink = static_cast<long long>(s.substr(static_cast<std::size_t>(a), static_cast<std::size_t>(b)).size()); }
            });
        };
        if (op == "sv") { probe_sv.template operator()<char>(); } else { probe_sv.template operator()<wchar_t>(); }
        bool pre = true;
        if (o == "idx") { pre = a < sz; }
        else if (o == "front" || o == "back") { pre = sz > 0; }
        else if (o == "rmp" || o == "rms") { pre = a <= sz; }
        else if (o == "copy") { pre = b <= sz; }
        else { pre = a <= sz; }
        doc(ref, pre);
        return true;
    }
    if (op == "opt") {
        auto engaged = in.num() != 0; auto o = in.str();
        etl::optional<int> x; if (engaged) { x = 5; }
        int target = 3;
        etl::optional<int&> r; if (engaged) { r = etl::optional<int&>(target); }
        if (o == "arrow" || o == "carrow" || o == "refarrow") {
            // documented as total: "The pointer is null if the optional is empty" — must never reach the handler
            if (o == "arrow") { watch(impl, x, [&] { sink = x.operator->() != nullptr; }); }
            else if (o == "carrow") { watch(impl, x, [&] { sink = static_cast<etl::optional<int> const&>(x).operator->() != nullptr; }); }
            else { watch(impl, r, [&] { sink = r.operator->() != nullptr; }); }
            doc(ref, true);
            return true;
        }
        if (o == "ref") { watch(impl, r, [&] { sink = *r; }); }
        else if (o == "cderef") { watch(impl, x, [&] { sink = *static_cast<etl::optional<int> const&>(x); }); }
        else if (o == "rderef") { watch(impl, x, [&] { sink = *etl::move(x); }); }
        else if (o == "crderef") { watch(impl, x, [&] { sink = *etl::move(static_cast<etl::optional<int> const&>(x)); }); }
        else { watch(impl, x, [&] { sink = *x; }); }
        doc(ref, engaged);
        return true;
    }
    if (op == "exp") {
        auto hasv = in.num() != 0; auto o = in.str();
        etl::expected<int, long> e = hasv ? etl::expected<int, long>(etl::in_place, 4) : etl::expected<int, long>(etl::unexpect, 7L);
        if (o == "deref") { watch(impl, e, [&] { sink = *e; }); doc(ref, hasv); }
        else if (o == "cderef") { watch(impl, e, [&] { sink = *static_cast<etl::expected<int, long> const&>(e); }); doc(ref, hasv); }
        else if (o == "rderef") { watch(impl, e, [&] { sink = *etl::move(e); }); doc(ref, hasv); }
        else if (o == "crderef") { watch(impl, e, [&] { sink = *etl::move(static_cast<etl::expected<int, long> const&>(e)); }); doc(ref, hasv); }
        else if (o == "rerror") { watch(impl, e, [&] { sink = etl::move(e).error(); }); doc(ref, !hasv); }
        else if (o == "crerror") { watch(impl, e, [&] { sink = etl::move(static_cast<etl::expected<int, long> const&>(e)).error(); }); doc(ref, !hasv); }
        else if (o == "error") { watch(impl, e, [&] { sink = e.error(); }); doc(ref, !hasv); }
        else { watch(impl, e, [&] { sink = static_cast<etl::expected<int, long> const&>(e).error(); }); doc(ref, !hasv); }
        return true;
    }
    if (op == "var") {
        auto active = in.num(); auto o = in.str(); auto i = in.num();
        etl::variant<int, char, long> v;
        if (active == 1) { v = 'c'; } else if (active == 2) { v = 5L; }
        using V = etl::variant<int, char, long>;
        auto sub = [&](auto&& vv) {
            if (i == 0) { sink = etl::forward<decltype(vv)>(vv)[etl::index_v<0>]; } else if (i == 1) { sink = etl::forward<decltype(vv)>(vv)[etl::index_v<1>]; } else { sink = etl::forward<decltype(vv)>(vv)[etl::index_v<2>]; }
        };
        auto uget = [&](auto&& vv) {
            if (i == 0) { sink = etl::unchecked_get<0>(etl::forward<decltype(vv)>(vv)); } else if (i == 1) { sink = etl::unchecked_get<1>(etl::forward<decltype(vv)>(vv)); } else { sink = etl::unchecked_get<2>(etl::forward<decltype(vv)>(vv)); }
        };
        watch(impl, v, [&] {
            if (o == "sub") { sub(v); }
            else if (o == "csub") { sub(static_cast<V const&>(v)); }
            else if (o == "rsub") { sub(etl::move(v)); }
            else if (o == "crsub") { sub(etl::move(static_cast<V const&>(v))); }
            else if (o == "uget") { uget(v); }
            else if (o == "cuget") { uget(static_cast<V const&>(v)); }
            else if (o == "ruget") { uget(etl::move(v)); }
            else { uget(etl::move(static_cast<V const&>(v))); }
        });
        doc(ref, i == active);
        return true;
    }
    if (op == "div_sat") {
        auto w = in.num(); auto x = in.num(); auto y = in.num();
        watch_none(impl, [&] {
            if (w == 8) { sink = etl::div_sat(static_cast<signed char>(x), static_cast<signed char>(y)); }
            else if (w == 32) { sink = etl::div_sat(static_cast<int>(x), static_cast<int>(y)); }
            else if (w == 64) { sink = etl::div_sat(static_cast<long long>(x), static_cast<long long>(y)); }
            else { sink = static_cast<long long>(etl::div_sat(static_cast<unsigned>(x), static_cast<unsigned>(y))); }
        });
        doc(ref, y != 0);
        return true;
    }
    if (op == "day" || op == "month") {
        auto d = static_cast<unsigned>(in.num());
        watch_none(impl, [&] {
            if (op == "day") { sink = static_cast<unsigned>(etl::chrono::day{d}); } else { sink = static_cast<unsigned>(etl::chrono::month{d}); }
        });
        doc(ref, d <= 255U);   // "may hold any number in [0, 255]"
        return true;
    }
    if (op == "bit") {
        auto which = in.str(); auto w = in.num(); auto word = in.sz(); auto pos = in.sz();
        if (w == 8) { bit_probe<unsigned char>(which, word, pos, impl); }
        else if (w == 16) { bit_probe<unsigned short>(which, word, pos, impl); }
        else if (w == 32) { bit_probe<unsigned>(which, word, pos, impl); }
        else { bit_probe<u64>(which, word, pos, impl); }
        u64 mask = w == 64 ? ~0ULL : ((1ULL << w) - 1);
        doc(ref, (pos & mask) < static_cast<u64>(w));
        return true;
    }
    if (op == "bitset") {
        auto n = in.num(); auto which = in.str(); auto pos = in.sz();
        if (n == 1) { bitset_probe<1>(which, pos, impl); }
        else if (n == 10) { bitset_probe<10>(which, pos, impl); }
        else if (n == 64) { bitset_probe<64>(which, pos, impl); }
        else { bitset_probe<65>(which, pos, impl); n = 65; }
        doc(ref, pos < static_cast<u64>(n));
        return true;
    }
    if (op == "arr" || op == "carr") {
        auto i = in.sz();
        // the array sits inside a larger object so that an unchecked out-of-range access stays inside memory we own
        struct Holder { etl::array<int, 3> a{1, 2, 3}; int pad[8]{}; } h;
        bool const c = op == "carr";
        auto get = [&] { sink = c ? static_cast<etl::array<int, 3> const&>(h.a)[static_cast<std::size_t>(i)] : h.a[static_cast<std::size_t>(i)]; };
        if (i < 8) { watch(impl, h.a, get); }
        else {
#if defined(TETL_ENABLE_CONTRACT_CHECKS_SAFE)
            watch(impl, h.a, get);
#else
            impl.tok("ok");   // not executed: without the SAFE check this would be a wild read; the guard is absent in this build mode
#endif
        }
        doc(ref, i < 3);
        return true;
    }
    if (op == "stride") {
        auto layout = in.str(); auto r = static_cast<std::size_t>(in.num());
        using ext = etl::extents<int, 2, 3>;
        watch_none(impl, [&] {
            if (layout == "left") { etl::layout_left::mapping<ext> m{}; sink = m.stride(r); }
            else if (layout == "right") { etl::layout_right::mapping<ext> m{}; sink = m.stride(r); }
            else { sink = 0; }
        });
        doc(ref, r < 2);
        return true;
    }
    if (op == "cstr") {
        auto which = in.str(); auto dnull = in.num() != 0; auto snull = in.num() != 0;
        char dbuf[8] = "xy"; char sbuf[8] = "ab";
        char* d = dnull ? nullptr : dbuf; char* s = snull ? nullptr : sbuf;
        watch_none(impl, [&] {
            if (which == "strcpy") { sink = etl::strcpy(d, s) != nullptr; }
            else if (which == "strchr") { sink = etl::strchr(static_cast<char const*>(s), 'a') != nullptr; }
            else if (which == "strchr_m") { sink = etl::strchr(s, 'a') != nullptr; }
            else { sink = etl::memmove(d, s, 2) != nullptr; }
        });
        doc(ref, (which == "strchr" || which == "strchr_m") ? !snull : (!dnull && !snull));
        return true;
    }
    return false;
}

VERIF_MAIN()
