"""C05 — compile-time probes: a guarded call as part of a CONSTANT EXPRESSION (added after the missed seed C05-g1).

For every guarded operation family that is usable in constant expressions: the valid boundary neighbour must compile, the
violating call must be rejected BY THE CONTRACT CHECK (the diagnostic names etl::assert_handler and the TETL_PRECONDITION
the model expects to fire) - with g++ and clang++, in the four build configurations of _contracts/check.hpp and with the
custom and the default assertion handler.  The expected answer of each probe is the extracted model's
(`ct <checks> <safe> <handler> <run-time case>` through the driver: call_in_build ConstantEval of coq/C05/ModelEval.v applied to
the guard of the run-time operation), never a table in this file: this file only says how a run-time case line is written
as a C++ constant expression (the same calls as harness.cpp makes at run time)."""
import hashlib
import json
import os
import re
import subprocess
from concurrent.futures import ThreadPoolExecutor
from pathlib import Path

M64 = 2**64


def U(x):
    """a size_t value (a bare 0ULL would also be a null pointer constant and make overloads ambiguous)"""
    return f"etl::size_t({int(x) % M64}ULL)"


PRELUDE = """
namespace ctp {
inline constexpr int data[8] = {1, 2, 3, 4, 5, 6, 7, 8};
inline constexpr char text[] = "abcdefgh";
inline constexpr wchar_t wtext[] = L"abcdefgh";
inline constexpr char digits[] = "0101010101";
// a forward-only (unsized) and a random access (sized, not a pointer) iterator over int / char
template <typename T> struct Fwd {
    using iterator_category = etl::forward_iterator_tag; using value_type = T; using difference_type = etl::ptrdiff_t;
    using pointer = T const*; using reference = T const&;
    T const* p;
    constexpr auto operator*() const -> T const& { return *p; }
    constexpr auto operator++() -> Fwd& { ++p; return *this; }
    constexpr auto operator++(int) -> Fwd { auto t = *this; ++p; return t; }
    friend constexpr auto operator==(Fwd a, Fwd b) -> bool { return a.p == b.p; }
    friend constexpr auto operator!=(Fwd a, Fwd b) -> bool { return a.p != b.p; }
};
template <typename T> struct Ra {
    using iterator_category = etl::random_access_iterator_tag; using value_type = T; using difference_type = etl::ptrdiff_t;
    using pointer = T const*; using reference = T const&;
    T const* p;
    constexpr auto operator*() const -> T const& { return *p; }
    constexpr auto operator[](difference_type n) const -> T const& { return p[n]; }
    constexpr auto operator++() -> Ra& { ++p; return *this; }
    constexpr auto operator++(int) -> Ra { auto t = *this; ++p; return t; }
    constexpr auto operator--() -> Ra& { --p; return *this; }
    constexpr auto operator--(int) -> Ra { auto t = *this; --p; return t; }
    constexpr auto operator+=(difference_type n) -> Ra& { p += n; return *this; }
    constexpr auto operator-=(difference_type n) -> Ra& { p -= n; return *this; }
    friend constexpr auto operator+(Ra a, difference_type n) -> Ra { return Ra{a.p + n}; }
    friend constexpr auto operator+(difference_type n, Ra a) -> Ra { return Ra{a.p + n}; }
    friend constexpr auto operator-(Ra a, difference_type n) -> Ra { return Ra{a.p - n}; }
    friend constexpr auto operator-(Ra a, Ra b) -> difference_type { return a.p - b.p; }
    friend constexpr auto operator==(Ra a, Ra b) -> bool { return a.p == b.p; }
    friend constexpr auto operator!=(Ra a, Ra b) -> bool { return a.p != b.p; }
    friend constexpr auto operator<(Ra a, Ra b) -> bool { return a.p < b.p; }
    friend constexpr auto operator>(Ra a, Ra b) -> bool { return a.p > b.p; }
    friend constexpr auto operator<=(Ra a, Ra b) -> bool { return a.p <= b.p; }
    friend constexpr auto operator>=(Ra a, Ra b) -> bool { return a.p >= b.p; }
};
template <etl::size_t K> constexpr auto vec() { etl::static_vector<int, 4> v; for (etl::size_t i = 0; i < K; ++i) { v.push_back(static_cast<int>(i) + 1); } return v; }
template <etl::size_t K> constexpr auto str() { return etl::inplace_string<4>{text, K}; }
}  // namespace ctp
"""

GROUP_HEADERS = {
    "chrono": ["etl/chrono.hpp"], "span": ["etl/span.hpp"], "string_view": ["etl/string_view.hpp"],
    "optional": ["etl/optional.hpp"], "expected": ["etl/expected.hpp"], "variant": ["etl/variant.hpp"],
    "numeric": ["etl/numeric.hpp"], "bit": ["etl/bit.hpp"], "bitset": ["etl/bitset.hpp"], "array": ["etl/array.hpp"],
    "mdspan": ["etl/mdspan.hpp"], "cstring": ["etl/cstring.hpp"], "cwchar": ["etl/cwchar.hpp"], "vector": ["etl/vector.hpp"],
    "string": ["etl/string.hpp"], "set": ["etl/set.hpp"],
}
# what the prelude itself needs
PRELUDE_HEADERS = ["etl/vector.hpp", "etl/string.hpp", "etl/cstddef.hpp"]


def _span_body(decl, o, a, b):
    if o == "front":
        return f"{decl} return s.front();"
    if o == "back":
        return f"{decl} return s.back();"
    if o == "idx":
        return f"{decl} return s[{U(a)}];"
    if o == "first":
        return f"{decl} return s.first({U(a)}).size();"
    if o == "last":
        return f"{decl} return s.last({U(a)}).size();"
    if o == "subspan":
        return f"{decl} return s.subspan({U(a)}, {U(b)}).size();"
    if o == "tfirst":
        return f"{decl} return s.first<{U(a)}>().size();"
    if o == "tlast":
        return f"{decl} return s.last<{U(a)}>().size();"
    if o == "tsub":
        return f"{decl} return s.subspan<{U(a)}, {U(b)}>().size();"
    return None


def body_of(case):
    """(group, C++ statements of a lambda body) for a run-time case line, or None when the call has no constant-expression form"""
    t = case.split()
    op = t[0]
    if op in ("day", "month"):
        return "chrono", f"return static_cast<unsigned>(etl::chrono::{op}{{{int(t[1])}U}});"
    if op == "span":
        n, o, a, b = int(t[1]), t[2], int(t[3]), int(t[4])
        r = _span_body(f"etl::span<int const> s{{ctp::data, {n}}};", o, a, b)
        return ("span", r) if r else None
    if op == "sspan":
        n, o, a, b = int(t[1]), t[2], int(t[3]), int(t[4])
        if o in ("tfirst", "tlast", "tsub"):
            return None
        r = _span_body(f"etl::span<int const, {n}> s{{ctp::data, {n}}};", o, a, b)
        return ("span", r) if r else None
    if op == "spanctor":
        ext, which, count = int(t[1]), t[2], int(t[3])
        e = "etl::dynamic_extent" if ext == -1 else str(ext)
        if which == "ptr":
            return "span", f"etl::span<int const, {e}> s(ctp::data, {U(count)}); return s.size();"
        if which == "dyn":
            return "span", (f"etl::span<int const> d{{ctp::data, {U(count)}}}; "
                            f"etl::span<int const, {e}> s(static_cast<etl::span<int const> const&>(d)); return s.size();")
        if which == "dynl":
            return "span", f"etl::span<int const> d{{ctp::data, {U(count)}}}; etl::span<int const, {e}> s(d); return s.size();"
        return None
    if op in ("sv", "wsv"):
        n, o, a, b = int(t[1]), t[2], int(t[3]), int(t[4])
        ch, txt, ty = ("char", "ctp::text", "etl::string_view") if op == "sv" else ("wchar_t", "ctp::wtext", "etl::wstring_view")
        decl = f"auto s = {ty}{{{txt}, {n}}};"
        bodies = {
            "idx": f"return s[{U(a)}];", "front": "return s.front();", "back": "return s.back();",
            "rmp": f"s.remove_prefix({U(a)}); return s.size();", "rms": f"s.remove_suffix({U(a)}); return s.size();",
            "substr": f"return s.substr({U(a)}, {U(b)}).size();",
            "copy": f"{ch} dest[16]{{}}; return s.copy(dest, {U(min(a % M64, 8))}, {U(b)});",
            "cmp3": f"return s.compare({U(a)}, {U(b)}, s);",
        }
        return ("string_view", decl + " " + bodies[o]) if o in bodies else None
    if op == "opt":
        e, o = int(t[1]), t[2]
        decl = "etl::optional<int> x; " + ("x = 5; " if e else "")
        bodies = {"deref": "return *x;", "cderef": "return *static_cast<etl::optional<int> const&>(x);",
                  "rderef": "return *etl::move(x);", "crderef": "return *etl::move(static_cast<etl::optional<int> const&>(x));"}
        return ("optional", decl + bodies[o]) if o in bodies else None
    if op == "exp":
        h, o = int(t[1]), t[2]
        E = "etl::expected<int, long>"
        decl = f"auto e = {E}(etl::in_place, 4); " if h else f"auto e = {E}(etl::unexpect, 7L); "
        bodies = {"deref": "return *e;", "cderef": f"return *static_cast<{E} const&>(e);", "rderef": "return *etl::move(e);",
                  "crderef": f"return *etl::move(static_cast<{E} const&>(e));", "error": "return e.error();",
                  "cerror": f"return static_cast<{E} const&>(e).error();", "rerror": "return etl::move(e).error();",
                  "crerror": f"return etl::move(static_cast<{E} const&>(e)).error();"}
        return ("expected", decl + bodies[o]) if o in bodies else None
    if op == "var":
        a, o, i = int(t[1]), t[2], int(t[3])
        V = "etl::variant<int, char, long>"
        decl = f"{V} v; " + {0: "", 1: "v = 'c'; ", 2: "v = 5L; "}[a]
        obj = {"": "v", "c": f"static_cast<{V} const&>(v)", "r": "etl::move(v)", "cr": f"etl::move(static_cast<{V} const&>(v))"}
        for pre, ob in obj.items():
            if o == pre + "sub":
                return "variant", decl + f"return static_cast<long>({ob}[etl::index_v<{i}>]);"
            if o == pre + "uget":
                return "variant", decl + f"return static_cast<long>(etl::unchecked_get<{i}>({ob}));"
        return None
    if op == "div_sat":
        w, x, y = int(t[1]), int(t[2]), int(t[3])
        ty = {8: "signed char", 32: "int", 64: "long long"}.get(w, "unsigned")
        return "numeric", f"return etl::div_sat(static_cast<{ty}>({x}), static_cast<{ty}>({y}));"
    if op == "bit":
        which, w, word, pos = t[1], int(t[2]), int(t[3]), int(t[4])
        ty = {8: "unsigned char", 16: "unsigned short", 32: "unsigned", 64: "unsigned long long"}[w]
        f = {"set": "etl::set_bit(w, p)", "set3": "etl::set_bit(w, p, true)", "reset": "etl::reset_bit(w, p)",
             "flip": "etl::flip_bit(w, p)", "test": "etl::test_bit(w, p)"}[which]
        return "bit", f"auto w = static_cast<{ty}>({U(word)}); auto p = static_cast<{ty}>({U(pos)}); return {f};"
    if op == "bitset":
        n, which, pos = int(t[1]), t[2], int(t[3])
        decl = f"etl::bitset<{n}> b; b.set(0); "
        bb = f"etl::basic_bitset<{n}, unsigned char> bb; "
        bodies = {"set": f"b.set({U(pos)}); return b.count();", "reset": f"b.reset({U(pos)}); return b.count();",
                  "flip": f"b.flip({U(pos)}); return b.count();", "idx": f"return static_cast<bool>(b[{U(pos)}]);",
                  "cidx": f"return static_cast<bool>(static_cast<etl::bitset<{n}> const&>(b)[{U(pos)}]);",
                  "test": f"return b.test({U(pos)});"}
        if which in bodies:
            return "bitset", decl + bodies[which]
        bbodies = {"uset": f"bb.unchecked_set({U(pos)}); return bb.count();", "ureset": f"bb.unchecked_reset({U(pos)}); return bb.count();",
                   "uflip": f"bb.unchecked_flip({U(pos)}); return bb.count();", "utest": f"return bb.unchecked_test({U(pos)});"}
        return ("bitset", bb + bbodies[which]) if which in bbodies else None
    if op in ("arr", "carr"):
        i = int(t[1])
        a = "a" if op == "arr" else "static_cast<etl::array<int, 3> const&>(a)"
        return "array", f"etl::array<int, 3> a{{1, 2, 3}}; return {a}[{U(i)}];"
    if op == "arrfb":
        n, o = int(t[1]), t[2]
        A = f"etl::array<int, {n}>"
        decl = f"{A} a{{}}; "
        obj = "a" if not o.startswith("c") else f"static_cast<{A} const&>(a)"
        call = {"front": ".front()", "cfront": ".front()", "back": ".back()", "cback": ".back()", "idx": "[0]", "cidx": "[0]"}[o]
        return "array", decl + f"return {obj}{call};"
    if op == "stride":
        layout, r = t[1], int(t[2])
        return "mdspan", f"etl::layout_{layout}::mapping<etl::extents<int, 2, 3>> m{{}}; return m.stride({U(r)});"
    if op == "sstride":
        return "mdspan", f"etl::layout_stride::mapping<etl::extents<int, 2, 3>> m{{}}; return m.stride({U(int(t[1]))});"
    if op == "cstr":
        which, dn, sn = t[1], int(t[2]), int(t[3])
        decl = 'char dbuf[8] = "xy"; char sbuf[8] = "ab"; ' + f"char* d = {'nullptr' if dn else 'dbuf'}; char* s = {'nullptr' if sn else 'sbuf'}; "
        bodies = {"strcpy": "return etl::strcpy(d, s) != nullptr;", "strchr": "return etl::strchr(static_cast<char const*>(s), 'a') != nullptr;",
                  "strchr_m": "return etl::strchr(s, 'a') != nullptr;"}
        return ("cstring", decl + bodies[which]) if which in bodies else None
    if op == "cpy":
        which, dn, sn = t[1], int(t[2]), int(t[3])
        if which == "strncpy":
            decl = 'char dbuf[8] = "xy"; char sbuf[8] = "ab"; ' + f"char* d = {'nullptr' if dn else 'dbuf'}; char* s = {'nullptr' if sn else 'sbuf'}; "
            return "cstring", decl + "return etl::strncpy(d, s, 2) != nullptr;"
        decl = 'wchar_t dbuf[8] = L"xy"; wchar_t sbuf[8] = L"ab"; ' + f"wchar_t* d = {'nullptr' if dn else 'dbuf'}; wchar_t* s = {'nullptr' if sn else 'sbuf'}; "
        if which == "wcscpy":
            return "cwchar", decl + "return etl::wcscpy(d, s) != nullptr;"
        return "cwchar", decl + "return etl::wcsncpy(d, s, 2) != nullptr;"
    if op == "sset":
        d = int(t[1])
        return "set", f"etl::static_set<int, 4> st(ctp::data + 3, ctp::data + 3 + ({d})); return st.size();"
    if op == "vec":
        k, o = int(t[1]), t[2]
        a = [int(x) for x in t[3:]]
        decl = f"auto v = ctp::vec<{k}>(); "
        CV = "static_cast<etl::static_vector<int, 4> const&>(v)"
        bodies = {
            "pb": "v.push_back(9); return v.size();", "eb": "v.emplace_back(9); return v.size();", "pop": "v.pop_back(); return v.size();",
            "fr": "return v.front();", "bk": "return v.back();", "cfr": f"return {CV}.front();", "cbk": f"return {CV}.back();",
        }
        if o in bodies:
            return "vector", decl + bodies[o]
        if o in ("at", "cat"):
            return "vector", decl + f"return {'v' if o == 'at' else CV}[{U(a[0])}];"
        if o in ("icr", "irv", "emp"):
            call = {"icr": "int c = 9; v.insert(v.begin() + ({p}), c);", "irv": "v.insert(v.begin() + ({p}), 9);", "emp": "v.emplace(v.begin() + ({p}), 9);"}[o]
            return "vector", decl + call.format(p=a[0]) + " return v.size();"
        if o == "inn":
            return "vector", decl + f"int c = 9; v.insert(v.begin() + ({a[0]}), {U(a[1])}, c); return v.size();"
        # first = data + 3 so that a range with last one BEFORE first is still made of valid pointers
        rng = {"irg": ("ctp::data + 3", "ctp::data + 3 + ({n})"), "irg_ra": ("ctp::Ra<int>{{ctp::data + 3}}", "ctp::Ra<int>{{ctp::data + 3 + ({n})}}"),
               "irg_fwd": ("ctp::Fwd<int>{{ctp::data + 3}}", "ctp::Fwd<int>{{ctp::data + 3 + ({n})}}")}
        if o in rng:
            f, l = rng[o]
            return "vector", decl + f"v.insert(v.begin() + ({a[0]}), {f.format(n=a[1])}, {l.format(n=a[1])}); return v.size();"
        if o == "mins":
            return "vector", decl + f"int src[8] = {{1, 2, 3, 4, 5, 6, 7, 8}}; v.move_insert(v.begin() + ({a[0]}), src + 3, src + 3 + ({a[1]})); return v.size();"
        if o == "era":
            return "vector", decl + f"v.erase(v.begin() + ({a[0]})); return v.size();"
        if o == "err":
            return "vector", decl + f"v.erase(v.begin() + ({a[0]}), v.begin() + ({a[1]})); return v.size();"
        if o == "rsz":
            return "vector", decl + f"v.resize({U(a[0])}); return v.size();"
        if o == "rsv":
            return "vector", decl + f"v.resize({U(a[0])}, 9); return v.size();"
        if o == "asn":
            return "vector", decl + f"v.assign({U(a[0])}, 9); return v.size();"
        if o == "asr":
            return "vector", decl + f"v.assign(ctp::data + 3, ctp::data + 3 + ({a[0]})); return v.size();"
        if o == "asr_ra":
            return "vector", decl + f"v.assign(ctp::Ra<int>{{ctp::data + 3}}, ctp::Ra<int>{{ctp::data + 3 + ({a[0]})}}); return v.size();"
        if o == "ctor_n":
            return "vector", f"etl::static_vector<int, 4> w({U(a[0])}); return w.size();"
        if o == "ctor_nv":
            return "vector", f"etl::static_vector<int, 4> w({U(a[0])}, 3); return w.size();"
        if o == "ctor_rg":
            return "vector", f"etl::static_vector<int, 4> w(ctp::data + 3, ctp::data + 3 + ({a[0]})); return w.size();"
        return None
    if op == "str" and int(t[1]) == 4:
        k, o = int(t[2]), t[3]
        a = [int(x) for x in t[4:]]
        S = "etl::inplace_string<4>"
        decl = f"auto s = ctp::str<{k}>(); "
        CS = f"static_cast<{S} const&>(s)"
        bodies = {
            "front": "return s.front();", "cfront": f"return {CS}.front();", "back": "return s.back();", "cback": f"return {CS}.back();",
            "pb": "s.push_back('z'); return s.size();", "pop": "s.pop_back(); return s.size();",
        }
        if o in bodies:
            return "string", decl + bodies[o]
        one = {
            "idx": "return s[{0}];", "cidx": "return " + CS + "[{0}];",
            "ctor_ptr": S + " w(ctp::text, {0}); return w.size();", "ctor_fill": S + " w({0}, 'z'); return w.size();",
            "asg_fill": "s.assign({0}, 'z'); return s.size();", "asg_ptr": "s.assign(ctp::text, {0}); return s.size();",
            "app_fill": "s.append({0}, 'z'); return s.size();", "app_ptr": "s.append(ctp::text, {0}); return s.size();",
            "resize": "s.resize({0}, 'z'); return s.size();", "resize1": "s.resize({0}); return s.size();",
        }
        if o in one:
            return "string", decl + one[o].format(U(a[0]))
        two = {
            "ins_fill": "s.insert({0}, {1}, 'z'); return s.size();", "ins_ptr": "s.insert({0}, ctp::text, {1}); return s.size();",
            "era": "s.erase({0}, {1}); return s.size();", "substr": "return s.substr({0}, {1}).size();",
        }
        if o in two:
            return "string", decl + two[o].format(U(a[0]), U(a[1]))
        ln = {
            "app_rng": "s.append(ctp::text, ctp::text + ({0})); return s.size();",
            "app_ra": "s.append(ctp::Ra<char>{{ctp::text}}, ctp::Ra<char>{{ctp::text + ({0})}}); return s.size();",
            "app_fwd": "s.append(ctp::Fwd<char>{{ctp::text}}, ctp::Fwd<char>{{ctp::text + ({0})}}); return s.size();",
            "ctor_rng": S + " w(ctp::text, ctp::text + ({0})); return w.size();",
            "ctor_view": S + " w(etl::string_view{{ctp::text, {0}}}); return w.size();",
            "asg_view": "s.assign(etl::string_view{{ctp::text, {0}}}); return s.size();",
            "app_str": S + " o(ctp::text, {0}); s.append(o); return s.size();",
            "era_pos": "s.erase(s.cbegin() + ({0})); return s.size();",
        }
        if o in ln:
            return "string", decl + ln[o].format(a[0])
        if o == "era_it":
            return "string", decl + f"s.erase(s.cbegin() + ({a[0]}), s.cbegin() + ({a[0]}) + ({a[1]})); return s.size();"
        if o == "rep":
            return "string", decl + f"{S} o(ctp::text, {a[2]}); s.replace({U(a[0])}, {U(a[1])}, o); return s.size();"
        return None
    return None


def cases():
    """run-time case lines (the syntax of gen()) at each family's boundary: the last valid argument and the first violating one,
    plus arguments far beyond; only cases whose evaluation with VALID arguments is free of undefined behaviour"""
    out = []
    for d in (0, 31, 255, 256, 300, 1000, 2**32 - 1):
        out += [f"day {d}", f"month {d}"]
    for n in (0, 3):
        for fam in ("span", "sspan"):
            out += [f"{fam} {n} front 0 0", f"{fam} {n} back 0 0"]
            for a in sorted({max(n - 1, 0), n, n + 1}) + [2**63, 2**64 - 1]:
                out += [f"{fam} {n} idx {a} 0", f"{fam} {n} first {a} 0", f"{fam} {n} last {a} 0"]
            for (a, b) in ((0, n), (0, n + 1), (n, 0), (n, 1), (n + 1, 0), (1, n), (0, -1), (n, -1), (n + 1, -1), (1, 2**64 - 2), (2**64 - 1, 2)):
                out.append(f"{fam} {n} subspan {a} {b}")
        for c in (0, n, n + 1, 6):
            out += [f"span {n} tfirst {c} 0", f"span {n} tlast {c} 0"]
        for (a, b) in ((0, n), (0, n + 1), (n, 0), (n, 1), (n + 1, 0), (0, -1), (n, -1), (n + 1, -1)):
            out.append(f"span {n} tsub {a} {b}")
    for ext in (0, 3, -1):
        for count in (0, 2, 3, 4, 8):
            out += [f"spanctor {ext} ptr {count}", f"spanctor {ext} dyn {count}", f"spanctor {ext} dynl {count}"]
        if ext != -1:
            out.append(f"spanctor {ext} ptr {2**63}")
    for fam in ("sv", "wsv"):
        for n in (0, 3):
            out += [f"{fam} {n} front 0 0", f"{fam} {n} back 0 0"]
            for a in sorted({max(n - 1, 0), n, n + 1}) + [2**63, 2**64 - 1, 2**64 - n]:
                out += [f"{fam} {n} idx {a} 0", f"{fam} {n} rmp {a} 0", f"{fam} {n} rms {a} 0"]
                for b in (0, 1, -1):
                    out += [f"{fam} {n} substr {a} {b}", f"{fam} {n} copy {b} {a}", f"{fam} {n} cmp3 {a} {b}"]
    for e in (0, 1):
        out += [f"opt {e} {o}" for o in ("deref", "cderef", "rderef", "crderef")]
        out += [f"exp {e} {o}" for o in ("deref", "cderef", "rderef", "crderef", "error", "cerror", "rerror", "crerror")]
    for a in range(3):
        for i in range(3):
            out += [f"var {a} {o} {i}" for o in ("sub", "csub", "rsub", "crsub", "uget", "cuget", "ruget", "cruget")]
    for w in (8, 32, 64, 33):
        for y in (0, 1, -1):
            out.append(f"div_sat {w} 5 {y}")
    for w in (8, 16, 32, 64):
        for which in ("set", "set3", "reset", "flip", "test"):
            for pos in (0, w - 1, w, w + 1, 2**w - 1):
                out.append(f"bit {which} {w} 5 {pos}")
    for n in (1, 10, 64, 65):
        for which in ("set", "reset", "flip", "idx", "cidx", "test", "uset", "ureset", "uflip", "utest"):
            for pos in (0, n - 1, n, n + 1, 2**63, 2**64 - 1):
                out.append(f"bitset {n} {which} {pos}")
    for i in (0, 2, 3, 4, 2**63):
        out += [f"arr {i}", f"carr {i}"]
    for n in (0, 3):
        out += [f"arrfb {n} {o}" for o in ("front", "cfront", "back", "cback", "idx", "cidx")]
    for r in (0, 1, 2, 3, 2**63, 2**64 - 1):
        out += [f"stride left {r}", f"stride right {r}", f"sstride {r}"]
    for dn in (0, 1):
        for sn in (0, 1):
            out += [f"cstr strcpy {dn} {sn}", f"cstr strchr {dn} {sn}", f"cstr strchr_m {dn} {sn}",
                    f"cpy strncpy {dn} {sn}", f"cpy wcscpy {dn} {sn}", f"cpy wcsncpy {dn} {sn}"]
    for d in (-1, 0, 4, 5):
        out.append(f"sset {d}")
    for k in (0, 2, 4):
        room = 4 - k
        out += [f"vec {k} {o}" for o in ("pb", "eb", "pop", "fr", "bk", "cfr", "cbk")]
        for i in sorted({max(k - 1, 0), k, k + 1}) + [2**63, 2**64 - 1]:
            out += [f"vec {k} at {i}", f"vec {k} cat {i}"]
        # positions are formed as begin() + pos BEFORE the call: only offsets inside the storage (0..4) are valid pointers
        for pos in sorted(x for x in {0, k, k + 1} if x <= 4):
            out += [f"vec {k} icr {pos}", f"vec {k} irv {pos}", f"vec {k} emp {pos}"]
            if pos <= 3:
                # erase(position) forms position + 1 before its check: a constant evaluation rejects begin() + 5 by itself
                out.append(f"vec {k} era {pos}")
            for n in (0, room, room + 1):
                out += [f"vec {k} inn {pos} {n}", f"vec {k} irg {pos} {n}", f"vec {k} irg_ra {pos} {n}", f"vec {k} irg_fwd {pos} {n}",
                        f"vec {k} mins {pos} {n}"]
            out += [f"vec {k} inn {pos} {2**64 - 1}", f"vec {k} irg {pos} -1", f"vec {k} irg_ra {pos} -1"]
            for l in (pos - 1, pos, k, k + 1):
                if 0 <= l <= 4:
                    out.append(f"vec {k} err {pos} {l}")
        for n in (0, 4, 5, 2**63, 2**64 - 1):
            out += [f"vec {k} rsz {n}", f"vec {k} rsv {n}", f"vec {k} asn {n}", f"vec {k} ctor_n {n}", f"vec {k} ctor_nv {n}"]
        for n in (-1, 0, 4, 5):
            out += [f"vec {k} asr {n}", f"vec {k} asr_ra {n}", f"vec {k} ctor_rg {n}"]
    for k in (0, 2, 4):
        room = 4 - k
        S = f"str 4 {k}"
        out += [f"{S} {o}" for o in ("front", "cfront", "back", "cback", "pb", "pop")]
        for p in sorted({max(k - 1, 0), k, k + 1}) + [2**63, 2**64 - 1]:
            out += [f"{S} idx {p}", f"{S} cidx {p}"]
            for c in (0, room, room + 1):
                out += [f"{S} ins_fill {p} {c}", f"{S} ins_ptr {p} {c}"]
            for c in (0, 1, -1):
                out += [f"{S} era {p} {c}", f"{S} substr {p} {c}", f"{S} rep {p} {c} 1"]
        for n in (0, 4, 5, 8, 2**63, 2**64 - 1):
            out += [f"{S} ctor_ptr {n}", f"{S} ctor_fill {n}", f"{S} asg_fill {n}", f"{S} asg_ptr {n}", f"{S} app_fill {n}", f"{S} app_ptr {n}",
                    f"{S} resize {n}", f"{S} resize1 {n}"]
        for n in sorted({0, room, room + 1, 4, 5, 8}):
            out += [f"{S} app_rng {n}", f"{S} app_ra {n}", f"{S} app_fwd {n}", f"{S} ctor_rng {n}", f"{S} ctor_view {n}", f"{S} asg_view {n}"]
            if n <= 4:
                out.append(f"{S} app_str {n}")
        for st in sorted({0, k, k + 1}):
            if st <= 4:
                # erase(position) forms position + 1 before its check (see vec era)
                out.append(f"{S} era_pos {st}")
            for d in sorted({-1, 0, k - st, k - st + 1}):
                if 0 <= st + d <= 5 and st <= 5:
                    out.append(f"{S} era_it {st} {d}")
    seen, res = set(), []
    for c in out:
        if c not in seen and body_of(c) is not None:
            seen.add(c)
            res.append(c)
    return res


# (checks, safe) x handler: the build configurations a probe is compiled in
CONFIGS = [(1, 0, "cust"), (0, 1, "cust"), (1, 1, "cust"), (0, 0, "cust"), (1, 0, "dflt"), (0, 1, "dflt")]
COMPILERS = ["g++", "clang++"]


def config_flags(cfg):
    c, s, h = cfg
    f = []
    if c:
        f.append("-DTETL_ENABLE_CONTRACT_CHECKS=1")
    if s:
        f.append("-DTETL_ENABLE_CONTRACT_CHECKS_SAFE=1")
    if h == "cust":
        f.append("-DTETL_ENABLE_CUSTOM_ASSERT_HANDLER=1")
    return f


def compile_tu(cxx, flags, include, path):
    lim = ["-ferror-limit=0", "-fno-caret-diagnostics"] if cxx == "clang++" else ["-fno-diagnostics-show-caret"]
    r = subprocess.run(["timeout", "600", cxx, "-std=c++20", "-fsyntax-only", "-w"] + lim + flags + [f"-I{include}", str(path)],
                       capture_output=True, text=True, env=dict(os.environ, LC_ALL="C", LANG="C"))
    return r.returncode, r.stderr


def site_text(include_root, file, line):
    """the TETL_PRECONDITION(...) that starts on <file>:<line>: (header basename, expression text as the handler receives it)"""
    try:
        txt = Path(file).read_text(errors="replace").split("\n")
    except OSError:
        return (Path(file).name, "?")
    rest = "\n".join(txt[line - 1:line + 12])
    m = re.search(r"TETL_PRECONDITION(_SAFE)?\s*\(", rest)
    if not m:
        return (Path(file).name, "?")
    depth, i = 0, m.end() - 1
    j = i
    while j < len(rest):
        if rest[j] == "(":
            depth += 1
        elif rest[j] == ")":
            depth -= 1
            if depth == 0:
                break
        j += 1
    expr = re.sub(r"\s+", " ", rest[i + 1:j]).strip().replace(" ", "_")
    return (Path(file).name, expr)


def parse_diagnostics(cxx, stderr, tu_name, include_root):
    """per probe line of the translation unit: {'errors': n, 'handler': bool, 'site': (header, expression) | None, 'text': first error};
    plus the errors that belong to no probe line"""
    per, loose = {}, []
    first = None      # probe line that opens the current diagnostic block (the outermost "in 'constexpr' expansion of")
    after_error = False
    rec = None
    probe_re = re.compile(re.escape(tu_name) + r":(\d+):\d+:")
    loc_re = re.compile(r"^(/[^:\s]+):(\d+):\d+: ")
    for ln in stderr.split("\n"):
        m = probe_re.match(ln)
        is_err = " error: " in ln
        is_note = " note: " in ln
        if not is_err and not is_note and ln[:1] not in (" ", "\t", ""):
            # a context line (g++: "in 'constexpr' expansion of", "In function", "required from"): opens a new block after an error.
            # g++ may quote the location of an EARLIER identical call further down the chain, so only the first one counts
            if after_error:
                first, after_error = None, False
            if m and first is None:
                first = int(m.group(1))
            continue
        if is_err:
            own = int(m.group(1)) if m else None
            at = own if cxx == "clang++" else (first if first is not None else own)
            after_error = True
            if at is None:
                loose.append(ln.strip()[:300])
                rec = None
                continue
            rec = per.setdefault(at, {"errors": 0, "handler": False, "site": None, "text": ln.strip()[:300]})
            rec["errors"] += 1
        if rec is None:
            continue
        if "assert_handler" in ln:
            rec["handler"] = True
            if cxx == "clang++":
                lm = loc_re.match(ln)
                if lm and "non-constexpr function" in ln and rec["site"] is None:
                    rec["site"] = site_text(include_root, lm.group(1), int(lm.group(2)))
        if cxx == "g++" and "in expansion of macro 'TETL_PRECONDITION" in ln and rec["site"] is None:
            lm = loc_re.match(ln)
            if lm:
                rec["site"] = site_text(include_root, lm.group(1), int(lm.group(2)))
    return per, loose


def observed_leg(rec):
    if rec is None or rec["errors"] == 0:
        return "compiles"
    if rec["handler"]:
        s = rec["site"] or ("?", "?")
        return f"ill-formed # {s[0]} {s[1]}"
    return "ill-formed-other"


def preflight(cxx, include, work, groups):
    """which header groups this compiler can take at all (clang++ 14 rejects some headers for reasons that have nothing to do
    with contracts): a group is used with a compiler only if its headers alone compile"""
    ok = {}

    def one(g):
        f = work / f"pre_{cxx.replace('+', 'x')}_{g}.cpp"
        f.write_text("".join(f"#include <{h}>\n" for h in PRELUDE_HEADERS + GROUP_HEADERS[g]) + PRELUDE)
        rc, err = compile_tu(cxx, ["-DTETL_ENABLE_CONTRACT_CHECKS=1"], include, f)
        return g, rc == 0, err[-400:]
    with ThreadPoolExecutor(max_workers=4) as ex:
        for g, good, err in ex.map(one, groups):
            ok[g] = (good, err)
    return ok


def run(include, work, expect, case_list):
    """compile every probe in every configuration with both compilers.
    expect[(cfg index, case index)] = model leg.  Returns (results, info): results = list of dicts
    {cxx, cfg, case, body, model, observed}; info = {compiler: {group: usable}}"""
    work.mkdir(parents=True, exist_ok=True)
    bodies = [body_of(c) for c in case_list]
    groups = sorted({b[0] for b in bodies})
    info = {}
    jobs = []
    for cxx in COMPILERS:
        pf = preflight(cxx, include, work, groups)
        info[cxx] = {g: pf[g][0] for g in groups}
        usable = [g for g in groups if pf[g][0]]
        for ci, cfg in enumerate(CONFIGS):
            # one translation unit per expected verdict, so that a wrong expectation cannot hide behind another probe's error
            for kind in ("compiles", "ill-formed", "unchecked"):
                idx = [i for i, b in enumerate(bodies) if b[0] in usable and expect[(ci, i)].split(" ")[0] == kind]
                if idx:
                    jobs.append((cxx, ci, cfg, kind, idx, usable))
    results = []

    def one(job):
        cxx, ci, cfg, kind, idx, usable = job
        name = f"ct_{cxx.replace('+', 'x')}_{cfg[0]}{cfg[1]}{cfg[2]}_{kind.replace('-', '')}.cpp"
        head = "".join(f"#include <{h}>\n" for h in sorted({h for g in usable for h in GROUP_HEADERS[g]} | set(PRELUDE_HEADERS))) + PRELUDE
        tu = head
        lines = {}
        for i in idx:
            tu += f"constexpr auto p{i} = [] {{ {bodies[i][1]} }}();\n"
            lines[tu.count("\n")] = i
        f = work / name
        f.write_text(tu)
        rc, err = compile_tu(cxx, config_flags(cfg), include, f)
        per, loose = parse_diagnostics(cxx, err, str(f), include)
        out = []
        for ln, i in lines.items():
            out.append({"cxx": cxx, "cfg": list(cfg), "case": case_list[i], "body": bodies[i][1], "model": expect[(ci, i)],
                        "observed": observed_leg(per.get(ln)), "diag": (per.get(ln) or {}).get("text", "")})
        stray = [l for l in loose] + [per[ln]["text"] for ln in per if ln not in lines]
        if (rc != 0) != bool(per) and not stray:
            stray = ["compiler exit status %d without a diagnostic attributable to a probe: %s" % (rc, err[-300:])]
        return out, [(cxx, list(cfg), kind, s) for s in stray[:3]]
    strays = []
    with ThreadPoolExecutor(max_workers=4) as ex:
        for out, st in ex.map(one, jobs):
            results += out
            strays += st
    return results, info, strays


def agrees(model, observed):
    if model == "unchecked":
        # no active check in front of the body: whatever follows, it must not be the handler
        return not observed.startswith("ill-formed #")
    return model == observed


def verdict(leg):
    """compiles / ill-formed / unchecked"""
    return leg.split(" ")[0].replace("ill-formed-other", "ill-formed")
