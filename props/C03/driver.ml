(* C03 driver: histories through the extracted event-emitting model (Model.run_case), the extracted
   monitor (Trace.monitor / wf_trace / alive_count) and the spec (Spec.spec_verdict).
   Parsing and printing only. *)
let b t = next_int t <> 0
let zl t = next_zlist t

let parse_ops (t : toks) : op list =
  let k = next_int t in
  let ops = ref [] in
  for _ = 1 to k do
    let o = next_str t in
    let push x = ops := x :: !ops in
    (match o with
     | "swp" -> push Swap
     | "ctn" -> let k = next_nat t in push (CtorN k)
     | "ctv" -> let k = next_nat t in let x = next_z t in push (CtorNVal (k, x))
     | "ctr" -> let xs = zl t in push (CtorRange xs)
     | "ctf" -> let xs = zl t in push (CtorRangeFwd xs)
     | "cta" -> let xs = zl t in push (CtorMoveArr xs)
     | _ ->
       let tg = b t in
       (match o with
        | "pbr" -> let x = next_z t in push (PushBackRv (tg, x))
        | "pbc" -> let x = next_z t in push (PushBackCr (tg, x))
        | "eb" -> let x = next_z t in push (EmplaceBack (tg, x))
        | "pop" -> push (PopBack tg)
        | "icr" -> let p = next_nat t in let x = next_z t in push (InsertCr (tg, p, x))
        | "irv" -> let p = next_nat t in let x = next_z t in push (InsertRv (tg, p, x))
        | "emp" -> let p = next_nat t in let x = next_z t in push (EmplaceAt (tg, p, x))
        | "inn" -> let p = next_nat t in let n = next_nat t in let x = next_z t in push (InsertN (tg, p, n, x))
        | "irg" -> let p = next_nat t in let xs = zl t in push (InsertRange (tg, p, xs))
        | "mig" -> let p = next_nat t in let xs = zl t in push (MoveInsertRange (tg, p, xs))
        | "irf" -> let p = next_nat t in let xs = zl t in push (InsertRangeFwd (tg, p, xs))
        | "mif" -> let p = next_nat t in let xs = zl t in push (MoveInsertRangeFwd (tg, p, xs))
        | "asf" -> let xs = zl t in push (AssignRangeFwd (tg, xs))
        | "kcc" -> push (CopyConstruct tg)      (* stack(Container const&): the vector's copy constructor *)
        | "kmc" -> push (MoveConstruct tg)      (* stack(Container&&) *)
        | "fei" -> let p = next_z t in push (EraseIf (tg, p))   (* etl::erase_if(flat_set&, pred) = remove_if + erase *)
        | "era" -> let p = next_nat t in push (EraseAt (tg, p))
        | "err" -> let f = next_nat t in let l = next_nat t in push (EraseRange (tg, f, l))
        | "clr" -> push (Clear tg)
        | "rsz" -> let n = next_nat t in push (Resize (tg, n))
        | "rsv" -> let n = next_nat t in let x = next_z t in push (ResizeVal (tg, n, x))
        | "asn" -> let n = next_nat t in let x = next_z t in push (AssignN (tg, n, x))
        | "asr" -> let xs = zl t in push (AssignRange (tg, xs))
        | "cpa" -> push (CopyAssign tg)
        | "mva" -> push (MoveAssign tg)
        | "cpc" -> push (CopyConstruct tg)
        | "mvc" -> push (MoveConstruct tg)
        | "mrt" -> push (MoveRoundTrip tg)
        | "eif" -> let p = next_z t in push (EraseIf (tg, p))
        | "erv" -> let x = next_z t in push (EraseVal (tg, x))
        | "sca" -> push (SelfCopyAssign tg)
        | "sma" -> push (SelfMoveAssign tg)
        | "ssw" -> push (SelfSwap tg)
        | "tpc" -> let x = next_z t in push (IvTryPushCr (tg, x))
        | "tpr" -> let x = next_z t in push (IvTryPushRv (tg, x))
        | "tpe" -> let x = next_z t in push (IvTryEmplace (tg, x))
        | "upc" -> let x = next_z t in push (IvUncheckedPushCr (tg, x))
        | "upr" -> let x = next_z t in push (IvUncheckedPushRv (tg, x))
        | "upe" -> let x = next_z t in push (IvUncheckedEmplace (tg, x))
        | "ivc" -> push (IvCopyConstruct tg)
        | "ivm" -> push (IvMoveConstruct tg)
        | "iva" -> push (IvCopyAssign tg)
        | "ivx" -> push (IvMoveAssign tg)
        | "isc" -> push (IvSelfCopyAssign tg)
        | "ism" -> push (IvSelfMoveAssign tg)
        | "sir" -> let x = next_z t in push (SetInsertRv (tg, x))
        | "sic" -> let x = next_z t in push (SetInsertCr (tg, x))
        | "sem" -> let x = next_z t in push (SetEmplace (tg, x))
        | "sek" -> let x = next_z t in push (SetEraseKey (tg, x))
        | "fir" -> let x = next_z t in push (FlatInsertRv (tg, x))
        | "fic" -> let x = next_z t in push (FlatInsertCr (tg, x))
        | "fem" -> let x = next_z t in push (FlatEmplace (tg, x))
        | "fek" -> let x = next_z t in push (FlatEraseKey (tg, x))
        | "fex" -> push (FlatExtract tg)
        | "frp" -> let xs = zl t in push (FlatReplace (tg, xs))
        | _ -> raise Not_found))
  done;
  List.rev !ops

(* flavour whose assignment operators are defaulted (trivial): the real code cannot log them, so the
   Assign events of the model are left out of what is compared (values are still compared) *)
let silent_assign = ref false

let sname = function Dead -> "D" | Live -> "L" | MovedFrom -> "M"
let kname = function KValue -> "v" | KCopy -> "c" | KMove -> "m"
let osrc = function None -> "" | Some s -> sname s
let tok_s = function
  | PConstruct (k, s) -> "C" ^ kname k ^ osrc s
  | PAssign (k, s) -> "A" ^ kname k ^ osrc s
  | PMovedFrom -> "M"
  | PDestroy -> "D"
  | PUse -> "U"

(* group the projection by persistent slot (objects 0 and 1), ordered by (object, index) *)
let render_proj (toks : (loc * ptok) list) : string =
  let tbl = Hashtbl.create 16 in
  List.iter (fun (l, tk) ->
      match l with
      | _ when !silent_assign && (match tk with PAssign (KValue, _) -> false | PAssign _ -> true | _ -> false) -> ()   (* operator=(int) is user-provided: logged *)
      | Slot (c, i) when int_of_nat c < 2 ->
        let key = (int_of_nat c, int_of_nat i) in
        let old = try Hashtbl.find tbl key with Not_found -> [] in
        Hashtbl.replace tbl key (tok_s tk :: old)
      | _ -> ()) toks;
  let keys = List.sort compare (Hashtbl.fold (fun k _ acc -> k :: acc) tbl []) in
  if keys = [] then "-"
  else join (List.map (fun (c, i) ->
      Printf.sprintf "%d.%d:%s" c i (String.concat "," (List.rev (Hashtbl.find tbl (c, i))))) keys)

(* raw events with temporaries named by first appearance within the step (diagnostics) *)
let render_raw (evs : event list) : string =
  let names = Hashtbl.create 16 in
  let name l =
    match l with
    | Slot (c, i) when int_of_nat c < 2 -> Printf.sprintf "s%d.%d" (int_of_nat c) (int_of_nat i)
    | _ ->
      (try Hashtbl.find names l
       with Not_found ->
         let used = Hashtbl.fold (fun _ v acc -> v :: acc) names [] in
         let rec free k = if List.mem (Printf.sprintf "t%d" k) used then free (k + 1) else k in
         let n = Printf.sprintf "t%d" (free 0) in Hashtbl.add names l n; n) in
  let forget l = match l with Slot (c, _) when int_of_nat c < 2 -> () | _ -> Hashtbl.remove names l in
  let how_s pre l h =
    let nl = name l in
    match h with
    | Value x -> Printf.sprintf "%sv:%s:%s" pre nl (str_of_z x)
    | Copy s -> let ns = name s in Printf.sprintf "%sc:%s:%s" pre nl ns
    | Move s -> let ns = name s in Printf.sprintf "%sm:%s:%s" pre nl ns in
  let one = function
    | Construct (l, h) -> how_s "C" l h
    | Assign (l, h) -> how_s "A" l h
    | Destroy l -> let n = name l in forget l; "D:" ^ n
    | Use l -> "U:" ^ name l in
  let evs = if !silent_assign then List.filter (function Assign (_, Value _) -> true | Assign _ -> false | _ -> true) evs else evs in
  if evs = [] then "-" else join (List.map one evs)

let render_step raw (r : report) : string =
  let head =
    if r.r_done then
      let (a, c) = r.r_obs in
      "ok " ^ zlist_s a ^ " " ^ zlist_s c
    else if r.r_fuel then "fuel" else "contract" in
  Printf.sprintf "; %s / %s tmp %d w %s" head (if raw then render_raw r.r_raw else render_proj r.r_toks)
    (int_of_nat r.r_tmp) (b2s r.r_ok)

(* the tail of a hist / rawhist leg: after a fired precondition nothing is compared beyond the legality of the prefix *)
let hist_tail raw steps fin wf alive =
  let body = String.concat " " (List.map (render_step raw) steps) in
  if List.exists (fun r -> not r.r_done) steps then
    Printf.sprintf "%s ; stopped ; wf %s" body (b2s (List.for_all (fun r -> r.r_ok) steps))
  else
    let finr = Printf.sprintf "; end / %s tmp %d w %s" (if raw then render_raw fin.r_raw else render_proj fin.r_toks)
        (int_of_nat fin.r_tmp) (b2s fin.r_ok) in
    Printf.sprintf "%s%s%s ; wf %s alive %d" body (if body = "" then "" else " ") finr (b2s wf) (int_of_nat alive)

let flavour_of family =
  silent_assign := false;
  let fl = String.sub family 3 (String.length family - 3) in
  let iv = String.sub family 0 3 = "iv_" in
  (fl <> "c", iv)


(* ---- owners of one object: variant / optional / expected / inplace_function ------------------- *)
(* by-index members and the inplace_function operations: ModelOwn.oop (XBase); the by-type members of a variant
   (emplace<T>, variant(in_place_type<T>, ...)): ModelOwnT.xoop *)
let parse_oops (t : toks) : xoop list =
  let k = next_int t in
  let ops = ref [] in
  for _ = 1 to k do
    let o = next_str t in
    let pushx x = ops := x :: !ops in
    let push x = pushx (XBase x) in
    (match o with
     | "vsw" -> push VSwap
     | "fsw" -> push FSwap
     | _ ->
       let tg = b t in
       (match o with
        | "vem" -> let j = next_nat t in let x = next_z t in push (VEmplace (tg, j, x))
        | "vet" -> let j = next_nat t in let x = next_z t in pushx (XEmplaceType (tg, j, x))     (* v.emplace<Tj>(x) *)
        | "vty" -> let j = next_nat t in let x = next_z t in pushx (XAssignTmpType (tg, j, x))   (* { V tmp(in_place_type<Tj>, x); v = move(tmp); } *)
        | "vsy" -> let j = next_nat t in let x = next_z t in pushx (XScopedType (j, x))          (* { V c(in_place_type<Tj>, x); } *)
        | "var" -> let j = next_nat t in let x = next_z t in push (VAssignRv (tg, j, x))
        | "vac" -> let j = next_nat t in let x = next_z t in push (VAssignCr (tg, j, x))
        | "vav" -> let j = next_nat t in let x = next_z t in push (VAssignConv (tg, j, x))
        | "vat" -> let j = next_nat t in let x = next_z t in push (VAssignTmp (tg, j, x))
        | "vca" -> push (VCopyAssign tg)
        | "vma" -> push (VMoveAssign tg)
        | "vsc" -> push (VSelfCopyAssign tg)
        | "vsm" -> push (VSelfMoveAssign tg)
        | "vcc" -> push (VCopyConstruct tg)
        | "vmc" -> push (VMoveConstruct tg)
        | "vss" -> push (VSelfSwap tg)
        | "vvc" -> let j = next_nat t in let x = next_z t in push (VValueOrC (tg, j, x))
        | "vvm" -> let j = next_nat t in let x = next_z t in push (VValueOrM (tg, j, x))
        | "voc" -> push (VCopyConstruct tg)     (* optional::or_else const&: *this ? *this : f() *)
        | "vom" -> push (VMoveConstruct tg)     (* optional::or_else &&:     *this ? move( *this) : f() *)
        | "vsv" | "vsu" | "vsr" -> let j = next_nat t in let x = next_z t in push (VScopedValue (j, x))
        | "vau" | "vaw" -> let j = next_nat t in let x = next_z t in push (VAssignFromU (tg, j, x))   (* optional = optional<U>: reset() / **this = *other / emplace( *other) *)
        | "vnd" -> push (VCopyIf (tg, nat_of_int 0))   (* optional::and_then: nothing is copied *)
        | "vne" -> push (VMoveIf (tg, nat_of_int 0))
        | "vnc" | "vnl" -> push (VCopyIf (tg, nat_of_int 1))   (* expected::and_then: U(unexpect, error()) *)
        | "vnm" -> push (VMoveIf (tg, nat_of_int 1))
        | "vrc" -> push (VCopyIf (tg, nat_of_int 0))           (* expected::or_else: G(in_place, **this) *)
        | "vrm" -> push (VMoveIf (tg, nat_of_int 0))
        | "fac" -> let j = next_nat t in let x = next_z t in push (FAssignCr (tg, j, x))
        | "fxc" -> push (FCopyConstruct tg)     (* converting constructors from another capacity *)
        | "fxm" -> push (FMoveConstruct tg)
        | "fas" -> let j = next_nat t in let x = next_z t in push (FAssign (tg, j, x))
        | "fan" -> push (FAssignNull tg)
        | "fca" -> push (FCopyAssign tg)
        | "fma" -> push (FMoveAssign tg)
        | "fsc" -> push (FSelfCopyAssign tg)
        | "fsm" -> push (FSelfMoveAssign tg)
        | "fcc" -> push (FCopyConstruct tg)
        | "fmc" -> push (FMoveConstruct tg)
        | "fss" -> push (FSelfSwap tg)
        | "fiv" -> push (FInvoke tg)
        | _ -> raise Not_found))
  done;
  List.rev !ops

(* family = (var|opt|exp|fun)_(cm|m|c): which alternatives are instrumented class types *)
let own_family family =
  let kind = String.sub family 0 3 in
  let fl = String.sub family 4 (String.length family - 4) in
  let trk = match kind with
    | "var" -> [0; 2]       (* variant<TA, int, TB> *)
    | "vpd" -> [0; 2]       (* variant<TA, int, TB, Pod>: Pod is a trivially destructible class type, no special member to observe *)
    | "opt" -> [1]          (* optional<T> = variant<nullopt_t, T> *)
    | "exp" -> [0; 1]       (* expected<T, E> = variant<T, E> *)
    | "fun" -> [1; 2]       (* inplace_function holding C1 / C2, 0 = empty *)
    | _ -> raise Not_found in
  silent_assign := (fl = "t");
  (fl = "cm" || fl = "m", trk_of (List.map nat_of_int trk), kind = "fun")

let run_own op t =
  let family = next_str t in
  let ops = parse_oops t in
  let (fl, trk, fn) = own_family family in
  let ((steps, fin), (wf, alive)) = own_run_case_x fl trk fn ops in
  if op = "omon" then begin
    let stopped = List.exists (fun r -> not r.r_done) steps in
    let selfs = own_self_checks_x fl trk fn ops in
    let st = storage_wf (own_trace_x fl trk fn ops) in
    let m =
      if stopped then Printf.sprintf "contract wf %s" (b2s (List.for_all (fun r -> r.r_ok) steps))
      else Printf.sprintf "wf %s alive %d st %s self%s" (b2s wf) (int_of_nat alive) (b2s st)
          (String.concat "" (List.map (fun x -> " " ^ b2s x) selfs)) in
    let sp = match own_spec_verdict_x ops with
      | None -> "na"
      | Some (((w, a), ss), st') ->
        Printf.sprintf "wf %s alive %d st %s self%s" (b2s w) (int_of_nat a) (b2s st') (String.concat "" (List.map (fun x -> " " ^ b2s x) ss)) in
    (m, sp)
  end else begin
    let raw = op = "orawhist" in
    (hist_tail raw steps fin wf alive, "na")
  end


(* ---- pair / tuple ------------------------------------------------------------------------------ *)
let parse_aops (t : toks) : aop list =
  let k = next_int t in
  let ops = ref [] in
  for _ = 1 to k do
    let o = next_str t in
    let push x = ops := x :: !ops in
    (match o with
     | "asw" -> push ASwap
     | "ace" | "acp" -> push ACtorCopyEach    (* from k objects / from the members of a pair<U0, U1> *)
     | "ame" | "amp" -> push ACtorMoveEach
     | _ ->
       let tg = b t in
       (match o with
        | "aca" -> push (ACopyAssign tg)
        | "ama" -> push (AMoveAssign tg)
        | "asc" -> push (ASelfCopyAssign tg)
        | "asm" -> push (ASelfMoveAssign tg)
        | "acc" -> push (ACopyConstruct tg)
        | "amc" -> push (AMoveConstruct tg)
        | "ass" -> push (ASelfSwap tg)
        | "aqa" -> push (AConvCopyAssign tg)
        | "aqm" -> push (AConvMoveAssign tg)
        | _ -> raise Not_found))
  done;
  List.rev !ops

let run_agg op t =
  silent_assign := false;
  let family = next_str t in
  let ops = parse_aops t in
  let fl = String.sub family 3 (String.length family - 3) <> "c" in
  let k = nat_of_int (if String.sub family 0 2 = "pr" then 2 else 3) in
  let ((steps, fin), (wf, alive)) = agg_run_case fl k ops in
  if op = "amon" then begin
    let selfs = agg_self_checks fl k ops in
    let m = Printf.sprintf "wf %s alive %d self%s" (b2s wf) (int_of_nat alive)
        (String.concat "" (List.map (fun x -> " " ^ b2s x) selfs)) in
    let sp = Printf.sprintf "wf 1 alive 0 self%s"
        (String.concat "" (List.init (int_of_nat (agg_count_self ops)) (fun _ -> " 1"))) in
    (m, sp)
  end else begin
    let raw = op = "arawhist" in
    (hist_tail raw steps fin wf alive, "na")
  end

(* pcopy: element type with trivial destructor / assignment: only the copy constructions can be observed *)
let run_pcopy t =
  silent_assign := false;
  let kind = next_str t in
  let cap = next_nat t in
  let n = next_int t in
  let m = next_int t in
  let what = next_str t in
  let iv = kind = "iv" in
  let z i = z_of_int i in
  let fill tg base k = List.init k (fun i -> if iv then IvUncheckedEmplace (tg, z (base + i)) else EmplaceBack (tg, z (base + i))) in
  let last = match what, iv with
    | "cc", false -> CopyConstruct false | "mc", false -> MoveConstruct false
    | "ca", false -> CopyAssign true | "ma", false -> MoveAssign true
    | "cc", true -> IvCopyConstruct false | "mc", true -> IvMoveConstruct false
    | "ca", true -> IvCopyAssign true | "ma", true -> IvMoveAssign true
    | _ -> raise Not_found in
  let ops = fill false 1 n @ fill true 101 m @ [last] in
  let ((steps, _), _) = run_case false cap iv ops in
  let r = List.nth steps (List.length steps - 1) in
  let nm = function Slot (c, i) -> Printf.sprintf "s%d.%d" (int_of_nat c) (int_of_nat i) | _ -> "x" in
  let evs = List.filter_map (function
      | Construct (l, Copy s) -> Some (Printf.sprintf "C:%s:%s" (nm l) (nm s))
      | Construct (l, Move s) -> Some (Printf.sprintf "M:%s:%s" (nm l) (nm s))
      | Construct (l, Value _) -> Some (Printf.sprintf "E0:%s" (nm l))
      | _ -> None) r.r_raw in
  let (a, c) = r.r_obs in
  let model = String.concat " " (evs @ [";"; zlist_s a; zlist_s c]) in
  (* the property, written down directly *)
  let third = what = "cc" || what = "mc" in
  let moved = what = "mc" || what = "ma" in
  let seqs base k = String.concat " " (string_of_int k :: List.init k (fun i -> string_of_int (base + i))) in
  let sp_evs = List.init n (fun i -> Printf.sprintf "C:s%d.%d:s0.%d" (if third then 2 else 1) i i) in
  let sp = String.concat " " (sp_evs @ [";"; (if iv && moved then "0" else seqs 1 n); (if third then seqs 101 m else seqs 1 n)]) in
  (model, sp)

(* pown: the same for the alternatives of a variant / optional / expected *)
let run_pown t =
  silent_assign := false;
  let kind = next_str t in
  let i0 = next_int t in
  let i1 = next_int t in
  let what = next_str t in
  let tracked i = match kind with "var" -> i = 0 || i = 2 | "opt" -> i = 1 | _ -> true in
  let trk = trk_of (List.map nat_of_int (match kind with "var" -> [0; 2] | "opt" -> [1] | "exp" -> [0; 1] | _ -> raise Not_found)) in
  let set tg i x = if kind = "exp" && i = 1 then VAssignTmp (tg, nat_of_int i, z_of_int x) else VEmplace (tg, nat_of_int i, z_of_int x) in
  let last = match what with
    | "cc" -> VCopyConstruct false | "mc" -> VMoveConstruct false
    | "ca" -> VCopyAssign true | "ma" -> VMoveAssign true
    | _ -> raise Not_found in
  let ((steps, _), _) = own_run_case false trk false [set false i0 11; set true i1 22; last] in
  let r = List.nth steps 2 in
  let nm = function Slot (c, i) -> Printf.sprintf "%d.%d" (int_of_nat c) (int_of_nat i) | _ -> "x" in
  let evs = List.filter_map (function
      | Construct (l, Copy s) -> Some (Printf.sprintf "C:%s:%s" (nm l) (nm s))
      | Construct (l, Move s) -> Some (Printf.sprintf "M:%s:%s" (nm l) (nm s))
      | Construct (l, Value _) -> Some (Printf.sprintf "E0:%s" (nm l))
      | _ -> None) r.r_raw in
  let (a, c) = r.r_obs in
  let model = String.concat " " (evs @ [";"] @ List.map str_of_z (a @ c)) in
  let third = what = "cc" || what = "mc" in
  let v i x = if tracked i then x else 0 in
  let sp_evs = if tracked i0 && (third || i1 <> i0) then [Printf.sprintf "C:%d.%d:0.%d" (if third then 2 else 1) i0 i0] else [] in
  let sp = String.concat " " (sp_evs @ [";"; string_of_int i0; string_of_int (v i0 11)]
                              @ (if third then [string_of_int i1; string_of_int (v i1 22)] else [string_of_int i0; string_of_int (v i0 11)])) in
  (model, sp)

(* uhist / umon: uninitialized_copy / _move / _fill with a throwing element constructor (ModelMem.uninit) *)
let run_umem op t =
  let what = next_str t in
  let n = next_int t in
  let k = next_int t in
  let dst = nat_of_int 2 in
  let ext j = Ext (nat_of_int j) in
  let hs = List.init n (fun j -> match what with
      | "copy" -> Copy (ext j) | "move" -> Move (ext j) | "fill" -> Copy (ext 0) | _ -> raise Not_found) in
  let (evs, thrown) = uninit dst hs (if k < 0 then None else Some (nat_of_int k)) in
  (* the returned iterator `current` was incremented once per element built (copy / move; fill returns nothing) *)
  let built = List.length (List.filter (function Construct _ -> true | _ -> false) evs) in
  let ret = if thrown || what = "fill" then "-" else string_of_int built in
  let nm = function Slot (_, i) -> Printf.sprintf "d.%d" (int_of_nat i) | Ext j -> Printf.sprintf "s.%d" (int_of_nat j) | Temp _ -> "x.0" in
  if op = "uhist" then begin
    let one = function
      | Construct (l, Copy s) -> Printf.sprintf "Cc:%s:%s" (nm l) (nm s)
      | Construct (l, Move s) -> Printf.sprintf "Cm:%s:%s" (nm l) (nm s)
      | Construct (l, Value _) -> Printf.sprintf "E0:%s" (nm l)
      | Destroy l -> "D:" ^ nm l
      | Assign (l, _) -> "A:" ^ nm l
      | Use l -> "U:" ^ nm l in
    (String.concat " " (List.map one evs @ ["; thrown"; b2s thrown; "ret"; ret]), "na")
  end else begin
    (* the sources are alive before the call *)
    let n_src = if what = "fill" then 1 else n in
    let pre = List.init n_src (fun j -> Construct (ext j, Value (z_of_int (10 + j)))) in
    let (_, m0) = arun [] pre in
    let (ok, m1) = arun m0 evs in
    let dest = List.length (List.filter (fun i -> alive m1 (Slot (dst, nat_of_int i))) (List.init 9 (fun i -> i))) in
    let model = Printf.sprintf "thrown %s wf %s dest %d ret %s" (b2s thrown) (b2s ok) dest ret in
    let expect_throw = k >= 0 && k < n in
    let sp = Printf.sprintf "thrown %s wf 1 dest %d ret %s" (b2s expect_throw) (if expect_throw then 0 else n)
        (if expect_throw || what = "fill" then "-" else string_of_int n) in
    (model, sp)
  end


(* ---- bhist / bmon: the stored element count around the limits of size_type (ModelSize.v) ------------ *)
let parse_cops (t : toks) : cop list =
  let k = next_int t in
  let ops = ref [] in
  for _ = 1 to k do
    let o = next_str t in
    let push x = ops := x :: !ops in
    (match o with
     | "swp" -> push CSwap
     | _ ->
       let tg = b t in
       (match o with
        | "fil" -> let k = next_z t in let x = next_z t in push (CFill (tg, k, x))
        | "pop" -> let k = next_z t in push (CPop (tg, k))
        | "clr" -> push (CClear tg)
        | "err" -> let f = next_z t in let l = next_z t in push (CErase (tg, f, l))
        | "rsz" -> let n = next_z t in push (CResize (tg, n))
        | "cpc" -> push (CCopyCtor tg)
        | "mvc" -> push (CMoveCtor tg)
        | "cpa" -> push (CCopyAssign tg)
        | "mva" -> push (CMoveAssign tg)
        | _ -> raise Not_found))
  done;
  List.rev !ops

let run_big op t =
  let family = next_str t in
  let cap = next_z t in
  let ops = parse_cops t in
  let kind = match String.sub family 0 2 with
    | "sv" -> KSv | "iv" -> KIv | "sk" -> KStack | "ss" -> KSet | "fs" -> KFlat | _ -> raise Not_found in
  let fls = String.sub family 3 (String.length family - 3) in
  let trivial = fls = "i" in
  let fl = fls = "cm" in
  let states = crun_code cap fl kind trivial ops in
  let obs_s o =
    let ((n, pv), sum) = cobs o in
    Printf.sprintf "%s %s %s" (str_of_z n) (zlist_s pv) (str_of_z sum) in
  let tail s =
    if trivial then "/ 0 0 0 0 0 0 w 1 a 0 0 0"
    else
      let c = s.s_w.w_cnt in
      Printf.sprintf "/ %s %s %s %s %s %s w %s a %s %s 0" (str_of_z c.n_vc) (str_of_z c.n_cc) (str_of_z c.n_mc)
        (str_of_z c.n_ca) (str_of_z c.n_ma) (str_of_z c.n_dt) (b2s s.s_w.w_ok) (str_of_z s.s_a.c_live) (str_of_z s.s_b.c_live) in
  let stopped = List.exists (fun x -> x = None) states in
  let some = List.filter_map (fun x -> x) states in
  let last = match List.rev some with [] -> cst0 | s :: _ -> s in
  let outside = List.exists (fun s -> not s.s_w.w_dom) some in
  let okb s = if trivial then true else s.s_w.w_ok in
  let sizes sts = String.concat "" (List.map (fun s -> Printf.sprintf " %s %s" (str_of_z s.s_a.c_size) (str_of_z s.s_b.c_size)) sts) in
  if outside then ("outside-model", "na")
  else if op = "bmon" then begin
    let m =
      if stopped then Printf.sprintf "contract wf %s" (b2s (okb last))
      else
        let f = cfinal last in
        Printf.sprintf "sizes%s wf %s alive %s" (sizes some) (b2s (okb f)) (if trivial then "0" else str_of_z (alive_of f)) in
    (* the property: the sizes of a count that is never converted to a narrower type, every call legal, nothing left alive *)
    let ideal = crun_ideal cap fl kind trivial ops in
    let sp =
      if List.exists (fun x -> x = None) ideal then "na"
      else
        let sts = List.filter_map (fun x -> x) ideal in
        if List.exists (fun s -> not s.s_w.w_dom) sts then "na"
        else Printf.sprintf "sizes%s wf 1 alive 0" (sizes sts) in
    (m, sp)
  end else begin
    let body = String.concat " " (List.map (fun s -> Printf.sprintf "; ok %s %s %s" (obs_s s.s_a) (obs_s s.s_b) (tail s)) some) in
    let sep = if body = "" then "" else " " in
    if stopped then (Printf.sprintf "%s%s; contract ; stopped ; wf %s" body sep (b2s (okb last)), "na")
    else (Printf.sprintf "%s%s; end %s" body sep (tail (cfinal last)), "na")
  end

let run_case op t =
  match op with
  | "bhist" | "bmon" -> run_big op t
  | "uhist" | "umon" -> run_umem op t
  | "pcopy" -> run_pcopy t
  | "pown" -> run_pown t
  | "hist" | "rawhist" | "mon" ->
    let family = next_str t in
    let cap = next_nat t in
    let ops = parse_ops t in
    let (fl, iv) = flavour_of family in
    let ((steps, fin), (wf, alive)) = run_case fl cap iv ops in
    if op = "mon" then begin
      let stopped = List.exists (fun r -> not r.r_done) steps in
      let selfs = self_checks fl cap iv (O, O) [] ops in
      let m =
        if stopped then Printf.sprintf "contract wf %s" (b2s (List.for_all (fun r -> r.r_ok) steps))
        else Printf.sprintf "wf %s alive %d self%s" (b2s wf) (int_of_nat alive)
            (String.concat "" (List.map (fun x -> " " ^ b2s x) selfs)) in
      let sp = match spec_verdict fl cap ops with
        | None -> "na"
        | Some ((w, a), ss) ->
          Printf.sprintf "wf %s alive %d self%s" (b2s w) (int_of_nat a) (String.concat "" (List.map (fun x -> " " ^ b2s x) ss)) in
      (m, sp)
    end else begin
      let raw = op = "rawhist" in
      (hist_tail raw steps fin wf alive, "na")
    end
  | "ohist" | "orawhist" | "omon" -> run_own op t
  | "ahist" | "arawhist" | "amon" -> run_agg op t
  | _ -> raise Not_found

let () = main run_case
