(* C03 driver: histories through the extracted event-emitting model (Model.run_case), the extracted
   monitor (Trace.monitor / wf_trace / alive_count) and the spec (Spec.spec_verdict).
   Parsing and printing only. *)
let b t = next_int t <> 0
let zl t = next_zlist t

let parse_ops (t : toks) : op list =
  let k = next_int t in
  let ops = ref [] in
  for _ = 1 to k do
    let o = next_str t in
    let push x = ops := x :: !ops in
    (match o with
     | "swp" -> push Swap
     | _ ->
       let tg = b t in
       (match o with
        | "pbr" -> let x = next_z t in push (PushBackRv (tg, x))
        | "pbc" -> let x = next_z t in push (PushBackCr (tg, x))
        | "eb" -> let x = next_z t in push (EmplaceBack (tg, x))
        | "pop" -> push (PopBack tg)
        | "icr" -> let p = next_nat t in let x = next_z t in push (InsertCr (tg, p, x))
        | "irv" -> let p = next_nat t in let x = next_z t in push (InsertRv (tg, p, x))
        | "emp" -> let p = next_nat t in let x = next_z t in push (EmplaceAt (tg, p, x))
        | "inn" -> let p = next_nat t in let n = next_nat t in let x = next_z t in push (InsertN (tg, p, n, x))
        | "irg" -> let p = next_nat t in let xs = zl t in push (InsertRange (tg, p, xs))
        | "mig" -> let p = next_nat t in let xs = zl t in push (MoveInsertRange (tg, p, xs))
        | "era" -> let p = next_nat t in push (EraseAt (tg, p))
        | "err" -> let f = next_nat t in let l = next_nat t in push (EraseRange (tg, f, l))
        | "clr" -> push (Clear tg)
        | "rsz" -> let n = next_nat t in push (Resize (tg, n))
        | "rsv" -> let n = next_nat t in let x = next_z t in push (ResizeVal (tg, n, x))
        | "asn" -> let n = next_nat t in let x = next_z t in push (AssignN (tg, n, x))
        | "asr" -> let xs = zl t in push (AssignRange (tg, xs))
        | "cpa" -> push (CopyAssign tg)
        | "mva" -> push (MoveAssign tg)
        | "cpc" -> push (CopyConstruct tg)
        | "mvc" -> push (MoveConstruct tg)
        | "mrt" -> push (MoveRoundTrip tg)
        | "eif" -> let p = next_z t in push (EraseIf (tg, p))
        | "erv" -> let x = next_z t in push (EraseVal (tg, x))
        | "sca" -> push (SelfCopyAssign tg)
        | "sma" -> push (SelfMoveAssign tg)
        | "ssw" -> push (SelfSwap tg)
        | "tpc" -> let x = next_z t in push (IvTryPushCr (tg, x))
        | "tpr" -> let x = next_z t in push (IvTryPushRv (tg, x))
        | "tpe" -> let x = next_z t in push (IvTryEmplace (tg, x))
        | "upc" -> let x = next_z t in push (IvUncheckedPushCr (tg, x))
        | "upr" -> let x = next_z t in push (IvUncheckedPushRv (tg, x))
        | "upe" -> let x = next_z t in push (IvUncheckedEmplace (tg, x))
        | "ivc" -> push (IvCopyConstruct tg)
        | "ivm" -> push (IvMoveConstruct tg)
        | _ -> raise Not_found))
  done;
  List.rev !ops

let sname = function Dead -> "D" | Live -> "L" | MovedFrom -> "M"
let kname = function KValue -> "v" | KCopy -> "c" | KMove -> "m"
let osrc = function None -> "" | Some s -> sname s
let tok_s = function
  | PConstruct (k, s) -> "C" ^ kname k ^ osrc s
  | PAssign (k, s) -> "A" ^ kname k ^ osrc s
  | PMovedFrom -> "M"
  | PDestroy -> "D"
  | PUse -> "U"

(* group the projection by persistent slot (objects 0 and 1), ordered by (object, index) *)
let render_proj (toks : (loc * ptok) list) : string =
  let tbl = Hashtbl.create 16 in
  List.iter (fun (l, tk) ->
      match l with
      | Slot (c, i) when int_of_nat c < 2 ->
        let key = (int_of_nat c, int_of_nat i) in
        let old = try Hashtbl.find tbl key with Not_found -> [] in
        Hashtbl.replace tbl key (tok_s tk :: old)
      | _ -> ()) toks;
  let keys = List.sort compare (Hashtbl.fold (fun k _ acc -> k :: acc) tbl []) in
  if keys = [] then "-"
  else join (List.map (fun (c, i) ->
      Printf.sprintf "%d.%d:%s" c i (String.concat "," (List.rev (Hashtbl.find tbl (c, i))))) keys)

(* raw events with temporaries named by first appearance within the step (diagnostics) *)
let render_raw (evs : event list) : string =
  let names = Hashtbl.create 16 in
  let name l =
    match l with
    | Slot (c, i) when int_of_nat c < 2 -> Printf.sprintf "s%d.%d" (int_of_nat c) (int_of_nat i)
    | _ ->
      (try Hashtbl.find names l
       with Not_found ->
         let used = Hashtbl.fold (fun _ v acc -> v :: acc) names [] in
         let rec free k = if List.mem (Printf.sprintf "t%d" k) used then free (k + 1) else k in
         let n = Printf.sprintf "t%d" (free 0) in Hashtbl.add names l n; n) in
  let forget l = match l with Slot (c, _) when int_of_nat c < 2 -> () | _ -> Hashtbl.remove names l in
  let how_s pre l h =
    let nl = name l in
    match h with
    | Value x -> Printf.sprintf "%sv:%s:%s" pre nl (str_of_z x)
    | Copy s -> let ns = name s in Printf.sprintf "%sc:%s:%s" pre nl ns
    | Move s -> let ns = name s in Printf.sprintf "%sm:%s:%s" pre nl ns in
  let one = function
    | Construct (l, h) -> how_s "C" l h
    | Assign (l, h) -> how_s "A" l h
    | Destroy l -> let n = name l in forget l; "D:" ^ n
    | Use l -> "U:" ^ name l in
  if evs = [] then "-" else join (List.map one evs)

let render_step raw (r : report) : string =
  let head =
    if r.r_done then
      let (a, c) = r.r_obs in
      "ok " ^ zlist_s a ^ " " ^ zlist_s c
    else if r.r_fuel then "fuel" else "contract" in
  Printf.sprintf "; %s / %s tmp %d w %s" head (if raw then render_raw r.r_raw else render_proj r.r_toks)
    (int_of_nat r.r_tmp) (b2s r.r_ok)

let flavour_of family =
  let fl = String.sub family 3 (String.length family - 3) in
  let iv = String.sub family 0 3 = "iv_" in
  (fl <> "c", iv)

let run_case op t =
  match op with
  | "hist" | "rawhist" | "mon" ->
    let family = next_str t in
    let cap = next_nat t in
    let ops = parse_ops t in
    let (fl, iv) = flavour_of family in
    let ((steps, fin), (wf, alive)) = run_case fl cap iv ops in
    if op = "mon" then begin
      let stopped = List.exists (fun r -> not r.r_done) steps in
      let selfs = self_checks fl cap iv (O, O) [] ops in
      let m = Printf.sprintf "%swf %s alive %d self%s" (if stopped then "contract " else "") (b2s wf) (int_of_nat alive)
          (String.concat "" (List.map (fun x -> " " ^ b2s x) selfs)) in
      let sp = match spec_verdict fl cap ops with
        | None -> "na"
        | Some ((w, a), ss) ->
          Printf.sprintf "wf %s alive %d self%s" (b2s w) (int_of_nat a) (String.concat "" (List.map (fun x -> " " ^ b2s x) ss)) in
      (m, sp)
    end else begin
      let raw = op = "rawhist" in
      let body = String.concat " " (List.map (render_step raw) steps) in
      let finr = Printf.sprintf "; end / %s tmp %d w %s" (if raw then render_raw fin.r_raw else render_proj fin.r_toks)
          (int_of_nat fin.r_tmp) (b2s fin.r_ok) in
      let m = Printf.sprintf "%s%s%s ; wf %s alive %d" body (if body = "" then "" else " ") finr (b2s wf) (int_of_nat alive) in
      (m, "na")
    end
  | _ -> raise Not_found

let () = main run_case
