// C03: instrumented element types and the run-time lifetime monitor (C++ side of coq/C03/Trace.v).
//
// Every special member function of a tracked type appends (kind, this, other, value) to a global
// log.  The harness translates addresses to locations (slot i of persistent object c, or a
// temporary keyed by its address), feeds the events to `Monitor` -- a re-implementation of the
// automaton `astep` / projection `ptoks_of` of coq/C03/Trace.v, cross-checked against the Coq
// one on every case through the model leg -- and prints the per-location lifecycle projection.
#ifndef VERIF_C03_TRACK_HPP
#define VERIF_C03_TRACK_HPP

#include <cstdint>
#include <map>
#include <string>
#include <type_traits>
#include <utility>
#include <vector>

namespace trk {

enum EvKind : int { CV = 0, CC = 1, CM = 2, AC = 3, AM = 4, DT = 5, US = 6, AV = 7 };

struct Ev {
    int kind;
    void const* self;
    void const* other;
    int value;
    int tag;   // which instrumented type (alternative of a variant, callable type of an inplace_function)
};

inline std::vector<Ev> g_log;
inline void log(int kind, void const* self, void const* other, int value, int tag = 0)
{
    g_log.push_back(Ev{kind, self, other, value, tag});
}

constexpr int moved_marker = -1;

// copy + move
struct TrkCM {
    static constexpr bool copyable = true;
    static constexpr bool movable  = true;
    int v;
    TrkCM() : v{0} { log(CV, this, nullptr, 0); }
    explicit TrkCM(int x) : v{x} { log(CV, this, nullptr, x); }
    TrkCM(TrkCM const& o) : v{o.v} { log(CC, this, &o, v); }
    TrkCM(TrkCM&& o) noexcept : v{o.v} { o.v = moved_marker; log(CM, this, &o, v); }
    auto operator=(TrkCM const& o) -> TrkCM& { v = o.v; log(AC, this, &o, v); return *this; }
    auto operator=(TrkCM&& o) noexcept -> TrkCM& { int t = o.v; o.v = moved_marker; v = t; log(AM, this, &o, v); return *this; }
    ~TrkCM() { log(DT, this, nullptr, v); }
    friend bool operator==(TrkCM const& a, TrkCM const& b) { return a.v == b.v; }
    friend bool operator<(TrkCM const& a, TrkCM const& b) { return a.v < b.v; }
};

// move-only
struct TrkM {
    static constexpr bool copyable = false;
    static constexpr bool movable  = true;
    int v;
    TrkM() : v{0} { log(CV, this, nullptr, 0); }
    explicit TrkM(int x) : v{x} { log(CV, this, nullptr, x); }
    TrkM(TrkM const&)                    = delete;
    auto operator=(TrkM const&) -> TrkM& = delete;
    TrkM(TrkM&& o) noexcept : v{o.v} { o.v = moved_marker; log(CM, this, &o, v); }
    auto operator=(TrkM&& o) noexcept -> TrkM& { int t = o.v; o.v = moved_marker; v = t; log(AM, this, &o, v); return *this; }
    ~TrkM() { log(DT, this, nullptr, v); }
    friend bool operator==(TrkM const& a, TrkM const& b) { return a.v == b.v; }
    friend bool operator<(TrkM const& a, TrkM const& b) { return a.v < b.v; }
};

// copy-only: no move operations are declared, so an rvalue is served by the copy operations
struct TrkC {
    static constexpr bool copyable = true;
    static constexpr bool movable  = false;
    int v;
    TrkC() : v{0} { log(CV, this, nullptr, 0); }
    explicit TrkC(int x) : v{x} { log(CV, this, nullptr, x); }
    TrkC(TrkC const& o) noexcept : v{o.v} { log(CC, this, &o, v); }
    auto operator=(TrkC const& o) noexcept -> TrkC& { v = o.v; log(AC, this, &o, v); return *this; }
    ~TrkC() { log(DT, this, nullptr, v); }
    friend bool operator==(TrkC const& a, TrkC const& b) { return a.v == b.v; }
    friend bool operator<(TrkC const& a, TrkC const& b) { return a.v < b.v; }
};

// ---- tagged flavours: distinct types for the alternatives of a variant / the callables of an
// inplace_function.  operator()(int* peek): peek != nullptr reads the value without an event.
template <int Tag>
struct TCM {
    static constexpr bool copyable = true;
    static constexpr bool movable  = true;
    static constexpr int tag       = Tag;
    int v;
    TCM() : v{0} { log(CV, this, nullptr, 0, Tag); }
    explicit TCM(int x) noexcept : v{x} { log(CV, this, nullptr, x, Tag); }
    TCM(TCM const& o) : v{o.v} { log(CC, this, &o, v, Tag); }
    TCM(TCM&& o) noexcept : v{o.v} { o.v = moved_marker; log(CM, this, &o, v, Tag); }
    auto operator=(TCM const& o) -> TCM& { v = o.v; log(AC, this, &o, v, Tag); return *this; }
    auto operator=(TCM&& o) noexcept -> TCM& { int t = o.v; o.v = moved_marker; v = t; log(AM, this, &o, v, Tag); return *this; }
    // assignment from a value: makes is_assignable_v<T&, int> true (optional<T> = optional<int>); logged as AV
    auto operator=(int x) noexcept -> TCM& { v = x; log(AV, this, nullptr, x, Tag); return *this; }
    ~TCM() { log(DT, this, nullptr, v, Tag); }
    auto operator()(int* peek) const -> int
    {
        if (peek != nullptr) { *peek = v; } else { log(US, this, nullptr, v, Tag); }
        return Tag;
    }
};

template <int Tag>
struct TM {
    static constexpr bool copyable = false;
    static constexpr bool movable  = true;
    static constexpr int tag       = Tag;
    int v;
    TM() : v{0} { log(CV, this, nullptr, 0, Tag); }
    explicit TM(int x) noexcept : v{x} { log(CV, this, nullptr, x, Tag); }
    TM(TM const&)                    = delete;
    auto operator=(TM const&) -> TM& = delete;
    TM(TM&& o) noexcept : v{o.v} { o.v = moved_marker; log(CM, this, &o, v, Tag); }
    auto operator=(TM&& o) noexcept -> TM& { int t = o.v; o.v = moved_marker; v = t; log(AM, this, &o, v, Tag); return *this; }
    // assignment from a value: makes is_assignable_v<T&, int> true (optional<T> = optional<int>); logged as AV
    auto operator=(int x) noexcept -> TM& { v = x; log(AV, this, nullptr, x, Tag); return *this; }
    ~TM() { log(DT, this, nullptr, v, Tag); }
};

template <int Tag>
struct TC {
    static constexpr bool copyable = true;
    static constexpr bool movable  = false;
    static constexpr int tag       = Tag;
    int v;
    TC() : v{0} { log(CV, this, nullptr, 0, Tag); }
    explicit TC(int x) noexcept : v{x} { log(CV, this, nullptr, x, Tag); }
    TC(TC const& o) noexcept : v{o.v} { log(CC, this, &o, v, Tag); }
    auto operator=(TC const& o) noexcept -> TC& { v = o.v; log(AC, this, &o, v, Tag); return *this; }
    // assignment from a value: makes is_assignable_v<T&, int> true (optional<T> = optional<int>); logged as AV
    auto operator=(int x) noexcept -> TC& { v = x; log(AV, this, nullptr, x, Tag); return *this; }
    ~TC() { log(DT, this, nullptr, v, Tag); }
    auto operator()(int* peek) const -> int
    {
        if (peek != nullptr) { *peek = v; } else { log(US, this, nullptr, v, Tag); }
        return Tag;
    }
};

// copy-only with a DEFAULTED (trivial) copy assignment next to a user-provided copy constructor and
// destructor: is_trivially_copy_assignable but neither trivially copy-constructible nor trivially
// destructible.  Assignments of this flavour cannot be observed (no event); the value is still copied.
template <int Tag>
struct TT {
    static constexpr bool copyable = true;
    static constexpr bool movable  = false;
    static constexpr int tag       = Tag;
    int v;
    TT() : v{0} { log(CV, this, nullptr, 0, Tag); }
    explicit TT(int x) noexcept : v{x} { log(CV, this, nullptr, x, Tag); }
    TT(TT const& o) noexcept : v{o.v} { log(CC, this, &o, v, Tag); }
    auto operator=(TT const& o) noexcept -> TT& = default;
    // assignment from a value: makes is_assignable_v<T&, int> true (optional<T> = optional<int>); logged as AV
    auto operator=(int x) noexcept -> TT& { v = x; log(AV, this, nullptr, x, Tag); return *this; }
    ~TT() { log(DT, this, nullptr, v, Tag); }
    auto operator()(int* peek) const -> int
    {
        if (peek != nullptr) { *peek = v; } else { log(US, this, nullptr, v, Tag); }
        return Tag;
    }
};
static_assert(std::is_trivially_copy_assignable_v<TT<0>> && !std::is_trivially_copy_constructible_v<TT<0>>
              && !std::is_trivially_destructible_v<TT<0>>);

// trivial default constructor, trivial destructor, trivial (defaulted) copy assignment, but a user-provided
// copy constructor: no destructor or assignment events exist for this type; what can be observed is which
// constructor ran on which storage from which source (op `pcopy`).
struct TrkP {
    static constexpr bool copyable = true;
    static constexpr bool movable  = false;
    int v;
    TrkP() = default;
    explicit TrkP(int x) noexcept : v{x} { log(CV, this, nullptr, x); }
    TrkP(TrkP const& o) noexcept : v{o.v} { log(CC, this, &o, v); }
    auto operator=(TrkP const& o) noexcept -> TrkP& = default;
};
static_assert(std::is_trivially_default_constructible_v<TrkP> && std::is_trivially_destructible_v<TrkP>
              && std::is_trivially_copy_assignable_v<TrkP> && !std::is_trivially_copy_constructible_v<TrkP>);

// the same as an alternative of a variant / optional / expected (op `pown`)
template <int Tag>
struct TP {
    static constexpr bool copyable = true;
    static constexpr bool movable  = false;
    static constexpr int tag       = Tag;
    int v;
    TP() = default;
    explicit TP(int x) noexcept : v{x} { log(CV, this, nullptr, x, Tag); }
    TP(TP const& o) noexcept : v{o.v} { log(CC, this, &o, v, Tag); }
    auto operator=(TP const& o) noexcept -> TP& = default;
    auto operator=(int x) noexcept -> TP& { v = x; log(AV, this, nullptr, x, Tag); return *this; }
};
static_assert(std::is_trivially_default_constructible_v<TP<0>> && std::is_trivially_destructible_v<TP<0>>
              && std::is_trivially_copy_assignable_v<TP<0>> && !std::is_trivially_copy_constructible_v<TP<0>>);

// an element type whose copy / move CONSTRUCTORS throw when the fuse has burnt down (op `uhist` / `umon`):
// fuse = k: k constructions succeed, the (k+1)-th throws (and creates no object, so it logs nothing); fuse < 0: never
// In a build without exceptions (-fno-exceptions: the `#else` branches of uninitialized_copy / _move / _fill) nothing can
// throw: the harness runs only the cases whose fuse never burns down there.
#if defined(__cpp_exceptions)
    #define C03_FUSE_BLOWN() throw 1
#else
    #define C03_FUSE_BLOWN() __builtin_trap()
#endif
inline int g_fuse = -1;
struct TrkX {
    int v;
    explicit TrkX(int x) : v{x} { log(CV, this, nullptr, x); }
    TrkX(TrkX const& o) : v{o.v}
    {
        if (g_fuse == 0) { C03_FUSE_BLOWN(); }
        if (g_fuse > 0) { --g_fuse; }
        log(CC, this, &o, v);
    }
    TrkX(TrkX&& o) : v{o.v}
    {
        if (g_fuse == 0) { C03_FUSE_BLOWN(); }
        if (g_fuse > 0) { --g_fuse; }
        o.v = moved_marker;
        log(CM, this, &o, v);
    }
    auto operator=(TrkX const& o) -> TrkX& { v = o.v; log(AC, this, &o, v); return *this; }
    ~TrkX() { log(DT, this, nullptr, v); }
};

// derived element types: the members of a pair<Der<T0>, Der<T1>> convert to T0 / T1 (slicing copy / move)
template <typename B>
struct Der : B {
    explicit Der(int x) noexcept : B(x) { }
};

// ---- locations -------------------------------------------------------------------------------
// persistent slot: (c, i) with c >= 0; temporary: c = -1, i = address
using Loc = std::pair<long, long>;

struct Region {
    char const* base{nullptr};
    std::size_t elem{1};
    std::size_t count{0};
};

struct Locator {
    std::vector<Region> regions;   // index = persistent object id
    // by_tag: an object anywhere inside region c is "alternative <tag> of object c" (variant,
    // inplace_function); collapsed: ... is "the storage of object c" (all alternatives one location)
    bool by_tag{false};
    bool collapsed{false};
    auto locate(void const* p, int tag = 0) const -> Loc
    {
        auto const* q = static_cast<char const*>(p);
        for (std::size_t c = 0; c < regions.size(); ++c) {
            auto const& r = regions[c];
            if (r.base != nullptr && q >= r.base && q < r.base + r.elem * r.count) {
                if (by_tag) { return Loc{static_cast<long>(c), collapsed ? 0L : static_cast<long>(tag)}; }
                auto off = static_cast<std::size_t>(q - r.base);
                if (off % r.elem == 0) { return Loc{static_cast<long>(c), static_cast<long>(off / r.elem)}; }
            }
        }
        return Loc{-1, static_cast<long>(reinterpret_cast<std::intptr_t>(p))};
    }
};

// ---- the automaton (mirror of Trace.astep / Trace.ptoks_of) ------------------------------------
enum St : int { Dead = 0, Live = 1, MovedFrom = 2 };

struct Monitor {
    std::map<Loc, int> st;
    bool wf{true};
    // lean: the automaton only (no projection / raw text): histories with tens of thousands of events (ops bhist / bmon)
    bool lean{false};

    auto get(Loc const& l) const -> int
    {
        auto it = st.find(l);
        return it == st.end() ? Dead : it->second;
    }
    static auto sname(int s) -> char { return s == Dead ? 'D' : (s == Live ? 'L' : 'M'); }

    // one chunk of the log (one step); fills the projection of persistent slots, the raw text, and
    // returns whether every event was legal
    struct StepOut {
        bool ok{true};
        std::map<Loc, std::string> proj;
        std::string raw;
        long tmp_alive{0};
    };

    auto run(Locator const& where, std::vector<Ev> const& evs, std::size_t from) -> StepOut
    {
        StepOut out;
        // raw text only: a temporary gets the smallest index not in use when it first appears and
        // gives it back when it is destroyed (so the name does not depend on stack addresses)
        std::map<Loc, int> tname;
        auto name = [&](Loc const& l) {
            if (l.first >= 0) { return "s" + std::to_string(l.first) + "." + std::to_string(l.second); }
            auto it = tname.find(l);
            if (it == tname.end()) {
                int k = 0;
                for (bool used = true; used; ) {
                    used = false;
                    for (auto const& kv : tname) { if (kv.second == k) { used = true; ++k; break; } }
                }
                it = tname.emplace(l, k).first;
            }
            return "t" + std::to_string(it->second);
        };
        auto tok = [&](Loc const& l, std::string const& t) {
            if (l.first < 0 || lean) { return; }
            auto& s = out.proj[l];
            if (!s.empty()) { s += ','; }
            s += t;
        };
        for (std::size_t k = from; k < evs.size(); ++k) {
            auto const& e = evs[k];
            Loc l         = where.locate(e.self, e.tag);
            bool has_src  = e.other != nullptr;
            Loc s         = has_src ? where.locate(e.other, e.tag) : Loc{-2, 0};
            int ls        = get(l);
            int ss        = has_src ? get(s) : Live;
            bool src_ok   = !has_src || ss != Dead;
            bool is_move  = e.kind == CM || e.kind == AM;
            bool legal    = true;
            char const* k3 = "v";
            if (e.kind == CC || e.kind == AC) { k3 = "c"; }
            if (is_move) { k3 = "m"; }
            if (!out.raw.empty()) { out.raw += ' '; }
            std::string nl = lean ? std::string() : name(l);
            std::string ns = (has_src && !lean) ? name(s) : std::string();
            switch (e.kind) {
            case CV:
            case CC:
            case CM: {
                legal = (ls == Dead) && src_ok;
                if (is_move) { tok(s, "M"); }
                tok(l, std::string("C") + k3 + (has_src ? std::string(1, sname(ss)) : std::string()));
                if (is_move && ss != Dead) { st[s] = MovedFrom; }
                st[l] = Live;
                if (!lean) { out.raw += std::string("C") + k3 + ":" + nl + ":" + (has_src ? ns : std::to_string(e.value)); }
                break;
            }
            case AC:
            case AM: {
                legal = (ls != Dead) && src_ok;
                if (is_move) { tok(s, "M"); }
                tok(l, std::string("A") + k3 + (has_src ? std::string(1, sname(ss)) : std::string()));
                if (is_move && ss != Dead) { st[s] = MovedFrom; }
                st[l] = Live;
                if (!lean) { out.raw += std::string("A") + k3 + ":" + nl + ":" + ns; }
                break;
            }
            case AV: {
                legal = ls != Dead;
                tok(l, "Av");
                st[l] = Live;
                if (!lean) { out.raw += "Av:" + nl + ":" + std::to_string(e.value); }
                break;
            }
            case DT: {
                legal = ls != Dead;
                tok(l, "D");
                st[l] = Dead;
                if (!lean) { out.raw += "D:" + nl; }
                if (l.first < 0) { tname.erase(l); }
                break;
            }
            default: {
                legal = ls != Dead;
                tok(l, "U");
                if (!lean) { out.raw += "U:" + nl; }
                break;
            }
            }
            if (!legal) { out.ok = false; wf = false; }
        }
        for (auto const& kv : st) {
            if (kv.first.first < 0 && kv.second != Dead) { ++out.tmp_alive; }
        }
        return out;
    }

    auto alive() const -> long
    {
        long n = 0;
        for (auto const& kv : st) {
            if (kv.second != Dead) { ++n; }
        }
        return n;
    }
};

inline auto render(Monitor::StepOut const& o, bool raw) -> std::string
{
    std::string s;
    if (raw) {
        s = o.raw.empty() ? "-" : o.raw;
    } else {
        for (auto const& kv : o.proj) {
            if (!s.empty()) { s += ' '; }
            s += std::to_string(kv.first.first) + "." + std::to_string(kv.first.second) + ":" + kv.second;
        }
        if (s.empty()) { s = "-"; }
    }
    s += " tmp " + std::to_string(o.tmp_alive) + " w " + (o.ok ? "1" : "0");
    return s;
}

// caller-side source range T src[n] = {xs...}: constructed and destroyed in index order
template <typename T>
struct Src {
    alignas(T) unsigned char raw[sizeof(T) * 24];
    std::size_t n{0};
    explicit Src(std::vector<long long> const& xs)
    {
        for (auto x : xs) {
            if (n < 24) { new (raw + sizeof(T) * n) T(static_cast<int>(x)); ++n; }
        }
    }
    Src(Src const&)                    = delete;
    auto operator=(Src const&) -> Src& = delete;
    ~Src()
    {
        for (std::size_t i = 0; i < n; ++i) { p()[i].~T(); }
    }
    auto p() -> T* { return reinterpret_cast<T*>(raw); }
};

} // namespace trk

#endif
