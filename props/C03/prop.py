"""C03 — element lifetimes: history generators.

Every history is emitted three times: as `hist` (model <-> code correspondence on element values and the
per-location lifecycle projection of the real event log), as `rawhist` (the same with the complete event
list in program order, temporaries named canonically: also the ORDER of the events across locations must
agree) and as `mon` (the property: verdict of the run-time monitor on the real log against `wf 1 alive 0`
+ self-operation identities).  Prefixes o / a: the variant-like and the pair/tuple families.
`pcopy` / `pown`: one copy/move construction or assignment with an element type that has no observable destructor.
`bhist` / `bmon`: bulk histories that walk the element count over the limits of size_type (coq/C03/ModelSize.v)."""
import itertools

ID = "C03"
LEVEL = "proof"
HARNESSES = [
    {"name": "main", "src": "harness.cpp", "flags": ["-O1", "-DTETL_ENABLE_CONTRACT_CHECKS=1"]},
    # the same histories in a build WITHOUT exceptions (the usual embedded configuration): the `#else` branch of every
    # `#if defined(__cpp_exceptions)` split of the library (uninitialized_copy / _move / _fill, reached through the
    # inplace_vector copy / move members and the static_vector(n, value) constructor) is compiled only here.  The cases
    # whose element constructor throws print `skip` in this build.
    {"name": "noexc", "src": "harness.cpp", "flags": ["-O1", "-fno-exceptions", "-DC03_EXPECT_NOEXC", "-DTETL_ENABLE_CONTRACT_CHECKS=1"]},
    # the same histories under ASan + UBSan (a report = `crash` = disagreement with the model)
    {"name": "asan", "src": "harness.cpp", "flags": ["-O1", "-g", "-fsanitize=address,undefined", "-fno-sanitize-recover=all",
                                                      "-DTETL_ENABLE_CONTRACT_CHECKS=1"], "thorough_only": True},
    {"name": "asan_noexc", "src": "harness.cpp", "flags": ["-O1", "-g", "-fno-exceptions", "-DC03_EXPECT_NOEXC",
                                                            "-fsanitize=address,undefined", "-fno-sanitize-recover=all",
                                                            "-DTETL_ENABLE_CONTRACT_CHECKS=1"], "thorough_only": True},
]
RULE = ("a case = a whole operation history on two objects of one family, from their construction to both destructors, run three "
        "times: lifecycle projection (hist), complete event order (rawhist), monitor verdict (mon). Families: static_vector / "
        "inplace_vector (capacities 0,1,2,3,4,16) / stack / static_set / flat_set (1,2,3,4,16), variant<T0,int,T2> / "
        "variant<T0,int,T2,Pod> (Pod: trivially destructible class type) / optional<T> / expected<T,E> / inplace_function<int(int*),16>, pair<T0,T1> / tuple<T0,T1,T2> / T[3], each over a copy+move, move-only or "
        "copy-only instrumented element (variant family: also copy-only with a defaulted assignment). Exhaustive part: vectors - every "
        "size state (n0 <= cap, n1 in {0,min(cap,2)}) at cap <= 3 x every single operation with every position/count argument in "
        "[0, size+1] / [0, room+1] (range members with pointer AND forward-iterator sources, construction from T[n]), pairs of "
        "lifetime-heavy operations at cap 3, depth-3 inplace_vector histories (sampled in quick); sets - every single operation with "
        "keys below/equal/between/above the present ones from every size state; variant-like - every single operation from every pair "
        "of index states (all from/to combinations), sampled pairs; variant: every (held, new) alternative pair x every way of replacing the "
        "held alternative (emplace<I> by index, emplace<T> by type, converting assignment from an rvalue / lvalue, assignment from a temporary "
        "variant built by in_place_index / in_place_type) followed by two further replacements by type; pair/tuple - every pair of operations. Random part: seeded "
        "capacity-aware histories of length <= 40 biased to full/empty; ~10% of the vector histories end in a precondition violation "
        "(after which only the legality of the prefix is compared). pcopy / pown: element type with trivial default constructor, "
        "destructor and copy assignment but a user-provided copy constructor - every (capacity 1-4, source size, target size) resp. "
        "every from/to index pair x copy/move construction/assignment: which copy constructor ran on which storage from which source; "
        "uhist / umon: uninitialized_copy / _move / _fill of 0..6 elements whose constructor throws at every position (or never), incl. the "
        "returned iterator; every case runs in two builds: with exceptions (main) and with -fno-exceptions (noexc: the other branch of "
        "the library's __cpp_exceptions splits; the throwing cases are skipped there); "
        "bhist / bmon: the stored element count around the limits of size_type = smallest_size_t<Capacity>: static_vector / inplace_vector of a copy+move, a copy-only "
        "instrumented element and of int at capacities 254, 255, 256, 300, 65536, 70000, stack / static_set / flat_set at 300 and 70000; bulk operations (k appends, k pops, clear, "
        "erase range, resize, scoped copy / moved copy, copy / move assignment, swap); fixed walks over every limit in {255, 256, 257, 65535, 65536, 65537, Capacity - 1, Capacity} "
        "(quick: all at capacities <= 300, the 65536 walk of sv / iv / the adapters at the large capacities) + random walks over the limits; "
        "non-trivial = distinct history whose log contains at least one move/copy between two locations (bhist / bmon: that reaches 255 elements)")
TRUSTED_BASE = ["reference leg: the constant verdict `wf 1 alive 0 [st 1] self 1...`; its domain (validity of the history) is decided by "
                "replaying the history on libstdc++ std::vector<int> (sets: sorted std::vector) with the documented preconditions; "
                "variant-like: an empty function is not invoked",
                "impl leg of `mon`: the C++ re-implementation of the lifetime automaton in props/C03/c03_track.hpp (cross-checked against the "
                "extracted Coq automaton on every `hist` case), applied to the log written by the instrumented element types"]
ASSUMPTIONS = ["element special members do not throw through the containers (the exception path of uninitialized_copy / _move / _fill themselves is "
               "modelled: coq/C03/ModelMem.v, ops uhist / umon)",
               "a moved-from instrumented element holds the marker -1 (copy+move and move-only flavours)",
               "contract checks enabled (a history that violates a precondition stops at the TETL_PRECONDITION)"]

CAPS = [1, 2, 3, 4, 16]
VALS = [1, 18, 35]


def L(xs):
    return " ".join([str(len(xs))] + [str(x) for x in xs])


def both(family, cap, ops):
    body = f"{family} {cap} {len(ops)} " + " ".join(ops)
    return ["hist " + body, "rawhist " + body, "mon " + body]


def pred(pid, e):
    k = e // 16
    return [(k % 2) == 0, k == 1, k < 2, True, False][pid]


class Sim:
    """python mirror of the list semantics, only to steer generation (validity / sizes)"""

    def __init__(self, cap, movable):
        self.cap = cap
        self.movable = movable
        self.v = [[], []]

    def clone(self):
        s = Sim(self.cap, self.movable)
        s.v = [list(self.v[0]), list(self.v[1])]
        return s

    def mark(self, l):
        return [-1] * len(l) if self.movable else list(l)

    def apply(self, op):
        t = op.split()
        name = t[0]
        a = [int(x) for x in t[1:]]
        v = self.v
        if name == "swp":
            v[0], v[1] = v[1], v[0]
            return True
        if name in ("ctn", "ctv"):
            return 0 <= a[0] <= self.cap
        if name in ("ctr", "ctf"):
            return a[0] <= self.cap
        if name == "cta":
            return 1 <= a[0] <= min(self.cap, 4)
        tg = a[0]
        x = v[tg]
        sz = len(x)
        room = self.cap - sz
        if name in ("pbr", "pbc", "eb", "upc", "upr", "upe"):
            if room < 1: return False
            x.append(a[1])
        elif name in ("tpc", "tpr", "tpe"):
            if room >= 1: x.append(a[1])
        elif name == "pop":
            if sz == 0: return False
            x.pop()
        elif name in ("icr", "irv", "emp"):
            if not (0 <= a[1] <= sz) or room < 1: return False
            x.insert(a[1], a[2])
        elif name == "inn":
            if not (0 <= a[1] <= sz) or not (0 <= a[2] <= room): return False
            x[a[1]:a[1]] = [a[3]] * a[2]
        elif name in ("irg", "mig", "irf", "mif"):
            xs = a[3:3 + a[2]]
            if not (0 <= a[1] <= sz) or len(xs) > room: return False
            x[a[1]:a[1]] = xs
        elif name == "era":
            if not (0 <= a[1] < sz): return False
            del x[a[1]]
        elif name == "err":
            if not (0 <= a[1] <= a[2] <= sz): return False
            del x[a[1]:a[2]]
        elif name == "clr":
            x.clear()
        elif name in ("rsz", "rsv"):
            n = a[1]
            if not (0 <= n <= self.cap): return False
            fillv = a[2] if name == "rsv" else 0
            if n <= sz: del x[n:]
            else: x.extend([fillv] * (n - sz))
        elif name == "asn":
            if not (0 <= a[1] <= self.cap): return False
            v[tg] = [a[2]] * a[1]
        elif name in ("asr", "asf"):
            xs = a[2:2 + a[1]]
            if len(xs) > self.cap: return False
            v[tg] = list(xs)
        elif name == "cpa":
            v[tg] = list(v[1 - tg])
        elif name == "mva":
            v[tg] = list(v[1 - tg]); v[1 - tg] = self.mark(v[1 - tg])
        elif name in ("mvc", "kmc"):
            v[tg] = self.mark(x)
        elif name == "ivm":
            v[tg] = []
        elif name == "iva":
            v[tg] = list(v[1 - tg])
        elif name == "ivx":
            v[tg] = list(v[1 - tg]); v[1 - tg] = []
        elif name in ("sir", "sic", "sem", "fir", "fic", "fem"):
            key = a[1]
            if key not in x:
                if room < 1:
                    return name[0] == "s"      # static_set ignores the insert, flat_set hits the vector's precondition
                import bisect
                bisect.insort(x, key)
        elif name in ("sek", "fek"):
            v[tg] = [e for e in x if e != a[1]]
        elif name == "fex":
            v[tg] = []
        elif name == "frp":
            xs = a[2:2 + a[1]]
            if len(xs) > self.cap: return False
            v[tg] = list(xs)
        elif name in ("eif", "fei"):
            v[tg] = [e for e in x if not pred(a[1], e)]
        elif name == "erv":
            v[tg] = [e for e in x if e != a[1]]
        return True


COPY_OPS = ("pbc", "icr", "inn", "irg", "rsv", "asn", "asr", "cpa", "cpc", "sca", "tpc", "upc", "ivc", "sic", "sem", "sek", "fic", "fem", "fek", "iva", "isc", "ctv", "ctr",
            "irf", "asf", "ctf", "kcc")


def allowed(family, op):
    return not (family.endswith("_m") and op.split()[0] in COPY_OPS)


def single_ops(t, sz, cap, vals):
    """every single static_vector operation with boundary arguments for an object of size sz"""
    ops = []
    x = vals[0]
    room = cap - sz
    for name in ("pbr", "pbc", "eb"):
        ops.append(f"{name} {t} {x}")
    ops.append(f"pop {t}")
    for pos in range(0, sz + 2):
        ops += [f"icr {t} {pos} {x}", f"irv {t} {pos} {x}", f"emp {t} {pos} {x}", f"era {t} {pos}"]
        for n in range(0, room + 2):
            xs = (vals * 8)[:n]
            ops += [f"inn {t} {pos} {n} {x}", f"irg {t} {pos} {L(xs)}", f"mig {t} {pos} {L(xs)}",
                    f"irf {t} {pos} {L(xs)}", f"mif {t} {pos} {L(xs)}"]
        for l in range(pos, sz + 2):
            ops.append(f"err {t} {pos} {l}")
    ops.append(f"clr {t}")
    for n in range(0, cap + 2):
        ops += [f"rsz {t} {n}", f"rsv {t} {n} {x}", f"asn {t} {n} {x}", f"asr {t} {L((vals * 8)[:n])}", f"asf {t} {L((vals * 8)[:n])}"]
    ops += ["swp", f"cpa {t}", f"mva {t}", f"cpc {t}", f"mvc {t}", f"mrt {t}", f"sca {t}", f"sma {t}", f"ssw {t}"]
    if sz == 0:
        for n in range(0, cap + 2):
            ops += [f"ctn {n}", f"ctv {n} {x}", f"ctr {L((vals * 8)[:n])}", f"ctf {L((vals * 8)[:n])}"]
            if 1 <= n <= min(cap, 4):
                ops.append(f"cta {L((vals * 8)[:n])}")     # static_vector(c_array<T, n>&&): n <= Capacity is a constraint
    for pid in range(0, 5):
        ops.append(f"eif {t} {pid}")
    for v in vals[:2] + [-1]:
        ops.append(f"erv {t} {v}")
    return ops


HEAVY = ["swp", "ssw 0", "sma 0", "sca 0", "mva 0", "mva 1", "cpa 0", "mvc 0", "mrt 0", "emp 0 0 7", "irv 0 1 7", "era 0 0", "eif 0 0",
         "rsz 0 1", "rsz 0 3", "pop 0", "clr 1", "inn 0 0 2 5", "mig 0 1 2 3 4", "pbr 1 9", "err 0 0 2", "mif 0 1 2 3 4", "irf 1 0 3 7 8 9"]

IV_ALPHA = ["tpc 0 2", "tpr 0 3", "tpe 0 4", "upc 0 5", "upr 0 6", "upe 0 7", "pop 0", "clr 0", "ivc 0", "ivm 0", "tpr 1 6", "ivm 1", "ivc 1",
            "iva 0", "iva 1", "ivx 0", "ivx 1", "isc 0", "ism 0"]



# ---------------------------------------------------------------------------------------------
# owners of one object: variant / optional / expected / inplace_function
OWN_KINDS = {
    # kind: (indices, flavours)
    # flavour t: copy-only with a defaulted (trivial) copy assignment but user-provided copy constructor / destructor
    "var": ([0, 1, 2], ["cm", "m", "c", "t"]),
    # variant<T0, int, T2, Pod>: Pod = trivially destructible CLASS type (alternative 3, not instrumented); unlike int it
    # reaches the converting assignment template, which replaces a different held alternative through emplace<Pod> BY TYPE
    "vpd": ([0, 1, 2, 3], ["cm", "m", "c", "t"]),
    "opt": ([0, 1], ["cm", "m", "c", "t"]),
    "exp": ([0, 1], ["cm", "m", "c", "t"]),
    "fun": ([0, 1, 2], ["cm", "c"]),
}
OWN_COPY_OPS = ("vac", "vca", "vsc", "vcc", "vvc", "voc", "vnc", "vnl", "vrc")


def own_both(family, ops):
    body = f"{family} {len(ops)} " + " ".join(ops)
    return ["ohist " + body, "orawhist " + body, "omon " + body]


def own_allowed(family, op):
    t = op.split()
    if t[0] == "vac" and t[2] == "3":
        return True        # Pod c(x); v = c: Pod is copyable whatever the instrumented flavour is
    return not (family.endswith("_m") and t[0] in OWN_COPY_OPS)


def own_set(kind, t, i, x):
    """an operation that puts object t into state i"""
    if kind in ("var", "vpd"): return [f"vem {t} {i} {x}"]
    if kind == "opt": return [f"vem {t} {i} {x}"]
    if kind == "exp": return [f"vem {t} 0 {x}"] if i == 0 else [f"vat {t} 1 {x}"]
    return [f"fas {t} {i} {x}"] if i != 0 else []


def own_alphabet(kind, x):
    ops = []
    idx = OWN_KINDS[kind][0]
    for t in (0, 1):
        if kind in ("var", "vpd"):
            for j in idx:
                # vem: emplace<j> by index; vet: emplace<Tj> BY TYPE (an overload of its own); var / vac: converting assignment
                # (a different held alternative is replaced through emplace<Tj> by type); vat / vty: through a temporary variant
                # built by in_place_index<j> / in_place_type<Tj>
                ops += [f"vem {t} {j} {x}", f"vet {t} {j} {x}", f"var {t} {j} {x}", f"vac {t} {j} {x}", f"vat {t} {j} {x}", f"vty {t} {j} {x}"]
                if t == 0:
                    ops += [f"vsv 0 {j} {x}", f"vsy 0 {j} {x}"]
        elif kind == "opt":
            ops += [f"vem {t} 0 0", f"vem {t} 1 {x}", f"vav {t} 1 {x}", f"vav {t} 0 0", f"vat {t} 0 0", f"vat {t} 1 {x}",
                    f"vvc {t} 1 {x}", f"vvm {t} 1 {x}", f"voc {t}", f"vom {t}",
                    f"vau {t} 1 {x}", f"vau {t} 0 0", f"vaw {t} 1 {x}", f"vaw {t} 0 0", f"vnd {t}", f"vne {t}"]
            if t == 0:
                ops += [f"vsv 0 1 {x}", "vsv 0 0 0", f"vsu 0 1 {x}", "vsu 0 0 0", f"vsr 0 1 {x}", "vsr 0 0 0"]
        elif kind == "exp":
            ops += [f"vem {t} 0 {x}", f"vat {t} 0 {x}", f"vat {t} 1 {x}", f"vvc {t} 0 {x}", f"vvm {t} 0 {x}",
                    f"vnc {t}", f"vnl {t}", f"vnm {t}", f"vrc {t}", f"vrm {t}"]
            if t == 0:
                ops += [f"vsv 0 0 {x}", f"vsv 0 1 {x}"]
        else:
            ops += [f"fas {t} 1 {x}", f"fas {t} 2 {x}", f"fac {t} 1 {x}", f"fac {t} 2 {x}", f"fan {t}", f"fca {t}", f"fma {t}", f"fsc {t}", f"fsm {t}", f"fcc {t}", f"fmc {t}",
                    f"fss {t}", f"fiv {t}", f"fxc {t}", f"fxm {t}"]
        if kind != "fun":
            ops += [f"vca {t}", f"vma {t}", f"vsc {t}", f"vsm {t}", f"vcc {t}", f"vmc {t}", f"vss {t}"]
    ops.append("fsw" if kind == "fun" else "vsw")
    return ops


def gen_own(tier, rng):
    quick = tier == "quick"
    out = []
    for kind, (idx, flavours) in OWN_KINDS.items():
        alpha = own_alphabet(kind, 7)
        probes = (["fsw", "fmc 0"] if kind == "fun" else ["vsw", "vmc 0"])
        if kind in ("var", "vpd"):
            # every (held, new) pair x every way of replacing the held alternative, followed by a second replacement by type
            # (a constructor over storage that still holds the first object is seen here at the latest)
            for i0 in idx:
                for j in idx:
                    for how in ("vem", "vet", "var", "vac", "vat", "vty"):
                        for fl in flavours:
                            fam = f"{kind}_{fl}"
                            o = f"{how} 0 {j} 7"
                            if not own_allowed(fam, o):
                                continue
                            out += own_both(fam, own_set(kind, 0, i0, 11) + [o, f"vet 0 {i0} 9", f"vet 0 {j} 5"])
        # every single operation from every pair of states (all from/to index combinations)
        for i0 in idx:
            for i1 in idx:
                setup = own_set(kind, 0, i0, 11) + own_set(kind, 1, i1, 22)
                for o in alpha:
                    for fl in flavours:
                        fam = f"{kind}_{fl}"
                        if not own_allowed(fam, o):
                            continue
                        out += own_both(fam, setup + [o] + probes)
        # pairs of operations from a mixed state
        i0, i1 = idx[-1], idx[0]
        setup = own_set(kind, 0, i0, 11) + own_set(kind, 1, i1, 22)
        alpha2 = own_alphabet(kind, 9)
        for a in alpha:
            for b_ in alpha2:
                for fl in flavours:
                    fam = f"{kind}_{fl}"
                    if not (own_allowed(fam, a) and own_allowed(fam, b_)):
                        continue
                    if quick and rng.random() < (0.75 if fl == "cm" else 0.9):
                        continue
                    out += own_both(fam, setup + [a, b_])
        # random histories
        for _ in range(120 if quick else 6000):
            fl = rng.choice(flavours)
            fam = f"{kind}_{fl}"
            ops = []
            for _k in range(rng.randint(2, 14)):
                o = rng.choice(own_alphabet(kind, rng.choice([1, 18, 35, 52, 3])))
                if own_allowed(fam, o):
                    ops.append(o)
            out += own_both(fam, ops)
    return out



# ---------------------------------------------------------------------------------------------
# adapters over static_vector: stack, static_set, flat_set (same model, their own operations)
def adapter_ops(kind, t, sz, xs):
    common = ["swp", f"cpa {t}", f"mva {t}", f"cpc {t}", f"mvc {t}", f"mrt {t}", f"sca {t}", f"sma {t}", f"ssw {t}"]
    ops = []
    if kind == "sk":
        for x in xs:
            ops += [f"pbr {t} {x}", f"pbc {t} {x}", f"eb {t} {x}"]
        return ops + [f"pop {t}", f"kcc {t}", f"kmc {t}"] + common
    p = "s" if kind == "ss" else "f"
    for x in xs:
        ops += [f"{p}ir {t} {x}", f"{p}ic {t} {x}", f"{p}em {t} {x}", f"{p}ek {t} {x}"]
    ops.append(f"clr {t}")
    if kind == "fs":
        ops += [f"fex {t}", f"frp {t} {L(sorted(set(xs))[:3])}", f"frp {t} 0", f"fei {t} 0", f"fei {t} 1", f"fei {t} 3"]
    for pos in range(0, sz + 1):
        ops.append(f"era {t} {pos}")
        for l in range(pos, sz + 2):
            ops.append(f"err {t} {pos} {l}")
    return ops + common


def gen_adapters(tier, rng):
    quick = tier == "quick"
    out = []
    keys_all = [2, 18, 35, 52, 70]
    for kind in ("sk", "ss", "fs"):
        fams = [f"{kind}_cm", f"{kind}_m", f"{kind}_c"]
        # every single operation, with keys below / equal to / between / above the present ones, from every size state
        for cap in [1, 2, 3] + ([] if quick else [4]):
            for n0 in range(0, cap + 1):
                for n1 in sorted({0, min(cap, 1)}):
                    present = [18, 35, 52, 60][:n0]
                    ins = ("eb" if kind == "sk" else ("sir" if kind == "ss" else "fir"))
                    setup = [f"{ins} 0 {k}" for k in present] + [f"{ins} 1 {k + 1}" for k in present[:n1]]
                    for o in adapter_ops(kind, 0, n0, [7] if kind == "sk" else [2, 18, 20, 52, 99]):
                        for fam in fams:
                            if not allowed(fam, o):
                                continue
                            if quick and fam[3:] != "cm" and rng.random() < 0.6:
                                continue
                            out += both(fam, cap, setup + [o, "mvc 0", "swp"])
        # random histories
        for _ in range(250 if quick else 10000):
            fam = rng.choice(fams)
            cap = rng.choice([1, 2, 3, 4, 16])
            sim = Sim(cap, not fam.endswith("_c"))
            ops = []
            for _k in range(rng.randint(3, 30)):
                t = rng.randint(0, 1)
                cand = [o for o in adapter_ops(kind, t, len(sim.v[t]), [rng.choice(keys_all)]) if allowed(fam, o)]
                rng.shuffle(cand)
                for o in cand:
                    if sim.clone().apply(o):
                        ops.append(o)
                        sim.apply(o)
                        break
            out += both(fam, cap, ops)
    return out



# ---------------------------------------------------------------------------------------------
# pair / tuple
AGG_COPY = ("aca", "asc", "acc", "ace", "acp", "aqa")


def agg_both(fam, ops):
    body = f"{fam} {len(ops)} " + " ".join(ops)
    return ["ahist " + body, "arawhist " + body, "amon " + body]


def gen_agg(tier, rng):
    quick = tier == "quick"
    out = []
    alpha0 = [f"{o} {t}" for o in ("aca", "ama", "asc", "asm", "acc", "amc", "ass") for t in (0, 1)] + ["asw", "ace", "ame"]
    for kind in ("pr", "tp", "ar"):
        # pair only: converting constructors / assignments from a pair<U0, U1>
        alpha = alpha0 + (["acp", "amp", "aqa 0", "aqa 1", "aqm 0", "aqm 1"] if kind == "pr" else [])
        for fl in ("cm", "m", "c"):
            fam = f"{kind}_{fl}"
            al = [o for o in alpha if not (fl == "m" and o.split()[0] in AGG_COPY)]
            for h in itertools.product(al, repeat=2 if quick else 3):
                ops = list(h)
                out += agg_both(fam, ops)
            for _ in range(40 if quick else 2000):
                ops = [rng.choice(al) for _k in range(rng.randint(3, 12))]
                out += agg_both(fam, ops)
    return out



# ---------------------------------------------------------------------------------------------
# bhist / bmon: the stored element count around the limits of size_type = smallest_size_t<Capacity>
# (255 | 256 elements: unsigned char -> unsigned short, 65535 | 65536: unsigned short -> unsigned int); coq/C03/ModelSize.v
BIG_CAPS = [254, 255, 256, 300, 65536, 70000]
BIG_FAMS = {
    # kind: (flavours, capacities); i = int (the trivial storage of static_vector, the defaulted members of inplace_vector)
    "sv": (["cm", "c", "i"], BIG_CAPS),
    "iv": (["cm", "c", "i"], BIG_CAPS),
    "sk": (["cm", "c"], [300, 70000]),
    "ss": (["cm", "c"], [300, 70000]),
    "fs": (["cm", "c"], [300, 70000]),
}
BIG_OPS = {
    "sv": ["fil", "pop", "clr", "err", "rsz", "cpc", "mvc", "cpa", "mva", "swp"],
    "iv": ["fil", "pop", "clr", "cpc", "mvc", "cpa", "mva"],
    "sk": ["fil", "pop", "cpc", "mvc", "cpa", "mva"],
    "ss": ["fil", "clr", "err", "cpc", "mvc", "cpa", "mva"],
    "fs": ["fil", "clr", "err", "cpc", "mvc", "cpa", "mva"],
}


def big_both(fam, cap, ops):
    body = f"{fam} {cap} {len(ops)} " + " ".join(ops)
    return ["bhist " + body, "bmon " + body]


def big_limits(cap):
    """the element counts worth reaching: both sides of every limit of an unsigned type, and the capacity"""
    out = []
    for lim in (256, 65536):
        out += [n for n in (lim - 1, lim, lim + 1) if n <= cap]
    out += [n for n in (cap - 1, cap) if n > 0]
    return sorted(set(out))


class BigSim:
    """sizes (and the last key of a set) only: steers the generation"""

    def __init__(self, kind, cap, trivial=False):
        self.kind, self.cap = kind, cap
        self.clears = kind == "iv" and not trivial     # a moved-from inplace_vector is empty (not with the trivial move operations)
        self.n = [0, 0]
        self.top = [0, 0]      # keys handed to a set so far are below top

    def ok(self, op):
        t = op.split()
        name = t[0]
        a = [int(x) for x in t[1:]]
        n, cap = self.n, self.cap
        if name == "swp":
            return True
        tg = a[0]
        if name == "fil":
            return a[1] >= 0 and (self.kind == "ss" or n[tg] + a[1] <= cap)
        if name == "pop":
            return 0 <= a[1] <= n[tg]
        if name == "err":
            return 0 <= a[1] <= a[2] <= n[tg]
        if name == "rsz":
            return 0 <= a[1] <= cap
        return True

    def apply(self, op):
        t = op.split()
        name = t[0]
        a = [int(x) for x in t[1:]]
        n = self.n
        if name == "swp":
            n[0], n[1] = n[1], n[0]
            self.top[0], self.top[1] = self.top[1], self.top[0]
            return
        tg = a[0]
        if name == "fil":
            n[tg] = min(self.cap, n[tg] + a[1])
            self.top[tg] = max(self.top[tg], a[2] + a[1])
        elif name == "pop":
            n[tg] -= a[1]
        elif name == "clr":
            n[tg] = 0
        elif name == "err":
            n[tg] -= a[2] - a[1]
        elif name == "rsz":
            n[tg] = a[1]
        elif name == "mvc":
            if self.clears: n[tg] = 0
        elif name in ("cpa", "mva"):
            n[tg] = n[1 - tg]
            self.top[tg] = max(self.top[tg], self.top[1 - tg])
            if name == "mva" and self.clears: n[1 - tg] = 0


def big_history(kind, fl, cap, rng, steps, invalid=False):
    """a history that walks the element count of object 0 (and through copies object 1) across the limits"""
    sim = BigSim(kind, cap, fl == "i")
    ops = []
    lims = big_limits(cap)
    names = [o for o in BIG_OPS[kind] if not (fl == "m" and o in ("cpc", "cpa"))]

    def emit(o):
        ops.append(o)
        sim.apply(o)

    def reach(t, target):
        """bring object t to `target` elements by one bulk operation (never element by element)"""
        n = sim.n[t]
        if target > n:
            emit(f"fil {t} {target - n} {sim.top[t] + rng.randint(1, 3)}")
        elif target < n:
            how = [o for o in ("pop", "err", "rsz") if o in names]
            o = rng.choice(how)
            if o == "pop": emit(f"pop {t} {n - target}")
            elif o == "rsz": emit(f"rsz {t} {target}")
            else:
                f = rng.choice([0, target, rng.randint(0, target)])
                emit(f"err {t} {f} {f + n - target}")

    for _ in range(steps):
        t = 0 if rng.random() < 0.75 else 1
        r = rng.random()
        if r < 0.5:
            reach(t, rng.choice(lims))
        elif r < 0.6 and "rsz" in names:
            emit(f"rsz {t} {rng.choice(lims)}")
        else:
            o = rng.choice([x for x in names if x not in ("fil", "pop", "err", "rsz")])
            emit("swp" if o == "swp" else f"{o} {t}")
    if invalid:
        t = 0
        n = sim.n[t]
        bad = [f"fil {t} {cap - n + 1} {sim.top[t] + 1}"]
        if "pop" in names: bad.append(f"pop {t} {n + 1}")
        if "err" in names: bad.append(f"err {t} {min(n, 1)} {n + 1}")
        if "rsz" in names: bad.append(f"rsz {t} {cap + 1}")
        if kind == "ss": bad = bad[1:]
        if bad: ops.append(rng.choice(bad))
    return ops


def gen_big(tier, rng):
    quick = tier == "quick"
    out = []
    for kind, (flavours, caps) in BIG_FAMS.items():
        has = BIG_OPS[kind]
        for cap in caps:
            large = cap > 1000
            for fl in flavours:
                fam = f"{kind}_{fl}"
                lims = [n for n in big_limits(cap)]
                # ---- fixed walks: up to each limit in one bulk step, over it one element at a time, back below it, a copy and a
                # moved copy at the limit, the destructors with that many elements alive
                for n in lims:
                    if large and quick and not (n == 65536 and ((fl == "cm" and (cap == 70000 or kind in ("sv", "iv"))) or (fl == "i" and cap == 70000))):
                        continue
                    if n < 2:
                        continue
                    down = (["pop 0 1", "pop 0 1"] if "pop" in has else [f"err 0 {n - 1} {n}", "err 0 0 1"])
                    walk = [f"fil 0 {n - 1} 3", f"fil 0 1 {n + 7}"] + ([f"fil 0 1 {n + 9}"] if n < cap else []) + down
                    out += big_both(fam, cap, walk + ["cpc 0", "mvc 0"])
                    if large and (quick or rng.random() < 0.8):
                        continue           # thorough: a sample of the secondary walks at the large capacities (0.2 s per line in the driver)
                    out += big_both(fam, cap, [f"fil 0 {n} 3", "cpa 1", "mva 1"] + (["pop 1 1"] if "pop" in has else ["err 1 0 1"]) + ["mva 0"])
                    out += big_both(fam, cap, [f"fil 1 {n} 5"])          # only the destructor sees the count
                    if "clr" in has:
                        out += big_both(fam, cap, [f"fil 0 {n} 3", "clr 0", "fil 0 2 1"])
                    if "err" in has:
                        out += big_both(fam, cap, [f"fil 0 {n} 3", f"err 0 1 {min(n, 3)}", f"err 0 0 {n - 2}"])
                    if "rsz" in has:
                        out += big_both(fam, cap, [f"rsz 0 {n}", f"rsz 0 {n - 1}", f"rsz 0 {cap}", "swp", f"rsz 1 {n}"])
                    if "swp" in has:
                        out += big_both(fam, cap, [f"fil 0 {n} 3", "fil 1 2 1", "swp", "swp"])
                    # one element too many / one pop too many: the precondition fires exactly there
                    out += big_both(fam, cap, [f"fil 0 {cap} 3", "fil 0 1 1"] if kind != "ss" else [f"fil 0 {cap} 3", "fil 0 1 99999", "mvc 0"])
                # ---- random walks over the limits
                k = ((1 if rng.random() < 0.1 else 0) if quick else 3) if large else (6 if quick else 120)
                for _ in range(k):
                    out += big_both(fam, cap, big_history(kind, fl, cap, rng, rng.randint(3, 5 if large else 9), invalid=rng.random() < 0.1))
    return out


def gen(tier, rng):
    quick = tier == "quick"
    out = []
    families_sv = ["sv_cm", "sv_m", "sv_c"]
    families_iv = ["iv_cm", "iv_m", "iv_c"]
    # ---- exhaustive single operations from every small size state (capacity 0: the zero-size storage)
    for cap in [0, 1, 2, 3] + ([] if quick else [4]):
        for n0 in range(0, cap + 1):
            for n1 in sorted({0, min(cap, 2)}):
                setup = [f"eb 0 {(VALS * 8)[i]}" for i in range(n0)] + [f"eb 1 {(VALS * 8)[i] + 48}" for i in range(n1)]
                for o in single_ops(0, n0, cap, VALS):
                    for fam in families_sv:
                        if not allowed(fam, o):
                            continue
                        if quick and fam != "sv_cm" and rng.random() < 0.5:
                            continue
                        out += both(fam, cap, setup + [o, "pbr 0 3", "era 0 0"])
    # ---- pairs of lifetime-heavy operations from a half-full and a full state
    for cap in [3] + ([] if quick else [4]):
        for n0 in (1, cap):
            setup = [f"eb 0 {(VALS * 8)[i]}" for i in range(n0)] + ["eb 1 50"]
            for a, b_ in itertools.product(HEAVY, repeat=2):
                for fam in families_sv:
                    if not (allowed(fam, a) and allowed(fam, b_)):
                        continue
                    if quick and rng.random() < (0.6 if fam == "sv_cm" else 0.85):
                        continue
                    out += both(fam, cap, setup + [a, b_])
    # ---- inplace_vector: exhaustive short histories
    depth = 3 if quick else 4
    for cap in [0, 1, 3]:
        for h in itertools.product(IV_ALPHA, repeat=depth):
            for fam in families_iv:
                if not all(allowed(fam, o) for o in h):
                    continue
                if quick and rng.random() < (0.985 if cap == 0 else 0.93):
                    continue
                out += both(fam, cap, list(h))
    # ---- random capacity-aware histories
    n_rand = 1500 if quick else 60000
    for _ in range(n_rand):
        fam = rng.choice(families_sv * 2 + families_iv)
        cap = rng.choice(CAPS)
        sim = Sim(cap, not fam.endswith("_c"))
        ops = []
        steps = rng.randint(3, 40)
        want_invalid = rng.random() < 0.10
        for k in range(steps):
            t = rng.randint(0, 1)
            sz = len(sim.v[t])
            room = cap - sz
            x = rng.choice(VALS + [52, 3])
            if fam.startswith("iv"):
                cand = [f"tpc {t} {x}", f"tpr {t} {x}", f"tpe {t} {x}", f"upc {t} {x}", f"upr {t} {x}", f"upe {t} {x}", f"pop {t}",
                        f"clr {t}", f"ivc {t}", f"ivm {t}", f"iva {t}", f"ivx {t}", f"isc {t}", f"ism {t}"]
            else:
                pos = rng.randint(0, sz)
                n = rng.randint(0, max(0, min(room, 5)))
                if rng.random() < 0.3:
                    n = room   # exactly to full
                f = rng.randint(0, sz); l = rng.randint(f, sz)
                xs = [rng.choice(VALS) for _ in range(n)]
                cand = [f"pbr {t} {x}", f"pbc {t} {x}", f"eb {t} {x}", f"pop {t}", f"icr {t} {pos} {x}", f"irv {t} {pos} {x}", f"emp {t} {pos} {x}",
                        f"inn {t} {pos} {n} {x}", f"irg {t} {pos} {L(xs)}", f"mig {t} {pos} {L(xs)}", f"era {t} {rng.randint(0, max(0, sz - 1))}",
                        f"err {t} {f} {l}", f"clr {t}", f"rsz {t} {rng.randint(0, cap)}", f"rsv {t} {rng.randint(0, cap)} {x}",
                        f"asn {t} {rng.randint(0, min(cap, 6))} {x}", f"asr {t} {L([rng.choice(VALS) for _ in range(rng.randint(0, min(cap, 6)))])}",
                        "swp", f"cpa {t}", f"mva {t}", f"cpc {t}", f"mvc {t}", f"mrt {t}", f"eif {t} {rng.randint(0, 4)}",
                        f"erv {t} {rng.choice([x, -1])}", f"sca {t}", f"sma {t}", f"ssw {t}", f"emp {t} {pos} {x}", f"irv {t} {pos} {x}",
                        f"ctn {rng.randint(0, cap)}", f"ctv {rng.randint(0, cap)} {x}", f"ctr {L([rng.choice(VALS) for _ in range(rng.randint(0, min(cap, 5)))])}",
                        f"irf {t} {pos} {L(xs)}", f"mif {t} {pos} {L(xs)}", f"asf {t} {L([rng.choice(VALS) for _ in range(rng.randint(0, min(cap, 6)))])}",
                        f"ctf {L([rng.choice(VALS) for _ in range(rng.randint(0, min(cap, 5)))])}",
                        f"cta {L([rng.choice(VALS) for _ in range(rng.randint(1, min(cap, 4)))])}"]
            cand = [o for o in cand if allowed(fam, o)]
            rng.shuffle(cand)
            chosen = None
            for o in cand:
                if sim.clone().apply(o):
                    chosen = o
                    break
            if chosen is None:
                break
            if want_invalid and k == steps - 1:
                if fam.startswith("iv"):
                    bad = [f"upr {t} {x}"] if room == 0 else ([f"pop {t}"] if sz == 0 else [])
                else:
                    bad = [f"pbr {t} {x}" if room == 0 else f"mig {t} 0 {L([x] * (room + 1))}", f"mif {t} 0 {L([x] * (room + 1))}", f"era {t} {sz}", f"irv {t} {sz + 1} {x}",
                           f"err {t} {min(sz, 1)} {sz + 1}", f"rsz {t} {cap + 1}", f"emp {t} {sz + 1} {x}"]
                if bad:
                    chosen = rng.choice(bad)
            ops.append(chosen)
            sim.apply(chosen)
        out += both(fam, cap, ops)
    out += gen_adapters(tier, rng)
    out += gen_own(tier, rng)
    out += gen_agg(tier, rng)
    out += gen_pcopy()
    out += gen_big(tier, rng)
    return out


def gen_pcopy():
    """element type with a trivial default constructor / destructor / copy assignment and a user-provided copy constructor:
    every (kind, capacity, size of the source, size of the target, operation)"""
    out = []
    for kind in ("iv", "sv"):
        for cap in (1, 2, 3, 4):
            for n in range(0, cap + 1):
                for m in range(0, cap + 1):
                    for what in ("cc", "mc", "ca", "ma"):
                        out.append(f"pcopy {kind} {cap} {n} {m} {what}")
    # the same element flavour as alternative of variant<P0, int, P2> / optional<P1> / expected<P0, P1>: every from/to index pair
    for kind, n_alt in (("var", 3), ("opt", 2), ("exp", 2)):
        for i0 in range(n_alt):
            for i1 in range(n_alt):
                for what in ("cc", "mc", "ca", "ma"):
                    out.append(f"pown {kind} {i0} {i1} {what}")
    # uninitialized_copy / _move / _fill with an element constructor that throws during its (k+1)-th call (k = -1: never)
    for what in ("copy", "move", "fill"):
        for n in range(0, 7):
            for k in range(-1, n + 2):
                out += [f"uhist {what} {n} {k}", f"umon {what} {n} {k}"]
    return out


def nontrivial(case, impl):
    if case.startswith("bhist") or case.startswith("bmon"):
        t = case.split()
        return any(t[i] == "fil" and int(t[i + 2]) >= 255 for i in range(4, len(t) - 2)) or any(t[i] == "rsz" and int(t[i + 2]) >= 255 for i in range(4, len(t) - 2))
    if case.startswith("pcopy") or case.startswith("pown"):
        return "C:" in impl
    if case.startswith("uhist") or case.startswith("umon"):
        return "Cc" in impl or "Cm" in impl or "thrown 1" in impl
    if case.split(" ", 1)[0] in ("hist", "ohist", "ahist", "rawhist", "orawhist", "arawhist"):
        return ("Cm" in impl) or ("Cc" in impl) or ("Am" in impl) or ("Ac" in impl)
    return "self 1" in impl or "alive 0" in impl
