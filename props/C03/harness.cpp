// C03 harness: element-lifetime histories on the real containers, observed through instrumented
// element types (c03_track.hpp).
//
//   hist <family> <cap> <k> <ops...>     impl leg = per step: element values of the two objects + the
//                                        per-location lifecycle projection of the step's real event log;
//                                        reference leg = na (this op is the model<->code correspondence)
//   rawhist ...                          same with the raw canonical event list (diagnostics only)
//   mon  <family> <cap> <k> <ops...>     impl leg = verdict of the run-time monitor on the REAL log of the
//                                        whole history incl. the destructors: "wf <b> alive <n> self <b...>"
//                                        (self: value after == value before, per self-assignment/self-swap);
//                                        reference leg = the property: "wf 1 alive 0 self 1..." inside the
//                                        documented domain (validity decided on std::vector), else na
// family = (sv|iv)_(cm|m|c): static_vector / inplace_vector of a copy+move / move-only / copy-only element.
#include "common.hpp"

#include <algorithm>
#include <new>
#include <vector>

#include <etl/inplace_vector.hpp>
#include <etl/vector.hpp>

#include "c03_track.hpp"

using namespace vh;

static bool pred_of(int id, int v)
{
    auto key = v >= 0 ? v / 16 : -((-v + 15) / 16);
    switch (id) {
    case 0: return (key % 2) == 0;
    case 1: return key == 1;
    case 2: return key < 2;
    case 3: return true;
    default: return false;
    }
}

struct Step {
    std::string op;
    int t{0};
    std::vector<i64> a;
    std::vector<i64> xs;
};

static std::vector<Step> parse(Toks& in)
{
    std::vector<Step> steps;
    auto k = in.num();
    for (i64 i = 0; i < k; ++i) {
        Step s;
        s.op = in.str();
        auto need = [&](int n) { for (int j = 0; j < n; ++j) { s.a.push_back(in.num()); } };
        auto const& o = s.op;
        if (o == "swp") { }
        else {
            s.t = static_cast<int>(in.num());
            if (o == "pbr" || o == "pbc" || o == "eb" || o == "era" || o == "rsz" || o == "eif" || o == "erv" || o == "tpc" || o == "tpr"
                || o == "tpe" || o == "upc" || o == "upr" || o == "upe") { need(1); }
            else if (o == "icr" || o == "irv" || o == "emp" || o == "err" || o == "rsv" || o == "asn") { need(2); }
            else if (o == "inn") { need(3); }
            else if (o == "irg" || o == "mig") { need(1); s.xs = in.list(); }
            else if (o == "asr") { s.xs = in.list(); }
        }
        steps.push_back(s);
    }
    return steps;
}

static bool is_self(std::string const& op) { return op == "sca" || op == "sma" || op == "ssw"; }

// ---- reference domain: the same history on std::vector<int> with the documented preconditions
using SV = std::vector<int>;
static bool std_step(Step const& s, SV (&v)[2], std::size_t cap, bool movable)
{
    auto& x   = v[s.t];
    auto& y   = v[1 - s.t];
    auto sz   = static_cast<i64>(x.size());
    auto room = static_cast<i64>(cap) - sz;
    auto const& op = s.op;
    auto A = [&](int i) { return s.a[static_cast<std::size_t>(i)]; };
    auto mark = [&](SV& w) { if (movable) { for (auto& e : w) { e = trk::moved_marker; } } };
    if (op == "pbr" || op == "pbc" || op == "eb" || op == "upc" || op == "upr" || op == "upe") { if (room < 1) { return false; } x.push_back(static_cast<int>(A(0))); }
    else if (op == "tpc" || op == "tpr" || op == "tpe") { if (room >= 1) { x.push_back(static_cast<int>(A(0))); } }
    else if (op == "pop") { if (sz == 0) { return false; } x.pop_back(); }
    else if (op == "icr" || op == "irv" || op == "emp") { if (A(0) < 0 || A(0) > sz || room < 1) { return false; } x.insert(x.begin() + A(0), static_cast<int>(A(1))); }
    else if (op == "inn") { if (A(0) < 0 || A(0) > sz || A(1) < 0 || A(1) > room) { return false; } x.insert(x.begin() + A(0), static_cast<std::size_t>(A(1)), static_cast<int>(A(2))); }
    else if (op == "irg" || op == "mig") { if (A(0) < 0 || A(0) > sz || static_cast<i64>(s.xs.size()) > room) { return false; } SV src(s.xs.begin(), s.xs.end()); x.insert(x.begin() + A(0), src.begin(), src.end()); }
    else if (op == "era") { if (A(0) < 0 || A(0) >= sz) { return false; } x.erase(x.begin() + A(0)); }
    else if (op == "err") { if (A(0) < 0 || A(0) > A(1) || A(1) > sz) { return false; } x.erase(x.begin() + A(0), x.begin() + A(1)); }
    else if (op == "clr") { x.clear(); }
    else if (op == "rsz") { if (A(0) < 0 || A(0) > static_cast<i64>(cap)) { return false; } x.resize(static_cast<std::size_t>(A(0))); }
    else if (op == "rsv") { if (A(0) < 0 || A(0) > static_cast<i64>(cap)) { return false; } x.resize(static_cast<std::size_t>(A(0)), static_cast<int>(A(1))); }
    else if (op == "asn") { if (A(0) < 0 || A(0) > static_cast<i64>(cap)) { return false; } x.assign(static_cast<std::size_t>(A(0)), static_cast<int>(A(1))); }
    else if (op == "asr") { if (s.xs.size() > cap) { return false; } SV src(s.xs.begin(), s.xs.end()); x.assign(src.begin(), src.end()); }
    else if (op == "swp") { v[0].swap(v[1]); }
    else if (op == "cpa") { x = y; }
    else if (op == "mva") { x = y; mark(y); }
    else if (op == "cpc" || op == "ivc") { }
    else if (op == "mvc") { mark(x); }
    else if (op == "ivm") { x.clear(); }
    else if (op == "mrt") { }
    else if (op == "eif") { auto id = static_cast<int>(A(0)); std::erase_if(x, [&](int e) { return pred_of(id, e); }); }
    else if (op == "erv") { std::erase(x, static_cast<int>(A(0))); }
    else if (op == "sca" || op == "sma" || op == "ssw") { }
    else { return false; }
    return true;
}

// ---- impl: static_vector<T, N>
template <typename Vec, typename T>
static void sv_step(Step const& s, Vec* (&v)[2])
{
    auto& x = *v[s.t];
    auto& y = *v[1 - s.t];
    auto const& op = s.op;
    auto A = [&](int i) { return s.a[static_cast<std::size_t>(i)]; };
    auto I = [&](int i) { return static_cast<int>(A(i)); };
    if (op == "pbr") { x.push_back(T(I(0))); }
    else if (op == "eb") { x.emplace_back(I(0)); }
    else if (op == "pop") { x.pop_back(); }
    else if (op == "irv") { T c(I(1)); x.insert(x.begin() + A(0), etl::move(c)); }
    else if (op == "mig") { trk::Src<T> src(s.xs); x.move_insert(x.begin() + A(0), src.p(), src.p() + src.n); }
    else if (op == "emp") { x.emplace(x.begin() + A(0), I(1)); }
    else if (op == "era") { x.erase(x.begin() + A(0)); }
    else if (op == "err") { x.erase(x.begin() + A(0), x.begin() + A(1)); }
    else if (op == "clr") { x.clear(); }
    else if (op == "rsz") { x.resize(static_cast<std::size_t>(A(0))); }
    else if (op == "swp") { v[0]->swap(*v[1]); }
    else if (op == "mva") { x = etl::move(y); }
    else if (op == "mvc") { Vec c(etl::move(x)); }
    else if (op == "mrt") { Vec tmp(etl::move(x)); x = etl::move(tmp); }
    else if (op == "eif") { auto id = I(0); (void)etl::erase_if(x, [&](T const& e) { return pred_of(id, e.v); }); }
    else if (op == "erv") { T c(I(0)); (void)etl::erase(x, c); }
    else if (op == "sma") { auto& r = x; x = etl::move(r); }
    else if (op == "ssw") { x.swap(x); }
    else {
        if constexpr (T::copyable) {
            if (op == "pbc") { T c(I(0)); x.push_back(c); }
            else if (op == "icr") { T c(I(1)); x.insert(x.begin() + A(0), c); }
            else if (op == "inn") { T c(I(2)); x.insert(x.begin() + A(0), static_cast<std::size_t>(A(1)), c); }
            else if (op == "irg") { trk::Src<T> src(s.xs); x.insert(x.begin() + A(0), src.p(), src.p() + src.n); }
            else if (op == "rsv") { T c(I(1)); x.resize(static_cast<std::size_t>(A(0)), c); }
            else if (op == "asn") { T c(I(1)); x.assign(static_cast<std::size_t>(A(0)), c); }
            else if (op == "asr") { trk::Src<T> src(s.xs); x.assign(src.p(), src.p() + src.n); }
            else if (op == "cpa") { x = y; }
            else if (op == "cpc") { Vec c(x); }
            else if (op == "sca") { auto& r = x; x = r; }
        }
    }
}

// ---- impl: inplace_vector<T, N>
template <typename Vec, typename T>
static void iv_step(Step const& s, Vec* (&v)[2])
{
    auto& x = *v[s.t];
    auto const& op = s.op;
    auto A = [&](int i) { return s.a[static_cast<std::size_t>(i)]; };
    auto I = [&](int i) { return static_cast<int>(A(i)); };
    if (op == "tpr") { (void)x.try_push_back(T(I(0))); }
    else if (op == "tpe") { (void)x.try_emplace_back(I(0)); }
    else if (op == "upr") { (void)x.unchecked_push_back(T(I(0))); }
    else if (op == "upe") { (void)x.unchecked_emplace_back(I(0)); }
    else if (op == "pop") { x.pop_back(); }
    else if (op == "clr") { x.clear(); }
    else if (op == "ivm") { Vec c(etl::move(x)); }
    else {
        if constexpr (T::copyable) {
            if (op == "tpc") { T c(I(0)); (void)x.try_push_back(c); }
            else if (op == "upc") { T c(I(0)); (void)x.unchecked_push_back(c); }
            else if (op == "ivc") { Vec c(x); }
        }
    }
}

static bool g_raw = false;

template <typename Vec, typename T, bool IsIv>
static void run_hist(std::vector<Step> const& steps, std::size_t cap, Out& impl, bool monitor_only)
{
    trk::g_log.clear();
    trk::g_log.reserve(1 << 14);
    alignas(Vec) static unsigned char raw0[sizeof(Vec)];
    alignas(Vec) static unsigned char raw1[sizeof(Vec)];
    Vec* v[2] = {new (raw0) Vec{}, new (raw1) Vec{}};
    trk::Locator where;
    where.regions.resize(2);
    for (int c = 0; c < 2; ++c) {
        where.regions[static_cast<std::size_t>(c)] = trk::Region{reinterpret_cast<char const*>(v[c]->data()), sizeof(T), cap};
    }
    trk::Monitor mon;
    std::size_t done = 0;
    std::string selfs;
    auto values = [&](Vec const& w) {
        std::vector<int> r;
        for (auto const& e : w) { r.push_back(e.v); }
        return r;
    };
    bool stopped = false;
    for (auto const& s : steps) {
        std::vector<int> before;
        if (is_self(s.op)) { before = values(*v[s.t]); }
        Out stepo;
        guarded(stepo, [&](Out& o) {
            if constexpr (IsIv) { iv_step<Vec, T>(s, v); } else { sv_step<Vec, T>(s, v); }
            o.tok("ok");
        });
        auto so = mon.run(where, trk::g_log, done);
        done    = trk::g_log.size();
        bool contract = stepo.s == "contract";
        if (!monitor_only) {
            impl.tok(";");
            if (contract) { impl.tok("contract"); }
            else {
                impl.tok("ok");
                for (auto* p : v) {
                    impl.num(static_cast<i64>(p->size()));
                    for (auto const& e : *p) { impl.num(e.v); }
                }
            }
            impl.tok("/").tok(trk::render(so, g_raw));
        }
        if (contract) { stopped = true; break; }
        if (is_self(s.op)) { selfs += (values(*v[s.t]) == before) ? " 1" : " 0"; }
    }
    v[0]->~Vec();
    v[1]->~Vec();
    auto so = mon.run(where, trk::g_log, done);
    if (!monitor_only) {
        impl.tok("; end /").tok(trk::render(so, g_raw));
        impl.tok("; wf").b(mon.wf).tok("alive").num(mon.alive());
    } else {
        if (stopped) { impl.tok("contract"); }
        impl.tok("wf").b(mon.wf).tok("alive").num(mon.alive()).tok("self" + selfs);
    }
}

template <typename F>
static bool with_cap(i64 cap, F&& f)
{
    switch (cap) {
    case 1: f.template operator()<1>(); return true;
    case 2: f.template operator()<2>(); return true;
    case 3: f.template operator()<3>(); return true;
    case 4: f.template operator()<4>(); return true;
    case 16: f.template operator()<16>(); return true;
    default: return false;
    }
}

template <typename T>
static bool dispatch(bool iv, i64 cap, std::vector<Step> const& steps, Out& impl, bool monitor_only)
{
    if (iv) {
        return with_cap(cap, [&]<std::size_t N>() { run_hist<etl::inplace_vector<T, N>, T, true>(steps, N, impl, monitor_only); });
    }
    return with_cap(cap, [&]<std::size_t N>() { run_hist<etl::static_vector<T, N>, T, false>(steps, N, impl, monitor_only); });
}

bool vh::run_case(std::string const& op, Toks& in, Out& impl, Out& ref)
{
    if (op != "hist" && op != "rawhist" && op != "mon") { return false; }
    g_raw             = op == "rawhist";
    bool monitor_only = op == "mon";
    auto family       = in.str();
    auto cap          = in.num();
    auto steps        = parse(in);
    bool iv           = family.rfind("iv_", 0) == 0;
    auto fl           = family.substr(3);
    bool ok           = false;
    if (fl == "cm") { ok = dispatch<trk::TrkCM>(iv, cap, steps, impl, monitor_only); }
    else if (fl == "m") { ok = dispatch<trk::TrkM>(iv, cap, steps, impl, monitor_only); }
    else if (fl == "c") { ok = dispatch<trk::TrkC>(iv, cap, steps, impl, monitor_only); }
    if (!ok) { impl.tok("bad-instantiation"); return true; }
    if (monitor_only) {
        SV v[2];
        bool dom = true;
        std::string selfs;
        for (auto const& s : steps) {
            if (!std_step(s, v, static_cast<std::size_t>(cap), fl != "c")) { dom = false; break; }
            if (is_self(s.op)) { selfs += " 1"; }
        }
        if (dom) { ref.tok("wf 1 alive 0").tok("self" + selfs); }
    }
    return true;
}

VERIF_MAIN()
