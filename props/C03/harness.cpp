// C03 harness: element-lifetime histories on the real containers, observed through instrumented
// element types (c03_track.hpp).
//
//   hist <family> <cap> <k> <ops...>     impl leg = per step: element values of the two objects + the
//                                        per-location lifecycle projection of the step's real event log;
//                                        reference leg = na (this op is the model<->code correspondence)
//   rawhist ...                          same with the raw canonical event list (diagnostics only)
//   mon  <family> <cap> <k> <ops...>     impl leg = verdict of the run-time monitor on the REAL log of the
//                                        whole history incl. the destructors: "wf <b> alive <n> self <b...>"
//                                        (self: value after == value before, per self-assignment/self-swap);
//                                        reference leg = the property: "wf 1 alive 0 self 1..." inside the
//                                        documented domain (validity decided on std::vector), else na
// family = (sv|iv|sk|ss|fs)_(cm|m|c): static_vector / inplace_vector / stack / static_set / flat_set of a copy+move /
// move-only / copy-only element; capacities 1,2,3,4,16 and (sv, iv) 0.
// A history that ends in a fired precondition prints the steps up to it and `; stopped ; wf <b>` (mon: `contract wf <b>`):
// nothing is compared about what happens after a contract violation.
// Build variants (prop.py HARNESSES): main; noexc = -fno-exceptions -DC03_EXPECT_NOEXC (the `#else` branches of the library's
// `#if defined(__cpp_exceptions)` splits; cases with a throwing constructor print `skip`); asan / asan_noexc (thorough tier).
// Operations added by the review: irf / mif / asf / ctf (range members with forward-iterator sources), cta (construction
// from T[n]), kcc / kmc (stack from a container), fei (erase_if on a flat_set); o-family: vsv vsu vsr vau vaw vnd vne vnc
// vnl vnm vrc vrm fac; a-family: ace ame acp amp aqa aqm; pcopy / pown (below).
//   bhist / bmon <family> <cap> ...      (missed-seed round 4) bulk histories that walk the element count over the limits of
//                                        size_type = smallest_size_t<Capacity> (capacities 254 .. 70000, element types TrkCM, TrkC, int): below.
#include "common.hpp"

#include <algorithm>
#include <utility>
#include <new>
#include <vector>

#include <etl/expected.hpp>
#include <etl/flat_set.hpp>
#include <etl/functional.hpp>
#include <etl/set.hpp>
#include <etl/stack.hpp>
#include <etl/tuple.hpp>
#include <etl/inplace_vector.hpp>
#include <etl/memory.hpp>
#include <etl/optional.hpp>
#include <etl/utility.hpp>
#include <etl/variant.hpp>
#include <etl/vector.hpp>

#include "c03_track.hpp"

// variant `noexc` (-fno-exceptions -DC03_EXPECT_NOEXC): the branch of every `#if defined(__cpp_exceptions)` split of the
// library that the exceptions-enabled builds never compile (uninitialized_copy / _move / _fill)
#if defined(C03_EXPECT_NOEXC) && defined(__cpp_exceptions)
    #error "the noexc variant must be compiled with -fno-exceptions"
#endif
#if !defined(C03_EXPECT_NOEXC) && !defined(__cpp_exceptions)
    #error "only the noexc variant may be compiled without exceptions"
#endif

using namespace vh;

static bool pred_of(int id, int v)
{
    auto key = v >= 0 ? v / 16 : -((-v + 15) / 16);
    switch (id) {
    case 0: return (key % 2) == 0;
    case 1: return key == 1;
    case 2: return key < 2;
    case 3: return true;
    default: return false;
    }
}

struct Step {
    std::string op;
    int t{0};
    std::vector<i64> a;
    std::vector<i64> xs;
};

static std::vector<Step> parse(Toks& in)
{
    std::vector<Step> steps;
    auto k = in.num();
    for (i64 i = 0; i < k; ++i) {
        Step s;
        s.op = in.str();
        auto need = [&](int n) { for (int j = 0; j < n; ++j) { s.a.push_back(in.num()); } };
        auto const& o = s.op;
        if (o == "swp") { }
        else if (o == "ctn") { need(1); }
        else if (o == "ctv") { need(2); }
        else if (o == "ctr" || o == "ctf" || o == "cta") { s.xs = in.list(); }
        else {
            s.t = static_cast<int>(in.num());
            if (o == "pbr" || o == "pbc" || o == "eb" || o == "era" || o == "rsz" || o == "eif" || o == "erv" || o == "tpc" || o == "tpr"
                || o == "tpe" || o == "upc" || o == "upr" || o == "upe" || o == "sir" || o == "sic" || o == "sem" || o == "sek" || o == "fir" || o == "fic"
                || o == "fem" || o == "fek" || o == "fei") { need(1); }
            else if (o == "icr" || o == "irv" || o == "emp" || o == "err" || o == "rsv" || o == "asn") { need(2); }
            else if (o == "inn") { need(3); }
            else if (o == "irg" || o == "mig" || o == "irf" || o == "mif") { need(1); s.xs = in.list(); }
            else if (o == "asr" || o == "frp" || o == "asf") { s.xs = in.list(); }
        }
        steps.push_back(s);
    }
    return steps;
}

static bool is_self(std::string const& op) { return op == "sca" || op == "sma" || op == "ssw" || op == "isc" || op == "ism"; }

// ---- reference domain: the same history on std::vector<int> with the documented preconditions
using SV = std::vector<int>;
static bool std_step(Step const& s, SV (&v)[2], std::size_t cap, bool movable)
{
    auto& x   = v[s.t];
    auto& y   = v[1 - s.t];
    auto sz   = static_cast<i64>(x.size());
    auto room = static_cast<i64>(cap) - sz;
    auto const& op = s.op;
    auto A = [&](int i) { return s.a[static_cast<std::size_t>(i)]; };
    auto mark = [&](SV& w) { if (movable) { for (auto& e : w) { e = trk::moved_marker; } } };
    if (op == "pbr" || op == "pbc" || op == "eb" || op == "upc" || op == "upr" || op == "upe") { if (room < 1) { return false; } x.push_back(static_cast<int>(A(0))); }
    else if (op == "tpc" || op == "tpr" || op == "tpe") { if (room >= 1) { x.push_back(static_cast<int>(A(0))); } }
    else if (op == "pop") { if (sz == 0) { return false; } x.pop_back(); }
    else if (op == "icr" || op == "irv" || op == "emp") { if (A(0) < 0 || A(0) > sz || room < 1) { return false; } x.insert(x.begin() + A(0), static_cast<int>(A(1))); }
    else if (op == "inn") { if (A(0) < 0 || A(0) > sz || A(1) < 0 || A(1) > room) { return false; } x.insert(x.begin() + A(0), static_cast<std::size_t>(A(1)), static_cast<int>(A(2))); }
    else if (op == "irg" || op == "mig" || op == "irf" || op == "mif") { if (A(0) < 0 || A(0) > sz || static_cast<i64>(s.xs.size()) > room) { return false; } SV src(s.xs.begin(), s.xs.end()); x.insert(x.begin() + A(0), src.begin(), src.end()); }
    else if (op == "era") { if (A(0) < 0 || A(0) >= sz) { return false; } x.erase(x.begin() + A(0)); }
    else if (op == "err") { if (A(0) < 0 || A(0) > A(1) || A(1) > sz) { return false; } x.erase(x.begin() + A(0), x.begin() + A(1)); }
    else if (op == "clr") { x.clear(); }
    else if (op == "rsz") { if (A(0) < 0 || A(0) > static_cast<i64>(cap)) { return false; } x.resize(static_cast<std::size_t>(A(0))); }
    else if (op == "rsv") { if (A(0) < 0 || A(0) > static_cast<i64>(cap)) { return false; } x.resize(static_cast<std::size_t>(A(0)), static_cast<int>(A(1))); }
    else if (op == "asn") { if (A(0) < 0 || A(0) > static_cast<i64>(cap)) { return false; } x.assign(static_cast<std::size_t>(A(0)), static_cast<int>(A(1))); }
    else if (op == "asr" || op == "asf") { if (s.xs.size() > cap) { return false; } SV src(s.xs.begin(), s.xs.end()); x.assign(src.begin(), src.end()); }
    else if (op == "swp") { v[0].swap(v[1]); }
    else if (op == "cpa") { x = y; }
    else if (op == "mva") { x = y; mark(y); }
    else if (op == "cpc" || op == "ivc" || op == "kcc") { }
    else if (op == "mvc" || op == "kmc") { mark(x); }
    else if (op == "ivm") { x.clear(); }
    else if (op == "iva") { x = y; }
    else if (op == "ivx") { x = y; y.clear(); }
    else if (op == "isc" || op == "ism") { }
    else if (op == "mrt") { }
    else if (op == "eif" || op == "fei") { auto id = static_cast<int>(A(0)); std::erase_if(x, [&](int e) { return pred_of(id, e); }); }
    else if (op == "erv") { std::erase(x, static_cast<int>(A(0))); }
    else if (op == "sca" || op == "sma" || op == "ssw") { }
    else if (op == "sir" || op == "sic" || op == "sem" || op == "fir" || op == "fic" || op == "fem") {
        // std::set semantics on the sorted vector; static_set silently ignores an insert into a full set,
        // flat_set over a static_vector inherits the vector's precondition
        auto key  = static_cast<int>(A(0));
        bool have = std::find(x.begin(), x.end(), key) != x.end();
        if (!have) {
            if (room < 1) { return op[0] == 's'; }
            x.insert(std::partition_point(x.begin(), x.end(), [&](int e) { return e < key; }), key);
        }
    }
    else if (op == "sek" || op == "fek") { std::erase(x, static_cast<int>(A(0))); }
    else if (op == "fex") { x.clear(); }
    else if (op == "frp") { if (s.xs.size() > cap) { return false; } x.assign(s.xs.begin(), s.xs.end()); }
    else if (op == "ctn" || op == "ctv") { if (A(0) < 0 || A(0) > static_cast<i64>(cap)) { return false; } }
    else if (op == "ctr" || op == "ctf" || op == "cta") { if (s.xs.size() > cap) { return false; } }
    else { return false; }
    return true;
}

// a forward iterator over T[]: not random access, so the `if constexpr (RandomAccessIterator)` capacity
// precondition of insert / move_insert / assign / the range constructor is absent
template <typename T>
struct Fwd {
    using iterator_category = etl::forward_iterator_tag;
    using value_type        = T;
    using difference_type   = etl::ptrdiff_t;
    using pointer           = T*;
    using reference         = T&;
    T* p{nullptr};
    auto operator*() const -> T& { return *p; }
    auto operator->() const -> T* { return p; }
    auto operator++() -> Fwd& { ++p; return *this; }
    auto operator++(int) -> Fwd { auto t = *this; ++p; return t; }
    friend auto operator==(Fwd a, Fwd b) -> bool { return a.p == b.p; }
    friend auto operator!=(Fwd a, Fwd b) -> bool { return a.p != b.p; }
};
static_assert(etl::detail::InputIterator<Fwd<int>> && !etl::detail::RandomAccessIterator<Fwd<int>>);

// { Vec c(etl::move(src)); } with src of type T[K]: static_vector(c_array<T, K>&&), K <= N
template <typename Vec, typename T, std::size_t N>
static void ctor_from_array(trk::Src<T>& src)
{
    auto go = [&]<std::size_t K>() {
        if constexpr (K <= N) {
            using Arr = T[K];
            Vec c(etl::move(*reinterpret_cast<Arr*>(src.raw)));
        }
    };
    switch (src.n) {
    case 1: go.template operator()<1>(); break;
    case 2: go.template operator()<2>(); break;
    case 3: go.template operator()<3>(); break;
    case 4: go.template operator()<4>(); break;
    default: break;
    }
}

// ---- impl: static_vector<T, N>
template <typename Vec, typename T, std::size_t N>
static void sv_step(Step const& s, Vec* (&v)[2])
{
    auto& x = *v[s.t];
    auto& y = *v[1 - s.t];
    auto const& op = s.op;
    auto A = [&](int i) { return s.a[static_cast<std::size_t>(i)]; };
    auto I = [&](int i) { return static_cast<int>(A(i)); };
    if (op == "pbr") { x.push_back(T(I(0))); }
    else if (op == "eb") { x.emplace_back(I(0)); }
    else if (op == "pop") { x.pop_back(); }
    else if (op == "irv") { T c(I(1)); x.insert(x.begin() + A(0), etl::move(c)); }
    else if (op == "mig") { trk::Src<T> src(s.xs); x.move_insert(x.begin() + A(0), src.p(), src.p() + src.n); }
    else if (op == "mif") { trk::Src<T> src(s.xs); x.move_insert(x.begin() + A(0), Fwd<T>{src.p()}, Fwd<T>{src.p() + src.n}); }
    else if (op == "cta") { trk::Src<T> src(s.xs); ctor_from_array<Vec, T, N>(src); }
    else if (op == "emp") { x.emplace(x.begin() + A(0), I(1)); }
    else if (op == "era") { x.erase(x.begin() + A(0)); }
    else if (op == "err") { x.erase(x.begin() + A(0), x.begin() + A(1)); }
    else if (op == "clr") { x.clear(); }
    else if (op == "rsz") { x.resize(static_cast<std::size_t>(A(0))); }
    else if (op == "swp") { v[0]->swap(*v[1]); }
    else if (op == "mva") { x = etl::move(y); }
    else if (op == "mvc") { Vec c(etl::move(x)); }
    else if (op == "mrt") { Vec tmp(etl::move(x)); x = etl::move(tmp); }
    else if (op == "eif" || op == "fei") { auto id = I(0); (void)etl::erase_if(x, [&](T const& e) { return pred_of(id, e.v); }); }
    else if (op == "erv") { T c(I(0)); (void)etl::erase(x, c); }
    else if (op == "sma") { auto& r = x; x = etl::move(r); }
    else if (op == "ssw") { x.swap(x); }
    else if (op == "ctn") { Vec c(static_cast<std::size_t>(A(0))); }
    else {
        if constexpr (T::copyable) {
            if (op == "pbc") { T c(I(0)); x.push_back(c); }
            else if (op == "ctv") { T val(I(1)); { Vec c(static_cast<std::size_t>(A(0)), val); } }
            else if (op == "ctr") { trk::Src<T> src(s.xs); { Vec c(src.p(), src.p() + src.n); } }
            else if (op == "icr") { T c(I(1)); x.insert(x.begin() + A(0), c); }
            else if (op == "inn") { T c(I(2)); x.insert(x.begin() + A(0), static_cast<std::size_t>(A(1)), c); }
            else if (op == "irg") { trk::Src<T> src(s.xs); x.insert(x.begin() + A(0), src.p(), src.p() + src.n); }
            else if (op == "rsv") { T c(I(1)); x.resize(static_cast<std::size_t>(A(0)), c); }
            else if (op == "asn") { T c(I(1)); x.assign(static_cast<std::size_t>(A(0)), c); }
            else if (op == "asr") { trk::Src<T> src(s.xs); x.assign(src.p(), src.p() + src.n); }
            else if (op == "irf") { trk::Src<T> src(s.xs); x.insert(x.begin() + A(0), Fwd<T>{src.p()}, Fwd<T>{src.p() + src.n}); }
            else if (op == "asf") { trk::Src<T> src(s.xs); x.assign(Fwd<T>{src.p()}, Fwd<T>{src.p() + src.n}); }
            else if (op == "ctf") { trk::Src<T> src(s.xs); { Vec c(Fwd<T>{src.p()}, Fwd<T>{src.p() + src.n}); } }
            else if (op == "cpa") { x = y; }
            else if (op == "cpc") { Vec c(x); }
            else if (op == "sca") { auto& r = x; x = r; }
        }
    }
}

// ---- impl: inplace_vector<T, N>
template <typename Vec, typename T>
static void iv_step(Step const& s, Vec* (&v)[2])
{
    auto& x = *v[s.t];
    auto const& op = s.op;
    auto A = [&](int i) { return s.a[static_cast<std::size_t>(i)]; };
    auto I = [&](int i) { return static_cast<int>(A(i)); };
    if (op == "tpr") { (void)x.try_push_back(T(I(0))); }
    else if (op == "tpe") { (void)x.try_emplace_back(I(0)); }
    else if (op == "upr") { (void)x.unchecked_push_back(T(I(0))); }
    else if (op == "upe") { (void)x.unchecked_emplace_back(I(0)); }
    else if (op == "pop") { x.pop_back(); }
    else if (op == "clr") { x.clear(); }
    else if (op == "ivm") { Vec c(etl::move(x)); }
    else if (op == "ivx") { x = etl::move(*v[1 - s.t]); }
    else if (op == "ism") { auto& r = x; x = etl::move(r); }
    else {
        if constexpr (T::copyable) {
            if (op == "iva") { x = *v[1 - s.t]; }
            else if (op == "isc") { auto& r = x; x = r; }
            else if (op == "tpc") { T c(I(0)); (void)x.try_push_back(c); }
            else if (op == "upc") { T c(I(0)); (void)x.unchecked_push_back(c); }
            else if (op == "ivc") { Vec c(x); }
        }
    }
}

// ---- impl: stack<T, static_vector<T, N>>, static_set<T, N>, flat_set<T, static_vector<T, N>> ----------
template <typename T, std::size_t N>
struct StackObj : etl::stack<T, etl::static_vector<T, N>> {
    using base = etl::stack<T, etl::static_vector<T, N>>;
    using base::c;
    auto data() { return c.data(); }
    auto begin() const { return c.begin(); }
    auto end() const { return c.end(); }
};

template <typename T, std::size_t N>
struct SetObj : etl::static_set<T, N> {
    auto data() { return this->begin(); }
};

template <typename T, std::size_t N>
struct FlatObj : etl::flat_set<T, etl::static_vector<T, N>> {
    auto data() { return this->begin(); }
};

template <typename Vec, typename T>
static void sk_step(Step const& s, Vec* (&v)[2])
{
    auto& x = *v[s.t];
    auto& y = *v[1 - s.t];
    auto const& op = s.op;
    auto I = [&](int i) { return static_cast<int>(s.a[static_cast<std::size_t>(i)]); };
    if (op == "pbr") { x.push(T(I(0))); }
    else if (op == "eb") { x.emplace(I(0)); }
    else if (op == "pop") { x.pop(); }
    else if (op == "swp") { v[0]->swap(*v[1]); }
    else if (op == "mva") { x = etl::move(y); }
    else if (op == "mvc") { Vec c(etl::move(x)); }
    else if (op == "kmc") { typename Vec::base c(etl::move(x.c)); }      // stack(Container&&)
    else if (op == "mrt") { Vec tmp(etl::move(x)); x = etl::move(tmp); }
    else if (op == "sma") { auto& r = x; x = etl::move(r); }
    else if (op == "ssw") { x.swap(x); }
    else {
        if constexpr (T::copyable) {
            if (op == "pbc") { T c(I(0)); x.push(c); }
            else if (op == "kcc") { typename Vec::base c(x.c); }         // stack(Container const&)
            else if (op == "cpa") { x = y; }
            else if (op == "cpc") { Vec c(x); }
            else if (op == "sca") { auto& r = x; x = r; }
        }
    }
}

template <typename Vec, typename T, bool Flat>
static void set_step(Step const& s, Vec* (&v)[2])
{
    auto& x = *v[s.t];
    auto& y = *v[1 - s.t];
    auto const& op = s.op;
    auto A = [&](int i) { return s.a[static_cast<std::size_t>(i)]; };
    auto I = [&](int i) { return static_cast<int>(A(i)); };
    if (op == "sir" || op == "fir") { T c(I(0)); (void)x.insert(etl::move(c)); }
    else if (op == "fex") {
        if constexpr (Flat) { auto c = etl::move(x).extract(); (void)c; }
    }
    else if (op == "frp") {
        if constexpr (Flat) {
            typename Vec::container_type c;
            for (auto e : s.xs) { c.emplace_back(static_cast<int>(e)); }
            x.replace(etl::move(c));
        }
    }
    else if (op == "fei") {
        if constexpr (Flat) {
            auto id = I(0);
            (void)etl::erase_if(static_cast<etl::flat_set<T, typename Vec::container_type>&>(x), [&](T const& e) { return pred_of(id, e.v); });
        }
    }
    else if (op == "era") { (void)x.erase(x.begin() + A(0)); }
    else if (op == "err") { (void)x.erase(x.begin() + A(0), x.begin() + A(1)); }
    else if (op == "clr") { x.clear(); }
    else if (op == "swp") { v[0]->swap(*v[1]); }
    else if (op == "mva") { x = etl::move(y); }
    else if (op == "mvc") { Vec c(etl::move(x)); }
    else if (op == "mrt") { Vec tmp(etl::move(x)); x = etl::move(tmp); }
    else if (op == "sma") { auto& r = x; x = etl::move(r); }
    else if (op == "ssw") { x.swap(x); }
    else {
        if constexpr (T::copyable) {
            if (op == "sic" || op == "fic") { T c(I(0)); (void)x.insert(c); }
            else if (op == "sem" || op == "fem") { (void)x.emplace(I(0)); }
            else if (op == "sek" || op == "fek") { T c(I(0)); (void)x.erase(c); }
            else if (op == "cpa") { x = y; }
            else if (op == "cpc") { Vec c(x); }
            else if (op == "sca") { auto& r = x; x = r; }
        }
    }
}

static bool g_raw = false;

enum Kind : int { KSv = 0, KIv = 1, KStack = 2, KSet = 3, KFlat = 4 };

template <typename Vec, typename T, int K, std::size_t N>
static void run_hist(std::vector<Step> const& steps, std::size_t cap, Out& impl, bool monitor_only)
{
    trk::g_log.clear();
    trk::g_log.reserve(1 << 14);
    alignas(Vec) static unsigned char raw0[sizeof(Vec)];
    alignas(Vec) static unsigned char raw1[sizeof(Vec)];
    Vec* v[2] = {new (raw0) Vec{}, new (raw1) Vec{}};
    trk::Locator where;
    where.regions.resize(2);
    for (int c = 0; c < 2; ++c) {
        where.regions[static_cast<std::size_t>(c)] = trk::Region{reinterpret_cast<char const*>(v[c]->data()), sizeof(T), cap};
    }
    trk::Monitor mon;
    std::size_t done = 0;
    std::string selfs;
    auto values = [&](Vec const& w) {
        std::vector<int> r;
        for (auto const& e : w) { r.push_back(e.v); }
        return r;
    };
    bool stopped = false;
    for (auto const& s : steps) {
        std::vector<int> before;
        if (is_self(s.op)) { before = values(*v[s.t]); }
        Out stepo;
        guarded(stepo, [&](Out& o) {
            if constexpr (K == KIv) { iv_step<Vec, T>(s, v); }
            else if constexpr (K == KStack) { sk_step<Vec, T>(s, v); }
            else if constexpr (K == KSet) { set_step<Vec, T, false>(s, v); }
            else if constexpr (K == KFlat) { set_step<Vec, T, true>(s, v); }
            else { sv_step<Vec, T, N>(s, v); }
            o.tok("ok");
        });
        auto so = mon.run(where, trk::g_log, done);
        done    = trk::g_log.size();
        bool contract = stepo.s == "contract";
        if (!monitor_only) {
            impl.tok(";");
            if (contract) { impl.tok("contract"); }
            else {
                impl.tok("ok");
                for (auto* p : v) {
                    impl.num(static_cast<i64>(p->size()));
                    for (auto const& e : *p) { impl.num(e.v); }
                }
            }
            impl.tok("/").tok(trk::render(so, g_raw));
        }
        if (contract) { stopped = true; break; }
        if (is_self(s.op)) { selfs += (values(*v[s.t]) == before) ? " 1" : " 0"; }
    }
    bool wf_prefix = mon.wf;
    v[0]->~Vec();
    v[1]->~Vec();
    if (stopped) {
        // a precondition fired: nothing is claimed (or compared) about what happens afterwards; a member that
        // appends element by element may have been stopped half way (forward-iterator sources)
        if (!monitor_only) { impl.tok("; stopped ; wf").b(wf_prefix); }
        else { impl.tok("contract wf").b(wf_prefix); }
        return;
    }
    auto so = mon.run(where, trk::g_log, done);
    if (!monitor_only) {
        impl.tok("; end /").tok(trk::render(so, g_raw));
        impl.tok("; wf").b(mon.wf).tok("alive").num(mon.alive());
    } else {
        impl.tok("wf").b(mon.wf).tok("alive").num(mon.alive()).tok("self" + selfs);
    }
}

template <bool Zero = false, typename F>
static bool with_cap(i64 cap, F&& f)
{
    if constexpr (Zero) {
        if (cap == 0) { f.template operator()<0>(); return true; }   // static_vector<T, 0> / inplace_vector<T, 0>
    }
    switch (cap) {
    case 1: f.template operator()<1>(); return true;
    case 2: f.template operator()<2>(); return true;
    case 3: f.template operator()<3>(); return true;
    case 4: f.template operator()<4>(); return true;
    case 16: f.template operator()<16>(); return true;
    default: return false;
    }
}

template <typename T>
static bool dispatch(std::string const& kind, i64 cap, std::vector<Step> const& steps, Out& impl, bool monitor_only)
{
    if (kind == "iv") {
        return with_cap<true>(cap, [&]<std::size_t N>() { run_hist<etl::inplace_vector<T, N>, T, KIv, N>(steps, N, impl, monitor_only); });
    }
    if (kind == "sk") {
        return with_cap(cap, [&]<std::size_t N>() { run_hist<StackObj<T, N>, T, KStack, N>(steps, N, impl, monitor_only); });
    }
    if (kind == "ss") {
        return with_cap(cap, [&]<std::size_t N>() { run_hist<SetObj<T, N>, T, KSet, N>(steps, N, impl, monitor_only); });
    }
    if (kind == "fs") {
        return with_cap(cap, [&]<std::size_t N>() { run_hist<FlatObj<T, N>, T, KFlat, N>(steps, N, impl, monitor_only); });
    }
    return with_cap<true>(cap, [&]<std::size_t N>() { run_hist<etl::static_vector<T, N>, T, KSv, N>(steps, N, impl, monitor_only); });
}


// =================================================================================================
// owners of one object at a time: variant / optional / expected / inplace_function
//   ohist <family> <k> <ops...>   omon <family> <k> <ops...>   (orawhist: raw events)
// family = (var|vpd|opt|exp|fun)_(cm|m|c|t)
//   var: etl::variant<T<0>, int, T<2>>      opt: etl::optional<T<1>>
//   vpd: etl::variant<T<0>, int, T<2>, Pod> (Pod: trivially destructible class type, not instrumented)
//   var / vpd ops by TYPE: vet (emplace<Tj>(x)), vty ({ V tmp(in_place_type<Tj>, x); v = move(tmp); }), vsy ({ V c(in_place_type<Tj>, x); })
//   exp: etl::expected<T<0>, T<1>>          fun: etl::inplace_function<int(int*), 16> holding T<1> / T<2>
// observation per object: index of the live alternative and its value (0 when it is not instrumented)
// =================================================================================================
struct OStep {
    std::string op;
    int t{0};
    int j{0};
    int x{0};
};

static std::vector<OStep> parse_own(Toks& in)
{
    std::vector<OStep> steps;
    auto k = in.num();
    for (i64 i = 0; i < k; ++i) {
        OStep s;
        s.op = in.str();
        auto const& o = s.op;
        if (o != "vsw" && o != "fsw") { s.t = static_cast<int>(in.num()); }
        if (o == "vem" || o == "var" || o == "vac" || o == "vav" || o == "vat" || o == "fas" || o == "vvc" || o == "vvm" || o == "vsv"
            || o == "vsu" || o == "vsr" || o == "vau" || o == "vaw" || o == "fac" || o == "vet" || o == "vty" || o == "vsy") {
            s.j = static_cast<int>(in.num());
            s.x = static_cast<int>(in.num());
        }
        steps.push_back(s);
    }
    return steps;
}

static bool own_is_self(std::string const& op)
{
    return op == "vsc" || op == "vsm" || op == "vss" || op == "fsc" || op == "fsm" || op == "fss";
}

// a trivially destructible CLASS type as a variant alternative: it has no special member that could be observed (the
// model treats it like int: no events), but unlike a scalar it reaches the converting assignment template
// variant::operator=(T&&), which replaces a different held alternative through emplace<T> BY TYPE.  y == x + 1 is
// checked by observe (an object built over live storage or half built shows up as `torn`).
struct Pod {
    int x;
    int y;
    Pod() = default;
    explicit constexpr Pod(int v) noexcept : x{v}, y{v + 1} { }
};
static_assert(std::is_class_v<Pod> && std::is_trivially_destructible_v<Pod> && std::is_trivially_copyable_v<Pod>);
static_assert(etl::is_assignable_v<Pod, Pod> && !etl::is_assignable_v<int, int>);   // why `v = Pod{}` and `v = 1` take different paths

// WithPod = false: etl::variant<T<0>, int, T<2>> (family var); true: etl::variant<T<0>, int, T<2>, Pod> (family vpd)
template <template <int> class T, bool WithPod = false>
struct VarAd {
    using A   = T<0>;
    using B   = T<2>;
    using Obj = etl::conditional_t<WithPod, etl::variant<A, int, B, Pod>, etl::variant<A, int, B>>;
    static constexpr bool is_exp = false;
    static constexpr bool tracked(i64 idx) { return idx == 0 || idx == 2; }
    static void observe(Obj const& v, i64& idx, i64& val)
    {
        idx = static_cast<i64>(v.index());
        val = 0;
        if (idx == 0) { val = etl::get_if<0>(&v)->v; }
        if (idx == 2) { val = etl::get_if<2>(&v)->v; }
        if constexpr (WithPod) {
            if (idx == 3) { auto const* p = etl::get_if<3>(&v); val = (p->y == p->x + 1) ? 0 : -777; }
        }
    }
    static void apply(OStep const& s, Obj* (&v)[2])
    {
        auto& x        = *v[s.t];
        auto& y        = *v[1 - s.t];
        auto const& op = s.op;
        if (op == "vem") {
            // emplace<I>(args...) BY INDEX
            if (s.j == 0) { x.template emplace<0>(s.x); }
            else if (s.j == 1) { x.template emplace<1>(s.x); }
            else if (s.j == 2) { x.template emplace<2>(s.x); }
            else { if constexpr (WithPod) { x.template emplace<3>(s.x); } }
        }
        else if (op == "vet") {
            // emplace<T>(args...) BY TYPE: its own overload (destroy(); replace(index_of<T>, args...))
            if (s.j == 0) { x.template emplace<A>(s.x); }
            else if (s.j == 1) { x.template emplace<int>(s.x); }
            else if (s.j == 2) { x.template emplace<B>(s.x); }
            else { if constexpr (WithPod) { x.template emplace<Pod>(s.x); } }
        }
        else if (op == "var") {
            if (s.j == 0) { x = A(s.x); }
            else if (s.j == 1) { x = int(s.x); }
            else if (s.j == 2) { x = B(s.x); }
            else { if constexpr (WithPod) { x = Pod(s.x); } }
        }
        else if (op == "vac" && s.j == 3) {
            if constexpr (WithPod) { Pod c(s.x); x = c; }
        }
        else if (op == "vat") {
            if (s.j == 0) { Obj tmp(etl::in_place_index<0>, s.x); x = etl::move(tmp); }
            else if (s.j == 1) { Obj tmp(etl::in_place_index<1>, s.x); x = etl::move(tmp); }
            else if (s.j == 2) { Obj tmp(etl::in_place_index<2>, s.x); x = etl::move(tmp); }
            else { if constexpr (WithPod) { Obj tmp(etl::in_place_index<3>, s.x); x = etl::move(tmp); } }
        }
        else if (op == "vty") {
            // the temporary is built by variant(in_place_type<T>, args...)
            if (s.j == 0) { Obj tmp(etl::in_place_type<A>, s.x); x = etl::move(tmp); }
            else if (s.j == 1) { Obj tmp(etl::in_place_type<int>, s.x); x = etl::move(tmp); }
            else if (s.j == 2) { Obj tmp(etl::in_place_type<B>, s.x); x = etl::move(tmp); }
            else { if constexpr (WithPod) { Obj tmp(etl::in_place_type<Pod>, s.x); x = etl::move(tmp); } }
        }
        else if (op == "vsv") {
            if (s.j == 0) { Obj c(etl::in_place_index<0>, s.x); }
            else if (s.j == 1) { Obj c(etl::in_place_index<1>, s.x); }
            else if (s.j == 2) { Obj c(etl::in_place_index<2>, s.x); }
            else { if constexpr (WithPod) { Obj c(etl::in_place_index<3>, s.x); } }
        }
        else if (op == "vsy") {
            if (s.j == 0) { Obj c(etl::in_place_type<A>, s.x); }
            else if (s.j == 1) { Obj c(etl::in_place_type<int>, s.x); }
            else if (s.j == 2) { Obj c(etl::in_place_type<B>, s.x); }
            else { if constexpr (WithPod) { Obj c(etl::in_place_type<Pod>, s.x); } }
        }
        else if (op == "vma") { x = etl::move(y); }
        else if (op == "vsm") { auto& r = x; x = etl::move(r); }
        else if (op == "vmc") { Obj c(etl::move(x)); }
        else if (op == "vsw") { etl::swap(*v[0], *v[1]); }
        else if (op == "vss") { etl::swap(x, x); }
        else {
            if constexpr (A::copyable) {
                if (op == "vac") {
                    if (s.j == 0) { A c(s.x); x = c; }
                    else if (s.j == 1) { int c = s.x; x = c; }
                    else { B c(s.x); x = c; }
                }
                else if (op == "vca") { x = y; }
                else if (op == "vsc") { auto& r = x; x = r; }
                else if (op == "vcc") { Obj c(x); }
            }
        }
    }
};
template <template <int> class T>
using VarPodAd = VarAd<T, true>;

template <template <int> class T>
struct OptAd {
    using E   = T<1>;
    using Obj = etl::optional<E>;
    static constexpr bool is_exp = false;
    static constexpr bool tracked(i64 idx) { return idx == 1; }
    static void observe(Obj const& v, i64& idx, i64& val)
    {
        idx = v.has_value() ? 1 : 0;
        val = v.has_value() ? (*v).v : 0;
    }
    static void apply(OStep const& s, Obj* (&v)[2])
    {
        auto& x        = *v[s.t];
        auto& y        = *v[1 - s.t];
        auto const& op = s.op;
        if (op == "vem") {
            if (s.j == 1) { x.emplace(s.x); } else { x.reset(); }
        }
        else if (op == "vav") {
            if (s.j == 1) { x = E(s.x); } else { x = etl::nullopt; }
        }
        else if (op == "vat") {
            if (s.j == 1) { Obj tmp(etl::in_place, s.x); x = etl::move(tmp); }
            else { Obj tmp; x = etl::move(tmp); }
        }
        else if (op == "vma") { x = etl::move(y); }
        else if (op == "vsm") { auto& r = x; x = etl::move(r); }
        else if (op == "vmc") { Obj c(etl::move(x)); }
        else if (op == "vsw") { v[0]->swap(*v[1]); }
        else if (op == "vss") { x.swap(x); }
        else if (op == "vvm") { E d(s.x); { E r = etl::move(x).value_or(etl::move(d)); (void)r; } }
        else if (op == "vom") { auto r = etl::move(x).or_else([] { return Obj{}; }); (void)r; }
        else if (op == "vsv") {
            if (s.j == 1) { Obj c(etl::in_place, s.x); } else { Obj c(etl::nullopt); }
        }
        // converting constructors / assignments from an optional<int>: emplace(*other) or reset()
        else if (op == "vsu") { auto u = s.j == 1 ? etl::optional<int>{s.x} : etl::optional<int>{}; { Obj c(u); } }
        else if (op == "vsr") { auto u = s.j == 1 ? etl::optional<int>{s.x} : etl::optional<int>{}; { Obj c(etl::move(u)); } }
        else if (op == "vau") { auto u = s.j == 1 ? etl::optional<int>{s.x} : etl::optional<int>{}; x = u; }
        else if (op == "vaw") { auto u = s.j == 1 ? etl::optional<int>{s.x} : etl::optional<int>{}; x = etl::move(u); }
        // and_then: the callable sees the value, nothing is copied
        else if (op == "vnd") { auto r = std::as_const(x).and_then([](E const&) { return etl::optional<int>{1}; }); (void)r; }
        else if (op == "vne") { auto r = etl::move(x).and_then([](E&&) { return etl::optional<int>{1}; }); (void)r; }
        else {
            if constexpr (E::copyable) {
                if (op == "vvc") { E d(s.x); { E r = x.value_or(d); (void)r; } }
                else if (op == "voc") { auto r = x.or_else([] { return Obj{}; }); (void)r; }
                else if (op == "vca") { x = y; }
                else if (op == "vsc") { auto& r = x; x = r; }
                else if (op == "vcc") { Obj c(x); }
            }
        }
    }
};

template <template <int> class T>
struct ExpAd {
    using A   = T<0>;
    using B   = T<1>;
    using Obj = etl::expected<A, B>;
    static constexpr bool is_exp = true;
    static constexpr bool tracked(i64) { return true; }
    static void observe(Obj const& v, i64& idx, i64& val)
    {
        idx = v.has_value() ? 0 : 1;
        val = v.has_value() ? (*v).v : v.error().v;
    }
    static void apply(OStep const& s, Obj* (&v)[2])
    {
        auto& x        = *v[s.t];
        auto& y        = *v[1 - s.t];
        auto const& op = s.op;
        if (op == "vem") { x.emplace(s.x); }
        else if (op == "vat") {
            if (s.j == 0) { Obj tmp(etl::in_place, s.x); x = etl::move(tmp); }
            else { Obj tmp(etl::unexpect, s.x); x = etl::move(tmp); }
        }
        else if (op == "vma") { x = etl::move(y); }
        else if (op == "vsm") { auto& r = x; x = etl::move(r); }
        else if (op == "vmc") { Obj c(etl::move(x)); }
        else if (op == "vsw") { etl::swap(*v[0], *v[1]); }
        else if (op == "vss") { etl::swap(x, x); }
        else if (op == "vvm") { A d(s.x); { A r = etl::move(x).value_or(etl::move(d)); (void)r; } }
        else if (op == "vsv") {
            if (s.j == 0) { Obj c(etl::in_place, s.x); } else { Obj c(etl::unexpect, s.x); }
        }
        // and_then: the error is handed on (copied / moved into the result); or_else: the value is
        else if (op == "vnm") { auto r = etl::move(x).and_then([](A&&) { return etl::expected<int, B>(etl::in_place, 1); }); (void)r; }
        else if (op == "vrm") { auto r = etl::move(x).or_else([](B&&) { return etl::expected<A, int>(etl::unexpect, 1); }); (void)r; }
        else {
            if constexpr (A::copyable) {
                if (op == "vvc") { A d(s.x); { A r = x.value_or(d); (void)r; } }
                else if (op == "vnc") { auto r = std::as_const(x).and_then([](A const&) { return etl::expected<int, B>(etl::in_place, 1); }); (void)r; }
                else if (op == "vnl") { auto r = x.and_then([](A&) { return etl::expected<int, B>(etl::in_place, 1); }); (void)r; }
                else if (op == "vrc") { auto r = std::as_const(x).or_else([](B const&) { return etl::expected<A, int>(etl::unexpect, 1); }); (void)r; }
                else if (op == "vca") { x = y; }
                else if (op == "vsc") { auto& r = x; x = r; }
                else if (op == "vcc") { Obj c(x); }
            }
        }
    }
};

template <template <int> class T>
struct FunAd {
    using C1  = T<1>;
    using C2  = T<2>;
    using Obj = etl::inplace_function<int(int*), 16>;
    static constexpr bool tracked(i64 idx) { return idx != 0; }
    static void observe(Obj const& f, i64& idx, i64& val)
    {
        idx = 0;
        val = 0;
        if (static_cast<bool>(f)) {
            int got = 0;
            idx     = f(&got);
            val     = got;
        }
    }
    static void apply(OStep const& s, Obj* (&v)[2])
    {
        auto& x        = *v[s.t];
        auto& y        = *v[1 - s.t];
        auto const& op = s.op;
        if (op == "fas") {
            if (s.j == 1) { x = C1(s.x); } else { x = C2(s.x); }
        }
        else if (op == "fac") {
            if (s.j == 1) { C1 c(s.x); x = c; } else { C2 c(s.x); x = c; }
        }
        else if (op == "fan") { x = nullptr; }
        else if (op == "fca") { x = y; }
        else if (op == "fma") { x = etl::move(y); }
        else if (op == "fsc") { auto& r = x; x = r; }
        else if (op == "fsm") { auto& r = x; x = etl::move(r); }
        else if (op == "fcc") { Obj c(x); }
        else if (op == "fmc") { Obj c(etl::move(x)); }
        else if (op == "fxc") { etl::inplace_function<int(int*), 32> c(x); }
        else if (op == "fxm") { etl::inplace_function<int(int*), 32> c(etl::move(x)); }
        else if (op == "fsw") { v[0]->swap(*v[1]); }
        else if (op == "fss") { x.swap(x); }
        else if (op == "fiv") { (void)x(nullptr); }
    }
};

template <typename Ad>
static void run_own(std::vector<OStep> const& steps, Out& impl, bool monitor_only)
{
    using Obj = typename Ad::Obj;
    trk::g_log.clear();
    trk::g_log.reserve(1 << 12);
    alignas(Obj) static unsigned char raw0[sizeof(Obj)];
    alignas(Obj) static unsigned char raw1[sizeof(Obj)];
    trk::Locator where;
    where.by_tag = true;
    where.regions.resize(2);
    where.regions[0] = trk::Region{reinterpret_cast<char const*>(raw0), sizeof(Obj), 1};
    where.regions[1] = trk::Region{reinterpret_cast<char const*>(raw1), sizeof(Obj), 1};
    trk::Locator storage = where;
    storage.collapsed    = true;
    Obj* v[2] = {new (raw0) Obj{}, new (raw1) Obj{}};
    trk::Monitor mon;
    trk::Monitor mon_storage;
    std::size_t done = 0;
    (void)mon.run(where, trk::g_log, done);            // the events of the two default constructions
    (void)mon_storage.run(storage, trk::g_log, done);
    done = trk::g_log.size();
    std::string selfs;
    auto obs = [&](Obj const& w) {
        i64 idx = 0;
        i64 val = 0;
        Ad::observe(w, idx, val);
        return std::pair<i64, i64>{idx, val};
    };
    bool stopped = false;
    for (auto const& s : steps) {
        std::pair<i64, i64> before{0, 0};
        if (own_is_self(s.op)) { before = obs(*v[s.t]); }
        Out stepo;
        guarded(stepo, [&](Out& o) {
            Ad::apply(s, v);
            o.tok("ok");
        });
        auto so = mon.run(where, trk::g_log, done);
        (void)mon_storage.run(storage, trk::g_log, done);
        done          = trk::g_log.size();
        bool contract = stepo.s == "contract";
        if (!monitor_only) {
            impl.tok(";");
            if (contract) { impl.tok("contract"); }
            else {
                impl.tok("ok");
                for (auto* p : v) {
                    auto o = obs(*p);
                    impl.num(2).num(o.first).num(o.second);
                }
            }
            impl.tok("/").tok(trk::render(so, g_raw));
        }
        if (contract) { stopped = true; break; }
        if (own_is_self(s.op)) { selfs += (obs(*v[s.t]) == before) ? " 1" : " 0"; }
        // the storage of an object holds an instrumented object exactly when index() names an instrumented alternative
        // (an alternative without observable special members - int, nullopt_t, Pod, the empty vtable - built over an
        // object that was not destroyed, or an index that names an alternative that was never built)
        for (int c = 0; c < 2; ++c) {
            bool live = mon_storage.get(trk::Loc{c, 0}) != trk::Dead;
            if (live != Ad::tracked(obs(*v[c]).first)) { mon_storage.wf = false; }
        }
    }
    bool wf_prefix = mon.wf;
    v[0]->~Obj();
    v[1]->~Obj();
    if (stopped) {
        if (!monitor_only) { impl.tok("; stopped ; wf").b(wf_prefix); }
        else { impl.tok("contract wf").b(wf_prefix); }
        return;
    }
    auto so = mon.run(where, trk::g_log, done);
    (void)mon_storage.run(storage, trk::g_log, done);
    if (!monitor_only) {
        impl.tok("; end /").tok(trk::render(so, g_raw));
        impl.tok("; wf").b(mon.wf).tok("alive").num(mon.alive());
    } else {
        impl.tok("wf").b(mon.wf).tok("alive").num(mon.alive()).tok("st").b(mon_storage.wf).tok("self" + selfs);
    }
}

template <template <int> class T>
static bool own_dispatch(std::string const& kind, std::vector<OStep> const& steps, Out& impl, bool monitor_only)
{
    if (kind == "var") { run_own<VarAd<T>>(steps, impl, monitor_only); return true; }
    if (kind == "vpd") { run_own<VarPodAd<T>>(steps, impl, monitor_only); return true; }
    if (kind == "opt") { run_own<OptAd<T>>(steps, impl, monitor_only); return true; }
    if (kind == "exp") { run_own<ExpAd<T>>(steps, impl, monitor_only); return true; }
    if constexpr (T<1>::copyable) {
        if (kind == "fun") { run_own<FunAd<T>>(steps, impl, monitor_only); return true; }
    }
    return false;
}

static bool own_case(std::string const& op, Toks& in, Out& impl, Out& ref)
{
    g_raw             = op == "orawhist";
    bool monitor_only = op == "omon";
    auto family       = in.str();
    auto steps        = parse_own(in);
    auto kind         = family.substr(0, 3);
    auto fl           = family.size() > 4 ? family.substr(4) : std::string();
    bool ok           = false;
    if (fl == "cm") { ok = own_dispatch<trk::TCM>(kind, steps, impl, monitor_only); }
    else if (fl == "m") { ok = own_dispatch<trk::TM>(kind, steps, impl, monitor_only); }
    else if (fl == "c") { ok = own_dispatch<trk::TC>(kind, steps, impl, monitor_only); }
    else if (fl == "t") { ok = own_dispatch<trk::TT>(kind, steps, impl, monitor_only); }
    if (!ok) { impl.tok("bad-instantiation"); return true; }
    if (monitor_only) {
        // the documented domain: an empty function is not invoked (indices as for std::variant / std::function)
        int idx[2] = {0, 0};
        bool dom   = true;
        std::string selfs;
        for (auto const& s : steps) {
            auto const& o = s.op;
            if (o == "vem" || o == "var" || o == "vac" || o == "vav" || o == "vat" || o == "fas" || o == "vau" || o == "vaw" || o == "fac" || o == "vet"
                || o == "vty") { idx[s.t] = s.j; }
            else if (o == "vca" || o == "vma" || o == "fca") { idx[s.t] = idx[1 - s.t]; }
            else if (o == "fma") { idx[s.t] = idx[1 - s.t]; idx[1 - s.t] = 0; }
            else if (o == "vsw" || o == "fsw") { std::swap(idx[0], idx[1]); }
            else if (o == "fan" || o == "fmc" || o == "fxm") { idx[s.t] = 0; }
            else if (o == "fiv") { if (idx[s.t] == 0) { dom = false; break; } }
            if (own_is_self(o)) { selfs += " 1"; }
        }
        if (dom) { ref.tok("wf 1 alive 0 st 1").tok("self" + selfs); }
    }
    return true;
}


// =================================================================================================
// pair / tuple:  ahist <family> <k> <ops...>   amon <family> <k> <ops...>
// family = (pr|tp)_(cm|m|c): etl::pair<T<0>, T<1>> / etl::tuple<T<0>, T<1>, T<2>>; member j of object c
// is built from the value 10 (c + 1) + j.  observation: the member values of both objects.
// =================================================================================================
template <template <int> class T>
struct PairAd {
    using Obj = etl::pair<T<0>, T<1>>;
    static constexpr bool copyable = T<0>::copyable;
    static auto make(void* where, int c) -> Obj* { return new (where) Obj(10 * (c + 1), 10 * (c + 1) + 1); }
    static auto values(Obj const& p) -> std::vector<int> { return {p.first.v, p.second.v}; }
    static void swap(Obj& a, Obj& b) { a.swap(b); }
    static constexpr bool by_tag      = true;
    static constexpr std::size_t elem = 1;
    // pair(T1 const&, T2 const&) / pair(U1&&, U2&&)
    static void ctor_copy_each() { if constexpr (copyable) { T<0> const e0(50); T<1> const e1(51); { Obj c(e0, e1); } } }
    static void ctor_move_each() { T<0> e0(50); T<1> e1(51); { Obj c(etl::move(e0), etl::move(e1)); } }
    // converting constructors / assignments from a pair<U1, U2> whose members convert to T1 / T2
    static constexpr bool has_conv = true;
    using Q = etl::pair<trk::Der<T<0>>, trk::Der<T<1>>>;
    static void conv_copy_ctor() { if constexpr (copyable) { Q q(50, 51); { Obj c(q); } } }
    static void conv_move_ctor() { Q q(50, 51); { Obj c(etl::move(q)); } }
    static void conv_copy_assign(Obj& x) { if constexpr (copyable) { Q q(50, 51); x = q; } }
    static void conv_move_assign(Obj& x) { Q q(50, 51); x = etl::move(q); }
};

template <template <int> class T>
struct TupleAd {
    using Obj = etl::tuple<T<0>, T<1>, T<2>>;
    static constexpr bool copyable = T<0>::copyable;
    static auto make(void* where, int c) -> Obj* { return new (where) Obj(10 * (c + 1), 10 * (c + 1) + 1, 10 * (c + 1) + 2); }
    static auto values(Obj const& p) -> std::vector<int> { return {etl::get<0>(p).v, etl::get<1>(p).v, etl::get<2>(p).v}; }
    static void swap(Obj& a, Obj& b) { a.swap(b); }
    static constexpr bool by_tag      = true;
    static constexpr std::size_t elem = 1;
    // tuple(Ts const&...) / tuple(Args&&...)
    static void ctor_copy_each()
    {
        if constexpr (copyable) { T<0> const e0(50); T<1> const e1(51); T<2> const e2(52); { Obj c(e0, e1, e2); } }
    }
    static void ctor_move_each() { T<0> e0(50); T<1> e1(51); T<2> e2(52); { Obj c(etl::move(e0), etl::move(e1), etl::move(e2)); } }
    static constexpr bool has_conv = false;
};

// T a[3]: etl::swap(T (&)[N], T (&)[N]) element by element; everything else is the compiler's member-wise code
template <template <int> class T>
struct ArrayAd {
    struct Obj {
        T<0> a[3];
    };
    static constexpr bool copyable = T<0>::copyable;
    static constexpr bool by_tag   = false;
    static constexpr std::size_t elem = sizeof(T<0>);
    static auto make(void* where, int c) -> Obj*
    {
        return new (where) Obj{{T<0>(10 * (c + 1)), T<0>(10 * (c + 1) + 1), T<0>(10 * (c + 1) + 2)}};
    }
    static auto values(Obj const& p) -> std::vector<int> { return {p.a[0].v, p.a[1].v, p.a[2].v}; }
    static void swap(Obj& x, Obj& y) { etl::swap(x.a, y.a); }
    static void ctor_copy_each()
    {
        if constexpr (copyable) { T<0> const e0(50); T<0> const e1(51); T<0> const e2(52); { Obj c{{e0, e1, e2}}; } }
    }
    static void ctor_move_each() { T<0> e0(50); T<0> e1(51); T<0> e2(52); { Obj c{{etl::move(e0), etl::move(e1), etl::move(e2)}}; } }
    static constexpr bool has_conv = false;
};

static bool agg_is_self(std::string const& op) { return op == "asc" || op == "asm" || op == "ass"; }

template <typename Ad>
static void run_agg(std::vector<OStep> const& steps, Out& impl, bool monitor_only)
{
    using Obj = typename Ad::Obj;
    trk::g_log.clear();
    trk::g_log.reserve(1 << 12);
    alignas(Obj) static unsigned char raw0[sizeof(Obj)];
    alignas(Obj) static unsigned char raw1[sizeof(Obj)];
    trk::Locator where;
    where.by_tag = Ad::by_tag;
    where.regions.resize(2);
    if (Ad::by_tag) {
        where.regions[0] = trk::Region{reinterpret_cast<char const*>(raw0), sizeof(Obj), 1};
        where.regions[1] = trk::Region{reinterpret_cast<char const*>(raw1), sizeof(Obj), 1};
    } else {
        where.regions[0] = trk::Region{reinterpret_cast<char const*>(raw0), Ad::elem, sizeof(Obj) / Ad::elem};
        where.regions[1] = trk::Region{reinterpret_cast<char const*>(raw1), Ad::elem, sizeof(Obj) / Ad::elem};
    }
    Obj* v[2] = {Ad::make(raw0, 0), Ad::make(raw1, 1)};
    trk::Monitor mon;
    std::size_t done = 0;
    (void)mon.run(where, trk::g_log, done);
    done = trk::g_log.size();
    std::string selfs;
    for (auto const& s : steps) {
        auto& x = *v[s.t];
        auto& y = *v[1 - s.t];
        std::vector<int> before;
        if (agg_is_self(s.op)) { before = Ad::values(x); }
        auto const& op = s.op;
        if (op == "ama") { x = etl::move(y); }
        else if (op == "asm") { auto& r = x; x = etl::move(r); }
        else if (op == "amc") { Obj c(etl::move(x)); }
        else if (op == "asw") { Ad::swap(*v[0], *v[1]); }
        else if (op == "ass") { Ad::swap(x, x); }
        else if (op == "ace") { Ad::ctor_copy_each(); }
        else if (op == "ame") { Ad::ctor_move_each(); }
        else if (op == "acp" || op == "amp" || op == "aqa" || op == "aqm") {
            if constexpr (Ad::has_conv) {
                if (op == "acp") { Ad::conv_copy_ctor(); }
                else if (op == "amp") { Ad::conv_move_ctor(); }
                else if (op == "aqa") { Ad::conv_copy_assign(x); }
                else { Ad::conv_move_assign(x); }
            }
        }
        else {
            if constexpr (Ad::copyable) {
                if (op == "aca") { x = y; }
                else if (op == "asc") { auto& r = x; x = r; }
                else if (op == "acc") { Obj c(x); }
            }
        }
        auto so = mon.run(where, trk::g_log, done);
        done    = trk::g_log.size();
        if (!monitor_only) {
            impl.tok(";").tok("ok");
            for (auto* p : v) {
                auto vals = Ad::values(*p);
                impl.num(static_cast<i64>(vals.size()));
                for (auto e : vals) { impl.num(e); }
            }
            impl.tok("/").tok(trk::render(so, g_raw));
        }
        if (agg_is_self(s.op)) { selfs += (Ad::values(x) == before) ? " 1" : " 0"; }
    }
    v[0]->~Obj();
    v[1]->~Obj();
    auto so = mon.run(where, trk::g_log, done);
    if (!monitor_only) {
        impl.tok("; end /").tok(trk::render(so, g_raw));
        impl.tok("; wf").b(mon.wf).tok("alive").num(mon.alive());
    } else {
        impl.tok("wf").b(mon.wf).tok("alive").num(mon.alive()).tok("self" + selfs);
    }
}

template <template <int> class T>
static bool agg_dispatch(std::string const& kind, std::vector<OStep> const& steps, Out& impl, bool monitor_only)
{
    if (kind == "pr") { run_agg<PairAd<T>>(steps, impl, monitor_only); return true; }
    if (kind == "tp") { run_agg<TupleAd<T>>(steps, impl, monitor_only); return true; }
    if (kind == "ar") { run_agg<ArrayAd<T>>(steps, impl, monitor_only); return true; }
    return false;
}

static bool agg_case(std::string const& op, Toks& in, Out& impl, Out& ref)
{
    g_raw             = op == "arawhist";
    bool monitor_only = op == "amon";
    auto family       = in.str();
    std::vector<OStep> steps;
    auto k = in.num();
    for (i64 i = 0; i < k; ++i) {
        OStep s;
        s.op = in.str();
        if (s.op != "asw" && s.op != "ace" && s.op != "ame" && s.op != "acp" && s.op != "amp") { s.t = static_cast<int>(in.num()); }
        steps.push_back(s);
    }
    auto kind = family.substr(0, 2);
    auto fl   = family.size() > 3 ? family.substr(3) : std::string();
    bool ok   = false;
    if (fl == "cm") { ok = agg_dispatch<trk::TCM>(kind, steps, impl, monitor_only); }
    else if (fl == "m") { ok = agg_dispatch<trk::TM>(kind, steps, impl, monitor_only); }
    else if (fl == "c") { ok = agg_dispatch<trk::TC>(kind, steps, impl, monitor_only); }
    if (!ok) { impl.tok("bad-instantiation"); return true; }
    if (monitor_only) {
        std::string selfs;
        for (auto const& s : steps) { if (agg_is_self(s.op)) { selfs += " 1"; } }
        ref.tok("wf 1 alive 0").tok("self" + selfs);
    }
    return true;
}

// =================================================================================================
// pcopy <iv|sv> <cap> <n> <m> <cc|mc|ca|ma>: element type trk::TrkP (trivial default constructor, destructor
// and copy assignment, USER-PROVIDED copy constructor).  Object 0 holds n elements 1..n, object 1 m elements
// 101..; then  cc: Vec c(v0)   mc: Vec c(move(v0))   ca: v1 = v0   ma: v1 = move(v0).
// impl leg = the copy constructions of that operation as C:<dst>:<src> (s<object>.<slot>, object 2 = c, x =
// any other storage) and both objects afterwards; reference leg = one copy construction per element of v0
// into the same slot of the target, nothing else (no destructor / assignment event exists for this type).
// =================================================================================================
template <typename Vec, bool Iv>
static void run_pcopy(std::size_t cap, i64 n, i64 m, std::string const& what, Out& impl)
{
    using T = trk::TrkP;
    alignas(Vec) static unsigned char raw[3][sizeof(Vec)];
    trk::g_log.clear();
    Vec* v0 = new (raw[0]) Vec{};
    Vec* v1 = new (raw[1]) Vec{};
    for (i64 i = 0; i < n; ++i) { if constexpr (Iv) { (void)v0->unchecked_emplace_back(static_cast<int>(1 + i)); } else { v0->emplace_back(static_cast<int>(1 + i)); } }
    for (i64 i = 0; i < m; ++i) { if constexpr (Iv) { (void)v1->unchecked_emplace_back(static_cast<int>(101 + i)); } else { v1->emplace_back(static_cast<int>(101 + i)); } }
    trk::g_log.clear();
    Vec* c = nullptr;
    if (what == "cc") { c = new (raw[2]) Vec(*v0); }
    else if (what == "mc") { c = new (raw[2]) Vec(etl::move(*v0)); }
    else if (what == "ca") { *v1 = *v0; }
    else if (what == "ma") { *v1 = etl::move(*v0); }
    char const* base[3] = {reinterpret_cast<char const*>(v0->data()), reinterpret_cast<char const*>(v1->data()),
                           c != nullptr ? reinterpret_cast<char const*>(c->data()) : nullptr};
    auto name = [&](void const* p) -> std::string {
        auto const* q = static_cast<char const*>(p);
        for (int k = 0; k < 3; ++k) {
            if (base[k] != nullptr && q >= base[k] && q < base[k] + sizeof(T) * cap && (q - base[k]) % static_cast<std::ptrdiff_t>(sizeof(T)) == 0) {
                return "s" + std::to_string(k) + "." + std::to_string((q - base[k]) / static_cast<std::ptrdiff_t>(sizeof(T)));
            }
        }
        return "x";
    };
    for (auto const& e : trk::g_log) {
        if (e.kind == trk::CC) { impl.tok("C:" + name(e.self) + ":" + name(e.other)); }
        else { impl.tok("E" + std::to_string(e.kind) + ":" + name(e.self)); }
    }
    impl.tok(";");
    for (Vec* p : {v0, v1}) {
        impl.num(static_cast<i64>(p->size()));
        for (auto const& e : *p) { impl.num(e.v); }
    }
    if (c != nullptr) { c->~Vec(); }
    v0->~Vec();
    v1->~Vec();
}

// =================================================================================================
// pown <var|opt|exp> <i0> <i1> <cc|mc|ca|ma>: the alternatives are trk::TP<Tag> (trivial default constructor,
// destructor and copy assignment, user-provided copy constructor).  Object 0 holds alternative i0 (value 11),
// object 1 alternative i1 (value 22); then cc: V c(v0)  mc: V c(move(v0))  ca: v1 = v0  ma: v1 = move(v0).
// impl leg = the copy constructions of that operation as C:<object>.<alternative>:<object>.<alternative>
// (object 2 = c) and index + value of both objects afterwards; reference leg = one copy construction exactly
// when a class alternative has to be created (construction, or assignment across alternatives).
// =================================================================================================
template <typename Ad>
static void run_pown(int i0, int i1, std::string const& what, Out& impl)
{
    using Obj = typename Ad::Obj;
    alignas(Obj) static unsigned char raw[3][sizeof(Obj)];
    trk::g_log.clear();
    Obj* v[2] = {new (raw[0]) Obj{}, new (raw[1]) Obj{}};
    OStep s0{"vem", 0, i0, 11};
    OStep s1{"vem", 1, i1, 22};
    if (Ad::is_exp) { s0.op = i0 == 0 ? "vem" : "vat"; s1.op = i1 == 0 ? "vem" : "vat"; }
    Ad::apply(s0, v);
    Ad::apply(s1, v);
    trk::g_log.clear();
    Obj* c = nullptr;
    if (what == "cc") { c = new (raw[2]) Obj(*v[0]); }
    else if (what == "mc") { c = new (raw[2]) Obj(etl::move(*v[0])); }
    else if (what == "ca") { *v[1] = *v[0]; }
    else if (what == "ma") { *v[1] = etl::move(*v[0]); }
    auto name = [&](void const* p, int tag) -> std::string {
        auto const* q = static_cast<char const*>(p);
        for (int k = 0; k < 3; ++k) {
            auto const* b = reinterpret_cast<char const*>(raw[k]);
            if (q >= b && q < b + sizeof(Obj)) { return std::to_string(k) + "." + std::to_string(tag); }
        }
        return "x";
    };
    for (auto const& e : trk::g_log) {
        if (e.kind == trk::CC) { impl.tok("C:" + name(e.self, e.tag) + ":" + name(e.other, e.tag)); }
        else { impl.tok("E" + std::to_string(e.kind) + ":" + name(e.self, e.tag)); }
    }
    impl.tok(";");
    for (auto* p : v) {
        i64 idx = 0;
        i64 val = 0;
        Ad::observe(*p, idx, val);
        impl.num(idx).num(val);
    }
    if (c != nullptr) { c->~Obj(); }
    v[0]->~Obj();
    v[1]->~Obj();
}

static bool pown_case(Toks& in, Out& impl, Out& ref)
{
    auto kind = in.str();
    auto i0   = static_cast<int>(in.num());
    auto i1   = static_cast<int>(in.num());
    auto what = in.str();
    auto tracked = [&](int i) { return kind == "var" ? (i == 0 || i == 2) : (kind == "opt" ? i == 1 : true); };
    int n_alt = kind == "var" ? 3 : 2;
    if (i0 < 0 || i1 < 0 || i0 >= n_alt || i1 >= n_alt) { impl.tok("bad-case"); return true; }
    if (kind == "var") { run_pown<VarAd<trk::TP>>(i0, i1, what, impl); }
    else if (kind == "opt") { run_pown<OptAd<trk::TP>>(i0, i1, what, impl); }
    else if (kind == "exp") { run_pown<ExpAd<trk::TP>>(i0, i1, what, impl); }
    else { impl.tok("bad-instantiation"); return true; }
    bool third = what == "cc" || what == "mc";
    if (tracked(i0) && (third || i1 != i0)) {
        ref.tok("C:" + std::string(third ? "2" : "1") + "." + std::to_string(i0) + ":0." + std::to_string(i0));
    }
    ref.tok(";");
    ref.num(i0).num(tracked(i0) ? 11 : 0);
    if (third) { ref.num(i1).num(tracked(i1) ? 22 : 0); }
    else { ref.num(i0).num(tracked(i0) ? 11 : 0); }
    return true;
}

// =================================================================================================
// uhist / umon <copy|move|fill> <n> <k>: etl::uninitialized_copy / uninitialized_move / uninitialized_fill of n
// elements of trk::TrkX into raw storage; the element constructor throws during its (k+1)-th call (k < 0: never).
//   uhist: impl leg = the events in program order (d.i destination slot, s.j source object) + whether the exception
//          left the function; reference leg na (correspondence with coq/C03/ModelMem.v)
//   both:  ret <returned iterator - dest> (copy / move without an exception: n; fill, or after an exception: -)
//   umon:  impl leg = verdict of the run-time monitor on the real log: thrown <b> wf <b> dest <number of destination
//          slots holding an object afterwards>; reference leg = the property: thrown iff 0 <= k < n, wf 1, dest 0 after
//          an exception, else n
// =================================================================================================
static bool umem_case(std::string const& op, Toks& in, Out& impl, Out& ref)
{
    using T   = trk::TrkX;
    auto what = in.str();
    auto n    = in.num();
    auto k    = in.num();
    if (n < 0 || n > 8) { impl.tok("bad-case"); return true; }
#if !defined(__cpp_exceptions)
    // nothing can throw in this build: the cases with a throwing constructor call are not run (engine: `skip`)
    if (k >= 0 && k < n) { impl.tok("skip"); return true; }
#endif
    alignas(T) static unsigned char dest_raw[sizeof(T) * 8];
    alignas(T) static unsigned char src_raw[sizeof(T) * 8];
    auto* dest = reinterpret_cast<T*>(dest_raw);
    auto* src  = reinterpret_cast<T*>(src_raw);
    trk::g_fuse = -1;
    trk::g_log.clear();
    auto n_src = what == "fill" ? std::size_t{1} : static_cast<std::size_t>(n);
    for (std::size_t i = 0; i < n_src; ++i) { new (src + i) T(static_cast<int>(10 + i)); }
    trk::Locator where;
    where.regions.resize(2);
    where.regions[0] = trk::Region{reinterpret_cast<char const*>(dest_raw), sizeof(T), 8};
    where.regions[1] = trk::Region{reinterpret_cast<char const*>(src_raw), sizeof(T), 8};
    trk::Monitor mon;
    (void)mon.run(where, trk::g_log, 0);
    auto done   = trk::g_log.size();
    bool thrown = false;
    trk::g_fuse = static_cast<int>(k);
    // what the algorithm returns (copy / move: one past the last element built; fill returns nothing)
    T* got      = nullptr;
    auto invoke = [&] {
        if (what == "copy") { got = etl::uninitialized_copy(src, src + n, dest); }
        else if (what == "move") { got = etl::uninitialized_move(src, src + n, dest); }
        else { etl::uninitialized_fill(dest, dest + n, src[0]); }
    };
#if defined(__cpp_exceptions)
    try {
        invoke();
    } catch (int) {
        thrown = true;
    }
#else
    // build without exceptions (variant `noexc`): the `#else` branches of the three algorithms; no constructor may throw
    invoke();
#endif
    std::string ret = (thrown || what == "fill") ? std::string("-") : (got >= dest && got <= dest + 8 ? std::to_string(got - dest) : std::string("outside"));
    trk::g_fuse = -1;
    auto so = mon.run(where, trk::g_log, done);
    long alive_dest = 0;
    for (auto const& kv : mon.st) { if (kv.first.first == 0 && kv.second != trk::Dead) { ++alive_dest; } }
    if (op == "uhist") {
        for (std::size_t e = done; e < trk::g_log.size(); ++e) {
            auto const& ev = trk::g_log[e];
            auto nm = [&](void const* p) {
                auto l = where.locate(p);
                return std::string(l.first == 0 ? "d." : (l.first == 1 ? "s." : "x.")) + std::to_string(l.first < 0 ? 0 : l.second);
            };
            if (ev.kind == trk::CC) { impl.tok("Cc:" + nm(ev.self) + ":" + nm(ev.other)); }
            else if (ev.kind == trk::CM) { impl.tok("Cm:" + nm(ev.self) + ":" + nm(ev.other)); }
            else if (ev.kind == trk::DT) { impl.tok("D:" + nm(ev.self)); }
            else { impl.tok("E" + std::to_string(ev.kind) + ":" + nm(ev.self)); }
        }
        impl.tok("; thrown").b(thrown).tok("ret").tok(ret);
    } else {
        impl.tok("thrown").b(thrown).tok("wf").b(mon.wf && so.ok).tok("dest").num(alive_dest).tok("ret").tok(ret);
        bool expect_throw = k >= 0 && k < n;
        ref.tok("thrown").b(expect_throw).tok("wf 1 dest").num(expect_throw ? 0 : n);
        ref.tok("ret").tok((expect_throw || what == "fill") ? std::string("-") : std::to_string(n));
    }
    // leave nothing behind
    if (!thrown) { for (i64 i = 0; i < n; ++i) { dest[i].~T(); } }
    for (std::size_t i = 0; i < n_src; ++i) { src[i].~T(); }
    return true;
}

static bool pcopy_case(Toks& in, Out& impl, Out& ref)
{
    auto kind = in.str();
    auto cap  = in.num();
    auto n    = in.num();
    auto m    = in.num();
    auto what = in.str();
    if (n < 0 || m < 0 || n > cap || m > cap) { impl.tok("bad-case"); return true; }
    bool ok = false;
    if (kind == "iv") { ok = with_cap(cap, [&]<std::size_t N>() { run_pcopy<etl::inplace_vector<trk::TrkP, N>, true>(N, n, m, what, impl); }); }
    else { ok = with_cap(cap, [&]<std::size_t N>() { run_pcopy<etl::static_vector<trk::TrkP, N>, false>(N, n, m, what, impl); }); }
    if (!ok) { impl.tok("bad-instantiation"); return true; }
    // the property: one copy construction per element, slot i from slot i, and the values
    bool to_third = what == "cc" || what == "mc";
    for (i64 i = 0; i < n; ++i) { ref.tok("C:s" + std::string(to_third ? "2" : "1") + "." + std::to_string(i) + ":s0." + std::to_string(i)); }
    ref.tok(";");
    bool moved = what == "mc" || what == "ma";
    if (kind == "iv" && moved) { ref.num(0); }       // inplace_vector: the moved-from vector is cleared
    else { ref.num(n); for (i64 i = 0; i < n; ++i) { ref.num(1 + i); } }
    if (to_third) { ref.num(m); for (i64 i = 0; i < m; ++i) { ref.num(101 + i); } }
    else { ref.num(n); for (i64 i = 0; i < n; ++i) { ref.num(1 + i); } }
    return true;
}


// =================================================================================================
// bhist / bmon <family> <cap> <k> <ops...>: the STORED ELEMENT COUNT around the limits of size_type
// (etl::smallest_size_t<Capacity>: 255 | 256 elements, 65535 | 65536) - coq/C03/ModelSize.v.
// family = (sv|iv|sk|ss|fs)_(cm|c|i): copy+move / copy-only instrumented element, i = int (trivial storage; sv, iv);
// capacities 254, 255, 256, 300, 65536, 70000.  Bulk operations keep the histories short:
//   fil t k x   k times: append x, x + 1, ...   (sv: emplace_back, iv: unchecked_emplace_back, sk: emplace, ss / fs: emplace)
//   pop t k     k times pop_back() / pop()          clr t          err t f l   erase(begin() + f, begin() + l)
//   rsz t n     resize(n)                           cpc t / mvc t  { Vec c(vt); } / { Vec c(move(vt)); }
//   cpa t / mva t   vt = vother / vt = move(vother)            swp   v0.swap(v1)
//   bhist: impl leg per step `; ok <size> <k> <values at the probe indices below size()> <sum of the values>` for both objects
//          `/ <calls so far: T(x) T(const&) T(&&) =const& =&& ~T> w <every event so far legal> a <objects alive in the storage
//          of object 0, of object 1, elsewhere>`; at the end the same after both destructors.  Reference leg na.
//   bmon:  impl leg = size() of both objects after every step + verdict of the monitor on the whole log incl. the destructors;
//          reference leg = the sizes of the same history on std::vector<int> (documented preconditions) + `wf 1 alive 0`.
// =================================================================================================
struct BStep {
    std::string op;
    int t{0};
    i64 a{0};
    i64 b{0};
};

static std::vector<BStep> parse_big(Toks& in)
{
    std::vector<BStep> steps;
    auto k = in.num();
    for (i64 i = 0; i < k; ++i) {
        BStep s;
        s.op = in.str();
        if (s.op != "swp") { s.t = static_cast<int>(in.num()); }
        if (s.op == "fil" || s.op == "err") { s.a = in.num(); s.b = in.num(); }
        else if (s.op == "pop" || s.op == "rsz") { s.a = in.num(); }
        steps.push_back(s);
    }
    return steps;
}

template <typename T>
static auto val_of(T const& e) -> int
{
    if constexpr (std::is_same_v<T, int>) { return e; } else { return e.v; }
}

template <typename T>
inline constexpr bool big_copyable = true;
template <> inline constexpr bool big_copyable<trk::TrkM> = false;

template <typename Vec, typename T, int K>
static void big_step(BStep const& s, Vec* (&v)[2])
{
    auto& x = *v[s.t];
    auto& y = *v[1 - s.t];
    auto const& op = s.op;
    if (op == "fil") {
        for (i64 i = 0; i < s.a; ++i) {
            auto e = static_cast<int>(s.b + i);
            if constexpr (K == KIv) { (void)x.unchecked_emplace_back(e); }
            else if constexpr (K == KStack) { x.emplace(e); }
            else if constexpr (K == KSet || K == KFlat) { (void)x.emplace(e); }
            else { x.emplace_back(e); }
        }
    }
    else if (op == "pop") {
        if constexpr (K == KStack) { for (i64 i = 0; i < s.a; ++i) { x.pop(); } }
        else if constexpr (K == KSv || K == KIv) { for (i64 i = 0; i < s.a; ++i) { x.pop_back(); } }
    }
    else if (op == "clr") { if constexpr (K != KStack) { x.clear(); } }
    else if (op == "err") { if constexpr (K == KSv || K == KSet || K == KFlat) { (void)x.erase(x.begin() + s.a, x.begin() + s.b); } }
    else if (op == "rsz") { if constexpr (K == KSv) { x.resize(static_cast<std::size_t>(s.a)); } }
    else if (op == "cpc") { Vec c(x); }
    else if (op == "mvc") { Vec c(etl::move(x)); }
    else if (op == "cpa") { x = y; }
    else if (op == "mva") { x = etl::move(y); }
    else if (op == "swp") { if constexpr (K == KSv) { v[0]->swap(*v[1]); } }
}

static i64 const big_probes[] = {0, 1, 254, 255, 256, 257, 65534, 65535, 65536, 65537};

template <typename Vec, typename T, int K, std::size_t N>
static void run_big(std::vector<BStep> const& steps, Out& impl, bool monitor_only)
{
    constexpr bool tracked = !std::is_same_v<T, int>;
    trk::g_log.clear();
    alignas(Vec) static unsigned char raw0[sizeof(Vec)];
    alignas(Vec) static unsigned char raw1[sizeof(Vec)];
    Vec* v[2] = {new (raw0) Vec{}, new (raw1) Vec{}};
    trk::Locator where;
    where.regions.resize(2);
    for (int c = 0; c < 2; ++c) {
        where.regions[static_cast<std::size_t>(c)] = trk::Region{reinterpret_cast<char const*>(v[c]->data()), sizeof(T), N};
    }
    trk::Monitor mon;
    mon.lean = true;
    std::size_t done = 0;
    i64 calls[8] = {0, 0, 0, 0, 0, 0, 0, 0};
    auto account = [&] {
        (void)mon.run(where, trk::g_log, done);
        for (std::size_t e = done; e < trk::g_log.size(); ++e) { ++calls[trk::g_log[e].kind & 7]; }
        // the log is consumed: a history appends several 100000 events
        trk::g_log.clear();
        done = 0;
    };
    auto tail = [&] {
        long alive[3] = {0, 0, 0};
        for (auto const& kv : mon.st) {
            if (kv.second != trk::Dead) { ++alive[kv.first.first == 0 ? 0 : (kv.first.first == 1 ? 1 : 2)]; }
        }
        impl.tok("/").num(calls[trk::CV]).num(calls[trk::CC]).num(calls[trk::CM]).num(calls[trk::AC]).num(calls[trk::AM]).num(calls[trk::DT]);
        impl.tok("w").b(mon.wf).tok("a").num(alive[0]).num(alive[1]).num(alive[2]);
    };
    bool stopped = false;
    std::string sizes;
    for (auto const& s : steps) {
        Out stepo;
        guarded(stepo, [&](Out& o) {
            big_step<Vec, T, K>(s, v);
            o.tok("ok");
        });
        if constexpr (tracked) { account(); }
        bool contract = stepo.s == "contract";
        if (contract) {
            if (!monitor_only) { impl.tok("; contract"); }
            stopped = true;
            break;
        }
        if (!monitor_only) {
            impl.tok("; ok");
            for (auto* p : v) {
                auto n = static_cast<i64>(p->size());
                impl.num(n);
                std::vector<i64> pv;
                i64 sum = 0;
                i64 idx = 0;
                for (auto const& e : *p) {
                    sum += val_of(e);
                    for (auto q : big_probes) { if (q == idx) { pv.push_back(val_of(e)); } }
                    ++idx;
                }
                impl.list(pv).num(sum);
            }
            tail();
        } else {
            sizes += " " + std::to_string(v[0]->size()) + " " + std::to_string(v[1]->size());
        }
    }
    bool wf_prefix = mon.wf;
    v[0]->~Vec();
    v[1]->~Vec();
    if (stopped) {
        if (!monitor_only) { impl.tok("; stopped ; wf").b(wf_prefix); }
        else { impl.tok("contract wf").b(wf_prefix); }
        return;
    }
    if constexpr (tracked) { account(); }
    if (!monitor_only) {
        impl.tok("; end");
        tail();
    } else {
        impl.tok("sizes" + sizes).tok("wf").b(mon.wf).tok("alive").num(mon.alive());
    }
}

template <typename F>
static bool with_big_cap(i64 cap, F&& f)
{
    switch (cap) {
    case 254: f.template operator()<254>(); return true;
    case 255: f.template operator()<255>(); return true;
    case 256: f.template operator()<256>(); return true;
    case 300: f.template operator()<300>(); return true;
    case 65536: f.template operator()<65536>(); return true;
    case 70000: f.template operator()<70000>(); return true;
    default: return false;
    }
}

template <typename T>
static bool big_dispatch(std::string const& kind, i64 cap, std::vector<BStep> const& steps, Out& impl, bool monitor_only)
{
    if (kind == "iv") {
        return with_big_cap(cap, [&]<std::size_t N>() { run_big<etl::inplace_vector<T, N>, T, KIv, N>(steps, impl, monitor_only); });
    }
    if (kind == "sv") {
        return with_big_cap(cap, [&]<std::size_t N>() { run_big<etl::static_vector<T, N>, T, KSv, N>(steps, impl, monitor_only); });
    }
    if constexpr (!std::is_same_v<T, int>) {
        // the adapters over a static_vector: one capacity on each side of both limits is enough (the count is the vector's)
        if (cap != 300 && cap != 70000) { return false; }
        auto two = [&](auto&& f) { if (cap == 300) { f.template operator()<300>(); } else { f.template operator()<70000>(); } return true; };
        if (kind == "sk") { return two([&]<std::size_t N>() { run_big<StackObj<T, N>, T, KStack, N>(steps, impl, monitor_only); }); }
        if (kind == "ss") { return two([&]<std::size_t N>() { run_big<SetObj<T, N>, T, KSet, N>(steps, impl, monitor_only); }); }
        if (kind == "fs") { return two([&]<std::size_t N>() { run_big<FlatObj<T, N>, T, KFlat, N>(steps, impl, monitor_only); }); }
    }
    return false;
}

static bool big_case(std::string const& op, Toks& in, Out& impl, Out& ref)
{
    bool monitor_only = op == "bmon";
    auto family       = in.str();
    auto cap          = in.num();
    auto steps        = parse_big(in);
    auto kind         = family.substr(0, 2);
    auto fl           = family.size() > 3 ? family.substr(3) : std::string();
    bool ok           = false;
    if (fl == "cm") { ok = big_dispatch<trk::TrkCM>(kind, cap, steps, impl, monitor_only); }
    else if (fl == "c") { ok = big_dispatch<trk::TrkC>(kind, cap, steps, impl, monitor_only); }
    else if (fl == "i") { ok = big_dispatch<int>(kind, cap, steps, impl, monitor_only); }
    if (!ok) { impl.tok("bad-instantiation"); return true; }
    if (monitor_only) {
        // the same history on std::vector<int> with the documented preconditions (sets: keys handed over in ascending order)
        SV v[2];
        bool dom = true;
        std::string sizes;
        for (auto const& s : steps) {
            auto& x   = v[s.t];
            auto& y   = v[1 - s.t];
            auto sz   = static_cast<i64>(x.size());
            auto room = cap - sz;
            if (s.op == "fil") {
                if (s.a < 0) { dom = false; break; }
                if (kind == "ss" || kind == "fs") { if (!x.empty() && s.a > 0 && x.back() >= s.b) { dom = false; break; } }
                i64 k = s.a;
                if (kind == "ss") { k = std::min(k, room); }      // static_set ignores an insert into a full set
                if (k > room) { dom = false; break; }
                for (i64 i = 0; i < k; ++i) { x.push_back(static_cast<int>(s.b + i)); }
            }
            else if (s.op == "pop") { if (s.a < 0 || s.a > sz || kind == "ss" || kind == "fs") { dom = false; break; } x.resize(static_cast<std::size_t>(sz - s.a)); }
            else if (s.op == "clr") { if (kind == "sk") { dom = false; break; } x.clear(); }
            else if (s.op == "err") { if (kind == "sk" || kind == "iv" || s.a < 0 || s.a > s.b || s.b > sz) { dom = false; break; } x.erase(x.begin() + s.a, x.begin() + s.b); }
            else if (s.op == "rsz") { if (kind != "sv" || s.a < 0 || s.a > cap) { dom = false; break; } x.resize(static_cast<std::size_t>(s.a)); }
            // a moved-from inplace_vector is empty, unless its move operations are the trivial ones (int)
            else if (s.op == "cpc" || s.op == "mvc") { if (kind == "iv" && fl != "i" && s.op == "mvc") { x.clear(); } }
            else if (s.op == "cpa") { x = y; }
            else if (s.op == "mva") { x = y; if (kind == "iv" && fl != "i") { y.clear(); } }
            else if (s.op == "swp") { if (kind != "sv") { dom = false; break; } v[0].swap(v[1]); }
            else { dom = false; break; }
            sizes += " " + std::to_string(v[0].size()) + " " + std::to_string(v[1].size());
        }
        if (dom) { ref.tok("sizes" + sizes).tok("wf 1 alive 0"); }
    }
    return true;
}

bool vh::run_case(std::string const& op, Toks& in, Out& impl, Out& ref)
{
    if (op == "bhist" || op == "bmon") { return big_case(op, in, impl, ref); }
    if (op == "pcopy") { return pcopy_case(in, impl, ref); }
    if (op == "pown") { return pown_case(in, impl, ref); }
    if (op == "uhist" || op == "umon") { return umem_case(op, in, impl, ref); }
    if (op == "ohist" || op == "orawhist" || op == "omon") { return own_case(op, in, impl, ref); }
    if (op == "ahist" || op == "arawhist" || op == "amon") { return agg_case(op, in, impl, ref); }
    if (op != "hist" && op != "rawhist" && op != "mon") { return false; }
    g_raw             = op == "rawhist";
    bool monitor_only = op == "mon";
    auto family       = in.str();
    auto cap          = in.num();
    auto steps        = parse(in);
    auto kind         = family.substr(0, 2);
    auto fl           = family.substr(3);
    bool ok           = false;
    if (fl == "cm") { ok = dispatch<trk::TrkCM>(kind, cap, steps, impl, monitor_only); }
    else if (fl == "m") { ok = dispatch<trk::TrkM>(kind, cap, steps, impl, monitor_only); }
    else if (fl == "c") { ok = dispatch<trk::TrkC>(kind, cap, steps, impl, monitor_only); }
    if (!ok) { impl.tok("bad-instantiation"); return true; }
    if (monitor_only) {
        SV v[2];
        bool dom = true;
        std::string selfs;
        for (auto const& s : steps) {
            if (!std_step(s, v, static_cast<std::size_t>(cap), fl != "c")) { dom = false; break; }
            if (is_self(s.op)) { selfs += " 1"; }
        }
        if (dom) { ref.tok("wf 1 alive 0").tok("self" + selfs); }
    }
    return true;
}

VERIF_MAIN()
