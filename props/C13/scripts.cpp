// C13 script harness: single-path constexpr code (containers, strings, views, algorithms, numeric, bit,
// charconv, chrono, cctype, C strings, wrappers, span/mdspan) driven by seeded SCRIPTS.
//
// Every script is a constexpr function `Dig script(std::uint64_t seed)`: a small PRNG seeded by `seed` chooses a
// sequence of library calls and their arguments, and every observable (sizes, elements, returned positions,
// comparison results, converted text, ...) is fed into a digest.  Each script is evaluated
//   * by the compiler: `constexpr` table over the seed table (manifestly constant-evaluated), and
//   * at run time: the same function called with a volatile-laundered seed (the optimiser cannot fold it),
// and the two digests are printed next to each other:  `<script> <seed> | <ct digest> | <rt digest>`.
// prop.py (extra_checks) builds this file with g++ (-O0, -O2, -O3) and clang++-14 (-O0, -O2), demands ct == rt on
// every line of every build and the same digest from all builds (g++'s and clang's constant evaluators and code
// generators; clang additionally takes the __builtin_ paths of the C string / wide string functions).
// A call that is not a constant expression for some seed is a compile error (reported with the diagnostic).
//
// The seed table depends on -DC13_SEED=<VERIF_SEED> (and -DC13_NSEED=<n>: more seeds in the thorough tier).
#include <etl/algorithm.hpp>
#include <etl/array.hpp>
#include <etl/bit.hpp>
#if !defined(__clang__)
    #include <etl/bitset.hpp> // clang 14 cannot parse it (P0634: typename-less dependent names)
#endif
#include <etl/cctype.hpp>
#include <etl/charconv.hpp>
#include <etl/chrono.hpp>
#include <etl/cmath.hpp>
#include <etl/cstdlib.hpp>
#include <etl/cstring.hpp>
#include <etl/cwchar.hpp>
#include <etl/cwctype.hpp>
#include <etl/expected.hpp>
#include <etl/flat_set.hpp>
#include <etl/functional.hpp>
#include <etl/inplace_vector.hpp>
#include <etl/mdspan.hpp>
#include <etl/memory.hpp>
#include <etl/numeric.hpp>
#include <etl/optional.hpp>
#include <etl/set.hpp>
#include <etl/span.hpp>
#include <etl/stack.hpp>
#include <etl/string.hpp>
#include <etl/string_view.hpp>
#include <etl/tuple.hpp>
#include <etl/utility.hpp>
#include <etl/variant.hpp>
#include <etl/vector.hpp>

#include <cstdint>
#include <cstdio>
#include <cstring>

#ifndef C13_SEED
    #define C13_SEED 0
#endif
#ifndef C13_NSEED
    #define C13_NSEED 48
#endif

namespace {

using u64 = std::uint64_t;
using i64 = long long;

// ---------------------------------------------------------------------------------------------- digest
struct Dig {
    static constexpr int KEEP = 10;
    u64 h                     = 1469598103934665603ULL;
    int n                     = 0;
    i64 first[KEEP]{};

    constexpr void add(i64 x)
    {
        if (n < KEEP) { first[n] = x; }
        ++n;
        h ^= static_cast<u64>(x) + 0x9E3779B97F4A7C15ULL + (h << 6U) + (h >> 2U);
        h *= 1099511628211ULL;
    }
    constexpr void add(bool b) { add(static_cast<i64>(b ? 1 : 0)); }
    constexpr void add(int x) { add(static_cast<i64>(x)); }
    constexpr void add(unsigned x) { add(static_cast<i64>(x)); }
    constexpr void add(long x) { add(static_cast<i64>(x)); }
    constexpr void add(unsigned long x) { add(static_cast<i64>(x)); }
    constexpr void add(unsigned long long x) { add(static_cast<i64>(x)); }
    constexpr void add(char x) { add(static_cast<i64>(static_cast<unsigned char>(x))); }
    constexpr void add(signed char x) { add(static_cast<i64>(x)); }
    constexpr void add(unsigned char x) { add(static_cast<i64>(x)); }
    constexpr void add(short x) { add(static_cast<i64>(x)); }
    constexpr void add(unsigned short x) { add(static_cast<i64>(x)); }
    constexpr void add(wchar_t x) { add(static_cast<i64>(x)); }
    // position-like values: npos becomes -1
    constexpr void pos(etl::size_t p) { add(p == static_cast<etl::size_t>(-1) ? i64{-1} : static_cast<i64>(p)); }
    constexpr void sign(int c) { add(c < 0 ? -1 : (c > 0 ? 1 : 0)); }
    template <typename It>
    constexpr void range(It f, It l)
    {
        i64 cnt = 0;
        for (; f != l; ++f) {
            add(*f);
            ++cnt;
        }
        add(cnt);
    }
    template <typename C>
    constexpr void all(C const& c)
    {
        range(c.begin(), c.end());
    }
};

constexpr bool operator==(Dig const& a, Dig const& b)
{
    if (a.h != b.h || a.n != b.n) { return false; }
    for (int i = 0; i < Dig::KEEP; ++i) {
        if (a.first[i] != b.first[i]) { return false; }
    }
    return true;
}

// ---------------------------------------------------------------------------------------------- PRNG
struct Rng {
    u64 s;
    constexpr explicit Rng(u64 seed) : s{seed * 0x9E3779B97F4A7C15ULL + 0xD1B54A32D192ED03ULL} { }
    constexpr auto next() -> u64
    {
        // splitmix64
        s += 0x9E3779B97F4A7C15ULL;
        u64 z = s;
        z     = (z ^ (z >> 30U)) * 0xBF58476D1CE4E5B9ULL;
        z     = (z ^ (z >> 27U)) * 0x94D049BB133111EBULL;
        return z ^ (z >> 31U);
    }
    constexpr auto below(int n) -> int { return n <= 0 ? 0 : static_cast<int>(next() % static_cast<u64>(n)); }
    constexpr auto range(int lo, int hi) -> int { return lo + below(hi - lo + 1); } // inclusive
    constexpr auto coin() -> bool { return (next() & 1U) != 0U; }
    // boundary-biased 64-bit value
    constexpr auto edge64() -> u64
    {
        switch (below(8)) {
        case 0: return 0;
        case 1: return ~u64{0};
        case 2: return u64{1} << static_cast<unsigned>(below(64));
        case 3: return (u64{1} << static_cast<unsigned>(below(64))) - 1U;
        case 4: return ~(u64{1} << static_cast<unsigned>(below(64)));
        case 5: return next() & next() & next();
        case 6: return next() | next() | next();
        default: return next();
        }
    }
};

constexpr auto seed_of(int i) -> u64
{
    Rng r{static_cast<u64>(C13_SEED) * 1000003ULL + static_cast<u64>(i)};
    r.next();
    // small seeds first (they also select the rarely taken `seed % k` configurations deterministically)
    return i < 8 ? static_cast<u64>(i) + static_cast<u64>(C13_SEED) * 8U : r.next();
}

constexpr int NSEED = C13_NSEED;

struct Table {
    Dig v[NSEED]{};
};

template <typename F>
constexpr auto ct_table(F f) -> Table
{
    Table t{};
    for (int i = 0; i < NSEED; ++i) { t.v[i] = f(seed_of(i)); }
    return t;
}

[[gnu::noinline]] auto launder(u64 x) -> u64
{
    u64 volatile v = x;
    return v;
}

// ============================================================================================== scripts

// ---------------------------------------------------------------------------------------------- static_vector
template <typename T, etl::size_t Cap>
constexpr auto script_static_vector(u64 seed) -> Dig
{
    Dig d{};
    Rng r{seed};
    using vec = etl::static_vector<T, Cap>;
    // default-initialised (as user code writes it): slots that were never constructed are uninitialised storage, so a
    // read of such a slot is rejected by the constant evaluator (and is garbage at run time)
    vec v;
    vec w;
    int const steps = 24;
    for (int k = 0; k < steps; ++k) {
        auto const sz = static_cast<int>(v.size());
        auto const x  = static_cast<T>(r.range(-50, 50));
        switch (r.below(16)) {
        case 0:
        case 1:
            if (!v.full()) { v.push_back(x); }
            break;
        case 2:
            if (!v.empty()) { v.pop_back(); }
            break;
        case 3:
            if (!v.full()) {
                auto it = v.insert(v.begin() + r.below(sz + 1), x);
                d.add(static_cast<i64>(it - v.begin()));
            }
            break;
        case 4: {
            auto const room = static_cast<int>(Cap) - sz;
            auto const n    = r.below(room + 1);
            auto it         = v.insert(v.begin() + r.below(sz + 1), static_cast<etl::size_t>(n), x);
            d.add(static_cast<i64>(it - v.begin()));
            break;
        }
        case 5:
            if (!v.empty()) {
                auto it = v.erase(v.begin() + r.below(sz));
                d.add(static_cast<i64>(it - v.begin()));
            }
            break;
        case 6: {
            auto const a = r.below(sz + 1);
            auto const b = a + r.below(sz - a + 1);
            auto it      = v.erase(v.begin() + a, v.begin() + b);
            d.add(static_cast<i64>(it - v.begin()));
            break;
        }
        case 7: v.resize(static_cast<etl::size_t>(r.below(static_cast<int>(Cap) + 1))); break;
        case 8: v.resize(static_cast<etl::size_t>(r.below(static_cast<int>(Cap) + 1)), x); break;
        case 9: v.assign(static_cast<etl::size_t>(r.below(static_cast<int>(Cap) + 1)), x); break;
        case 10: {
            T src[Cap]{};
            auto const n = r.below(static_cast<int>(Cap) + 1);
            for (int i = 0; i < n; ++i) { src[i] = static_cast<T>(r.range(-9, 9)); }
            v.assign(src, src + n);
            break;
        }
        case 11:
            if (!v.full()) { v.emplace_back(x); }
            break;
        case 12: {
            etl::swap(v, w);
            break;
        }
        case 13: {
            vec c{v};
            d.add(c == v);
            w = c;
            if (!w.empty()) { w.front() = x; }
            d.add(w == v);
            d.add(w < v);
            d.add(w <= v);
            d.add(w > v);
            d.add(w >= v);
            d.add(w != v);
            break;
        }
        case 14: {
            vec m{etl::move(w)};
            w = v;
            v = etl::move(m);
            break;
        }
        default: {
            T src[4] = {x, static_cast<T>(x + 1), static_cast<T>(x + 2), static_cast<T>(x + 3)};
            auto const room = static_cast<int>(Cap) - sz;
            auto const n    = r.below((room < 4 ? room : 4) + 1);
            auto it         = v.insert(v.begin() + r.below(sz + 1), src, src + n);
            d.add(static_cast<i64>(it - v.begin()));
            break;
        }
        }
        d.add(static_cast<i64>(v.size()));
        d.add(v.empty());
        d.add(v.full());
        if (!v.empty()) {
            d.add(v.front());
            d.add(v.back());
            d.add(v[v.size() / 2]);
        }
        d.all(v);
        d.range(v.rbegin(), v.rend());
    }
    d.add(static_cast<i64>(etl::erase(v, static_cast<T>(r.range(-50, 50)))));
    d.add(static_cast<i64>(etl::erase_if(v, [](T e) { return (static_cast<int>(e) & 1) != 0; })));
    d.all(v);
    d.all(w);
    return d;
}

// ---------------------------------------------------------------------------------------------- inplace_vector
template <typename T, etl::size_t Cap>
constexpr auto script_inplace_vector(u64 seed) -> Dig
{
    Dig d{};
    Rng r{seed};
    etl::inplace_vector<T, Cap> v{};
    for (int k = 0; k < 24; ++k) {
        auto const x = static_cast<T>(r.range(-50, 50));
        switch (r.below(6)) {
        case 0: {
            auto* p = v.try_push_back(x);
            d.add(p != nullptr);
            if (p != nullptr) { d.add(*p); }
            break;
        }
        case 1: {
            auto* p = v.try_emplace_back(x);
            d.add(p != nullptr);
            break;
        }
        case 2:
            if (v.size() < Cap) { d.add(v.unchecked_push_back(x)); }
            break;
        case 3:
            if (v.size() < Cap) { d.add(v.unchecked_emplace_back(x)); }
            break;
        case 4:
            if (!v.empty()) { v.pop_back(); }
            break;
        default:
            if (r.below(6) == 0) { v.clear(); }
            break;
        }
        d.add(static_cast<i64>(v.size()));
        d.add(v.empty());
        if (!v.empty()) {
            d.add(v.front());
            d.add(v.back());
            d.add(v[v.size() / 2]);
        }
        d.all(v);
    }
    auto c = v;
    d.all(c);
    etl::inplace_vector<T, Cap> e{};
    e = c;
    d.all(e);
    return d;
}

// ---------------------------------------------------------------------------------------------- static_set / flat_set
template <typename Set, bool HasEraseIf = true>
constexpr auto set_script(u64 seed, int cap) -> Dig
{
    Dig d{};
    Rng r{seed};
    Set s{};
    for (int k = 0; k < 28; ++k) {
        int const x = r.range(0, 11);
        switch (r.below(9)) {
        case 0:
        case 1:
        case 2:
            if (static_cast<int>(s.size()) < cap || s.contains(x)) {
                auto const res = s.insert(x);
                d.add(res.second);
                d.add(*res.first);
            }
            break;
        case 3: d.add(static_cast<i64>(s.erase(x))); break;
        case 4: {
            auto it = s.find(x);
            d.add(it != s.end());
            if (it != s.end()) {
                d.add(*it);
                auto nx = s.erase(it);
                d.add(nx == s.end() ? -1 : *nx);
            }
            break;
        }
        case 5: {
            auto lb = s.lower_bound(x);
            auto ub = s.upper_bound(x);
            d.add(lb == s.end() ? -1 : *lb);
            d.add(ub == s.end() ? -1 : *ub);
            auto er = s.equal_range(x);
            d.add(static_cast<i64>(etl::distance(er.first, er.second)));
            break;
        }
        case 6:
            d.add(s.contains(x));
            d.add(static_cast<i64>(s.count(x)));
            break;
        case 7:
            if (static_cast<int>(s.size()) < cap || s.contains(x)) {
                auto const res = s.emplace(x);
                d.add(res.second);
            }
            break;
        default:
            if (r.below(8) == 0) { s.clear(); }
            break;
        }
        d.add(static_cast<i64>(s.size()));
        d.add(s.empty());
        d.all(s);
        d.range(s.rbegin(), s.rend());
    }
    Set c{s};
    d.add(c == s);
    if (!c.empty()) { c.erase(c.begin()); }
    d.add(c == s);
    d.add(c != s);
    d.add(c < s);
    d.add(c <= s);
    d.add(c > s);
    d.add(c >= s);
    etl::swap(c, s);
    d.all(c);
    d.all(s);
    if constexpr (HasEraseIf) {
        d.add(static_cast<i64>(etl::erase_if(c, [](int e) { return e % 3 == 0; })));
        d.all(c);
    }
    return d;
}
constexpr auto script_static_set(u64 seed) -> Dig { return set_script<etl::static_set<int, 7>, false>(seed, 7); }
constexpr auto script_static_set_gt(u64 seed) -> Dig { return set_script<etl::static_set<int, 5, etl::greater<int>>, false>(seed, 5); }
constexpr auto script_flat_set(u64 seed) -> Dig { return set_script<etl::flat_set<int, etl::static_vector<int, 7>>>(seed, 7); }
constexpr auto script_flat_set_gt(u64 seed) -> Dig
{
    return set_script<etl::flat_set<int, etl::static_vector<int, 5>, etl::greater<int>>>(seed, 5);
}

// ---------------------------------------------------------------------------------------------- strings
constexpr char const ALPHA[] = "abcaab\x80\xff z";
constexpr auto rand_text(Rng& r, char* out, int maxlen) -> int
{
    int const n = r.below(maxlen + 1);
    for (int i = 0; i < n; ++i) { out[i] = ALPHA[r.below(11)]; }
    out[n] = 0;
    return n;
}

template <etl::size_t Cap>
constexpr auto script_inplace_string(u64 seed) -> Dig
{
    Dig d{};
    Rng r{seed};
    using str = etl::inplace_string<Cap>;
    constexpr int cap = static_cast<int>(Cap);
    str s{};
    char buf[8]{};
    for (int k = 0; k < 26; ++k) {
        int const sz  = static_cast<int>(s.size());
        int const n   = rand_text(r, buf, 5);
        int const room = cap - sz;
        switch (r.below(20)) {
        case 0:
            if (n <= room) { s.append(buf); }
            break;
        case 1:
            if (n <= room) { s += buf; }
            break;
        case 2:
            // (an empty text gives a NUL character inside the string)
            if (room >= 1) { s.push_back(buf[0]); }
            break;
        case 3:
            if (sz > 0) { s.pop_back(); }
            break;
        case 4:
            if (n <= room) { s.insert(static_cast<etl::size_t>(r.below(sz + 1)), buf); }
            break;
        case 5: {
            int const cnt = r.below(room + 1 > 4 ? 4 : room + 1);
            s.insert(static_cast<etl::size_t>(r.below(sz + 1)), static_cast<etl::size_t>(cnt), 'x');
            break;
        }
        case 6: {
            // (never two PRNG calls in one full expression: the order of evaluation of function arguments is
            // unspecified and does differ between the constant evaluator and the generated code)
            auto const idx = static_cast<etl::size_t>(r.below(sz + 1));
            auto const cnt = static_cast<etl::size_t>(r.below(5));
            s.erase(idx, cnt);
            break;
        }
        case 7:
            if (sz > 0) {
                auto it = s.erase(s.begin() + r.below(sz));
                d.add(static_cast<i64>(it - s.begin()));
            }
            break;
        case 8: s.resize(static_cast<etl::size_t>(r.below(cap + 1)), 'r'); break;
        case 9: s.assign(buf); break;
        case 10: s.assign(static_cast<etl::size_t>(r.below(cap + 1)), 'k'); break;
        case 11: {
            etl::string_view const needle{buf, static_cast<etl::size_t>(n)};
            auto const p = static_cast<etl::size_t>(r.below(sz + 2));
            auto const nn = static_cast<etl::size_t>(n);
            str const t{needle};
            d.pos(s.find(buf, p, nn));
            d.pos(s.rfind(buf, p, nn));
            d.pos(s.find(buf));
            d.pos(s.rfind(buf));
            d.pos(s.find(t, p));
            d.pos(s.rfind(t, p));
            d.pos(s.find('a', p));
            d.pos(s.rfind('a', p));
            d.pos(s.find_first_of(buf, p, nn));
            d.pos(s.find_last_of(buf, p, nn));
            d.pos(s.find_first_not_of(buf, p, nn));
            d.pos(s.find_last_not_of(buf, p, nn));
            d.pos(s.find_first_of(t, p));
            d.pos(s.find_last_of(t, p));
            d.pos(s.find_first_not_of(t, p));
            d.pos(s.find_last_not_of(t, p));
            d.pos(s.find_first_of('a', p));
            d.pos(s.find_last_of('a', p));
            d.pos(s.find_first_not_of('a', p));
            d.pos(s.find_last_not_of('a', p));
            break;
        }
        case 12: {
            auto const p   = static_cast<etl::size_t>(r.below(sz + 1));
            auto const sub = s.substr(p, static_cast<etl::size_t>(r.below(6)));
            d.add(static_cast<i64>(sub.size()));
            d.all(sub);
            break;
        }
        case 13: {
            str t{buf};
            if (r.coin() && sz > 0) {
                // a copy that differs in one position only (possibly behind an embedded NUL)
                t = s;
                auto const at = static_cast<etl::size_t>(r.below(sz));
                t[at]         = static_cast<char>(t[at] == 'a' ? 'b' : 'a');
            }
            d.sign(s.compare(t));
            d.sign(s.compare(buf));
            d.add(s == t);
            d.add(s != t);
            d.add(s < t);
            d.add(s <= t);
            d.add(s > t);
            d.add(s >= t);
            d.add(s == buf);
            break;
        }
        case 14: {
            etl::string_view const sv{buf, static_cast<etl::size_t>(n)};
            d.add(s.starts_with(sv));
            d.add(s.ends_with(sv));
            d.add(s.contains(sv));
            d.add(s.starts_with('a'));
            d.add(s.ends_with('a'));
            d.add(s.contains('a'));
            break;
        }
        case 15: {
            // replace(pos, count, str): documented tetl behaviour (in place, keeps the length) -- still one code path
            if (sz > 0) {
                auto const p = static_cast<etl::size_t>(r.below(sz));
                s.replace(p, static_cast<etl::size_t>(r.below(3)), buf);
            }
            break;
        }
        case 16: {
            char out[16]{};
            auto const p   = static_cast<etl::size_t>(r.below(sz + 1));
            auto const cnt = s.copy(out, static_cast<etl::size_t>(r.below(8)), p);
            d.add(static_cast<i64>(cnt));
            for (etl::size_t i = 0; i < cnt; ++i) { d.add(out[i]); }
            break;
        }
        case 17: {
            str t{buf};
            etl::swap(s, t);
            d.all(t);
            break;
        }
        case 18: {
            str t{s};
            str u{};
            u = t;
            d.add(u == s);
            if (n <= cap - static_cast<int>(u.size())) {
                auto const cat = u + buf;
                d.all(cat);
            }
            break;
        }
        default: s.clear(); break;
        }
        d.add(static_cast<i64>(s.size()));
        d.add(s.empty());
        d.add(s.full());
        d.all(s);
        d.add(s.c_str()[s.size()]);
        if (!s.empty()) {
            d.add(s.front());
            d.add(s.back());
        }
    }
    d.range(s.rbegin(), s.rend());
    d.add(static_cast<i64>(etl::erase(s, 'a')));
    d.add(static_cast<i64>(etl::erase_if(s, [](char c) { return c == 'b'; })));
    d.all(s);
    return d;
}

constexpr auto script_string_view(u64 seed) -> Dig
{
    Dig d{};
    Rng r{seed};
    char hay[16]{};
    char ndl[8]{};
    for (int k = 0; k < 10; ++k) {
        int const hn = rand_text(r, hay, 12);
        int nn       = rand_text(r, ndl, r.coin() ? 2 : 5);
        if ((k & 1) != 0) {
            // a small alphabet with embedded NULs: long common prefixes, a terminator in the middle of the data
            for (int i = 0; i < hn; ++i) { hay[i] = "a\0b"[r.below(3)]; }
        }
        if (r.below(3) != 0 && hn > 0) {
            // the needle is a slice of the haystack, in half of the cases with its last character changed: equal up to
            // the last position (comparisons that stop early, or at a NUL, are seen)
            int const from = r.below(hn);
            nn             = 1 + r.below(hn - from < 7 ? hn - from : 7);
            for (int i = 0; i < nn; ++i) { ndl[i] = hay[from + i]; }
            if (r.coin()) { ndl[nn - 1] = static_cast<char>(ndl[nn - 1] == 'a' ? 'b' : 'a'); }
            ndl[nn] = 0;
        }
        etl::string_view h{hay, static_cast<etl::size_t>(hn)};
        etl::string_view const n{ndl, static_cast<etl::size_t>(nn)};
        etl::size_t const ps[] = {0, static_cast<etl::size_t>(r.below(hn + 2)), static_cast<etl::size_t>(hn), etl::string_view::npos};
        for (auto p : ps) {
            d.pos(h.find(n, p));
            d.pos(h.rfind(n, p));
            d.pos(h.find_first_of(n, p));
            d.pos(h.find_last_of(n, p));
            d.pos(h.find_first_not_of(n, p));
            d.pos(h.find_last_not_of(n, p));
            d.pos(h.find('a', p));
            d.pos(h.rfind('a', p));
            d.pos(h.find_first_not_of('a', p));
            d.pos(h.find_last_not_of('a', p));
        }
        d.sign(h.compare(n));
        if (hn > 0) {
            auto const p1 = static_cast<etl::size_t>(r.below(hn + 1));
            auto const c1 = static_cast<etl::size_t>(r.below(6));
            d.sign(h.compare(p1, c1, n));
            d.all(h.substr(p1, c1));
            char out[8]{};
            auto const cnt = h.copy(out, static_cast<etl::size_t>(r.below(8)), p1);
            d.add(static_cast<i64>(cnt));
            for (etl::size_t i = 0; i < cnt; ++i) { d.add(out[i]); }
        }
        d.add(h.starts_with(n));
        d.add(h.ends_with(n));
        d.add(h.contains(n));
        d.add(h.starts_with('a'));
        d.add(h.ends_with('a'));
        d.add(h == n);
        d.add(h != n);
        d.add(h < n);
        d.add(h <= n);
        d.add(h > n);
        d.add(h >= n);
        etl::string_view const z{hay}; // from a C string: traits length
        d.add(static_cast<i64>(z.size()));
        auto const cut = static_cast<etl::size_t>(r.below(hn + 1));
        h.remove_prefix(cut);
        d.all(h);
        h.remove_suffix(static_cast<etl::size_t>(r.below(static_cast<int>(h.size()) + 1)));
        d.all(h);
        d.range(h.rbegin(), h.rend());
        if (!h.empty()) {
            d.add(h.front());
            d.add(h.back());
            d.add(h[h.size() / 2]);
        }
    }
    return d;
}


// ---------------------------------------------------------------------------------------------- algorithms
constexpr int NA = 14;
struct IntArr {
    int v[NA]{};
    int n = 0;
    constexpr auto begin() -> int* { return v; }
    constexpr auto end() -> int* { return v + n; }
    constexpr auto begin() const -> int const* { return v; }
    constexpr auto end() const -> int const* { return v + n; }
};
constexpr auto rand_arr(Rng& r, int maxn, int lo, int hi) -> IntArr
{
    IntArr a{};
    a.n = r.below(maxn + 1);
    for (int i = 0; i < a.n; ++i) { a.v[i] = r.range(lo, hi); }
    return a;
}
constexpr auto sorted_arr(Rng& r, int maxn, int lo, int hi) -> IntArr
{
    auto a = rand_arr(r, maxn, lo, hi);
    etl::insertion_sort(a.begin(), a.end());
    return a;
}

// sorting family: every sort of the library on the same input, with and without a comparator
constexpr auto script_sorts(u64 seed) -> Dig
{
    Dig d{};
    Rng r{seed};
    for (int k = 0; k < 4; ++k) {
        auto const src = rand_arr(r, NA, -6, 6);
        auto const gt  = [](int a, int b) { return a > b; };
        {
            auto a = src;
            etl::sort(a.begin(), a.end());
            d.all(a);
            d.add(etl::is_sorted(a.begin(), a.end()));
            a = src;
            etl::sort(a.begin(), a.end(), gt);
            d.all(a);
            d.add(etl::is_sorted(a.begin(), a.end(), gt));
            d.add(static_cast<i64>(etl::is_sorted_until(src.begin(), src.end()) - src.begin()));
        }
        {
            auto a = src;
            etl::stable_sort(a.begin(), a.end(), [](int x, int y) { return (x / 2) < (y / 2); });
            d.all(a);
            a = src;
            etl::insertion_sort(a.begin(), a.end(), gt);
            d.all(a);
            a = src;
            etl::bubble_sort(a.begin(), a.end());
            d.all(a);
            a = src;
            etl::gnome_sort(a.begin(), a.end(), gt);
            d.all(a);
            a = src;
            etl::exchange_sort(a.begin(), a.end());
            d.all(a);
            a = src;
            etl::merge_sort(a.begin(), a.end());
            d.all(a);
        }
        {
            auto a         = src;
            auto const mid = r.below(a.n + 1);
            etl::partial_sort(a.begin(), a.begin() + mid, a.end());
            d.range(a.begin(), a.begin() + mid);
            a = src;
            if (a.n > 0) {
                auto const nth = r.below(a.n);
                etl::nth_element(a.begin(), a.begin() + nth, a.end());
                d.add(a.v[nth]);
            }
        }
    }
    return d;
}

// permuting / modifying algorithms
constexpr auto script_mutating(u64 seed) -> Dig
{
    Dig d{};
    Rng r{seed};
    for (int k = 0; k < 5; ++k) {
        auto const src = rand_arr(r, NA, 0, 5);
        auto const odd = [](int x) { return (x & 1) != 0; };
        auto a         = src;
        int const m    = r.below(a.n + 1);
        {
            auto it = etl::rotate(a.begin(), a.begin() + m, a.end());
            d.add(static_cast<i64>(it - a.begin()));
            d.all(a);
            IntArr o{};
            o.n = src.n;
            etl::rotate_copy(src.begin(), src.begin() + m, src.end(), o.begin());
            d.all(o);
        }
        {
            a = src;
            etl::reverse(a.begin(), a.end());
            d.all(a);
            IntArr o{};
            o.n = src.n;
            etl::reverse_copy(src.begin(), src.end(), o.begin());
            d.all(o);
        }
        {
            a       = src;
            auto it = etl::remove(a.begin(), a.end(), 3);
            d.range(a.begin(), it);
            a  = src;
            it = etl::remove_if(a.begin(), a.end(), odd);
            d.range(a.begin(), it);
            IntArr o{};
            auto e = etl::remove_copy(src.begin(), src.end(), o.begin(), 2);
            d.range(o.begin(), e);
            e = etl::remove_copy_if(src.begin(), src.end(), o.begin(), odd);
            d.range(o.begin(), e);
            e = etl::copy_if(src.begin(), src.end(), o.begin(), odd);
            d.range(o.begin(), e);
        }
        {
            a       = src;
            auto it = etl::unique(a.begin(), a.end());
            d.range(a.begin(), it);
            IntArr o{};
            auto e = etl::unique_copy(src.begin(), src.end(), o.begin());
            d.range(o.begin(), e);
            a  = src;
            it = etl::unique(a.begin(), a.end(), [](int x, int y) { return x / 2 == y / 2; });
            d.range(a.begin(), it);
        }
        {
            a       = src;
            auto it = etl::partition(a.begin(), a.end(), odd);
            d.add(static_cast<i64>(it - a.begin()));
            d.add(etl::is_partitioned(a.begin(), a.end(), odd));
            d.add(static_cast<i64>(etl::partition_point(a.begin(), a.end(), odd) - a.begin()));
            a  = src;
            it = etl::stable_partition(a.begin(), a.end(), odd);
            d.add(static_cast<i64>(it - a.begin()));
            d.all(a);
            IntArr t{};
            IntArr f{};
            auto const pr = etl::partition_copy(src.begin(), src.end(), t.begin(), f.begin(), odd);
            d.range(t.begin(), pr.first);
            d.range(f.begin(), pr.second);
        }
        {
            a = src;
            etl::replace(a.begin(), a.end(), 1, 9);
            etl::replace_if(a.begin(), a.end(), odd, 8);
            d.all(a);
            a = src;
            etl::fill(a.begin(), a.begin() + m, 7);
            etl::fill_n(a.begin() + m, a.n - m, 6);
            d.all(a);
            int c = 0;
            etl::generate(a.begin(), a.end(), [&c] { return c += 3; });
            d.all(a);
            etl::generate_n(a.begin(), m, [&c] { return c -= 1; });
            d.all(a);
            etl::iota(a.begin(), a.end(), -2);
            d.all(a);
            etl::transform(src.begin(), src.end(), a.begin(), [](int x) { return x * x - 1; });
            d.all(a);
            etl::transform(src.begin(), src.end(), a.begin(), a.begin(), [](int x, int y) { return x - y; });
            d.all(a);
            int acc = 0;
            etl::for_each(src.begin(), src.end(), [&acc](int x) { acc = acc * 3 + x; });
            d.add(acc);
            etl::for_each_n(src.begin(), m, [&acc](int x) { acc ^= x; });
            d.add(acc);
        }
        {
            a       = src;
            auto it = etl::shift_left(a.begin(), a.end(), m);
            d.range(a.begin(), it);
            a  = src;
            it = etl::shift_right(a.begin(), a.end(), m);
            d.range(it, a.end());
        }
        {
            IntArr o{};
            o.n = src.n;
            etl::copy(src.begin(), src.end(), o.begin());
            d.all(o);
            etl::copy_n(src.begin(), m, o.begin());
            etl::copy_backward(o.begin(), o.begin() + m, o.end());
            d.all(o);
            etl::move(src.begin(), src.end(), o.begin());
            etl::move_backward(o.begin(), o.begin() + m, o.end());
            d.all(o);
            auto b = src;
            etl::swap_ranges(o.begin(), o.begin() + m, b.begin());
            d.all(o);
            d.all(b);
            if (b.n >= 2) { etl::iter_swap(b.begin(), b.end() - 1); }
            d.all(b);
        }
    }
    return d;
}

// searching / comparing / sorted-range algorithms
constexpr auto script_searching(u64 seed) -> Dig
{
    Dig d{};
    Rng r{seed};
    for (int k = 0; k < 5; ++k) {
        auto const a   = rand_arr(r, NA, 0, 4);
        auto const b   = rand_arr(r, 3, 0, 4);
        auto const odd = [](int x) { return (x & 1) != 0; };
        int const x    = r.range(0, 5);
        auto off       = [&a](int const* p) { return p == a.end() ? i64{-1} : static_cast<i64>(p - a.begin()); };
        d.add(off(etl::find(a.begin(), a.end(), x)));
        d.add(off(etl::find_if(a.begin(), a.end(), odd)));
        d.add(off(etl::find_if_not(a.begin(), a.end(), odd)));
        d.add(off(etl::find_end(a.begin(), a.end(), b.begin(), b.end())));
        d.add(off(etl::find_first_of(a.begin(), a.end(), b.begin(), b.end())));
        d.add(off(etl::search(a.begin(), a.end(), b.begin(), b.end())));
        d.add(off(etl::search_n(a.begin(), a.end(), r.below(3), x)));
        d.add(off(etl::adjacent_find(a.begin(), a.end())));
        d.add(static_cast<i64>(etl::count(a.begin(), a.end(), x)));
        d.add(static_cast<i64>(etl::count_if(a.begin(), a.end(), odd)));
        d.add(etl::all_of(a.begin(), a.end(), odd));
        d.add(etl::any_of(a.begin(), a.end(), odd));
        d.add(etl::none_of(a.begin(), a.end(), odd));
        d.add(off(etl::min_element(a.begin(), a.end())));
        d.add(off(etl::max_element(a.begin(), a.end())));
        auto const mm = etl::minmax_element(a.begin(), a.end());
        d.add(off(mm.first));
        d.add(off(mm.second));
        d.add(off(etl::max_element(a.begin(), a.end(), [](int p, int q) { return p / 2 < q / 2; })));
        auto const c  = rand_arr(r, NA, 0, 4);
        auto const mp = etl::mismatch(a.begin(), a.end(), c.begin(), c.end());
        d.add(static_cast<i64>(mp.first - a.begin()));
        d.add(static_cast<i64>(mp.second - c.begin()));
        d.add(etl::equal(a.begin(), a.end(), c.begin(), c.end()));
        d.add(etl::lexicographical_compare(a.begin(), a.end(), c.begin(), c.end()));
        d.add(etl::lexicographical_compare(c.begin(), c.end(), a.begin(), a.end(), [](int p, int q) { return p > q; }));
        auto p = a;
        etl::reverse(p.begin(), p.end());
        d.add(etl::is_permutation(a.begin(), a.end(), p.begin(), p.end()));
        d.add(etl::is_permutation(a.begin(), a.end(), c.begin(), c.end()));
        d.add(etl::min(x, a.n));
        d.add(etl::max(x, a.n));
        auto const mn = etl::minmax(x, a.n);
        d.add(mn.first);
        d.add(mn.second);
        d.add(etl::clamp(x, 1, 3));
        // sorted ranges
        auto const s1 = sorted_arr(r, 7, 0, 6);
        auto const s2 = sorted_arr(r, 7, 0, 6);
        d.add(static_cast<i64>(etl::lower_bound(s1.begin(), s1.end(), x) - s1.begin()));
        d.add(static_cast<i64>(etl::upper_bound(s1.begin(), s1.end(), x) - s1.begin()));
        auto const er = etl::equal_range(s1.begin(), s1.end(), x);
        d.add(static_cast<i64>(er.first - s1.begin()));
        d.add(static_cast<i64>(er.second - s1.begin()));
        d.add(etl::binary_search(s1.begin(), s1.end(), x));
        d.add(etl::includes(s1.begin(), s1.end(), s2.begin(), s2.end()));
        IntArr o{};
        d.range(o.begin(), etl::merge(s1.begin(), s1.end(), s2.begin(), s2.end(), o.begin()));
        d.range(o.begin(), etl::set_union(s1.begin(), s1.end(), s2.begin(), s2.end(), o.begin()));
        d.range(o.begin(), etl::set_intersection(s1.begin(), s1.end(), s2.begin(), s2.end(), o.begin()));
        d.range(o.begin(), etl::set_difference(s1.begin(), s1.end(), s2.begin(), s2.end(), o.begin()));
        d.range(o.begin(), etl::set_symmetric_difference(s1.begin(), s1.end(), s2.begin(), s2.end(), o.begin()));
        IntArr im{};
        im.n = s1.n + s2.n;
        etl::copy(s1.begin(), s1.end(), im.begin());
        etl::copy(s2.begin(), s2.end(), im.begin() + s1.n);
        etl::inplace_merge(im.begin(), im.begin() + s1.n, im.end());
        d.all(im);
    }
    return d;
}

// ---------------------------------------------------------------------------------------------- iterator categories
// the same algorithms through forward-only and bidirectional iterator wrappers (other `if constexpr` / overload paths
// than raw pointers: distance by counting, rotate by swapping, no `last - first`)
template <typename T, typename Tag>
struct WrapIt {
    using iterator_category = Tag;
    using value_type        = T;
    using difference_type   = etl::ptrdiff_t;
    using pointer           = T*;
    using reference         = T&;
    T* p{nullptr};
    constexpr auto operator*() const -> T& { return *p; }
    constexpr auto operator->() const -> T* { return p; }
    constexpr auto operator++() -> WrapIt&
    {
        ++p;
        return *this;
    }
    constexpr auto operator++(int) -> WrapIt
    {
        auto c = *this;
        ++p;
        return c;
    }
    constexpr auto operator--() -> WrapIt&
        requires(etl::is_same_v<Tag, etl::bidirectional_iterator_tag>)
    {
        --p;
        return *this;
    }
    constexpr auto operator--(int) -> WrapIt
        requires(etl::is_same_v<Tag, etl::bidirectional_iterator_tag>)
    {
        auto c = *this;
        --p;
        return c;
    }
    friend constexpr auto operator==(WrapIt a, WrapIt b) -> bool { return a.p == b.p; }
    friend constexpr auto operator!=(WrapIt a, WrapIt b) -> bool { return a.p != b.p; }
};
template <typename Tag>
constexpr auto iter_category_script(u64 seed) -> Dig
{
    using It  = WrapIt<int, Tag>;
    using CIt = WrapIt<int const, Tag>;
    Dig d{};
    Rng r{seed};
    for (int k = 0; k < 6; ++k) {
        auto const src = rand_arr(r, NA, 0, 5);
        auto a         = src;
        auto const odd = [](int x) { return (x & 1) != 0; };
        int const m    = r.below(a.n + 1);
        int const x    = r.range(0, 5);
        auto B         = [&a] { return It{a.v}; };
        auto E         = [&a] { return It{a.v + a.n}; };
        auto M         = [&a, m] { return It{a.v + m}; };
        CIt const cb{src.v};
        CIt const ce{src.v + src.n};
        d.add(static_cast<i64>(etl::distance(B(), E())));
        d.add(static_cast<i64>(etl::distance(B(), M())));
        auto adv = B();
        etl::advance(adv, m);
        d.add(static_cast<i64>(adv.p - a.v));
        d.add(static_cast<i64>(etl::next(B(), m).p - a.v));
        d.add(static_cast<i64>(etl::find(cb, ce, x).p - src.v));
        d.add(static_cast<i64>(etl::find_if(cb, ce, odd).p - src.v));
        d.add(static_cast<i64>(etl::count(cb, ce, x)));
        d.add(static_cast<i64>(etl::adjacent_find(cb, ce).p - src.v));
        d.add(static_cast<i64>(etl::min_element(cb, ce).p - src.v));
        d.add(static_cast<i64>(etl::max_element(cb, ce).p - src.v));
        d.add(etl::is_sorted(cb, ce));
        d.add(etl::equal(cb, ce, CIt{a.v}, CIt{a.v + a.n}));
        d.add(etl::lexicographical_compare(cb, ce, CIt{a.v + m}, CIt{a.v + a.n}));
        d.add(static_cast<i64>(etl::search(cb, ce, CIt{a.v + m}, CIt{a.v + a.n}).p - src.v));
        d.add(etl::accumulate(cb, ce, 0));
        {
            auto it = etl::rotate(B(), M(), E());
            d.add(static_cast<i64>(it.p - a.v));
            d.all(a);
        }
        {
            a       = src;
            auto it = etl::remove(B(), E(), x);
            d.range(a.v, it.p);
            a  = src;
            it = etl::remove_if(B(), E(), odd);
            d.range(a.v, it.p);
            a  = src;
            it = etl::unique(B(), E());
            d.range(a.v, it.p);
            a  = src;
            it = etl::partition(B(), E(), odd);
            d.add(static_cast<i64>(it.p - a.v));
            d.add(etl::is_partitioned(B(), E(), odd));
            d.add(static_cast<i64>(etl::partition_point(B(), E(), odd).p - a.v));
        }
        {
            a = src;
            etl::replace(B(), E(), 1, 9);
            etl::fill(B(), M(), 7);
            d.all(a);
            IntArr o{};
            o.n = src.n;
            etl::copy(cb, ce, It{o.v});
            d.all(o);
            etl::rotate_copy(cb, CIt{src.v + m}, ce, It{o.v});
            d.all(o);
            auto e = etl::copy_if(cb, ce, It{o.v}, odd);
            d.range(o.v, e.p);
            e = etl::unique_copy(cb, ce, It{o.v});
            d.range(o.v, e.p);
            etl::transform(cb, ce, It{o.v}, [](int v) { return v + 1; });
            d.all(o);
            etl::swap_ranges(B(), M(), It{o.v});
            d.all(a);
            a       = src;
            auto sl = etl::shift_left(B(), E(), m);
            d.range(a.v, sl.p);
        }
        {
            auto s1 = sorted_arr(r, 7, 0, 6);
            CIt const sb{s1.v};
            CIt const se{s1.v + s1.n};
            d.add(static_cast<i64>(etl::lower_bound(sb, se, x).p - s1.v));
            d.add(static_cast<i64>(etl::upper_bound(sb, se, x).p - s1.v));
            d.add(etl::binary_search(sb, se, x));
            auto const er = etl::equal_range(sb, se, x);
            d.add(static_cast<i64>(er.first.p - s1.v));
            d.add(static_cast<i64>(er.second.p - s1.v));
        }
        if constexpr (etl::is_same_v<Tag, etl::bidirectional_iterator_tag>) {
            a = src;
            etl::reverse(B(), E());
            d.all(a);
            IntArr o{};
            o.n = src.n;
            etl::reverse_copy(cb, ce, It{o.v});
            d.all(o);
            etl::copy_backward(cb, CIt{src.v + m}, It{o.v + o.n});
            d.all(o);
            d.add(static_cast<i64>(etl::prev(E(), m).p - a.v));
            // (etl::stable_partition and etl::insertion_sort use `last - first` / `it - 1`: random access only)
            a = src;
            etl::gnome_sort(B(), E());
            d.all(a);
            a       = src;
            auto sr = etl::shift_right(B(), E(), m);
            d.range(sr.p, a.v + a.n);
        }
    }
    return d;
}
constexpr auto script_iter_forward(u64 seed) -> Dig { return iter_category_script<etl::forward_iterator_tag>(seed); }
constexpr auto script_iter_bidi(u64 seed) -> Dig { return iter_category_script<etl::bidirectional_iterator_tag>(seed); }

// ---------------------------------------------------------------------------------------------- numeric
constexpr auto script_numeric(u64 seed) -> Dig
{
    Dig d{};
    Rng r{seed};
    for (int k = 0; k < 6; ++k) {
        auto const a = rand_arr(r, NA, -9, 9);
        auto const b = rand_arr(r, NA, -9, 9);
        int const nb = a.n < b.n ? a.n : b.n;
        d.add(etl::accumulate(a.begin(), a.end(), 0LL));
        d.add(etl::accumulate(a.begin(), a.end(), 1LL, [](i64 x, int y) { return x * 3 + y; }));
        d.add(etl::reduce(a.begin(), a.end()));
        d.add(etl::reduce(a.begin(), a.end(), 5));
        d.add(etl::reduce(a.begin(), a.end(), 1, [](int x, int y) { return x ^ y; }));
        d.add(etl::inner_product(a.begin(), a.begin() + nb, b.begin(), 0));
        d.add(etl::transform_reduce(a.begin(), a.begin() + nb, b.begin(), 0));
        d.add(etl::transform_reduce(a.begin(), a.end(), 0, [](int x, int y) { return x + y; }, [](int x) { return x * x; }));
        IntArr o{};
        d.range(o.begin(), etl::partial_sum(a.begin(), a.end(), o.begin()));
        d.range(o.begin(), etl::adjacent_difference(a.begin(), a.end(), o.begin()));
        o.n = a.n;
        etl::iota(o.begin(), o.end(), r.range(-3, 3));
        d.all(o);
    }
    for (int k = 0; k < 24; ++k) {
        auto const x = static_cast<i64>(r.edge64());
        auto const y = static_cast<i64>(r.edge64());
        auto const xi = static_cast<int>(x);
        auto const yi = static_cast<int>(y);
        auto const xs = static_cast<short>(x);
        auto const ys = static_cast<short>(y);
        auto const xu = static_cast<unsigned>(x);
        auto const yu = static_cast<unsigned>(y);
        auto const xc = static_cast<signed char>(x);
        auto const yc = static_cast<signed char>(y);
        d.add(etl::add_sat(x, y));
        d.add(etl::add_sat(xi, yi));
        d.add(etl::add_sat(xs, ys));
        d.add(etl::add_sat(xu, yu));
        d.add(etl::add_sat(xc, yc));
        d.add(etl::add_sat(static_cast<u64>(x), static_cast<u64>(y)));
        d.add(etl::add_sat(static_cast<unsigned long>(x), static_cast<unsigned long>(y)));
        d.add(etl::add_sat(static_cast<long>(x), static_cast<long>(y)));
        d.add(etl::detail::add_sat_fallback(x, y));
        d.add(etl::detail::add_sat_fallback(xi, yi));
        d.add(etl::detail::add_sat_fallback(xs, ys));
        d.add(etl::detail::add_sat_fallback(xu, yu));
        d.add(etl::detail::add_sat_fallback(xc, yc));
        d.add(etl::detail::add_sat_fallback(static_cast<unsigned short>(x), static_cast<unsigned short>(y)));
        d.add(etl::detail::add_sat_fallback(static_cast<unsigned char>(x), static_cast<unsigned char>(y)));
        d.add(etl::detail::add_sat_fallback(static_cast<u64>(x), static_cast<u64>(y)));
        if (yi != 0 && !(xi == (-2147483647 - 1) && yi == -1)) { d.add(etl::div_sat(xi, yi)); }
        if (yi != 0) { d.add(etl::div_sat(xi, yi)); }
        if (y != 0) { d.add(etl::div_sat(x, y)); }
        if (yc != 0) { d.add(etl::div_sat(xc, yc)); }
        d.add(etl::saturate_cast<signed char>(x));
        d.add(etl::saturate_cast<unsigned char>(x));
        d.add(etl::saturate_cast<short>(xi));
        d.add(etl::saturate_cast<unsigned>(x));
        d.add(etl::saturate_cast<int>(static_cast<u64>(x)));
        d.add(etl::saturate_cast<i64>(static_cast<u64>(x)));
        d.add(etl::midpoint(xi, yi));
        d.add(etl::midpoint(xs, ys));
        d.add(etl::midpoint(xu, yu));
        d.add(etl::midpoint(x, y));
        d.add(etl::midpoint(static_cast<u64>(x), static_cast<u64>(y)));
        int const g1 = r.range(-40, 40);
        int const g2 = r.range(-40, 40);
        d.add(etl::gcd(g1, g2));
        d.add(etl::lcm(g1, g2));
        d.add(etl::gcd(static_cast<unsigned>(xu >> 8U), static_cast<unsigned>(yu >> 9U)));
        if (xi != (-2147483647 - 1)) { d.add(etl::abs(xi)); }
        d.add(etl::cmp_equal(xi, yu));
        d.add(etl::cmp_not_equal(xi, yu));
        d.add(etl::cmp_less(xi, yu));
        d.add(etl::cmp_less_equal(xu, yi));
        d.add(etl::cmp_greater(x, static_cast<u64>(y)));
        d.add(etl::cmp_greater_equal(static_cast<u64>(x), y));
        d.add(etl::in_range<signed char>(x));
        d.add(etl::in_range<unsigned>(xi));
        d.add(etl::in_range<int>(static_cast<u64>(x)));
    }
    return d;
}

// ---------------------------------------------------------------------------------------------- bit
template <typename U>
constexpr void bit_ops(Dig& d, U x, int s)
{
    d.add(etl::popcount(x));
    d.add(etl::countl_zero(x));
    d.add(etl::countl_one(x));
    d.add(etl::countr_zero(x));
    d.add(etl::countr_one(x));
    d.add(etl::bit_width(x));
    d.add(etl::has_single_bit(x));
    d.add(etl::bit_floor(x));
    constexpr int digits = static_cast<int>(sizeof(U) * 8);
    if (x <= (U{1} << (digits - 1))) { d.add(etl::bit_ceil(x)); }
    d.add(etl::rotl(x, s));
    d.add(etl::rotr(x, s));
    d.add(etl::rotl(x, -s));
    d.add(etl::rotr(x, s + digits));
    d.add(etl::byteswap(x));
    auto const pos = static_cast<U>(static_cast<unsigned>(s) % static_cast<unsigned>(digits));
    d.add(etl::test_bit(x, pos));
    d.add(etl::set_bit(x, pos));
    d.add(etl::reset_bit(x, pos));
    d.add(etl::flip_bit(x, pos));
}
constexpr auto script_bit(u64 seed) -> Dig
{
    Dig d{};
    Rng r{seed};
    for (int k = 0; k < 24; ++k) {
        auto const x = r.edge64();
        int const s  = r.range(0, 70);
        bit_ops<unsigned char>(d, static_cast<unsigned char>(x), s);
        bit_ops<unsigned short>(d, static_cast<unsigned short>(x), s);
        bit_ops<unsigned>(d, static_cast<unsigned>(x), s);
        bit_ops<unsigned long>(d, static_cast<unsigned long>(x), s);
        bit_ops<unsigned long long>(d, static_cast<unsigned long long>(x), s);
        d.add(etl::byteswap(static_cast<short>(x)));
        d.add(etl::byteswap(static_cast<int>(x)));
        d.add(etl::byteswap(static_cast<i64>(x)));
        d.add(etl::byteswap(static_cast<signed char>(x)));
        d.add(etl::detail::byteswap_fallback(static_cast<std::uint16_t>(x)));
        d.add(etl::detail::byteswap_fallback(static_cast<std::uint32_t>(x)));
        d.add(etl::detail::byteswap_fallback(static_cast<std::uint64_t>(x)));
        d.add(etl::detail::popcount_fallback(static_cast<unsigned char>(x)));
        d.add(etl::detail::popcount_fallback(static_cast<unsigned>(x)));
        d.add(etl::detail::popcount_fallback(static_cast<unsigned long long>(x)));
        d.add(etl::bit_cast<u64>(etl::bit_cast<double>(x)) == x || etl::isnan(etl::bit_cast<double>(x)));
        d.add(etl::bit_cast<unsigned>(etl::bit_cast<float>(static_cast<unsigned>(x >> 3U))) == static_cast<unsigned>(x >> 3U)
              || etl::isnan(etl::bit_cast<float>(static_cast<unsigned>(x >> 3U))));
        d.add(etl::bit_cast<i64>(x));
    }
    return d;
}


// ---------------------------------------------------------------------------------------------- bitset (g++ only)
#if !defined(__clang__)
template <etl::size_t N>
constexpr auto script_bitset(u64 seed) -> Dig
{
    Dig d{};
    Rng r{seed};
    etl::bitset<N> b{r.next()};
    etl::bitset<N> c{};
    constexpr int n = static_cast<int>(N);
    auto dump       = [&d](etl::bitset<N> const& x) {
        for (etl::size_t i = 0; i < N; ++i) { d.add(x.test(i)); }
        d.add(static_cast<i64>(x.count()));
        d.add(x.all());
        d.add(x.any());
        d.add(x.none());
    };
    for (int k = 0; k < 20; ++k) {
        auto const pos = static_cast<etl::size_t>(r.below(n));
        switch (r.below(14)) {
        case 0: b.set(pos); break;
        case 1: b.set(pos, r.coin()); break;
        case 2: b.reset(pos); break;
        case 3: b.flip(pos); break;
        case 4: b.set(); break;
        case 5: b.reset(); break;
        case 6: b.flip(); break;
        case 7: c = etl::bitset<N>{r.edge64()}; break;
        case 8: b &= c; break;
        case 9: b |= c; break;
        case 10: b ^= c; break;
        case 11: b = ~b; break;
        case 12: b = (b & c) | (b ^ c); break;
        default: b[pos] = r.coin(); break;
        }
        dump(b);
        d.add(b == c);
        d.add(b[pos] ? 1 : 0);
        if constexpr (N <= 64) {
            d.add(b.to_ullong());
            if constexpr (N <= 32) { d.add(b.to_ulong()); }
        }
    }
    char txt[N + 1]{};
    for (int i = 0; i < n; ++i) { txt[i] = r.coin() ? '1' : '0'; }
    etl::bitset<N> const from_text{etl::string_view{txt, N}};
    dump(from_text);
    auto const str = b.template to_string<N + 1>();
    d.all(str);
    return d;
}
#endif

// ---------------------------------------------------------------------------------------------- optional / variant / expected
constexpr auto script_optional(u64 seed) -> Dig
{
    Dig d{};
    Rng r{seed};
    etl::optional<int> o{};
    etl::optional<int> p{};
    for (int k = 0; k < 24; ++k) {
        int const x = r.range(-9, 9);
        switch (r.below(12)) {
        case 0: o = x; break;
        case 1: o.emplace(x * 2); break;
        case 2: o.reset(); break;
        case 3: o = etl::nullopt; break;
        case 4: p = o; break;
        case 5: o = etl::move(p); break;
        case 6: o.swap(p); break;
        case 7: {
            auto const q = o.and_then([](int v) { return v > 0 ? etl::optional<long>{v * 10L} : etl::optional<long>{}; });
            d.add(q.has_value());
            d.add(q.value_or(-1L));
            break;
        }
        case 8: {
            auto const q = o.or_else([x] { return etl::optional<int>{x}; });
            d.add(q.has_value());
            d.add(*q);
            break;
        }
        case 9: {
            etl::optional<long> const w{o};
            d.add(w.has_value());
            d.add(w.value_or(77L));
            break;
        }
        case 10: {
            auto m = etl::make_optional(x);
            etl::swap(m, o);
            d.add(m.has_value());
            break;
        }
        default:
            if (o.has_value()) { *o += 1; }
            break;
        }
        d.add(o.has_value());
        d.add(static_cast<bool>(p));
        d.add(o.value_or(-100));
        d.add(p.value_or(-200));
        d.add(o == p);
        d.add(o != p);
        d.add(o < p);
        d.add(o <= p);
        d.add(o > p);
        d.add(o >= p);
        d.add(o == etl::nullopt);
        d.add(etl::nullopt != p);
        d.add(o == x);
        d.add(x < o);
        d.add(o >= x);
    }
    // optional<T&>
    int a = r.range(0, 9);
    int b = a + 1;
    etl::optional<int&> ref{a};
    d.add(ref.has_value());
    d.add(*ref);
    *ref = 5;
    d.add(a);
    ref.emplace(b);
    d.add(*ref);
    ref.reset();
    d.add(ref.has_value());
    return d;
}

struct Pt {
    int x;
    int y;
    friend constexpr auto operator==(Pt const& l, Pt const& r) -> bool { return l.x == r.x && l.y == r.y; }
    friend constexpr auto operator<(Pt const& l, Pt const& r) -> bool { return l.x < r.x || (l.x == r.x && l.y < r.y); }
    friend constexpr auto operator<=(Pt const& l, Pt const& r) -> bool { return !(r < l); }
    friend constexpr auto operator>(Pt const& l, Pt const& r) -> bool { return r < l; }
    friend constexpr auto operator>=(Pt const& l, Pt const& r) -> bool { return !(l < r); }
    friend constexpr auto operator!=(Pt const& l, Pt const& r) -> bool { return !(l == r); }
};

constexpr auto script_variant(u64 seed) -> Dig
{
    Dig d{};
    Rng r{seed};
    using var = etl::variant<etl::monostate, int, char, Pt, long long>;
    var v{};
    var w{r.range(0, 5)};
    auto dump = [&d](var const& x) {
        d.add(static_cast<i64>(x.index()));
        d.add(etl::holds_alternative<int>(x));
        d.add(etl::holds_alternative<Pt>(x));
        d.add(etl::get_if<int>(&x) != nullptr ? *etl::get_if<int>(&x) : -1);
        d.add(etl::get_if<2>(&x) != nullptr ? static_cast<int>(*etl::get_if<2>(&x)) : -1);
        d.add(etl::get_if<Pt>(&x) != nullptr ? etl::get_if<Pt>(&x)->y : -1);
        d.add(etl::visit(
            [](auto const& alt) -> i64 {
                using T = etl::remove_cvref_t<decltype(alt)>;
                if constexpr (etl::is_same_v<T, etl::monostate>) {
                    return -7;
                } else if constexpr (etl::is_same_v<T, Pt>) {
                    return alt.x * 100 + alt.y;
                } else {
                    return static_cast<i64>(alt) + 1;
                }
            },
            x
        ));
    };
    for (int k = 0; k < 24; ++k) {
        int const x = r.range(-9, 9);
        switch (r.below(12)) {
        case 0: v = x; break;
        case 1: v = static_cast<char>('a' + (x & 7)); break;
        case 2: v = Pt{x, -x}; break;
        case 3: v = static_cast<long long>(x) * 1000000007LL; break;
        case 4: v.template emplace<1>(x + 1); break;
        case 5: v.template emplace<Pt>(Pt{1, x}); break;
        case 6: v = var{}; break;
        case 7: w = v; break;
        case 8: v = etl::move(w); break;
        case 9: etl::swap(v, w); break;
        case 10: {
            var c{v};
            d.add(c == v);
            break;
        }
        default: w = x; break;
        }
        dump(v);
        dump(w);
        d.add(v == w);
        d.add(v != w);
        d.add(v < w);
        d.add(v <= w);
        d.add(v > w);
        d.add(v >= w);
    }
    return d;
}

constexpr auto script_expected(u64 seed) -> Dig
{
    Dig d{};
    Rng r{seed};
    using ex = etl::expected<int, short>;
    ex e{};
    ex f{etl::unexpect, static_cast<short>(3)};
    for (int k = 0; k < 24; ++k) {
        int const x = r.range(-9, 9);
        switch (r.below(9)) {
        case 0: e = ex{etl::in_place, x}; break;
        case 1: e = ex{etl::unexpect, static_cast<short>(x)}; break;
        case 2: e.emplace(x * 3); break;
        case 3: f = e; break;
        case 4: e = etl::move(f); break;
        case 5: {
            auto const q = e.and_then([](int v) { return v > 0 ? etl::expected<long, short>{etl::in_place, v * 10L} : etl::expected<long, short>{etl::unexpect, static_cast<short>(-1)}; });
            d.add(q.has_value());
            d.add(q.has_value() ? *q : static_cast<long>(q.error()));
            break;
        }
        case 6: {
            auto const q = e.or_else([](short er) { return etl::expected<int, long>{etl::in_place, er + 100}; });
            d.add(q.has_value());
            d.add(q.has_value() ? static_cast<long>(*q) : q.error());
            break;
        }
        case 7: {
            ex c{e};
            d.add(c.has_value() == e.has_value());
            break;
        }
        default:
            if (e.has_value()) { *e += 2; }
            break;
        }
        d.add(e.has_value());
        d.add(static_cast<bool>(f));
        d.add(e.value_or(-50));
        d.add(e.has_value() ? 0 : static_cast<int>(e.error()));
        d.add(f.has_value() ? *f : static_cast<int>(f.error()));
    }
    return d;
}

// ---------------------------------------------------------------------------------------------- span / mdspan
constexpr auto script_span(u64 seed) -> Dig
{
    Dig d{};
    Rng r{seed};
    int data[12]{};
    for (int i = 0; i < 12; ++i) { data[i] = r.range(-20, 20); }
    for (int k = 0; k < 8; ++k) {
        etl::span<int> const s{data, static_cast<etl::size_t>(r.below(13))};
        int const n = static_cast<int>(s.size());
        d.add(n);
        d.add(s.empty());
        d.add(static_cast<i64>(s.size_bytes()));
        d.all(s);
        d.range(s.rbegin(), s.rend());
        if (n > 0) {
            d.add(s.front());
            d.add(s.back());
            d.add(s[static_cast<etl::size_t>(r.below(n))]);
        }
        auto const a = static_cast<etl::size_t>(r.below(n + 1));
        d.all(s.first(a));
        d.all(s.last(a));
        auto const cnt = static_cast<etl::size_t>(r.below(n - static_cast<int>(a) + 1));
        d.all(s.subspan(a, cnt));
        d.all(s.subspan(a));
        if (n >= 1) { s[static_cast<etl::size_t>(n - 1)] += 1; }
    }
    etl::span<int, 12> const fixed{data};
    d.all(fixed.template first<3>());
    d.all(fixed.template last<4>());
    d.all(fixed.template subspan<2, 5>());
    etl::span<int const> const cs{fixed};
    d.all(cs);
    etl::array<int, 4> arr{1, 2, 3, r.range(0, 9)};
    etl::span<int> const from_arr{arr};
    d.all(from_arr);
    return d;
}

constexpr auto script_mdspan(u64 seed) -> Dig
{
    Dig d{};
    Rng r{seed};
    int data[48]{};
    for (int i = 0; i < 48; ++i) { data[i] = i * 3 + r.below(3); }
    int const rows = r.range(1, 6);
    int const cols = r.range(1, 8);
    {
        etl::mdspan<int, etl::dextents<int, 2>> const m{data, rows, cols};
        d.add(m.rank());
        d.add(m.extent(0));
        d.add(m.extent(1));
        d.add(static_cast<i64>(m.size()));
        d.add(m.empty());
        d.add(m.stride(0));
        d.add(m.stride(1));
        d.add(m.is_unique());
        d.add(m.is_exhaustive());
        d.add(m.is_strided());
        for (int i = 0; i < rows; ++i) {
            for (int j = 0; j < cols; ++j) { d.add(m(i, j)); }
        }
        d.add(static_cast<i64>(m.mapping().required_span_size()));
    }
    {
        etl::mdspan<int, etl::extents<int, 3, etl::dynamic_extent>, etl::layout_left> const m{data, cols};
        d.add(m.extent(0));
        d.add(m.extent(1));
        d.add(m.stride(0));
        d.add(m.stride(1));
        for (int i = 0; i < 3; ++i) {
            for (int j = 0; j < cols; ++j) { d.add(m(i, j)); }
        }
        d.add(static_cast<i64>(m.mapping().required_span_size()));
    }
    {
        etl::mdspan<int, etl::extents<etl::size_t, 2, 3, 4>> const m{data};
        d.add(m.rank());
        d.add(static_cast<i64>(m.size()));
        for (etl::size_t i = 0; i < 2; ++i) {
            for (etl::size_t j = 0; j < 3; ++j) { d.add(m(i, j, static_cast<etl::size_t>(r.below(4)))); }
        }
        d.add(static_cast<i64>(m.mapping()(1, 2, 3)));
    }
    {
        using ext = etl::dextents<int, 2>;
        etl::array<int, 2> const strides{r.range(cols, 8), 1};
        etl::layout_stride::mapping<ext> const map{ext{rows, cols}, strides};
        etl::mdspan<int, ext, etl::layout_stride> const m{data, map};
        d.add(m.stride(0));
        d.add(m.stride(1));
        // (layout_stride::mapping::is_exhaustive is declared but not defined in the library: C19's subject)
        d.add(static_cast<i64>(map.required_span_size()));
        for (int i = 0; i < rows; ++i) {
            for (int j = 0; j < cols; ++j) { d.add(m(i, j)); }
        }
    }
    return d;
}


// ---------------------------------------------------------------------------------------------- charconv
template <typename Int>
constexpr void conv_ops(Dig& d, Int v, int base, int buflen)
{
    char buf[72]{};
    auto const tr = etl::to_chars(buf, buf + buflen, v, base);
    d.add(tr.ec == etl::errc{});
    if (tr.ec != etl::errc{}) { return; }
    auto const n = static_cast<int>(tr.ptr - buf);
    d.add(n);
    for (int i = 0; i < n; ++i) { d.add(buf[i]); }
    Int back{};
    auto const fr = etl::from_chars(buf, buf + n, back, base);
    d.add(fr.ec == etl::errc{});
    d.add(static_cast<i64>(fr.ptr - buf));
    d.add(back == v);
    d.add(static_cast<i64>(back));
}
constexpr auto script_charconv(u64 seed) -> Dig
{
    Dig d{};
    Rng r{seed};
    for (int k = 0; k < 10; ++k) {
        auto const x   = r.edge64();
        int const base = k < 3 ? (k == 0 ? 10 : (k == 1 ? 2 : 16)) : r.range(2, 36);
        int const len  = r.coin() ? 70 : r.range(0, 12);
        conv_ops<signed char>(d, static_cast<signed char>(x), base, len);
        conv_ops<unsigned char>(d, static_cast<unsigned char>(x), base, len);
        conv_ops<short>(d, static_cast<short>(x), base, len);
        conv_ops<unsigned short>(d, static_cast<unsigned short>(x), base, len);
        conv_ops<int>(d, static_cast<int>(x), base, len);
        conv_ops<unsigned>(d, static_cast<unsigned>(x), base, len);
        conv_ops<long>(d, static_cast<long>(x), base, len);
        conv_ops<unsigned long>(d, static_cast<unsigned long>(x), base, len);
        conv_ops<long long>(d, static_cast<long long>(x), base, len);
        conv_ops<unsigned long long>(d, static_cast<unsigned long long>(x), base, len);
        // from_chars on free text: digits, signs, junk, overflow
        char txt[24]{};
        constexpr char const pool[] = "0123456789abcxyzABCXYZ-+ ._9999";
        int const n                 = r.below(22);
        for (int i = 0; i < n; ++i) { txt[i] = pool[r.below(31)]; }
        if (r.coin() && n > 0) { txt[0] = '-'; }
        int vi = 7;
        auto const f1 = etl::from_chars(txt, txt + n, vi, base);
        d.add(static_cast<int>(f1.ec == etl::errc{} ? 0 : (f1.ec == etl::errc::invalid_argument ? 1 : 2)));
        d.add(static_cast<i64>(f1.ptr - txt));
        d.add(vi);
        unsigned char vc = 7;
        auto const f2    = etl::from_chars(txt, txt + n, vc, base);
        d.add(static_cast<int>(f2.ec == etl::errc{} ? 0 : (f2.ec == etl::errc::invalid_argument ? 1 : 2)));
        d.add(static_cast<i64>(f2.ptr - txt));
        d.add(vc);
        long long vl  = 7;
        auto const f3 = etl::from_chars(txt, txt + n, vl, base);
        d.add(static_cast<int>(f3.ec == etl::errc{} ? 0 : (f3.ec == etl::errc::invalid_argument ? 1 : 2)));
        d.add(static_cast<i64>(f3.ptr - txt));
        d.add(vl);
    }
    return d;
}

// ---------------------------------------------------------------------------------------------- chrono
constexpr auto script_chrono_duration(u64 seed) -> Dig
{
    namespace ch = etl::chrono;
    Dig d{};
    Rng r{seed};
    for (int k = 0; k < 12; ++k) {
        auto const a = static_cast<i64>(r.range(-100000, 100000));
        auto const b = static_cast<i64>(r.range(-5000, 5000));
        int const m  = r.range(1, 9);
        ch::milliseconds const ms{a};
        ch::seconds const sec{b};
        ch::minutes const mi{b / 7};
        ch::hours const hr{b / 100};
        ch::days const dy{b / 50};
        ch::microseconds const us{a * 3};
        ch::nanoseconds const ns{a * 1001};
        d.add((ms + sec).count());
        d.add((sec - ms).count());
        d.add((ms * m).count());
        d.add((m * sec).count());
        d.add((ms / m).count());
        d.add((ms % m).count());
        if (b != 0) {
            d.add(ms / ch::milliseconds{b});
            d.add((ms % ch::milliseconds{b}).count());
            d.add((us % sec).count());
        }
        d.add((mi + hr + dy).count());
        d.add(ch::duration_cast<ch::seconds>(ms).count());
        d.add(ch::duration_cast<ch::minutes>(sec).count());
        d.add(ch::duration_cast<ch::hours>(ns).count());
        d.add(ch::duration_cast<ch::milliseconds>(us).count());
        d.add(ch::duration_cast<ch::nanoseconds>(dy).count());
        d.add(ch::duration_cast<ch::duration<long, etl::ratio<3, 7>>>(ms).count());
        d.add(ch::floor<ch::seconds>(ms).count());
        d.add(ch::ceil<ch::seconds>(ms).count());
        d.add(ch::round<ch::seconds>(ms).count());
        d.add(ch::floor<ch::minutes>(sec).count());
        d.add(ch::ceil<ch::hours>(mi).count());
        d.add(ch::round<ch::days>(hr).count());
        d.add(ch::abs(ms).count());
        d.add((-ms).count());
        d.add((+sec).count());
        d.add(ms == sec);
        d.add(ms != sec);
        d.add(ms < sec);
        d.add(ms <= sec);
        d.add(ms > us);
        d.add(ns >= us);
        auto acc = ms;
        acc += sec;
        acc -= ch::milliseconds{m};
        acc *= m;
        acc /= 2;
        acc %= 977;
        ++acc;
        acc++;
        --acc;
        d.add(acc.count());
        d.add(ch::milliseconds::zero().count());
        d.add(ch::duration<short>::max().count());
        d.add(ch::duration<short>::min().count());
        ch::sys_seconds const tp{sec};
        ch::sys_seconds const tq{ch::seconds{a}};
        d.add((tp + mi).time_since_epoch().count());
        d.add((tp - hr).time_since_epoch().count());
        d.add((tp - tq).count());
        d.add(tp == tq);
        d.add(tp < tq);
        d.add(tp >= tq);
        d.add(ch::time_point_cast<ch::minutes>(tp).time_since_epoch().count());
        d.add(ch::floor<ch::days>(tq).time_since_epoch().count());
        d.add(ch::ceil<ch::hours>(tq).time_since_epoch().count());
        d.add(ch::round<ch::minutes>(tq).time_since_epoch().count());
        // large tick counts (beyond 2^53: an intermediate floating-point value would round), kept below the overflow
        // limits of the conversions
        auto const braw = r.edge64() >> 2U; // 62 bits: round/ceil add one unit of the coarser duration
        auto const big  = static_cast<i64>(braw) * (r.coin() ? 1 : -1);
        ch::nanoseconds const nsb{big};
        d.add(ch::duration_cast<ch::microseconds>(nsb).count());
        d.add(ch::duration_cast<ch::milliseconds>(nsb).count());
        d.add(ch::duration_cast<ch::seconds>(nsb).count());
        d.add(ch::duration_cast<ch::minutes>(nsb).count());
        d.add(ch::duration_cast<ch::hours>(nsb).count());
        d.add(ch::duration_cast<ch::days>(nsb).count());
        d.add(ch::floor<ch::seconds>(nsb).count());
        d.add(ch::ceil<ch::milliseconds>(nsb).count());
        d.add(ch::round<ch::microseconds>(nsb).count());
        d.add(ch::floor<ch::days>(nsb).count());
        ch::milliseconds const msb{big / 1048576 * 1000 + r.range(-1, 1)};
        d.add(ch::duration_cast<ch::seconds>(msb).count());
        d.add(ch::floor<ch::seconds>(msb).count());
        d.add(ch::ceil<ch::seconds>(msb).count());
        d.add(ch::round<ch::seconds>(msb).count());
        d.add(ch::duration_cast<ch::microseconds>(msb).count());
        ch::seconds const sb{big >> 30U};
        d.add(ch::duration_cast<ch::milliseconds>(sb).count());
        d.add(ch::duration_cast<ch::microseconds>(sb).count());
        d.add(ch::duration_cast<ch::nanoseconds>(sb).count());
        d.add(ch::duration_cast<ch::hours>(sb).count());
        d.add(sb < nsb);
        d.add(sb == ch::duration_cast<ch::seconds>(nsb));
        d.add((nsb / 2 + ch::duration_cast<ch::nanoseconds>(sb) / 2).count());
        d.add((nsb % ch::nanoseconds{1000000007}).count());
        d.add(nsb / ch::nanoseconds{977});
        ch::days const db{r.range(-106000, 106000)};
        d.add(ch::duration_cast<ch::nanoseconds>(db).count());
        d.add(ch::duration_cast<ch::seconds>(db).count());
        d.add(ch::sys_days{db}.time_since_epoch().count());
        using namespace etl::literals;
        d.add((5_min + 3_s).count());
        d.add((2_h - 30_min).count());
        d.add((150_ms).count() + (7_us).count() + (9_ns).count());
    }
    return d;
}

constexpr auto script_chrono_calendar(u64 seed) -> Dig
{
    namespace ch = etl::chrono;
    Dig d{};
    Rng r{seed};
    auto put_ymd = [&d](ch::year_month_day const& x) {
        d.add(static_cast<int>(x.year()));
        d.add(static_cast<unsigned>(x.month()));
        d.add(static_cast<unsigned>(x.day()));
        d.add(x.ok());
    };
    for (int k = 0; k < 10; ++k) {
        int const z = (k & 1) != 0 ? r.range(-800000, 800000) : r.range(-12687428, 11248737);
        ch::sys_days const sd{ch::days{z}};
        ch::year_month_day const ymd{sd};
        put_ymd(ymd);
        d.add(ch::sys_days{ymd}.time_since_epoch().count());
        ch::weekday const wd{sd};
        d.add(wd.c_encoding());
        d.add(wd.iso_encoding());
        d.add(wd.ok());
        int const dm = r.range(-40, 40);
        int const dyr = r.range(-30, 30);
        put_ymd(ymd + ch::months{dm});
        put_ymd(ymd - ch::months{dm});
        put_ymd(ymd + ch::years{dyr});
        put_ymd(ymd - ch::years{dyr});
        auto const y = ymd.year();
        auto const m = ymd.month();
        d.add(y.is_leap());
        d.add(static_cast<int>(y + ch::years{dyr}));
        d.add(static_cast<unsigned>(m + ch::months{dm}));
        d.add(static_cast<unsigned>(m - ch::months{dm}));
        d.add((m - ch::month{static_cast<unsigned>(r.range(1, 12))}).count());
        d.add((wd + ch::days{dm}).c_encoding());
        d.add((wd - ch::days{dm}).c_encoding());
        d.add((wd - ch::weekday{static_cast<unsigned>(r.range(0, 6))}).count());
        ch::year_month_day_last const ymdl{y, ch::month_day_last{m}};
        d.add(static_cast<unsigned>(ymdl.day()));
        d.add(ch::sys_days{ymdl}.time_since_epoch().count());
        ch::year_month const ym{y, m};
        auto const ym2 = ym + ch::months{dm};
        d.add(static_cast<int>(ym2.year()));
        d.add(static_cast<unsigned>(ym2.month()));
        auto const ym3 = ym - ch::years{dyr};
        d.add(static_cast<int>(ym3.year()));
        d.add(ym == ym2);
        auto const composed = y / m / ymd.day();
        d.add(composed == ymd);
        d.add(ymd == (m / ymd.day() / y));
        ch::year_month_weekday const ymw{sd};
        d.add(ymw.index());
        d.add(ymw.weekday().c_encoding());
        d.add(ymw.ok());
        d.add(ch::sys_days{ymw}.time_since_epoch().count());
        ch::year_month_weekday_last const ymwl{y, m, ch::weekday_last{wd}};
        d.add(ch::sys_days{ymwl}.time_since_epoch().count());
        auto const dd = ymd.day();
        d.add(static_cast<unsigned>(dd + ch::days{3}));
        d.add((dd - ch::day{1}).count());
        d.add(ch::month_day{m, dd}.ok());
        d.add(ch::month_day{ch::month{2}, ch::day{static_cast<unsigned>(r.range(27, 31))}}.ok());
        d.add(ch::year_month_day{y, ch::month{2}, ch::day{29}}.ok());
        d.add(ch::day{static_cast<unsigned>(r.range(0, 40))}.ok());
        d.add(ch::month{static_cast<unsigned>(r.range(0, 14))}.ok());
        d.add(ch::year{r.range(-33000, 33000)}.ok());
        d.add(ch::weekday{static_cast<unsigned>(r.range(0, 9))}.ok());
        d.add(wd[static_cast<unsigned>(r.range(0, 6))].ok());
    }
    return d;
}

// ---------------------------------------------------------------------------------------------- cctype / cwctype
constexpr auto script_ctype(u64 seed) -> Dig
{
    Dig d{};
    Rng r{seed};
    for (int k = 0; k < 40; ++k) {
        int const c = k < 2 ? (k == 0 ? -1 : 255) : r.range(-1, 255);
        d.add(etl::isalnum(c));
        d.add(etl::isalpha(c));
        d.add(etl::isblank(c));
        d.add(etl::iscntrl(c));
        d.add(etl::isdigit(c));
        d.add(etl::isgraph(c));
        d.add(etl::islower(c));
        d.add(etl::isprint(c));
        d.add(etl::ispunct(c));
        d.add(etl::isspace(c));
        d.add(etl::isupper(c));
        d.add(etl::isxdigit(c));
        d.add(etl::tolower(c));
        d.add(etl::toupper(c));
        auto const w = static_cast<etl::wint_t>(r.coin() ? static_cast<unsigned>(c + 1) : static_cast<unsigned>(r.next() & 0x1FFFFU));
        d.add(etl::iswalnum(w));
        d.add(etl::iswalpha(w));
        d.add(etl::iswblank(w));
        d.add(etl::iswcntrl(w));
        d.add(etl::iswdigit(w));
        d.add(etl::iswgraph(w));
        d.add(etl::iswlower(w));
        d.add(etl::iswprint(w));
        d.add(etl::iswpunct(w));
        d.add(etl::iswspace(w));
        d.add(etl::iswupper(w));
        d.add(etl::iswxdigit(w));
        d.add(static_cast<i64>(etl::towlower(w)));
        d.add(static_cast<i64>(etl::towupper(w)));
    }
    return d;
}

// ---------------------------------------------------------------------------------------------- cstring / cwchar
template <typename Ch>
constexpr auto rand_cstr(Rng& r, Ch* out, int maxlen) -> int
{
    constexpr int alpha[] = {'a', 'b', 'c', 'a', 'b', 0x80, 0xFF, 1, ' ', 'z'};
    int const n           = r.below(maxlen + 1);
    for (int i = 0; i < n; ++i) { out[i] = static_cast<Ch>(alpha[r.below(10)]); }
    out[n] = Ch(0);
    return n;
}
constexpr auto script_cstring(u64 seed) -> Dig
{
    Dig d{};
    Rng r{seed};
    for (int k = 0; k < 10; ++k) {
        char a[24]{};
        char b[24]{};
        char dst[48]{};
        int const na = rand_cstr(r, a, 9);
        int const nb = rand_cstr(r, b, r.coin() ? 2 : 9);
        auto const n = static_cast<etl::size_t>(r.below(12));
        int const ch = r.coin() ? 'a' : r.range(-128, 300);
        auto off     = [](char const* base, char const* p) { return p == nullptr ? i64{-1} : static_cast<i64>(p - base); };
        d.add(static_cast<i64>(etl::strlen(a)));
        d.sign(etl::strcmp(a, b));
        d.sign(etl::strncmp(a, b, n));
        d.sign(etl::strncmp(a, b, static_cast<etl::size_t>(-1)));
        d.add(off(a, etl::strchr(static_cast<char const*>(a), ch)));
        d.add(off(a, etl::strchr(a, ch)));
        d.add(off(a, etl::strrchr(static_cast<char const*>(a), ch)));
        d.add(off(a, etl::strrchr(a, 'a')));
        d.add(static_cast<i64>(etl::strspn(a, b)));
        d.add(static_cast<i64>(etl::strcspn(a, b)));
        d.add(off(a, etl::strpbrk(static_cast<char const*>(a), b)));
        d.add(off(a, etl::strstr(static_cast<char const*>(a), b)));
        etl::strcpy(dst, a);
        d.range(dst, dst + na + 1);
        etl::strcat(dst, b);
        d.range(dst, dst + na + nb + 1);
        etl::strncat(dst, a, n);
        d.add(static_cast<i64>(etl::strlen(dst)));
        d.range(dst, dst + 32);
        for (auto& c : dst) { c = '#'; }
        etl::strncpy(dst, a, n);
        d.range(dst, dst + 14);
        (void)nb;
    }
    return d;
}
constexpr auto script_cwchar(u64 seed) -> Dig
{
    Dig d{};
    Rng r{seed};
    for (int k = 0; k < 10; ++k) {
        wchar_t a[24]{};
        wchar_t b[24]{};
        wchar_t dst[48]{};
        int const na = rand_cstr(r, a, 9);
        int const nb = rand_cstr(r, b, r.coin() ? 2 : 9);
        if (na > 0 && r.coin()) { a[r.below(na)] = static_cast<wchar_t>(0x1F600); }
        auto const n = static_cast<etl::size_t>(r.below(12));
        auto const ch = static_cast<wchar_t>(r.coin() ? L'a' : static_cast<wchar_t>(r.range(0, 300)));
        auto off      = [](wchar_t const* base, wchar_t const* p) { return p == nullptr ? i64{-1} : static_cast<i64>(p - base); };
        d.add(static_cast<i64>(etl::wcslen(a)));
        d.sign(etl::wcscmp(a, b));
        d.sign(etl::wcsncmp(a, b, n));
        d.add(off(a, etl::wcschr(static_cast<wchar_t const*>(a), ch)));
        d.add(off(a, etl::wcsrchr(static_cast<wchar_t const*>(a), ch)));
        d.add(static_cast<i64>(etl::wcsspn(a, b)));
        d.add(static_cast<i64>(etl::wcscspn(a, b)));
        d.add(off(a, etl::wcspbrk(static_cast<wchar_t const*>(a), b)));
        d.add(off(a, etl::wcsstr(static_cast<wchar_t const*>(a), b)));
        d.add(off(a, etl::wmemchr(static_cast<wchar_t const*>(a), ch, static_cast<etl::size_t>(na + 1))));
        d.sign(etl::wmemcmp(a, b, static_cast<etl::size_t>((na < nb ? na : nb) + 1)));
        etl::wcscpy(dst, a);
        d.range(dst, dst + na + 1);
        etl::wcscat(dst, b);
        d.range(dst, dst + na + nb + 1);
        etl::wcsncat(dst, a, n);
        d.add(static_cast<i64>(etl::wcslen(dst)));
        d.range(dst, dst + 32);
        etl::wmemset(dst, L'#', 40);
        etl::wcsncpy(dst, a, n);
        d.range(dst, dst + 14);
        // wmemcpy (disjoint), wmemmove (overlapping both ways inside one array)
        etl::wmemcpy(dst + 16, a, static_cast<etl::size_t>(na + 1));
        d.range(dst + 14, dst + 30);
        auto const cnt = static_cast<etl::size_t>(r.below(10));
        int const from = r.below(6);
        int const to   = r.below(6);
        etl::wmemmove(dst + to, dst + from, cnt);
        d.range(dst, dst + 20);
    }
    return d;
}


// ---------------------------------------------------------------------------------------------- cmath (exactly specified part)
template <typename F>
struct FBits;
template <>
struct FBits<float> {
    using type                  = unsigned;
    static constexpr int mant   = 23;
    static constexpr int expw   = 8;
};
template <>
struct FBits<double> {
    using type                  = unsigned long long;
    static constexpr int mant   = 52;
    static constexpr int expw   = 11;
};
// a float/double with an interesting bit pattern
template <typename F>
constexpr auto rand_float(Rng& r, bool allow_nan) -> F
{
    using B            = typename FBits<F>::type;
    constexpr int mw   = FBits<F>::mant;
    constexpr int ew   = FBits<F>::expw;
    constexpr int bias = (1 << (ew - 1)) - 1;
    B const sign       = r.coin() ? (B{1} << (mw + ew)) : B{0};
    auto mk            = [&](int e, B frac) { return static_cast<B>(sign | (static_cast<B>(e + bias) << mw) | (frac & ((B{1} << mw) - 1))); };
    B bits{};
    B const frac0 = static_cast<B>(r.next());
    switch (r.below(allow_nan ? 12 : 11)) {
    case 0: bits = sign; break;                                          // zero
    case 1: bits = static_cast<B>(sign | (((B{1} << ew) - 1) << mw)); break; // infinity
    case 2: bits = static_cast<B>(sign | static_cast<B>(r.below(4) + 1)); break; // tiny subnormal
    case 3: bits = static_cast<B>(sign | ((B{1} << mw) - static_cast<B>(r.below(3)))); break; // around the smallest normal
    case 4: {
        // n + 1/2 and its neighbours for a small n
        int const e  = r.range(-2, 12);
        B const half = e >= 0 && e < mw ? (B{1} << (mw - e - 1)) : B{0};
        B const n    = e > 0 ? (static_cast<B>(r.next()) & ((B{1} << e) - 1)) << (mw - e) : B{0};
        bits         = mk(e, static_cast<B>(n + half + static_cast<B>(r.range(-1, 1))));
        break;
    }
    // (the PRNG is called in separate statements: the order of evaluation of function arguments is unspecified)
    case 5: bits = mk(r.range(mw - 3, mw + 3), frac0); break; // around 2^p
    case 6: bits = mk(r.range(60, 66), frac0); break;         // around 2^63
    case 7: bits = mk(r.range(-3, 8), B{0}); break;           // powers of two
    case 8: bits = mk(r.range(-6, 30), frac0); break;
    case 9: bits = mk(r.range(-bias + 1, bias), frac0); break; // any normal
    case 10: bits = mk(r.range(-1, 3), static_cast<B>((B{1} << mw) - 1 - (frac0 & 1U))); break; // just below 2^k
    default: bits = static_cast<B>(sign | (((B{1} << ew) - 1) << mw) | (B{1} << (mw - 1)) | static_cast<B>(r.below(3))); break; // NaN
    }
    return etl::bit_cast<F>(bits);
}
template <typename F>
constexpr void put_float(Dig& d, F x, bool nan_sign = false)
{
    using B = typename FBits<F>::type;
    if (x != x) {
        d.add(nan_sign ? (etl::bit_cast<B>(x) >> (FBits<F>::mant + FBits<F>::expw) != 0 ? -4243 : -4242) : -4242);
    } else {
        d.add(static_cast<i64>(etl::bit_cast<B>(x)));
    }
}
// long double: printed as the nearest double plus the (exactly representable) remainder; callers keep magnitudes
// inside the range of double
constexpr void put_ld(Dig& d, long double x, bool nan_sign = false)
{
    if (x != x) {
        d.add(nan_sign && etl::signbit(x) ? -4243 : -4242);
        return;
    }
    if (x == etl::numeric_limits<long double>::infinity() || x == -etl::numeric_limits<long double>::infinity()) {
        d.add(x > 0 ? -4244 : -4245);
        return;
    }
    auto const hi = static_cast<double>(x);
    auto const lo = static_cast<double>(x - static_cast<long double>(hi));
    put_float(d, hi);
    put_float(d, lo);
    d.add(etl::signbit(x));
}
constexpr auto rand_ld(Rng& r, bool allow_nan) -> long double
{
    switch (r.below(allow_nan ? 10 : 9)) {
    case 0: return r.coin() ? 0.0L : -0.0L;
    case 1: return r.coin() ? etl::numeric_limits<long double>::infinity() : -etl::numeric_limits<long double>::infinity();
    case 9: return r.coin() ? etl::numeric_limits<long double>::quiet_NaN() : -etl::numeric_limits<long double>::quiet_NaN();
    default: break;
    }
    // a 64-bit significand scaled by a power of two: exact
    auto v      = static_cast<long double>(static_cast<i64>(r.edge64()));
    int const k = r.coin() ? r.range(-66, -58) : r.range(-70, 8);
    for (int i = 0; i < k; ++i) { v *= 2.0L; }
    for (int i = 0; i > k; --i) { v *= 0.5L; }
    if (r.below(4) == 0) {
        // n + 1/2 exactly
        v = static_cast<long double>(static_cast<i64>(r.edge64() >> 2U)) + 0.5L;
        if (r.coin()) { v = -v; }
    }
    return v;
}
template <typename F>
constexpr auto lrint_ok(F x) -> bool
{
    return x > static_cast<F>(-9223372036854775808.0) && x < static_cast<F>(9223372036854775808.0);
}
constexpr auto script_cmath_f32(u64 seed) -> Dig
{
    Dig d{};
    Rng r{seed};
    for (int k = 0; k < 24; ++k) {
        auto const x = rand_float<float>(r, true);
        auto const y = rand_float<float>(r, true);
        put_float(d, etl::floor(x));
        put_float(d, etl::floorf(x));
        put_float(d, etl::ceil(x));
        put_float(d, etl::ceilf(x));
        put_float(d, etl::trunc(x));
        put_float(d, etl::truncf(x));
        put_float(d, etl::round(x));
        put_float(d, etl::roundf(x));
        put_float(d, etl::rint(x));
        put_float(d, etl::rintf(x));
        if (lrint_ok(x)) {
            d.add(etl::lrint(x));
            d.add(etl::lrintf(x));
            d.add(etl::llrint(x));
            d.add(etl::llrintf(x));
        }
        put_float(d, etl::copysign(x, y), true);
        put_float(d, etl::copysignf(x, y), true);
        d.add(etl::signbit(x));
        d.add(etl::isnan(x));
        d.add(etl::isinf(x));
        d.add(etl::isfinite(x));
        put_float(d, etl::fabs(x));
        put_float(d, etl::fabsf(x));
        put_float(d, etl::abs(x));
        put_float(d, etl::fmax(x, y));
        put_float(d, etl::fmaxf(x, y));
        put_float(d, etl::fmin(x, y));
        put_float(d, etl::fminf(x, y));
        put_float(d, etl::fmod(x, y));
        put_float(d, etl::fmodf(x, y));
        put_float(d, etl::remainder(x, y));
        put_float(d, etl::remainderf(x, y));
        if (x == x && y == y) {
            put_float(d, etl::nextafter(x, y));
            put_float(d, etl::nextafterf(x, y));
            if (etl::isfinite(x) && etl::isfinite(y) && etl::fabs(x) < 1e30F && etl::fabs(y) < 1e30F) {
                put_float(d, etl::fdim(x, y));
                put_float(d, etl::fdimf(x, y));
            }
        }
    }
    return d;
}
constexpr auto script_cmath_f64(u64 seed) -> Dig
{
    Dig d{};
    Rng r{seed};
    for (int k = 0; k < 24; ++k) {
        auto const x = rand_float<double>(r, true);
        auto const y = rand_float<double>(r, true);
        put_float(d, etl::floor(x));
        put_float(d, etl::ceil(x));
        put_float(d, etl::trunc(x));
        put_float(d, etl::round(x));
        put_float(d, etl::rint(x));
        if (lrint_ok(x)) {
            d.add(etl::lrint(x));
            d.add(etl::llrint(x));
        }
        put_float(d, etl::copysign(x, y), true);
        d.add(etl::signbit(x));
        d.add(etl::isnan(x));
        d.add(etl::isinf(x));
        d.add(etl::isfinite(x));
        put_float(d, etl::fabs(x));
        put_float(d, etl::abs(x));
        put_float(d, etl::fmax(x, y));
        put_float(d, etl::fmin(x, y));
        put_float(d, etl::fmod(x, y));
        put_float(d, etl::remainder(x, y));
        if (x == x && y == y) {
            put_float(d, etl::nextafter(x, y));
            if (etl::isfinite(x) && etl::isfinite(y) && etl::fabs(x) < 1e300 && etl::fabs(y) < 1e300) { put_float(d, etl::fdim(x, y)); }
        }
        // integral overloads: the argument is converted to double
        auto const n  = static_cast<i64>(r.edge64());
        auto const ni = static_cast<int>(n);
        auto const nu = static_cast<u64>(n);
        put_float(d, etl::floor(n));
        put_float(d, etl::ceil(ni));
        put_float(d, etl::trunc(nu));
        put_float(d, etl::round(n));
        put_float(d, etl::rint(ni));
        put_float(d, etl::rint(n));
        d.add(etl::lrint(ni));
        d.add(etl::llrint(ni));
        if (n > -(1LL << 62) && n < (1LL << 62)) {
            d.add(etl::lrint(n));
            d.add(etl::llrint(n));
        }
        d.add(etl::isnan(ni));
        d.add(etl::isinf(n));
    }
    return d;
}
constexpr auto script_cmath_ld(u64 seed) -> Dig
{
    Dig d{};
    Rng r{seed};
    for (int k = 0; k < 16; ++k) {
        auto const x = rand_ld(r, true);
        auto const y = rand_ld(r, true);
        put_ld(d, etl::floor(x));
        put_ld(d, etl::floorl(x));
        put_ld(d, etl::ceil(x));
        put_ld(d, etl::ceill(x));
        put_ld(d, etl::trunc(x));
        put_ld(d, etl::truncl(x));
        put_ld(d, etl::round(x));
        put_ld(d, etl::roundl(x));
        put_ld(d, etl::rint(x));
        put_ld(d, etl::rintl(x));
        if (x >= -9223372036854775808.0L && x < 9223372036854775807.5L) {
            d.add(etl::lrint(x));
            d.add(etl::lrintl(x));
            d.add(etl::llrint(x));
            d.add(etl::llrintl(x));
        }
        put_ld(d, etl::copysign(x, y), true);
        put_ld(d, etl::copysignl(x, y), true);
        d.add(etl::signbit(x));
        d.add(etl::isnan(x));
        d.add(etl::isinf(x));
        d.add(etl::isfinite(x));
        put_ld(d, etl::fabs(x));
        put_ld(d, etl::fabsl(x));
        put_ld(d, etl::fmax(x, y));
        put_ld(d, etl::fmaxl(x, y));
        put_ld(d, etl::fmin(x, y));
        put_ld(d, etl::fminl(x, y));
        put_ld(d, etl::fmod(x, y));
        put_ld(d, etl::fmodl(x, y));
        put_ld(d, etl::remainder(x, y));
        put_ld(d, etl::remainderl(x, y));
        if (etl::isfinite(x) && etl::isfinite(y)) {
            put_ld(d, etl::fdim(x, y));
            put_ld(d, etl::fdiml(x, y));
            // fma for long double is x * y + z on both sides (no builtin): one code path
            auto const z = rand_ld(r, false);
            if (etl::isfinite(z)) {
                put_ld(d, etl::fma(x, 3.0L, z));
                put_ld(d, etl::fmal(x, 0.5L, z));
            }
        }
    }
    return d;
}

// ---------------------------------------------------------------------------------------------- cstdlib
constexpr auto script_cstdlib(u64 seed) -> Dig
{
    Dig d{};
    Rng r{seed};
    for (int k = 0; k < 12; ++k) {
        char txt[28]{};
        constexpr char const pool[] = "0123456789abcxfzABCXFZ-+ \t._00099";
        int const n                 = r.below(24);
        for (int i = 0; i < n; ++i) { txt[i] = pool[r.below(33)]; }
        if (r.coin()) {
            // a well-formed number with optional blanks, sign and prefix
            int p = 0;
            if (r.coin()) { txt[p++] = ' '; }
            if (r.coin()) { txt[p++] = r.coin() ? '-' : '+'; }
            if (r.below(4) == 0) {
                txt[p++] = '0';
                txt[p++] = 'x';
            }
            int const digits = r.range(1, 20);
            for (int i = 0; i < digits; ++i) { txt[p++] = static_cast<char>('0' + r.below(10)); }
            txt[p] = 0;
        }
        d.add(etl::atoi(txt));
        d.add(etl::atol(txt));
        d.add(etl::atoll(txt));
        int const bases[] = {0, 10, 16, 2, 36, 8, r.range(2, 36)};
        for (int base : bases) {
            char const* end = nullptr;
            d.add(etl::strtol(txt, &end, base));
            d.add(static_cast<i64>(end - txt));
            end = nullptr;
            d.add(etl::strtoll(txt, &end, base));
            d.add(static_cast<i64>(end - txt));
            end = nullptr;
            d.add(etl::strtoul(txt, &end, base));
            d.add(static_cast<i64>(end - txt));
            end = nullptr;
            d.add(etl::strtoull(txt, &end, base));
            d.add(static_cast<i64>(end - txt));
        }
        auto const a = static_cast<i64>(r.edge64());
        auto const braw = r.edge64();
        auto b          = static_cast<i64>(braw >> static_cast<unsigned>(r.below(60)));
        if (b == 0) { b = 3; }
        if (!(a == (-9223372036854775807LL - 1) && b == -1)) {
            auto const q = etl::div(a, b);
            d.add(q.quot);
            d.add(q.rem);
            auto const q2 = etl::lldiv(a, b);
            d.add(q2.quot);
            auto const q3 = etl::ldiv(static_cast<long>(a), static_cast<long>(b));
            d.add(q3.rem);
        }
        auto const ai = static_cast<int>(a);
        auto const bi = static_cast<int>(b) == 0 ? 7 : static_cast<int>(b);
        if (!(ai == (-2147483647 - 1) && bi == -1)) {
            auto const q = etl::div(ai, bi);
            d.add(q.quot);
            d.add(q.rem);
        }
        if (a != (-9223372036854775807LL - 1)) {
            d.add(etl::llabs(a));
            d.add(etl::labs(static_cast<long>(a)));
            d.add(etl::abs(a));
        }
    }
    return d;
}

// ---------------------------------------------------------------------------------------------- array / tuple / pair / stack / utility
constexpr auto script_wrappers(u64 seed) -> Dig
{
    Dig d{};
    Rng r{seed};
    for (int k = 0; k < 6; ++k) {
        etl::array<int, 6> a{};
        for (auto& e : a) { e = r.range(-9, 9); }
        auto b = a;
        b.fill(r.range(0, 3));
        d.all(a);
        d.add(a == b);
        d.add(a != b);
        d.add(a < b);
        d.add(a <= b);
        d.add(a > b);
        d.add(a >= b);
        a.swap(b);
        d.all(a);
        d.all(b);
        d.add(a.front());
        d.add(b.back());
        d.add(etl::get<2>(b));
        d.add(a[static_cast<etl::size_t>(r.below(6))]);
        d.range(b.rbegin(), b.rend());
        auto const arr2 = etl::to_array({1, 2, r.range(0, 5)});
        d.all(arr2);

        etl::pair<int, long> p{r.range(0, 3), 5L};
        etl::pair<int, long> q{r.range(0, 3), static_cast<long>(r.range(4, 6))};
        d.add(p == q);
        d.add(p != q);
        d.add(p < q);
        d.add(p <= q);
        d.add(p > q);
        d.add(p >= q);
        etl::swap(p, q);
        d.add(p.first);
        d.add(q.second);
        auto const mp = etl::make_pair(p.first + 1, q.second - 1);
        d.add(mp.first);
        d.add(static_cast<i64>(mp.second));

        etl::tuple<int, char, long> t{r.range(0, 9), 'a', 7L};
        etl::tuple<int, char, long> u{r.range(0, 9), 'a', 7L};
        d.add(etl::get<0>(t));
        d.add(etl::get<1>(t));
        d.add(static_cast<i64>(etl::get<2>(t)));
        d.add(t == u);
        d.add(t != u);
        etl::get<0>(t) = 42;
        u              = t;
        d.add(etl::get<0>(u));
        auto const made = etl::make_tuple(1, 2L, 'c');
        d.add(static_cast<i64>(etl::get<1>(made)));
        int x1  = r.range(0, 9);
        long x2 = 9L;
        auto const tied = etl::tie(x1, x2);
        etl::get<0>(tied) += 1;
        d.add(x1);
        d.add(static_cast<i64>(etl::get<1>(tied)));
        d.add(etl::apply([](int i, char c, long l) { return static_cast<i64>(i) + c + l; }, t));

        etl::stack<int, etl::static_vector<int, 8>> st{};
        for (int i = 0; i < 12; ++i) {
            if (r.coin() && st.size() < 8) {
                st.push(r.range(0, 99));
            } else if (!st.empty()) {
                d.add(st.top());
                st.pop();
            }
            d.add(static_cast<i64>(st.size()));
            d.add(st.empty());
        }
        auto st2 = st;
        d.add(st2 == st);
        if (st2.size() < 8) { st2.emplace(5); }
        d.add(st2 != st);
        d.add(st < st2);

        int e1 = r.range(0, 9);
        d.add(etl::exchange(e1, 11));
        d.add(e1);
        d.add(etl::to_underlying(static_cast<etl::byte>(r.below(256))));
        d.add(etl::plus<>{}(e1, 2));
        d.add(etl::minus<int>{}(e1, 2));
        d.add(etl::multiplies<>{}(e1, 3));
        d.add(etl::less<>{}(e1, 3));
        d.add(etl::greater_equal<int>{}(e1, 11));
        d.add(etl::bit_xor<>{}(e1, 5));
        d.add(etl::logical_not<>{}(e1 == 11));
        d.add(etl::invoke([](int v) { return v * 2; }, e1));
        // the dispatch primitive itself: the same answer as the compiler's builtin, in both modes
        d.add(etl::is_constant_evaluated() == __builtin_is_constant_evaluated());
        // assume_aligned: __builtin_assume_aligned at run time, the pointer itself in constant evaluation
        d.add(*etl::assume_aligned<alignof(int)>(a.data() + r.below(6)));
        d.add(etl::assume_aligned<alignof(int)>(a.data()) == a.data());
    }
    return d;
}

// containers of a class type with a user-provided constructor / destructor / assignment (not trivially anything)
struct Obj {
    int v;
    constexpr Obj() noexcept : v{-1} { }
    constexpr Obj(int x) noexcept : v{x} { } // NOLINT
    constexpr Obj(Obj const& o) noexcept : v{o.v} { }
    constexpr Obj(Obj&& o) noexcept : v{o.v} { o.v = -2; }
    constexpr auto operator=(Obj const& o) noexcept -> Obj&
    {
        v = o.v;
        return *this;
    }
    constexpr auto operator=(Obj&& o) noexcept -> Obj&
    {
        v   = o.v;
        o.v = -3;
        return *this;
    }
    constexpr ~Obj() { v = -9; }
    friend constexpr auto operator==(Obj const& l, Obj const& r) -> bool { return l.v == r.v; }
    friend constexpr auto operator<(Obj const& l, Obj const& r) -> bool { return l.v < r.v; }
};
#if !defined(__clang__)
constexpr auto script_nontrivial(u64 seed) -> Dig
{
    // (static_vector / inplace_vector of such a type are not usable in constant expressions: reinterpret_cast storage,
    // documented; the wrappers are)
    Dig d{};
    Rng r{seed};
    etl::optional<Obj> o{};
    etl::optional<Obj> o2{};
    etl::expected<Obj, int> e{etl::unexpect, 3};
    etl::variant<int, Obj> va{1};
    // (explicit elements: g++ 12 -O0 leaves the last element of `array<Obj, 3> arr{}` zero-initialised at run time when
    // Obj has a constexpr destructor -- std::array shows the same, a compiler defect, not the library's)
    etl::array<Obj, 3> arr{Obj{}, Obj{}, Obj{}};
    etl::pair<Obj, int> pr{Obj{4}, 5};
    auto dump = [&] {
        d.add(o.has_value() ? o->v : -100);
        d.add(o2.has_value() ? o2->v : -100);
        d.add(e.has_value() ? e->v : -200 - e.error());
        d.add(static_cast<i64>(va.index()));
        d.add(etl::get_if<Obj>(&va) != nullptr ? etl::get_if<Obj>(&va)->v : -300);
        for (auto const& x : arr) { d.add(x.v); }
        d.add(pr.first.v);
    };
    for (int k = 0; k < 24; ++k) {
        int const x = r.range(0, 50);
        switch (r.below(14)) {
        case 0: o.emplace(x); break;
        case 1: o.reset(); break;
        case 2: o = Obj{x}; break;
        case 3: o2 = o; break;
        case 4: o = etl::move(o2); break;
        case 5: o.swap(o2); break;
        case 6: e.emplace(x); break;
        case 7: e = etl::expected<Obj, int>{etl::unexpect, x}; break;
        case 8: {
            auto c = e;
            e      = etl::move(c);
            break;
        }
        case 9: va = Obj{x}; break;
        case 10: va = x; break;
        case 11: {
            auto c = va;
            va     = etl::move(c);
            break;
        }
        case 12: arr[static_cast<etl::size_t>(r.below(3))] = Obj{x}; break;
        default: {
            etl::pair<Obj, int> q{Obj{x}, 1};
            etl::swap(pr, q);
            break;
        }
        }
        dump();
    }
    etl::sort(arr.begin(), arr.end());
    dump();
    return d;
}
#endif

// ============================================================================================== registry
struct Script {
    char const* name;
    Table const* ct;
    Dig (*rt)(u64);
};

#define C13_SCRIPT(ident, ...)                                                                                         \
    constexpr auto CT_##ident = ct_table([](u64 s) { return __VA_ARGS__(s); });                                       \
    auto rt_##ident(u64 s) -> Dig { return __VA_ARGS__(s); }

C13_SCRIPT(sv_int12, script_static_vector<int, 12>)
C13_SCRIPT(sv_char5, script_static_vector<signed char, 5>)
C13_SCRIPT(sv_ll1, script_static_vector<long long, 1>)
C13_SCRIPT(iv_int10, script_inplace_vector<int, 10>)
C13_SCRIPT(iv_short3, script_inplace_vector<short, 3>)
C13_SCRIPT(static_set, script_static_set)
C13_SCRIPT(static_set_gt, script_static_set_gt)
C13_SCRIPT(flat_set, script_flat_set)
C13_SCRIPT(flat_set_gt, script_flat_set_gt)
C13_SCRIPT(istr23, script_inplace_string<23>)
C13_SCRIPT(istr7, script_inplace_string<7>)
C13_SCRIPT(string_view, script_string_view)
C13_SCRIPT(sorts, script_sorts)
C13_SCRIPT(mutating, script_mutating)
C13_SCRIPT(searching, script_searching)
C13_SCRIPT(iter_forward, script_iter_forward)
C13_SCRIPT(iter_bidi, script_iter_bidi)
C13_SCRIPT(numeric, script_numeric)
C13_SCRIPT(bit, script_bit)
#if !defined(__clang__)
C13_SCRIPT(bitset70, script_bitset<70>)
C13_SCRIPT(bitset8, script_bitset<8>)
C13_SCRIPT(bitset32, script_bitset<32>)
#endif
C13_SCRIPT(optional, script_optional)
C13_SCRIPT(variant, script_variant)
C13_SCRIPT(expected, script_expected)
C13_SCRIPT(span, script_span)
C13_SCRIPT(mdspan, script_mdspan)
C13_SCRIPT(charconv, script_charconv)
C13_SCRIPT(chrono_duration, script_chrono_duration)
C13_SCRIPT(chrono_calendar, script_chrono_calendar)
C13_SCRIPT(ctype, script_ctype)
C13_SCRIPT(cstring, script_cstring)
C13_SCRIPT(cwchar, script_cwchar)
C13_SCRIPT(cmath_f32, script_cmath_f32)
C13_SCRIPT(cmath_f64, script_cmath_f64)
C13_SCRIPT(cmath_ld, script_cmath_ld)
C13_SCRIPT(cstdlib, script_cstdlib)
C13_SCRIPT(wrappers, script_wrappers)
#if !defined(__clang__) // clang 14 has no conditionally trivial destructors (P0848): optional<Obj> is not destructible there
C13_SCRIPT(nontrivial, script_nontrivial)
#endif

#define C13_ENTRY(ident) Script{#ident, &CT_##ident, &rt_##ident}
Script const SCRIPTS[] = {
    C13_ENTRY(sv_int12),
    C13_ENTRY(sv_char5),
    C13_ENTRY(sv_ll1),
    C13_ENTRY(iv_int10),
    C13_ENTRY(iv_short3),
    C13_ENTRY(static_set),
    C13_ENTRY(static_set_gt),
    C13_ENTRY(flat_set),
    C13_ENTRY(flat_set_gt),
    C13_ENTRY(istr23),
    C13_ENTRY(istr7),
    C13_ENTRY(string_view),
    C13_ENTRY(sorts),
    C13_ENTRY(mutating),
    C13_ENTRY(searching),
    C13_ENTRY(iter_forward),
    C13_ENTRY(iter_bidi),
    C13_ENTRY(numeric),
    C13_ENTRY(bit),
#if !defined(__clang__)
    C13_ENTRY(bitset70),
    C13_ENTRY(bitset8),
    C13_ENTRY(bitset32),
#endif
    C13_ENTRY(optional),
    C13_ENTRY(variant),
    C13_ENTRY(expected),
    C13_ENTRY(span),
    C13_ENTRY(mdspan),
    C13_ENTRY(charconv),
    C13_ENTRY(chrono_duration),
    C13_ENTRY(chrono_calendar),
    C13_ENTRY(ctype),
    C13_ENTRY(cstring),
    C13_ENTRY(cwchar),
    C13_ENTRY(cmath_f32),
    C13_ENTRY(cmath_f64),
    C13_ENTRY(cmath_ld),
    C13_ENTRY(cstdlib),
    C13_ENTRY(wrappers),
#if !defined(__clang__)
    C13_ENTRY(nontrivial),
#endif
};

void put(Dig const& d)
{
    std::printf("%d %llu", d.n, static_cast<unsigned long long>(d.h));
    for (int i = 0; i < Dig::KEEP && i < d.n; ++i) { std::printf(" %lld", d.first[i]); }
}

} // namespace

int main()
{
    for (auto const& s : SCRIPTS) {
        for (int i = 0; i < NSEED; ++i) {
            auto const seed = seed_of(i);
            auto const rt   = s.rt(launder(seed));
            std::printf("%s %llu | ", s.name, static_cast<unsigned long long>(seed));
            put(s.ct->v[i]);
            std::printf(" | ");
            put(rt);
            std::printf("\n");
        }
    }
    return 0;
}
