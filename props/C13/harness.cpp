// C13 harness: compile-time evaluation (impl leg) vs run-time execution (reference leg) of the
// same etl call on the same argument.
//
// Every function is evaluated over the fixed tables of table.inc inside `constexpr` variables
// (manifestly constant-evaluated: etl::is_constant_evaluated() is true there and the portable
// fallbacks run inside the compiler), and the results are printed at run time next to the value
// the same call produces at run time from a volatile-laundered argument (the optimiser cannot
// fold it; built at -O0 and -O2 and with clang).  A case line is `<op> <table indices> <values>`;
// the values are cross-checked against the table (`table-mismatch` if the generator and the
// checked-in header disagree).
// etl first: once libstdc++ has declared its own `struct __is_scalar`, clang stops treating
// __is_scalar (used by etl::is_scalar) as a builtin
#include <etl/algorithm.hpp>
#include <etl/bit.hpp>
#include <etl/cctype.hpp>
#include <etl/charconv.hpp>
#include <etl/chrono.hpp>
#include <etl/cmath.hpp>
#include <etl/cstring.hpp>
#include <etl/cwchar.hpp>
#include <etl/numeric.hpp>
#include <etl/string.hpp>
#include <etl/string_view.hpp>
#include <etl/type_traits.hpp>
#include <etl/vector.hpp>

#include "common.hpp"

#include <cmath>
#include <cstdint>
#include <limits>

#include "table.inc"

using namespace vh;
using std::size_t;

namespace {

template <typename T, size_t N>
constexpr size_t len(T const (&)[N])
{
    return N;
}

// ------------------------------------------------------------------ observed constant-evaluability
// "Is this call a constant expression, and if so what is its value" is an OBSERVED outcome of every case, not a
// requirement of the build.  Every table of compile-time results is built by ce_table from a captureless lambda
// `size_t flat case index -> R` that makes the etl call of ONE case.  A range of cases is first evaluated inside a
// requires-expression (a template argument that is not a constant expression is a substitution failure, not an
// error); a range that fails is bisected BY THE COMPILER down to the offending cases, whose `ce` flag stays false
// while every other case keeps its compile-time value.  Reading an entry whose flag is false sets g_ce_fail and
// vh::run_case then answers `ce-fail` for that case.  Cost when everything is constant: each case is evaluated
// twice (once in the probe, once for the value).
inline bool g_ce_fail = false;

template <typename R, size_t N>
struct CeVec {
    R d[N]{};
    bool ce[N]{};
    constexpr R const& operator[](size_t i) const
    {
        if (!__builtin_is_constant_evaluated() && !ce[i]) { g_ce_fail = true; }
        return d[i];
    }
};
template <typename R, size_t N>
struct Arr {
    static constexpr size_t size = N;
    CeVec<R, N> v{};
    constexpr void set(size_t x, R const& val)
    {
        v.d[x]  = val;
        v.ce[x] = true;
    }
    constexpr R const& operator[](size_t i) const { return v[i]; }
};
template <typename R, size_t N, size_t M>
struct Arr2 {
    static constexpr size_t size = N * M;
    CeVec<R, M> v[N]{};
    constexpr void set(size_t x, R const& val)
    {
        v[x / M].d[x % M]  = val;
        v[x / M].ce[x % M] = true;
    }
    constexpr CeVec<R, M> const& operator[](size_t i) const { return v[i]; }
};
template <typename R, size_t N, size_t M, size_t K>
struct Arr3 {
    static constexpr size_t size = N * M * K;
    CeVec<R, K> v[N][M]{};
    constexpr void set(size_t x, R const& val)
    {
        v[x / (M * K)][(x / K) % M].d[x % K]  = val;
        v[x / (M * K)][(x / K) % M].ce[x % K] = true;
    }
};

template <typename F, size_t Lo, size_t Hi>
constexpr int ce_run()
{
    for (size_t i = Lo; i < Hi; ++i) { static_cast<void>(F{}(i)); }
    return 0;
}
template <int>
struct ce_tag {};
template <typename F, size_t Lo, size_t Hi>
concept ce_range = requires { typename ce_tag<ce_run<F, Lo, Hi>()>; };
template <typename F, size_t Lo, size_t Hi, typename T>
constexpr void ce_fill(T& t)
{
    if constexpr (Lo >= Hi) {
    } else if constexpr (ce_range<F, Lo, Hi>) {
        for (size_t i = Lo; i < Hi; ++i) { t.set(i, F{}(i)); }
    } else if constexpr (Hi - Lo == 1) {
        // case Lo is not a constant expression: its flag stays false
    } else {
        ce_fill<F, Lo, Lo + (Hi - Lo) / 2>(t);
        ce_fill<F, Lo + (Hi - Lo) / 2, Hi>(t);
    }
}
template <typename T, typename F>
constexpr auto ce_table(F)
{
    T t{};
    ce_fill<F, 0, T::size>(t);
    return t;
}

// run-time laundering: the value goes through a volatile object
template <typename T>
[[gnu::noinline]] T launder(T x)
{
    T volatile v = x;
    return v;
}

template <typename R, auto const& Tab, typename F>
constexpr auto ct_map(F)
{
    return ce_table<Arr<R, len(Tab)>>([](size_t i) { return static_cast<R>(F{}(Tab[i])); });
}

// ------------------------------------------------------------------ integers
constexpr auto CT_POP8   = ct_map<int, T_U8>([](unsigned char x) { return etl::popcount(x); });
constexpr auto CT_POP16  = ct_map<int, T_U16>([](unsigned short x) { return etl::popcount(x); });
constexpr auto CT_POP32  = ct_map<int, T_U32>([](unsigned x) { return etl::popcount(x); });
constexpr auto CT_POP64  = ct_map<int, T_U64>([](unsigned long long x) { return etl::popcount(x); });
constexpr auto CT_POP64L = ct_map<int, T_U64>([](unsigned long long x) { return etl::popcount(static_cast<unsigned long>(x)); });

constexpr auto CT_BS16 = ct_map<std::uint16_t, T_U16>([](std::uint16_t x) { return etl::byteswap(x); });
constexpr auto CT_BS32 = ct_map<std::uint32_t, T_U32>([](std::uint32_t x) { return etl::byteswap(x); });
constexpr auto CT_BS64 = ct_map<std::uint64_t, T_U64>([](std::uint64_t x) { return etl::byteswap(static_cast<std::uint64_t>(x)); });
constexpr auto CT_BS8  = ct_map<std::uint8_t, T_U8>([](std::uint8_t x) { return etl::byteswap(x); });
constexpr auto CT_BSF16 = ct_map<std::uint16_t, T_U16>([](std::uint16_t x) { return etl::detail::byteswap_fallback(x); });
constexpr auto CT_BSF32 = ct_map<std::uint32_t, T_U32>([](std::uint32_t x) { return etl::detail::byteswap_fallback(x); });
constexpr auto CT_BSF64
    = ct_map<std::uint64_t, T_U64>([](unsigned long long x) { return etl::detail::byteswap_fallback(static_cast<std::uint64_t>(x)); });

// every 16-bit value (index = value): popcount, byteswap through the builtin and through the fallback
struct All16 {
    Arr<unsigned char, 65536> pop{};
    Arr<std::uint16_t, 65536> bs{}, bsf{};
};
// clang 14's constant evaluator needs ~40 s for this table (g++: 2 s): with clang the op answers `skip`
#if defined(__clang__)
constexpr bool HAVE_ALL16 = false;
#else
constexpr bool HAVE_ALL16 = true;
#endif
constexpr auto compute_all16()
{
    All16 r{};
    if constexpr (HAVE_ALL16) {
        r.pop = ce_table<Arr<unsigned char, 65536>>(
            [](size_t v) { return static_cast<unsigned char>(etl::popcount(static_cast<std::uint16_t>(v))); });
        r.bs  = ce_table<Arr<std::uint16_t, 65536>>([](size_t v) { return etl::byteswap(static_cast<std::uint16_t>(v)); });
        r.bsf = ce_table<Arr<std::uint16_t, 65536>>(
            [](size_t v) { return etl::detail::byteswap_fallback(static_cast<std::uint16_t>(v)); });
    }
    return r;
}
constexpr auto CT_ALL16 = compute_all16();

template <typename Int, bool Fallback, auto const& Tab>
constexpr auto ct_sat()
{
    constexpr size_t N = len(Tab);
    return ce_table<Arr2<Int, N, N>>([](size_t c) {
        constexpr size_t M = len(Tab);
        auto const x       = static_cast<Int>(Tab[c / M]);
        auto const y       = static_cast<Int>(Tab[c % M]);
        if constexpr (Fallback) {
            return etl::detail::add_sat_fallback(x, y);
        } else {
            return etl::add_sat(x, y);
        }
    });
}
constexpr auto CT_SAT_I8   = ct_sat<signed char, false, T_U8>(); // index = value as unsigned char
constexpr auto CT_SAT_U8   = ct_sat<unsigned char, false, T_U8>();
constexpr auto CT_SATF_I8  = ct_sat<signed char, true, T_U8>();
constexpr auto CT_SATF_U8  = ct_sat<unsigned char, true, T_U8>();
constexpr auto CT_SAT_I16  = ct_sat<short, false, T_SAT_I16>();
constexpr auto CT_SAT_U16  = ct_sat<unsigned short, false, T_SAT_U16>();
constexpr auto CT_SATF_I16 = ct_sat<short, true, T_SAT_I16>();
constexpr auto CT_SATF_U16 = ct_sat<unsigned short, true, T_SAT_U16>();
constexpr auto CT_SAT_I32  = ct_sat<int, false, T_SAT_I32>();
constexpr auto CT_SAT_U32  = ct_sat<unsigned, false, T_SAT_U32>();
constexpr auto CT_SATF_I32 = ct_sat<int, true, T_SAT_I32>();
constexpr auto CT_SATF_U32 = ct_sat<unsigned, true, T_SAT_U32>();
constexpr auto CT_SAT_I64  = ct_sat<long long, false, T_SAT_I64>();
constexpr auto CT_SAT_U64  = ct_sat<unsigned long long, false, T_SAT_U64>();
constexpr auto CT_SATF_I64 = ct_sat<long long, true, T_SAT_I64>();
constexpr auto CT_SATF_U64 = ct_sat<unsigned long long, true, T_SAT_U64>();

// ------------------------------------------------------------------ strings
constexpr size_t NSTR           = len(T_STR);
constexpr size_t STR_COUNTS[]   = {0, 1, 2, 3, 4, 8, 11, 12, static_cast<size_t>(-1)};
constexpr int STR_CHARS[]       = {0, 97, 98, 128, 255, 353, -1, 122, 1, 127, -128, 256};
constexpr size_t MEM_COUNTS[]   = {0, 1, 2, 3, 6, 11, 12};
constexpr size_t NCNT           = len(STR_COUNTS);
constexpr size_t NCHR           = len(STR_CHARS);
constexpr size_t NMEM           = len(MEM_COUNTS);

constexpr int sgn(int x) { return x < 0 ? -1 : (x > 0 ? 1 : 0); }

// every string case is a ce_table entry: a call that is not a constant expression prints `ce-fail` for that case
constexpr auto CT_STRLEN = ce_table<Arr<size_t, NSTR>>([](size_t i) { return etl::strlen(T_STR[i]); });
constexpr auto CT_STRCMP = ce_table<Arr<int, NSTR * NSTR>>([](size_t x) { return sgn(etl::strcmp(T_STR[x / NSTR], T_STR[x % NSTR])); });
constexpr auto CT_STRNCMP = ce_table<Arr<int, NSTR * NSTR * NCNT>>([](size_t x) {
    auto const k = x % NCNT;
    auto const j = (x / NCNT) % NSTR;
    auto const i = x / NCNT / NSTR;
    return sgn(etl::strncmp(T_STR[i], T_STR[j], STR_COUNTS[k]));
});
constexpr auto CT_STRCHR = ce_table<Arr<int, NSTR * NCHR>>([](size_t x) {
    auto const i  = x / NCHR;
    char const* p = etl::strchr(T_STR[i], STR_CHARS[x % NCHR]);
    return p == nullptr ? -1 : static_cast<int>(p - T_STR[i]);
});
// etl::memchr itself is not constexpr; its GCC path is detail::memchr<unsigned char const, size_t>.  The searched
// range is [buf + off, buf + off + n) of a local array of exactly STRW bytes: with off + n == STRW it ends flush with
// the END OF THE ARRAY OBJECT (a read of ptr[n] is then not a constant expression), off == STRW is the empty range at
// the end.
constexpr int memchr_ct(size_t i, size_t k, size_t off, size_t n)
{
    unsigned char buf[STRW]{};
    for (int b = 0; b < STRW; ++b) { buf[b] = static_cast<unsigned char>(T_STR[i][b]); }
    unsigned char const* const base = buf + off;
    auto const* p = etl::detail::memchr<unsigned char const, etl::size_t>(base, static_cast<unsigned char>(STR_CHARS[k]), n);
    return p == nullptr ? -1 : static_cast<int>(p - base);
}
constexpr auto CT_MEMCHR = ce_table<Arr<int, NSTR * NCHR * NMEM>>([](size_t x) {
    return memchr_ct(x / NMEM / NCHR, (x / NMEM) % NCHR, 0, MEM_COUNTS[x % NMEM]);
});
// op memchr_at: every offset 0..STRW with the counts that reach the end of the array (flush), stop one short of it,
// 0, 1 and half of the rest
constexpr size_t NOFF = STRW + 1;
constexpr bool at_pair(size_t off, size_t n)
{
    auto const rest = static_cast<size_t>(STRW) - off;
    return off <= static_cast<size_t>(STRW) && n <= rest && (n == rest || n + 1 == rest || n == 0 || n == 1 || n == rest / 2);
}
constexpr auto CT_MEMCHR_AT = ce_table<Arr<int, NSTR * NCHR * NOFF * NOFF>>([](size_t x) {
    auto const n   = x % NOFF;
    auto const off = (x / NOFF) % NOFF;
    auto const k   = (x / NOFF / NOFF) % NCHR;
    auto const i   = x / NOFF / NOFF / NCHR;
    return at_pair(off, n) ? memchr_ct(i, k, off, n) : -2;
});

// op strncmp_pre: etl::strncmp on the UNTERMINATED prefixes row_i[0, L) and row_j[0, L) held in array objects of
// exactly L characters (constant evaluation: `new char[L]`, whose extent the evaluator knows; run time: heap blocks
// of L bytes).  In the domain when the comparison ends inside both arrays or the count does not exceed L (C17
// 7.24.4.4: "not more than n characters"); with count == L and equal prefixes the last character compared is the last
// element of both arrays.
constexpr size_t PRE_LEN[] = {0, 1, 2, 3, 5, 11, 12};
constexpr size_t NPRE      = len(PRE_LEN);
constexpr size_t NPREJ     = 3; // partner rows: i itself, the next row, a scattered one
constexpr size_t NPREC     = 4; // counts: 0, 1, L - 1, L
constexpr size_t pre_partner(size_t i, size_t sel) { return sel == 0 ? i : (sel == 1 ? (i + 1) % NSTR : (i * 7 + 3) % NSTR); }
constexpr size_t pre_count(size_t L, size_t c) { return c == 0 ? 0 : (c == 1 ? 1 : (c == 2 ? (L == 0 ? 0 : L - 1) : L)); }
template <typename Call>
constexpr int strncmp_pre_run(size_t i, size_t j, size_t L, size_t cnt, Call call)
{
    char* a = new char[L];
    char* b = new char[L];
    for (size_t k = 0; k < L; ++k) {
        a[k] = T_STR[i][k];
        b[k] = T_STR[j][k];
    }
    int const r = call(a, b, cnt);
    delete[] a;
    delete[] b;
    return r;
}
constexpr auto CT_STRNCMP_PRE = ce_table<Arr<int, NSTR * NPREJ * NPRE * NPREC>>([](size_t x) {
    auto const c   = x % NPREC;
    auto const l   = (x / NPREC) % NPRE;
    auto const sel = (x / NPREC / NPRE) % NPREJ;
    auto const i   = x / NPREC / NPRE / NPREJ;
    return strncmp_pre_run(i, pre_partner(i, sel), PRE_LEN[l], pre_count(PRE_LEN[l], c),
        [](char const* a, char const* b, size_t n) { return sgn(etl::strncmp(a, b, n)); });
});

// ------------------------------------------------------------------ floating point
template <typename F>
struct fbits;
template <>
struct fbits<float> {
    using type = unsigned int;
};
template <>
struct fbits<double> {
    using type = unsigned long long;
};
template <typename F>
using fbits_t = typename fbits<F>::type;

template <typename F>
constexpr auto to_f(fbits_t<F> b) -> F
{
    return __builtin_bit_cast(F, b);
}
template <typename F>
constexpr auto to_b(F x) -> fbits_t<F>
{
    return __builtin_bit_cast(fbits_t<F>, x);
}

template <typename F>
constexpr bool lrint_dom(F x)
{
    // -2^63 itself converts (it is a value of every floating-point type), 2^63 does not
    return x >= static_cast<F>(-9223372036854775808.0) && x < static_cast<F>(9223372036854775808.0);
}

template <typename F, size_t N>
struct FloatCT {
    Arr<fbits_t<F>, N> floor_{}, ceil_{}, trunc_{}, round_{}, rint_{};
    Arr<long, N> lrint_{};
    Arr<long long, N> llrint_{};
    Arr<bool, N> signbit_{}, isnan_{}, isinf_{};
};

// one ce_table per function: every (function, value) pair is its own case
template <typename F, auto const& Tab>
constexpr auto compute_float()
{
    constexpr size_t N = len(Tab);
    using B            = fbits_t<F>;
    FloatCT<F, N> r{};
    r.floor_   = ce_table<Arr<B, N>>([](size_t i) { return to_b(etl::floor(to_f<F>(Tab[i]))); });
    r.ceil_    = ce_table<Arr<B, N>>([](size_t i) { return to_b(etl::ceil(to_f<F>(Tab[i]))); });
    r.trunc_   = ce_table<Arr<B, N>>([](size_t i) { return to_b(etl::trunc(to_f<F>(Tab[i]))); });
    r.round_   = ce_table<Arr<B, N>>([](size_t i) { return to_b(etl::round(to_f<F>(Tab[i]))); });
    r.rint_    = ce_table<Arr<B, N>>([](size_t i) { return to_b(etl::rint(to_f<F>(Tab[i]))); });
    r.lrint_   = ce_table<Arr<long, N>>([](size_t i) { return lrint_dom(to_f<F>(Tab[i])) ? etl::lrint(to_f<F>(Tab[i])) : 0L; });
    r.llrint_  = ce_table<Arr<long long, N>>([](size_t i) { return lrint_dom(to_f<F>(Tab[i])) ? etl::llrint(to_f<F>(Tab[i])) : 0LL; });
    r.signbit_ = ce_table<Arr<bool, N>>([](size_t i) { return etl::signbit(to_f<F>(Tab[i])); });
    r.isnan_   = ce_table<Arr<bool, N>>([](size_t i) { return etl::isnan(to_f<F>(Tab[i])); });
    r.isinf_   = ce_table<Arr<bool, N>>([](size_t i) { return etl::isinf(to_f<F>(Tab[i])); });
    return r;
}
constexpr auto CT_F32 = compute_float<float, T_F32>();
constexpr auto CT_F64 = compute_float<double, T_F64>();

template <typename F, auto const& Tab>
constexpr auto compute_copysign()
{
    constexpr size_t N = len(Tab);
    return ce_table<Arr2<fbits_t<F>, N, N>>([](size_t c) {
        constexpr size_t M = len(Tab);
        return to_b(etl::copysign(to_f<F>(Tab[c / M]), to_f<F>(Tab[c % M])));
    });
}
constexpr auto CT_CS32 = compute_copysign<float, T_SF32>();
constexpr auto CT_CS64 = compute_copysign<double, T_SF64>();

template <typename F, auto const& Tab>
constexpr auto compute_fma()
{
    constexpr size_t N = len(Tab);
    return ce_table<Arr3<fbits_t<F>, N, N, N>>([](size_t c) {
        constexpr size_t M = len(Tab);
        return to_b(etl::fma(to_f<F>(Tab[c / (M * M)]), to_f<F>(Tab[(c / M) % M]), to_f<F>(Tab[c % M])));
    });
}
constexpr auto CT_FMA32 = compute_fma<float, T_FMA32>();
constexpr auto CT_FMA64 = compute_fma<double, T_FMA64>();

// fmod / remainder over all pairs
template <typename F, size_t N>
struct FmodCT {
    Arr2<fbits_t<F>, N, N> fmod_{}, rem_{};
    bool skip_[N][N]{};
};
// finite operands more than 300 binades apart (thousands of loop iterations each): evaluated by g++ only, clang 14's
// constant evaluator needs ~40 s for them; with clang these pairs answer `skip`
template <typename F>
constexpr bool fmod_far(fbits_t<F> a, fbits_t<F> b)
{
#if defined(__clang__)
    constexpr int mw   = sizeof(F) == 4 ? 23 : 52;
    constexpr int ew   = sizeof(F) == 4 ? 8 : 11;
    auto const expo    = [](fbits_t<F> v) { return static_cast<int>((v >> mw) & ((fbits_t<F>(1) << ew) - 1)); };
    int const top      = (1 << ew) - 1;
    bool const b_zero  = (b & ((fbits_t<F>(1) << (mw + ew)) - 1)) == 0;
    return expo(a) != top && expo(b) != top && !b_zero && expo(a) - expo(b) > 300;
#else
    (void)a;
    (void)b;
    return false;
#endif
}
template <typename F, auto const& Tab>
constexpr auto compute_fmod()
{
    constexpr size_t N = len(Tab);
    FmodCT<F, N> r{};
    for (size_t i = 0; i < N; ++i) {
        for (size_t j = 0; j < N; ++j) { r.skip_[i][j] = fmod_far<F>(Tab[i], Tab[j]); }
    }
    r.fmod_ = ce_table<Arr2<fbits_t<F>, N, N>>([](size_t c) {
        constexpr size_t M = len(Tab);
        if (fmod_far<F>(Tab[c / M], Tab[c % M])) { return fbits_t<F>{0}; }
        return to_b(etl::fmod(to_f<F>(Tab[c / M]), to_f<F>(Tab[c % M])));
    });
    r.rem_ = ce_table<Arr2<fbits_t<F>, N, N>>([](size_t c) {
        constexpr size_t M = len(Tab);
        if (fmod_far<F>(Tab[c / M], Tab[c % M])) { return fbits_t<F>{0}; }
        return to_b(etl::remainder(to_f<F>(Tab[c / M]), to_f<F>(Tab[c % M])));
    });
    return r;
}
constexpr auto CT_FMOD32 = compute_fmod<float, T_FMOD32>();
constexpr auto CT_FMOD64 = compute_fmod<double, T_FMOD64>();

// long double (x87 extended): values are built exactly from (sign, 64-bit significand, exponent)
constexpr long double make_ld(ld_rep r)
{
    long double v = 0.0L;
    if (r.cls == 2) {
        v = std::numeric_limits<long double>::infinity();
    } else if (r.cls == 3) {
        v = std::numeric_limits<long double>::quiet_NaN();
    } else if (r.cls == 1) {
        v     = static_cast<long double>(r.m); // exact: 64-bit significand
        int e = r.e;
        for (; e > 0; --e) { v *= 2.0L; }
        for (; e < 0; ++e) { v *= 0.5L; } // exact as long as the result is representable
    }
    return r.sign != 0 ? -v : v;
}
constexpr size_t NLD = len(T_LD);
struct LdCT {
    Arr<long double, NLD> floor_{}, ceil_{}, trunc_{}, round_{}, rint_{};
    Arr<long, NLD> lrint_{};
    Arr<long long, NLD> llrint_{};
    Arr<bool, NLD> signbit_{}, isnan_{}, isinf_{};
    bool dom_[NLD]{}, rdom_[NLD]{};
};
constexpr bool ld_round_dom(long double)
{
    // every value: gcem::round_int works in T since the fix of round(2^63 - 1/2)
    return true;
}
constexpr bool ld_lrint_dom(long double x)
{
    // the rounded value must fit long long
    return x >= -9223372036854775808.0L && x < 9223372036854775807.5L;
}
constexpr auto compute_ld()
{
    LdCT r{};
    for (size_t i = 0; i < NLD; ++i) {
        r.rdom_[i] = ld_round_dom(make_ld(T_LD[i]));
        r.dom_[i]  = ld_lrint_dom(make_ld(T_LD[i]));
    }
    r.floor_   = ce_table<Arr<long double, NLD>>([](size_t i) { return etl::floor(make_ld(T_LD[i])); });
    r.ceil_    = ce_table<Arr<long double, NLD>>([](size_t i) { return etl::ceil(make_ld(T_LD[i])); });
    r.trunc_   = ce_table<Arr<long double, NLD>>([](size_t i) { return etl::trunc(make_ld(T_LD[i])); });
    r.round_   = ce_table<Arr<long double, NLD>>([](size_t i) { return ld_round_dom(make_ld(T_LD[i])) ? etl::round(make_ld(T_LD[i])) : 0.0L; });
    r.rint_    = ce_table<Arr<long double, NLD>>([](size_t i) { return etl::rint(make_ld(T_LD[i])); });
    r.lrint_   = ce_table<Arr<long, NLD>>([](size_t i) { return ld_lrint_dom(make_ld(T_LD[i])) ? etl::lrint(make_ld(T_LD[i])) : 0L; });
    r.llrint_  = ce_table<Arr<long long, NLD>>([](size_t i) { return ld_lrint_dom(make_ld(T_LD[i])) ? etl::llrint(make_ld(T_LD[i])) : 0LL; });
    r.signbit_ = ce_table<Arr<bool, NLD>>([](size_t i) { return etl::signbit(make_ld(T_LD[i])); });
    r.isnan_   = ce_table<Arr<bool, NLD>>([](size_t i) { return etl::isnan(make_ld(T_LD[i])); });
    r.isinf_   = ce_table<Arr<bool, NLD>>([](size_t i) { return etl::isinf(make_ld(T_LD[i])); });
    return r;
}
constexpr auto CT_LD = compute_ld();
constexpr auto compute_ld_copysign()
{
    return ce_table<Arr2<long double, NLD, NLD>>([](size_t c) { return etl::copysign(make_ld(T_LD[c / NLD]), make_ld(T_LD[c % NLD])); });
}
constexpr auto CT_LD_CS = compute_ld_copysign();
constexpr size_t NLDFM = len(T_LDFM);
struct LdFmod {
    Arr2<long double, NLDFM, NLDFM> fmod_{}, rem_{};
};
constexpr auto compute_ld_fmod()
{
    LdFmod r{};
    r.fmod_ = ce_table<Arr2<long double, NLDFM, NLDFM>>([](size_t c) { return etl::fmod(make_ld(T_LDFM[c / NLDFM]), make_ld(T_LDFM[c % NLDFM])); });
    r.rem_  = ce_table<Arr2<long double, NLDFM, NLDFM>>([](size_t c) { return etl::remainder(make_ld(T_LDFM[c / NLDFM]), make_ld(T_LDFM[c % NLDFM])); });
    return r;
}
constexpr auto CT_LDFM = compute_ld_fmod();

// etl::bit_cast: pattern -> floating point -> pattern
template <typename F, auto const& Tab>
constexpr auto compute_bitcast()
{
    return ce_table<Arr<fbits_t<F>, len(Tab)>>([](size_t i) { return etl::bit_cast<fbits_t<F>>(etl::bit_cast<F>(Tab[i])); });
}
constexpr auto CT_BC32 = compute_bitcast<float, T_F32>();
constexpr auto CT_BC64 = compute_bitcast<double, T_F64>();
template <typename F>
[[gnu::noinline]] auto rt_bitcast(fbits_t<F> b) -> fbits_t<F>
{
    fbits_t<F> volatile v = b;
    fbits_t<F> const w    = v;
    return etl::bit_cast<fbits_t<F>>(etl::bit_cast<F>(w));
}

// ------------------------------------------------------------------ wmemmove: two code paths since fix: 7d6dc8f
// (constant evaluation: direction found by an equality scan; run time: ps < pd).  Every placement of destination and
// source inside one 12-element array (all overlaps) and every count, on two rows; and two different arrays.
constexpr int WMN                   = 12;
constexpr wchar_t WM_ROWS[2][WMN] = {{1, 2, 3, 4, 5, 6, 7, 8, 9, 10, 11, 12}, {5, 5, 1, 2, 5, 1, 2, 65633, 5, 5, 0, 7}};
struct WmRes {
    wchar_t v[WMN];
};
constexpr auto wm_one(int row, int d, int s, int n) -> WmRes
{
    WmRes r{};
    for (int i = 0; i < WMN; ++i) { r.v[i] = WM_ROWS[row][i]; }
    (void)etl::wmemmove(r.v + d, r.v + s, static_cast<etl::size_t>(n));
    return r;
}
constexpr auto wm_two(int row, int d, int s, int n) -> WmRes
{
    WmRes r{};
    wchar_t src[WMN]{};
    for (int i = 0; i < WMN; ++i) {
        r.v[i] = static_cast<wchar_t>(100 + i);
        src[i] = WM_ROWS[row][i];
    }
    (void)etl::wmemmove(r.v + d, src + s, static_cast<etl::size_t>(n));
    return r;
}
constexpr size_t WMD = WMN + 1;
struct WmAll {
    Arr<WmRes, 2 * WMD * WMD * WMD> one{}, two{};
};
constexpr size_t wm_index(size_t row, size_t d, size_t s, size_t n) { return ((row * WMD + d) * WMD + s) * WMD + n; }
template <bool Two>
constexpr auto wm_case(size_t c) -> WmRes
{
    auto const n   = static_cast<int>(c % WMD);
    auto const s   = static_cast<int>((c / WMD) % WMD);
    auto const d   = static_cast<int>((c / WMD / WMD) % WMD);
    auto const row = static_cast<int>(c / WMD / WMD / WMD);
    if (d + n > WMN || s + n > WMN) { return WmRes{}; }
    return Two ? wm_two(row, d, s, n) : wm_one(row, d, s, n);
}
constexpr auto compute_wm()
{
    WmAll a{};
    a.one = ce_table<Arr<WmRes, 2 * WMD * WMD * WMD>>([](size_t c) { return wm_case<false>(c); });
    a.two = ce_table<Arr<WmRes, 2 * WMD * WMD * WMD>>([](size_t c) { return wm_case<true>(c); });
    return a;
}
constexpr auto CT_WM = compute_wm();
[[gnu::noinline]] auto wm_rt(bool two, int row, int d, int s, int n) -> WmRes
{
    int volatile vd = d;
    int volatile vs = s;
    int volatile vn = n;
    return two ? wm_two(row, vd, vs, vn) : wm_one(row, vd, vs, vn);
}

// ------------------------------------------------------------------ single-path samples (observed only)
struct Civil {
    int y;
    unsigned m, d;
};
constexpr auto civil(long long z) -> Civil
{
    namespace ch = etl::chrono;
    auto const ymd = ch::year_month_day{ch::sys_days{ch::days{static_cast<int>(z)}}};
    return {static_cast<int>(ymd.year()), static_cast<unsigned>(ymd.month()), static_cast<unsigned>(ymd.day())};
}
constexpr auto CT_CIVIL = ct_map<Civil, T_DAYS>([](long long z) { return civil(z); });

struct Text {
    int n;
    char s[32];
};
constexpr auto conv(long long v) -> Text
{
    Text t{};
    auto const r = etl::to_chars(t.s, t.s + 32, v, 10);
    t.n          = static_cast<int>(r.ptr - t.s);
    return t;
}
constexpr auto CT_CONV = ct_map<Text, T_CONV>([](long long v) { return conv(v); });

constexpr size_t SV_POS[] = {0, 1, 2, 5, static_cast<size_t>(-1)};
constexpr size_t NSVP     = len(SV_POS);
constexpr auto sv_find(char const* h, char const* n, size_t pos) -> long long
{
    auto const r = etl::string_view{h}.find(etl::string_view{n}, pos);
    return r == etl::string_view::npos ? -1 : static_cast<long long>(r);
}
constexpr auto compute_svfind()
{
    return ce_table<Arr3<long long, NSTR, NSTR, NSVP>>(
        [](size_t c) { return sv_find(T_STR[c / (NSTR * NSVP)], T_STR[(c / NSVP) % NSTR], SV_POS[c % NSVP]); });
}
constexpr auto CT_SVFIND = compute_svfind();

// a small container/algorithm workload over the bytes of a string row
struct Work {
    int n;
    int v[16];
    long sum;
    int cnt;
};
constexpr auto work(char const* row) -> Work
{
    etl::static_vector<int, 16> v;
    for (char const* p = row; *p != 0; ++p) { v.push_back(static_cast<unsigned char>(*p)); }
    if (v.size() >= 2) { v.erase(v.begin()); }
    if (v.size() >= 1) { v.insert(v.begin() + 1, 42); }
    v.push_back(7);
    etl::sort(v.begin(), v.end());
    Work w{};
    w.n = static_cast<int>(v.size());
    for (int i = 0; i < w.n; ++i) { w.v[i] = v[static_cast<size_t>(i)]; }
    w.sum = etl::accumulate(v.begin(), v.end(), 0L);
    w.cnt = static_cast<int>(etl::count(v.begin(), v.end(), 97));
    return w;
}
constexpr auto compute_work()
{
    return ce_table<Arr<Work, NSTR>>([](size_t i) { return work(T_STR[i]); });
}
constexpr auto CT_WORK = compute_work();

constexpr auto istr(char const* a, char const* b) -> Text
{
    etl::inplace_string<31> s{a};
    s.append(b);
    s.push_back('!');
    Text t{};
    t.n = static_cast<int>(s.size());
    for (int i = 0; i < t.n; ++i) { t.s[i] = s[static_cast<size_t>(i)]; }
    return t;
}
constexpr auto compute_istr()
{
    return ce_table<Arr2<Text, NSTR, NSTR>>([](size_t c) { return istr(T_STR[c / NSTR], T_STR[c % NSTR]); });
}
constexpr auto CT_ISTR = compute_istr();

// <cctype>: every function for c = -1 .. 255 (index c + 1)
struct Ctype {
    int v[14];
};
constexpr auto ctype_all(int c) -> Ctype
{
    return {{etl::isalnum(c), etl::isalpha(c), etl::isblank(c), etl::iscntrl(c), etl::isdigit(c), etl::isgraph(c), etl::islower(c),
        etl::isprint(c), etl::ispunct(c), etl::isspace(c), etl::isupper(c), etl::isxdigit(c), etl::tolower(c), etl::toupper(c)}};
}
constexpr auto compute_ctype()
{
    return ce_table<Arr<Ctype, 257>>([](size_t i) { return ctype_all(static_cast<int>(i) - 1); });
}
constexpr auto CT_CTYPE = compute_ctype();

// string_view: sign of compare, rfind, starts_with, ends_with, find_first_of
struct SvOps {
    long long v[5];
};
constexpr auto sv_ops(char const* a, char const* b) -> SvOps
{
    etl::string_view const x{a};
    etl::string_view const y{b};
    auto const pos = [](etl::size_t p) { return p == etl::string_view::npos ? -1LL : static_cast<long long>(p); };
    return {{sgn(x.compare(y)), pos(x.rfind(y)), x.starts_with(y) ? 1 : 0, x.ends_with(y) ? 1 : 0, pos(x.find_first_of(y))}};
}
constexpr auto compute_svops()
{
    return ce_table<Arr2<SvOps, NSTR, NSTR>>([](size_t c) { return sv_ops(T_STR[c / NSTR], T_STR[c % NSTR]); });
}
constexpr auto CT_SVOPS = compute_svops();

// chrono: days -> year_month_day -> days
constexpr auto civil_back(long long z) -> long long
{
    namespace ch   = etl::chrono;
    auto const ymd = ch::year_month_day{ch::sys_days{ch::days{static_cast<int>(z)}}};
    return ch::sys_days{ymd}.time_since_epoch().count();
}
constexpr auto CT_CIVILBACK = ct_map<long long, T_DAYS>([](long long z) { return civil_back(z); });

// algorithms over the bytes of a row: reverse, find, max_element, is_sorted, rotate
struct Algo2 {
    int n;
    int rev[16];
    int find97;
    int mx;
    int sorted;
    int rot[16];
};
constexpr auto algo2(char const* row) -> Algo2
{
    etl::static_vector<int, 16> v;
    for (char const* p = row; *p != 0; ++p) { v.push_back(static_cast<unsigned char>(*p)); }
    Algo2 a{};
    a.n          = static_cast<int>(v.size());
    auto const f = etl::find(v.begin(), v.end(), 97);
    a.find97     = f == v.end() ? -1 : static_cast<int>(f - v.begin());
    a.mx         = v.empty() ? -1 : *etl::max_element(v.begin(), v.end());
    a.sorted     = etl::is_sorted(v.begin(), v.end()) ? 1 : 0;
    auto r       = v;
    etl::reverse(r.begin(), r.end());
    for (int i = 0; i < a.n; ++i) { a.rev[i] = r[static_cast<size_t>(i)]; }
    auto o = v;
    etl::rotate(o.begin(), o.begin() + static_cast<etl::ptrdiff_t>(o.size() / 2), o.end());
    for (int i = 0; i < a.n; ++i) { a.rot[i] = o[static_cast<size_t>(i)]; }
    return a;
}
constexpr auto compute_algo2()
{
    return ce_table<Arr<Algo2, NSTR>>([](size_t i) { return algo2(T_STR[i]); });
}
constexpr auto CT_ALGO2 = compute_algo2();

// ------------------------------------------------------------------ printing
template <typename U>
void put_fbits(Out& o, U b, bool nan_sign)
{
    constexpr int total = sizeof(U) * 8;
    constexpr int mw    = total == 32 ? 23 : 52;
    U const expmask     = ((U(1) << (total - 1 - mw)) - 1) << mw;
    U const frac        = b & ((U(1) << mw) - 1);
    if ((b & expmask) == expmask && frac != 0) {
        if (nan_sign) {
            o.tok((b >> (total - 1)) != 0 ? "nan1" : "nan0");
        } else {
            o.tok("nan");
        }
        return;
    }
    o.unum(b);
}

void put_ld(Out& o, long double x, bool nan_sign)
{
    bool const s = std::signbit(x);
    if (std::isnan(x)) {
        o.tok(nan_sign ? (s ? "nan1" : "nan0") : "nan");
        return;
    }
    if (std::isinf(x)) {
        o.tok(s ? "i1" : "i0");
        return;
    }
    if (x == 0.0L) {
        o.tok(s ? "z1" : "z0");
        return;
    }
    int e          = 0;
    long double fr = std::frexp(s ? -x : x, &e); // in [1/2, 1)
    auto m         = static_cast<unsigned long long>(std::ldexp(fr, 64));
    e -= 64;
    while ((m & 1U) == 0U) {
        m >>= 1U;
        ++e;
    }
    o.tok(s ? "f1" : "f0").unum(m).num(e);
}

template <typename T>
bool check_val(Toks& in, T tableval, Out& impl)
{
    // the case line repeats the table value (as an unsigned/signed decimal)
    std::string const tok = in.str();
    std::string mine;
    if constexpr (std::is_signed_v<T>) {
        mine = std::to_string(static_cast<long long>(tableval));
    } else {
        mine = std::to_string(static_cast<unsigned long long>(tableval));
    }
    if (tok != mine) {
        impl.tok("table-mismatch").tok(mine);
        return false;
    }
    return true;
}

// impl leg of a flat ce_table case (a `ce-fail` entry is reported by vh::run_case through g_ce_fail)
template <typename T>
void put_ce(Out& impl, T const& t, size_t idx)
{
    impl.tok("ok").num(t[idx]);
}

bool check_row(Toks& in, size_t i, Out& impl)
{
    auto const l = in.list();
    bool ok      = l.size() == static_cast<size_t>(STRW);
    for (size_t b = 0; ok && b < l.size(); ++b) { ok = static_cast<unsigned char>(T_STR[i][b]) == static_cast<unsigned char>(l[b]); }
    if (!ok) { impl.tok("table-mismatch"); }
    return ok;
}

template <typename Int, typename T, size_t N, typename CT, typename CTF>
bool run_sat(bool fallback, Toks& in, Out& impl, Out& ref, T const (&tab)[N], CT const& ct, CTF const& ctf)
{
    auto const i = static_cast<size_t>(in.num());
    auto const j = static_cast<size_t>(in.num());
    if (i >= N || j >= N) { return false; }
    auto const x = static_cast<Int>(tab[i]);
    auto const y = static_cast<Int>(tab[j]);
    if (!check_val(in, x, impl) || !check_val(in, y, impl)) { return true; }
    Int const c = fallback ? ctf.v[i][j] : ct.v[i][j];
    Int const r = etl::add_sat(launder(x), launder(y));
    if constexpr (std::is_signed_v<Int>) {
        impl.tok("ok").num(c);
        ref.tok("ok").num(r);
    } else {
        impl.tok("ok").unum(c);
        ref.tok("ok").unum(r);
    }
    return true;
}

template <typename F, size_t N, typename CT>
bool run_float(std::string const& fn, Toks& in, Out& impl, Out& ref, fbits_t<F> const (&tab)[N], CT const& ct)
{
    auto const i = static_cast<size_t>(in.num());
    if (i >= N) { return false; }
    if (!check_val(in, tab[i], impl)) { return true; }
    F const x = launder(to_f<F>(tab[i]));
    if (fn == "floor") {
        put_fbits(impl.tok("ok"), ct.floor_[i], false);
        put_fbits(ref.tok("ok"), to_b(etl::floor(x)), false);
    } else if (fn == "ceil") {
        put_fbits(impl.tok("ok"), ct.ceil_[i], false);
        put_fbits(ref.tok("ok"), to_b(etl::ceil(x)), false);
    } else if (fn == "trunc") {
        put_fbits(impl.tok("ok"), ct.trunc_[i], false);
        put_fbits(ref.tok("ok"), to_b(etl::trunc(x)), false);
    } else if (fn == "round") {
        put_fbits(impl.tok("ok"), ct.round_[i], false);
        put_fbits(ref.tok("ok"), to_b(etl::round(x)), false);
    } else if (fn == "rint") {
        put_fbits(impl.tok("ok"), ct.rint_[i], false);
        put_fbits(ref.tok("ok"), to_b(etl::rint(x)), false);
    } else if (fn == "lrint") {
        if (!lrint_dom(x)) { return false; }
        impl.tok("ok").num(ct.lrint_[i]);
        ref.tok("ok").num(etl::lrint(x));
    } else if (fn == "llrint") {
        if (!lrint_dom(x)) { return false; }
        impl.tok("ok").num(ct.llrint_[i]);
        ref.tok("ok").num(etl::llrint(x));
    } else if (fn == "signbit") {
        impl.tok("ok").b(ct.signbit_[i]);
        ref.tok("ok").b(etl::signbit(x));
    } else if (fn == "isnan") {
        impl.tok("ok").b(ct.isnan_[i]);
        ref.tok("ok").b(etl::isnan(x));
    } else if (fn == "isinf") {
        impl.tok("ok").b(ct.isinf_[i]);
        ref.tok("ok").b(etl::isinf(x));
    } else {
        return false;
    }
    return true;
}

void put_text(Out& o, Text const& t)
{
    o.tok("ok").num(t.n);
    for (int i = 0; i < t.n && i < 32; ++i) { o.num(static_cast<unsigned char>(t.s[i])); }
}

} // namespace

namespace {
bool run_case_body(std::string const& op, Toks& in, Out& impl, Out& ref);
}

// a case whose compile-time table entry could not be constant-evaluated answers `ce-fail` (impl leg); the
// reference leg (the run-time call) is kept
bool vh::run_case(std::string const& op, Toks& in, Out& impl, Out& ref)
{
    g_ce_fail     = false;
    bool const ok = run_case_body(op, in, impl, ref);
    if (ok && g_ce_fail) { impl.s = "ce-fail"; }
    return ok;
}

namespace {
bool run_case_body(std::string const& op, Toks& in, Out& impl, Out& ref)
{
    // ---- popcount <w> <idx> <x>
    if (op == "popcount") {
        auto const w = in.num();
        auto const i = static_cast<size_t>(in.num());
        if (w == 8 && i < len(T_U8)) {
            if (!check_val(in, T_U8[i], impl)) { return true; }
            impl.tok("ok").num(CT_POP8.v[i]);
            ref.tok("ok").num(etl::popcount(launder(T_U8[i])));
            return true;
        }
        if (w == 16 && i < len(T_U16)) {
            if (!check_val(in, T_U16[i], impl)) { return true; }
            impl.tok("ok").num(CT_POP16.v[i]);
            ref.tok("ok").num(etl::popcount(launder(T_U16[i])));
            return true;
        }
        if (w == 32 && i < len(T_U32)) {
            if (!check_val(in, T_U32[i], impl)) { return true; }
            impl.tok("ok").num(CT_POP32.v[i]);
            ref.tok("ok").num(etl::popcount(launder(T_U32[i])));
            return true;
        }
        if (w == 64 && i < len(T_U64)) {
            if (!check_val(in, T_U64[i], impl)) { return true; }
            impl.tok("ok").num(CT_POP64.v[i]).num(CT_POP64L.v[i]);
            ref.tok("ok").num(etl::popcount(launder(T_U64[i]))).num(etl::popcount(launder(static_cast<unsigned long>(T_U64[i]))));
            return true;
        }
        return false;
    }
    // ---- all16 <v>: popcount, byteswap, byteswap_fallback of the 16-bit value v
    if (op == "all16") {
        auto const v = in.num();
        if (v < 0 || v > 65535) { return false; }
        if (!HAVE_ALL16) {
            impl.tok("skip");
            return true;
        }
        auto const x  = launder(static_cast<std::uint16_t>(v));
        auto const iv = static_cast<size_t>(v);
        impl.tok("ok").num(CT_ALL16.pop[iv]).unum(CT_ALL16.bs[iv]).unum(CT_ALL16.bsf[iv]);
        ref.tok("ok").num(etl::popcount(x)).unum(etl::byteswap(x)).unum(etl::byteswap(x));
        return true;
    }
    // ---- byteswap / byteswap_fb <w> <idx> <x>: impl = constant evaluation of etl::byteswap resp. of
    //      detail::byteswap_fallback, reference = etl::byteswap at run time (the builtin)
    if (op == "byteswap" || op == "byteswap_fb") {
        bool const fb = op == "byteswap_fb";
        auto const w  = in.num();
        auto const i  = static_cast<size_t>(in.num());
        if (w == 8 && i < len(T_U8) && !fb) {
            if (!check_val(in, T_U8[i], impl)) { return true; }
            impl.tok("ok").unum(CT_BS8.v[i]);
            ref.tok("ok").unum(etl::byteswap(launder(static_cast<std::uint8_t>(T_U8[i]))));
            return true;
        }
        if (w == 16 && i < len(T_U16)) {
            if (!check_val(in, T_U16[i], impl)) { return true; }
            impl.tok("ok").unum(fb ? CT_BSF16.v[i] : CT_BS16.v[i]);
            ref.tok("ok").unum(etl::byteswap(launder(static_cast<std::uint16_t>(T_U16[i]))));
            return true;
        }
        if (w == 32 && i < len(T_U32)) {
            if (!check_val(in, T_U32[i], impl)) { return true; }
            impl.tok("ok").unum(fb ? CT_BSF32.v[i] : CT_BS32.v[i]);
            ref.tok("ok").unum(etl::byteswap(launder(static_cast<std::uint32_t>(T_U32[i]))));
            return true;
        }
        if (w == 64 && i < len(T_U64)) {
            if (!check_val(in, T_U64[i], impl)) { return true; }
            impl.tok("ok").unum(fb ? CT_BSF64.v[i] : CT_BS64.v[i]);
            ref.tok("ok").unum(etl::byteswap(launder(static_cast<std::uint64_t>(T_U64[i]))));
            return true;
        }
        return false;
    }
    // ---- add_sat / add_sat_fb <type> <i> <j> <x> <y>
    if (op == "add_sat" || op == "add_sat_fb") {
        bool const fb      = op == "add_sat_fb";
        std::string const t = in.str();
        if (t == "i8") { return run_sat<signed char>(fb, in, impl, ref, T_U8, CT_SAT_I8, CT_SATF_I8); }
        if (t == "u8") { return run_sat<unsigned char>(fb, in, impl, ref, T_U8, CT_SAT_U8, CT_SATF_U8); }
        if (t == "i16") { return run_sat<short>(fb, in, impl, ref, T_SAT_I16, CT_SAT_I16, CT_SATF_I16); }
        if (t == "u16") { return run_sat<unsigned short>(fb, in, impl, ref, T_SAT_U16, CT_SAT_U16, CT_SATF_U16); }
        if (t == "i32") { return run_sat<int>(fb, in, impl, ref, T_SAT_I32, CT_SAT_I32, CT_SATF_I32); }
        if (t == "u32") { return run_sat<unsigned>(fb, in, impl, ref, T_SAT_U32, CT_SAT_U32, CT_SATF_U32); }
        if (t == "i64") { return run_sat<long long>(fb, in, impl, ref, T_SAT_I64, CT_SAT_I64, CT_SATF_I64); }
        if (t == "u64") { return run_sat<unsigned long long>(fb, in, impl, ref, T_SAT_U64, CT_SAT_U64, CT_SATF_U64); }
        return false;
    }
    // ---- strings
    if (op == "strlen") {
        auto const i = static_cast<size_t>(in.num());
        if (i >= NSTR) { return false; }
        if (!check_row(in, i, impl)) { return true; }
        impl.tok("ok").unum(CT_STRLEN.v[i]);
        ref.tok("ok").unum(etl::strlen(launder(static_cast<char const*>(T_STR[i]))));
        return true;
    }
    if (op == "strcmp" || op == "strncmp") {
        auto const i = static_cast<size_t>(in.num());
        auto const j = static_cast<size_t>(in.num());
        size_t k     = 0;
        if (op == "strncmp") { k = static_cast<size_t>(in.num()); }
        if (i >= NSTR || j >= NSTR || k >= NCNT) { return false; }
        if (op == "strncmp") {
            if (!check_val(in, STR_COUNTS[k], impl)) { return true; }
        }
        if (!check_row(in, i, impl) || !check_row(in, j, impl)) { return true; }
        auto const* a = launder(static_cast<char const*>(T_STR[i]));
        auto const* b = launder(static_cast<char const*>(T_STR[j]));
        if (op == "strcmp") {
            put_ce(impl, CT_STRCMP, i * NSTR + j);
            ref.tok("ok").num(sgn(etl::strcmp(a, b)));
        } else {
            put_ce(impl, CT_STRNCMP, (i * NSTR + j) * NCNT + k);
            ref.tok("ok").num(sgn(etl::strncmp(a, b, launder(STR_COUNTS[k]))));
        }
        return true;
    }
    if (op == "strchr" || op == "memchr") {
        auto const i = static_cast<size_t>(in.num());
        auto const k = static_cast<size_t>(in.num());
        size_t n     = 0;
        if (op == "memchr") { n = static_cast<size_t>(in.num()); }
        if (i >= NSTR || k >= NCHR || n >= NMEM) { return false; }
        if (!check_val(in, STR_CHARS[k], impl)) { return true; }
        if (op == "memchr") {
            if (!check_val(in, MEM_COUNTS[n], impl)) { return true; }
        }
        if (!check_row(in, i, impl)) { return true; }
        auto const* a = launder(static_cast<char const*>(T_STR[i]));
        if (op == "strchr") {
            char const* p = etl::strchr(a, launder(STR_CHARS[k]));
            put_ce(impl, CT_STRCHR, i * NCHR + k);
            ref.tok("ok").num(p == nullptr ? -1 : static_cast<long long>(p - a));
        } else {
            void const* p = etl::memchr(static_cast<void const*>(a), launder(STR_CHARS[k]), launder(MEM_COUNTS[n]));
            put_ce(impl, CT_MEMCHR, (i * NCHR + k) * NMEM + n);
            ref.tok("ok").num(p == nullptr ? -1 : static_cast<long long>(static_cast<char const*>(p) - a));
        }
        return true;
    }
    // ---- strncmp_pre <i> <sel> <l> <c> <j> <L> <count> <row i> <row j>
    if (op == "strncmp_pre") {
        auto const i   = static_cast<size_t>(in.num());
        auto const sel = static_cast<size_t>(in.num());
        auto const l   = static_cast<size_t>(in.num());
        auto const c   = static_cast<size_t>(in.num());
        if (i >= NSTR || sel >= NPREJ || l >= NPRE || c >= NPREC) { return false; }
        auto const j   = pre_partner(i, sel);
        auto const L   = PRE_LEN[l];
        auto const cnt = pre_count(L, c);
        if (!check_val(in, j, impl) || !check_val(in, L, impl) || !check_val(in, cnt, impl)) { return true; }
        if (!check_row(in, i, impl) || !check_row(in, j, impl)) { return true; }
        impl.tok("ok").num(CT_STRNCMP_PRE[((i * NPREJ + sel) * NPRE + l) * NPREC + c]);
        ref.tok("ok").num(strncmp_pre_run(launder(i), launder(j), launder(L), launder(cnt), [](char const* a, char const* b, size_t n) {
            return sgn(etl::strncmp(launder(a), launder(b), launder(n)));
        }));
        return true;
    }
    // ---- memchr_at <i> <k> <off> <n> <ch> <row>: search of [row + off, row + off + n), off + n <= STRW
    if (op == "memchr_at") {
        auto const i   = static_cast<size_t>(in.num());
        auto const k   = static_cast<size_t>(in.num());
        auto const off = static_cast<size_t>(in.num());
        auto const n   = static_cast<size_t>(in.num());
        if (i >= NSTR || k >= NCHR || off > static_cast<size_t>(STRW) || !at_pair(off, n)) { return false; }
        if (!check_val(in, STR_CHARS[k], impl)) { return true; }
        if (!check_row(in, i, impl)) { return true; }
        // run time: a heap block of exactly STRW bytes (the range ends flush with the end of the object there too)
        auto* const heap = new unsigned char[STRW];
        for (int b = 0; b < STRW; ++b) { heap[b] = static_cast<unsigned char>(T_STR[i][b]); }
        unsigned char const* const a = launder(static_cast<unsigned char const*>(heap)) + launder(off);
        void const* p = etl::memchr(static_cast<void const*>(a), launder(STR_CHARS[k]), launder(n));
        put_ce(impl, CT_MEMCHR_AT, ((i * NCHR + k) * NOFF + off) * NOFF + n);
        ref.tok("ok").num(p == nullptr ? -1 : static_cast<long long>(static_cast<unsigned char const*>(p) - a));
        delete[] heap;
        return true;
    }
    // ---- floating point: <fn> <f32|f64|ld> <idx> <bits>
    if (op == "floor" || op == "ceil" || op == "trunc" || op == "round" || op == "rint" || op == "lrint" || op == "llrint"
        || op == "signbit" || op == "isnan" || op == "isinf") {
        std::string const t = in.str();
        if (t == "f32") { return run_float<float>(op, in, impl, ref, T_F32, CT_F32); }
        if (t == "f64") { return run_float<double>(op, in, impl, ref, T_F64, CT_F64); }
        if (t == "ld") {
            auto const i = static_cast<size_t>(in.num());
            if (i >= NLD) { return false; }
            long double const x = launder(make_ld(T_LD[i]));
            {
                // cross-check: the case line repeats the value as the tokens put_ld prints
                Out mine;
                put_ld(mine, x, true);
                std::string rest;
                while (in.more()) {
                    if (!rest.empty()) { rest += ' '; }
                    rest += in.str();
                }
                if (rest != mine.s) {
                    impl.tok("table-mismatch").tok(mine.s);
                    return true;
                }
            }
            if (op == "floor") {
                put_ld(impl.tok("ok"), CT_LD.floor_[i], false);
                put_ld(ref.tok("ok"), etl::floor(x), false);
            } else if (op == "ceil") {
                put_ld(impl.tok("ok"), CT_LD.ceil_[i], false);
                put_ld(ref.tok("ok"), etl::ceil(x), false);
            } else if (op == "trunc") {
                put_ld(impl.tok("ok"), CT_LD.trunc_[i], false);
                put_ld(ref.tok("ok"), etl::trunc(x), false);
            } else if (op == "round") {
                if (!CT_LD.rdom_[i]) { return false; }
                put_ld(impl.tok("ok"), CT_LD.round_[i], false);
                put_ld(ref.tok("ok"), etl::round(x), false);
            } else if (op == "rint") {
                put_ld(impl.tok("ok"), CT_LD.rint_[i], false);
                put_ld(ref.tok("ok"), etl::rint(x), false);
            } else if (op == "llrint" || op == "lrint") {
                if (!CT_LD.dom_[i]) { return false; }
                // (lrint and llrint are separate overload sets: each is constant-evaluated on its own)
                impl.tok("ok").num(op == "lrint" ? static_cast<long long>(CT_LD.lrint_[i]) : CT_LD.llrint_[i]);
                ref.tok("ok").num(op == "lrint" ? etl::lrint(x) : etl::llrint(x));
            } else if (op == "signbit") {
                impl.tok("ok").b(CT_LD.signbit_[i]);
                ref.tok("ok").b(etl::signbit(x));
            } else if (op == "isnan") {
                impl.tok("ok").b(CT_LD.isnan_[i]);
                ref.tok("ok").b(etl::isnan(x));
            } else {
                impl.tok("ok").b(CT_LD.isinf_[i]);
                ref.tok("ok").b(etl::isinf(x));
            }
            return true;
        }
        return false;
    }
    if (op == "copysign") {
        std::string const t = in.str();
        auto const i        = static_cast<size_t>(in.num());
        auto const j        = static_cast<size_t>(in.num());
        if (t == "ld" && i < NLD && j < NLD) {
            long double const x = launder(make_ld(T_LD[i]));
            long double const y = launder(make_ld(T_LD[j]));
            {
                Out mine;
                put_ld(mine, x, true);
                put_ld(mine, y, true);
                std::string rest;
                while (in.more()) {
                    if (!rest.empty()) { rest += ' '; }
                    rest += in.str();
                }
                if (rest != mine.s) {
                    impl.tok("table-mismatch").tok(mine.s);
                    return true;
                }
            }
            put_ld(impl.tok("ok"), CT_LD_CS.v[i][j], true);
            put_ld(ref.tok("ok"), etl::copysign(x, y), true);
            return true;
        }
        if (t == "f32" && i < len(T_SF32) && j < len(T_SF32)) {
            if (!check_val(in, T_SF32[i], impl) || !check_val(in, T_SF32[j], impl)) { return true; }
            put_fbits(impl.tok("ok"), CT_CS32.v[i][j], true);
            put_fbits(ref.tok("ok"), to_b(etl::copysign(launder(to_f<float>(T_SF32[i])), launder(to_f<float>(T_SF32[j])))), true);
            return true;
        }
        if (t == "f64" && i < len(T_SF64) && j < len(T_SF64)) {
            if (!check_val(in, T_SF64[i], impl) || !check_val(in, T_SF64[j], impl)) { return true; }
            put_fbits(impl.tok("ok"), CT_CS64.v[i][j], true);
            put_fbits(ref.tok("ok"), to_b(etl::copysign(launder(to_f<double>(T_SF64[i])), launder(to_f<double>(T_SF64[j])))), true);
            return true;
        }
        return false;
    }
    if (op == "fma") {
        std::string const t = in.str();
        auto const i        = static_cast<size_t>(in.num());
        auto const j        = static_cast<size_t>(in.num());
        auto const k        = static_cast<size_t>(in.num());
        if (t == "f32" && i < len(T_FMA32) && j < len(T_FMA32) && k < len(T_FMA32)) {
            if (!check_val(in, T_FMA32[i], impl) || !check_val(in, T_FMA32[j], impl) || !check_val(in, T_FMA32[k], impl)) { return true; }
            put_fbits(impl.tok("ok"), CT_FMA32.v[i][j][k], false);
            put_fbits(ref.tok("ok"),
                to_b(etl::fma(launder(to_f<float>(T_FMA32[i])), launder(to_f<float>(T_FMA32[j])), launder(to_f<float>(T_FMA32[k])))), false);
            return true;
        }
        if (t == "f64" && i < len(T_FMA64) && j < len(T_FMA64) && k < len(T_FMA64)) {
            if (!check_val(in, T_FMA64[i], impl) || !check_val(in, T_FMA64[j], impl) || !check_val(in, T_FMA64[k], impl)) { return true; }
            put_fbits(impl.tok("ok"), CT_FMA64.v[i][j][k], false);
            put_fbits(ref.tok("ok"),
                to_b(etl::fma(launder(to_f<double>(T_FMA64[i])), launder(to_f<double>(T_FMA64[j])), launder(to_f<double>(T_FMA64[k])))), false);
            return true;
        }
        return false;
    }
    if (op == "bitcast") {
        std::string const t = in.str();
        auto const i        = static_cast<size_t>(in.num());
        if (t == "f32" && i < len(T_F32)) {
            if (!check_val(in, T_F32[i], impl)) { return true; }
            impl.tok("ok").unum(CT_BC32.v[i]);
            ref.tok("ok").unum(rt_bitcast<float>(T_F32[i]));
            return true;
        }
        if (t == "f64" && i < len(T_F64)) {
            if (!check_val(in, T_F64[i], impl)) { return true; }
            impl.tok("ok").unum(CT_BC64.v[i]);
            ref.tok("ok").unum(rt_bitcast<double>(T_F64[i]));
            return true;
        }
        return false;
    }
    if (op == "fmod" || op == "remainder") {
        bool const rem      = op == "remainder";
        std::string const t = in.str();
        auto const i        = static_cast<size_t>(in.num());
        auto const j        = static_cast<size_t>(in.num());
        if (t == "ld" && i < NLDFM && j < NLDFM) {
            long double const x = launder(make_ld(T_LDFM[i]));
            long double const y = launder(make_ld(T_LDFM[j]));
            {
                Out mine;
                put_ld(mine, x, true);
                put_ld(mine, y, true);
                std::string rest;
                while (in.more()) {
                    if (!rest.empty()) { rest += ' '; }
                    rest += in.str();
                }
                if (rest != mine.s) {
                    impl.tok("table-mismatch").tok(mine.s);
                    return true;
                }
            }
            put_ld(impl.tok("ok"), rem ? CT_LDFM.rem_[i][j] : CT_LDFM.fmod_[i][j], false);
            put_ld(ref.tok("ok"), rem ? etl::remainder(x, y) : etl::fmod(x, y), false);
            return true;
        }
        if (t == "f32" && i < len(T_FMOD32) && j < len(T_FMOD32)) {
            if (!check_val(in, T_FMOD32[i], impl) || !check_val(in, T_FMOD32[j], impl)) { return true; }
            float const x = launder(to_f<float>(T_FMOD32[i]));
            float const y = launder(to_f<float>(T_FMOD32[j]));
            if (CT_FMOD32.skip_[i][j]) {
                impl.tok("skip");
                return true;
            }
            put_fbits(impl.tok("ok"), rem ? CT_FMOD32.rem_[i][j] : CT_FMOD32.fmod_[i][j], false);
            put_fbits(ref.tok("ok"), to_b(rem ? etl::remainder(x, y) : etl::fmod(x, y)), false);
            return true;
        }
        if (t == "f64" && i < len(T_FMOD64) && j < len(T_FMOD64)) {
            if (!check_val(in, T_FMOD64[i], impl) || !check_val(in, T_FMOD64[j], impl)) { return true; }
            double const x = launder(to_f<double>(T_FMOD64[i]));
            double const y = launder(to_f<double>(T_FMOD64[j]));
            if (CT_FMOD64.skip_[i][j]) {
                impl.tok("skip");
                return true;
            }
            put_fbits(impl.tok("ok"), rem ? CT_FMOD64.rem_[i][j] : CT_FMOD64.fmod_[i][j], false);
            put_fbits(ref.tok("ok"), to_b(rem ? etl::remainder(x, y) : etl::fmod(x, y)), false);
            return true;
        }
        return false;
    }
    // ---- fmod_rt / remainder_rt: the run-time path of etl::fmod / etl::remainder (impl) against libm (reference)
    if (op == "fmod_rt" || op == "remainder_rt") {
        bool const rem      = op == "remainder_rt";
        std::string const t = in.str();
        auto const i        = static_cast<size_t>(in.num());
        auto const j        = static_cast<size_t>(in.num());
        if (t == "f32" && i < len(T_FMOD32) && j < len(T_FMOD32)) {
            if (!check_val(in, T_FMOD32[i], impl) || !check_val(in, T_FMOD32[j], impl)) { return true; }
            float const x = launder(to_f<float>(T_FMOD32[i]));
            float const y = launder(to_f<float>(T_FMOD32[j]));
            put_fbits(impl.tok("ok"), to_b(rem ? etl::remainder(x, y) : etl::fmod(x, y)), false);
            put_fbits(ref.tok("ok"), to_b(rem ? std::remainder(x, y) : std::fmod(x, y)), false);
            return true;
        }
        if (t == "f64" && i < len(T_FMOD64) && j < len(T_FMOD64)) {
            if (!check_val(in, T_FMOD64[i], impl) || !check_val(in, T_FMOD64[j], impl)) { return true; }
            double const x = launder(to_f<double>(T_FMOD64[i]));
            double const y = launder(to_f<double>(T_FMOD64[j]));
            put_fbits(impl.tok("ok"), to_b(rem ? etl::remainder(x, y) : etl::fmod(x, y)), false);
            put_fbits(ref.tok("ok"), to_b(rem ? std::remainder(x, y) : std::fmod(x, y)), false);
            return true;
        }
        return false;
    }
    // ---- wmemmove / wmemmove2 <row> <d> <s> <n> <12 values of the row>
    if (op == "wmemmove" || op == "wmemmove2") {
        bool const two = op == "wmemmove2";
        auto const row = in.num();
        auto const d   = in.num();
        auto const s   = in.num();
        auto const n   = in.num();
        if (row < 0 || row > 1 || d < 0 || s < 0 || n < 0 || d + n > WMN || s + n > WMN) { return false; }
        auto const l = in.list();
        bool ok      = l.size() == static_cast<size_t>(WMN);
        for (size_t i = 0; ok && i < l.size(); ++i) { ok = static_cast<long long>(WM_ROWS[row][i]) == l[i]; }
        if (!ok) {
            impl.tok("table-mismatch");
            return true;
        }
        auto const wi = wm_index(static_cast<size_t>(row), static_cast<size_t>(d), static_cast<size_t>(s), static_cast<size_t>(n));
        auto const& c = two ? CT_WM.two[wi] : CT_WM.one[wi];
        auto const r  = wm_rt(two, static_cast<int>(row), static_cast<int>(d), static_cast<int>(s), static_cast<int>(n));
        impl.tok("ok");
        ref.tok("ok");
        for (int i = 0; i < WMN; ++i) {
            impl.num(static_cast<long long>(c.v[i]));
            ref.num(static_cast<long long>(r.v[i]));
        }
        return true;
    }
    // ---- single-path samples
    if (op == "civil") {
        auto const i = static_cast<size_t>(in.num());
        if (i >= len(T_DAYS)) { return false; }
        if (!check_val(in, T_DAYS[i], impl)) { return true; }
        auto const c = CT_CIVIL.v[i];
        auto const r = civil(launder(T_DAYS[i]));
        impl.tok("ok").num(c.y).num(c.m).num(c.d);
        ref.tok("ok").num(r.y).num(r.m).num(r.d);
        return true;
    }
    if (op == "to_chars") {
        auto const i = static_cast<size_t>(in.num());
        if (i >= len(T_CONV)) { return false; }
        if (!check_val(in, T_CONV[i], impl)) { return true; }
        put_text(impl, CT_CONV.v[i]);
        put_text(ref, conv(launder(T_CONV[i])));
        return true;
    }
    if (op == "sv_find") {
        auto const i = static_cast<size_t>(in.num());
        auto const j = static_cast<size_t>(in.num());
        auto const k = static_cast<size_t>(in.num());
        if (i >= NSTR || j >= NSTR || k >= NSVP) { return false; }
        if (!check_val(in, SV_POS[k], impl)) { return true; }
        if (!check_row(in, i, impl) || !check_row(in, j, impl)) { return true; }
        impl.tok("ok").num(CT_SVFIND.v[i][j][k]);
        ref.tok("ok").num(sv_find(launder(static_cast<char const*>(T_STR[i])), launder(static_cast<char const*>(T_STR[j])), launder(SV_POS[k])));
        return true;
    }
    if (op == "work") {
        auto const i = static_cast<size_t>(in.num());
        if (i >= NSTR) { return false; }
        if (!check_row(in, i, impl)) { return true; }
        auto const& c = CT_WORK.v[i];
        auto const r  = work(launder(static_cast<char const*>(T_STR[i])));
        impl.tok("ok").list(c.v, c.v + c.n).num(c.sum).num(c.cnt);
        ref.tok("ok").list(r.v, r.v + r.n).num(r.sum).num(r.cnt);
        return true;
    }
    if (op == "ctype") {
        auto const c = in.num();
        if (c < -1 || c > 255) { return false; }
        auto const& ct = CT_CTYPE.v[static_cast<size_t>(c + 1)];
        auto const rt  = ctype_all(launder(static_cast<int>(c)));
        impl.tok("ok");
        ref.tok("ok");
        for (int k = 0; k < 14; ++k) {
            impl.num(ct.v[k]);
            ref.num(rt.v[k]);
        }
        return true;
    }
    if (op == "svops") {
        auto const i = static_cast<size_t>(in.num());
        auto const j = static_cast<size_t>(in.num());
        if (i >= NSTR || j >= NSTR) { return false; }
        if (!check_row(in, i, impl) || !check_row(in, j, impl)) { return true; }
        auto const& ct = CT_SVOPS.v[i][j];
        auto const rt  = sv_ops(launder(static_cast<char const*>(T_STR[i])), launder(static_cast<char const*>(T_STR[j])));
        impl.tok("ok");
        ref.tok("ok");
        for (int k = 0; k < 5; ++k) {
            impl.num(ct.v[k]);
            ref.num(rt.v[k]);
        }
        return true;
    }
    if (op == "civil_back") {
        auto const i = static_cast<size_t>(in.num());
        if (i >= len(T_DAYS)) { return false; }
        if (!check_val(in, T_DAYS[i], impl)) { return true; }
        impl.tok("ok").num(CT_CIVILBACK.v[i]);
        ref.tok("ok").num(civil_back(launder(T_DAYS[i])));
        return true;
    }
    if (op == "algo2") {
        auto const i = static_cast<size_t>(in.num());
        if (i >= NSTR) { return false; }
        if (!check_row(in, i, impl)) { return true; }
        auto const& c = CT_ALGO2.v[i];
        auto const r  = algo2(launder(static_cast<char const*>(T_STR[i])));
        impl.tok("ok").list(c.rev, c.rev + c.n).num(c.find97).num(c.mx).num(c.sorted).list(c.rot, c.rot + c.n);
        ref.tok("ok").list(r.rev, r.rev + r.n).num(r.find97).num(r.mx).num(r.sorted).list(r.rot, r.rot + r.n);
        return true;
    }
    if (op == "istr") {
        auto const i = static_cast<size_t>(in.num());
        auto const j = static_cast<size_t>(in.num());
        if (i >= NSTR || j >= NSTR) { return false; }
        if (!check_row(in, i, impl) || !check_row(in, j, impl)) { return true; }
        put_text(impl, CT_ISTR.v[i][j]);
        put_text(ref, istr(launder(static_cast<char const*>(T_STR[i])), launder(static_cast<char const*>(T_STR[j]))));
        return true;
    }
    return false;
}

} // namespace

VERIF_MAIN()
