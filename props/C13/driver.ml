(* C13 driver: model leg = ct_F (the constant-evaluation fallback as written), spec leg = rt_F
   (the run-time builtin by its specification), both extracted from coq/C13. Parsing/printing only. *)
let okz z = join [ "ok"; str_of_z z ]
let okb b = join [ "ok"; b2s b ]
let res_s (f : 'a -> string) = function
  | Ok a -> f a
  | Contract -> "contract"
  | UB _ -> "ub"
  | OutOfFuel -> "fuel"
let opt_s (f : 'a -> string) = function Some a -> f a | None -> "na"

let ity_of = function
  | "i8" -> { bits = z_of_int 8; sgn0 = true } | "u8" -> { bits = z_of_int 8; sgn0 = false }
  | "i16" -> { bits = z_of_int 16; sgn0 = true } | "u16" -> { bits = z_of_int 16; sgn0 = false }
  | "i32" -> { bits = z_of_int 32; sgn0 = true } | "u32" -> { bits = z_of_int 32; sgn0 = false }
  | "i64" -> { bits = z_of_int 64; sgn0 = true } | "u64" -> { bits = z_of_int 64; sgn0 = false }
  | _ -> raise Not_found

let fmt_of = function "f32" -> binary32 | "f64" -> binary64 | "ld" -> x87ext | _ -> raise Not_found

(* floating point values on the wire: binary32/64 as bit patterns; long double as tokens *)
let ld_tok nan_sign = function
  | FZero s -> if s then "z1" else "z0"
  | FInf s -> if s then "i1" else "i0"
  | FNaN s -> if nan_sign then (if s then "nan1" else "nan0") else "nan"
  | FFin (s, m, e) -> join [ (if s then "f1" else "f0"); Big.to_string (big_of_pos m); str_of_z e ]
let f_tok ty nan_sign v =
  if ty = "ld" then ld_tok nan_sign (fnorm v)
  else match v with
    | FNaN s -> if nan_sign then (if s then "nan1" else "nan0") else "nan"
    | _ -> str_of_z (encode (fmt_of ty) v)
let okf ty nan_sign v = join [ "ok"; f_tok ty nan_sign v ]
let read_f ty t =
  if ty = "ld" then
    match next_str t with
    | "z0" -> FZero false | "z1" -> FZero true | "i0" -> FInf false | "i1" -> FInf true
    | "nan0" -> FNaN false | "nan1" -> FNaN true
    | "f0" -> let m = next_big t in let e = next_z t in FFin (false, pos_of_big m, e)
    | "f1" -> let m = next_big t in let e = next_z t in FFin (true, pos_of_big m, e)
    | _ -> raise Not_found
  else decode (fmt_of ty) (next_z t)

let ptr_s = function Some i -> okz i | None -> "ok -1"
let text_s (l : z list) = join ("ok" :: string_of_int (List.length l) :: List.map str_of_z l)
let bytes_until_nul (row : z list) = match cstr row with Some s -> s | None -> row

let run_case op t =
  match op with
  | "popcount" ->
      let w = next_z t in let _ = next_int t in let x = next_z t in
      if Big.equal (big_of_z w) (Big.of_int 64) then
        (* printed twice: unsigned long long and unsigned long are both 64 bits wide *)
        (res_s (fun c -> join [ "ok"; str_of_z c; str_of_z c ]) (ct_popcount w x),
         let c = rt_popcount w x in join [ "ok"; str_of_z c; str_of_z c ])
      else (res_s okz (ct_popcount w x), okz (rt_popcount w x))
  | "all16" ->
      let v = next_z t in let w = z_of_int 16 in
      (join [ "ok"; res_s str_of_z (ct_popcount w v); res_s str_of_z (ct_byteswap w v); res_s str_of_z (ct_byteswap w v) ],
       join [ "ok"; str_of_z (rt_popcount w v); str_of_z (rt_byteswap w v); str_of_z (rt_byteswap w v) ])
  | "byteswap" | "byteswap_fb" ->
      let w = next_z t in let _ = next_int t in let x = next_z t in
      (res_s okz (ct_byteswap w x), okz (rt_byteswap w x))
  | "add_sat" ->
      let ty = ity_of (next_str t) in let _ = next_int t in let _ = next_int t in
      let x = next_z t in let y = next_z t in
      (res_s okz (code_add_sat ty x y), okz (rt_add_sat ty x y))
  | "add_sat_fb" ->
      let ty = ity_of (next_str t) in let _ = next_int t in let _ = next_int t in
      let x = next_z t in let y = next_z t in
      (res_s okz (ct_add_sat ty x y), okz (rt_add_sat ty x y))
  | "strlen" ->
      let _ = next_int t in let b = next_zlist t in
      (res_s okz (ct_strlen b), opt_s okz (rt_strlen b))
  | "strcmp" ->
      let _ = next_int t in let _ = next_int t in let a = next_zlist t in let b = next_zlist t in
      (res_s okz (ct_strcmp a b), opt_s okz (rt_strcmp a b))
  | "strncmp" ->
      let _ = next_int t in let _ = next_int t in let _ = next_int t in let n = next_z t in
      let a = next_zlist t in let b = next_zlist t in
      (res_s okz (ct_strncmp a b n), opt_s okz (rt_strncmp a b n))
  | "strchr" ->
      let _ = next_int t in let _ = next_int t in let ch = next_z t in let a = next_zlist t in
      (res_s ptr_s (ct_strchr a ch), opt_s ptr_s (rt_strchr a ch))
  | "memchr" ->
      let _ = next_int t in let _ = next_int t in let _ = next_int t in
      let ch = next_z t in let n = next_z t in let a = next_zlist t in
      (res_s ptr_s (ct_memchr a ch n), opt_s ptr_s (rt_memchr a ch n))
  | "strncmp_pre" ->
      (* unterminated prefixes of exactly len characters: the model / the specification see arrays of that extent *)
      let _ = next_int t in let _ = next_int t in let _ = next_int t in let _ = next_int t in
      let _ = next_int t in let len = next_int t in let n = next_z t in
      let a = next_zlist t in let b = next_zlist t in
      let rec take k l = if k <= 0 then [] else (match l with [] -> [] | x :: r -> x :: take (k - 1) r) in
      (res_s okz (ct_strncmp (take len a) (take len b) n), opt_s okz (rt_strncmp (take len a) (take len b) n))
  | "memchr_at" ->
      (* the searched range starts at row + off: the model / the specification see the rest of the array object *)
      (* model: ct_memchr_at of coq/C13/ProofsAt.v (theorem C13_memchr_range) *)
      let _ = next_int t in let _ = next_int t in let off = next_int t in let n = next_int t in
      let ch = next_z t in let a = next_zlist t in
      let rec drop k l = if k <= 0 then l else (match l with [] -> [] | _ :: r -> drop (k - 1) r) in
      (res_s ptr_s (ct_memchr_at a (nat_of_int off) ch (nat_of_int n)), opt_s ptr_s (rt_memchr (drop off a) ch (z_of_int n)))
  | "floor" | "ceil" | "trunc" | "round" | "rint" ->
      let ty = next_str t in let f = fmt_of ty in let _ = next_int t in let x = read_f ty t in
      let (ct, rt) = (match op with
        | "floor" -> (ct_floor, rt_floor) | "ceil" -> (ct_ceil, rt_ceil) | "trunc" -> (ct_trunc, rt_trunc)
        | "round" -> (ct_round, rt_round) | _ -> (ct_rint, rt_rint)) in
      (res_s (okf ty false) (ct f x), okf ty false (rt x))
  | "lrint" | "llrint" ->
      let ty = next_str t in let f = fmt_of ty in let _ = next_int t in let x = read_f ty t in
      (res_s okz (ct_lrint f x), opt_s okz (rt_lrint x))
  | "signbit" ->
      let ty = next_str t in let f = fmt_of ty in let _ = next_int t in let x = read_f ty t in
      (okb (ct_signbit f x), okb (rt_signbit x))
  | "isnan" ->
      let ty = next_str t in let _ = next_int t in let x = read_f ty t in
      (okb (ct_isnan x), okb (rt_isnan x))
  | "isinf" ->
      let ty = next_str t in let _ = next_int t in let x = read_f ty t in
      (okb (gcem_is_inf x), okb (rt_isinf x))
  | "copysign" ->
      let ty = next_str t in let f = fmt_of ty in let _ = next_int t in let _ = next_int t in
      let x = read_f ty t in let y = read_f ty t in
      (okf ty true (ct_copysign f x y), okf ty true (rt_copysign x y))
  | "fma" ->
      let ty = next_str t in let f = fmt_of ty in
      let _ = next_int t in let _ = next_int t in let _ = next_int t in
      let x = read_f ty t in let y = read_f ty t in let z = read_f ty t in
      (okf ty false (ct_fma f x y z), okf ty false (rt_fma f x y z))
  | "fmod" | "remainder" ->
      let ty = next_str t in let f = fmt_of ty in let _ = next_int t in let _ = next_int t in
      let x = read_f ty t in let y = read_f ty t in
      let (ct, rt) = if op = "fmod" then (ct_fmod, rt_fmod) else (ct_remainder, rt_remainder) in
      (res_s (okf ty false) (ct f x y), okf ty false (rt x y))
  | "bitcast" ->
      let _ = next_str t in let _ = next_int t in let b = next_z t in
      let s = okz b in (s, s)
  | "fmod_rt" | "remainder_rt" ->
      let ty = next_str t in let _ = next_int t in let _ = next_int t in
      let x = read_f ty t in let y = read_f ty t in
      let s = okf ty false (if op = "fmod_rt" then rt_fmod x y else rt_remainder x y) in (s, s)
  | "wmemmove" ->
      let _ = next_int t in let d = next_nat t in let s = next_nat t in let n = next_nat t in let m = next_zlist t in
      let okl l = join ("ok" :: List.map str_of_z l) in
      (res_s okl (ct_memmove m d s n), okl (memmove_s m d s n))
  | "wmemmove2" ->
      let _ = next_int t in let d = next_int t in let s = next_int t in let n = next_nat t in let m = next_zlist t in
      let rec drop k l = if k <= 0 then l else (match l with [] -> [] | _ :: r -> drop (k - 1) r) in
      let rec take k l = if k <= 0 then [] else (match l with [] -> [] | x :: r -> x :: take (k - 1) r) in
      let dst = List.init 12 (fun i -> z_of_int (100 + i)) in
      let okl l = join ("ok" :: List.map str_of_z (take d dst @ l)) in
      (res_s okl (ct_memmove2 (drop d dst) (drop s m) n), okl (memcpy_s (drop d dst) (drop s m) n))
  (* single-path samples: one description, printed in both legs *)
  | "civil" ->
      let _ = next_int t in let z = next_z t in
      let s = (match civil z with
        | Some ((y, m), d) -> join [ "ok"; str_of_z y; str_of_z m; str_of_z d ] | None -> "ub") in
      (s, s)
  | "to_chars" ->
      let _ = next_int t in let v = next_z t in let s = text_s (to_chars10 v) in (s, s)
  | "sv_find" ->
      let _ = next_int t in let _ = next_int t in let _ = next_int t in let pos = next_z t in
      let a = bytes_until_nul (next_zlist t) in let b = bytes_until_nul (next_zlist t) in
      let s = okz (sv_find a b pos) in (s, s)
  | "work" ->
      let _ = next_int t in let a = bytes_until_nul (next_zlist t) in
      let ((v, sum), cnt) = work a in
      let s = join [ "ok"; zlist_s v; str_of_z sum; str_of_z cnt ] in (s, s)
  | "istr" ->
      let _ = next_int t in let _ = next_int t in
      let a = bytes_until_nul (next_zlist t) in let b = bytes_until_nul (next_zlist t) in
      let s = text_s (istr a b) in (s, s)
  | "ctype" ->
      let c = next_z t in
      let s = join ("ok" :: List.map str_of_z (ctype_all c)) in (s, s)
  | "svops" ->
      let _ = next_int t in let _ = next_int t in
      let a = bytes_until_nul (next_zlist t) in let b = bytes_until_nul (next_zlist t) in
      let s = join ("ok" :: List.map str_of_z (sv_ops a b)) in (s, s)
  | "civil_back" ->
      let _ = next_int t in let z = next_z t in
      let s = (match civil_back z with Some d -> okz d | None -> "ub") in (s, s)
  | "algo2" ->
      let _ = next_int t in let a = bytes_until_nul (next_zlist t) in
      let ((((r, fi), mx), so), ro) = algo2 a in
      let s = join [ "ok"; zlist_s r; str_of_z fi; str_of_z mx; str_of_z so; zlist_s ro ] in (s, s)
  | _ -> raise Not_found

let () = main run_case
