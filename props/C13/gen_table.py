#!/usr/bin/env python3
"""C13 — generator of the fixed, checked-in input tables (props/C13/table.inc).

The harness evaluates every function over these tables inside `constexpr` arrays (constant
evaluation) and again at run time; the case lines produced by prop.py refer to table indices
and repeat the values, so the harness can cross-check that table.inc and the generator agree.

    python3 props/C13/gen_table.py            # rewrites props/C13/table.inc
    python3 props/C13/gen_table.py --check    # exit 1 if table.inc is stale

Everything here is deterministic (fixed seed)."""
import random
import struct
import sys
from pathlib import Path

HERE = Path(__file__).resolve().parent
STRW = 12  # width of a string table row (bytes, at least one NUL, last byte always NUL)


def uniq(seq):
    seen, out = set(), []
    for x in seq:
        if x not in seen:
            seen.add(x)
            out.append(x)
    return out


def int_table(w, rng):
    """boundary values of a w-bit unsigned type"""
    m = (1 << w) - 1
    v = [0, 1, 2, 3, m, m - 1, m >> 1, (m >> 1) + 1, (m >> 1) - 1]
    for k in range(w):
        v += [1 << k, (1 << k) - 1, ((1 << k) + 1) & m, m ^ (1 << k), (m << k) & m, m >> k]
    for b in range(0, w, 8):
        v += [0xFF << b, (0x80 << b) & m, (0x01 << b), (0xA5 << b) & m]
    v += [0x0102030405060708 & m, 0xF0E0D0C0B0A09080 & m, 0x00FF00FF00FF00FF & m, 0xAAAAAAAAAAAAAAAA & m,
          0x5555555555555555 & m, 0x0123456789ABCDEF & m, 0xFEDCBA9876543210 & m, 0xDEADBEEFCAFEBABE & m]
    for _ in range(64):
        v.append(rng.getrandbits(w))
    for _ in range(32):  # sparse and dense values
        v.append(rng.getrandbits(w) & rng.getrandbits(w) & rng.getrandbits(w))
        v.append((rng.getrandbits(w) | rng.getrandbits(w) | rng.getrandbits(w)) & m)
    return uniq(x & m for x in v)


def sat_table(w, signed, rng):
    """operands for add_sat on a w-bit type (values as signed/unsigned integers)"""
    if signed:
        lo, hi = -(1 << (w - 1)), (1 << (w - 1)) - 1
        v = [lo, lo + 1, lo + 2, -2, -1, 0, 1, 2, hi - 2, hi - 1, hi, hi // 2, hi // 2 + 1, lo // 2, lo // 2 - 1, lo // 2 + 1]
    else:
        lo, hi = 0, (1 << w) - 1
        v = [0, 1, 2, hi - 2, hi - 1, hi, hi // 2, hi // 2 + 1, hi // 2 - 1]
    for _ in range(16):
        v.append(rng.randint(lo, hi))
    return uniq(v)


def float_tables(rng):
    """bit patterns of the boundary values of binary32 / binary64"""
    out = {}
    for name, p, ew in (("f32", 24, 8), ("f64", 53, 11)):
        mw = p - 1
        bias = (1 << (ew - 1)) - 1
        total = ew + mw
        signbit = 1 << total
        vals = []

        def enc(e, M):  # value M * 2^(e - mw) with 2^mw <= M < 2^p
            return ((e + bias) << mw) | (M - (1 << mw))

        expmax = (1 << ew) - 1
        # zeros, infinities, NaNs (quiet, with payload, signalling), smallest/largest subnormals and normals
        spec = [0, 1, 2, 3, (1 << mw) - 1, (1 << mw) - 2, 1 << (mw - 1), 1 << mw, (1 << mw) + 1,
                (expmax << mw) - 1, (expmax << mw) - 2, expmax << mw, (expmax << mw) | (1 << (mw - 1)),
                (expmax << mw) | (1 << (mw - 1)) | 1, (expmax << mw) | 1, (expmax << mw) | ((1 << mw) - 1)]
        vals += spec
        # every binade from 2^-4 up to 2^(p+2), and a few around 2^62..2^65: integer part n and fraction
        # patterns 0, ulp, 1/2-ulp, 1/2, 1/2+ulp, 1-ulp wherever they are representable
        ks = list(range(-4, p + 3)) + [61, 62, 63, 64, 65, 100, bias]
        for k in uniq(ks):
            if k > bias:
                continue
            lo, hi = 1 << mw, (1 << p) - 1
            Ms = {lo, lo + 1, lo + 2, hi, hi - 1, lo + (1 << (mw - 1)), lo + (1 << (mw - 1)) - 1, lo + (1 << (mw - 1)) + 1}
            # value = M * 2^(k-mw); ulp = 2^(k-mw); if k < mw the binade has fractional values
            sh = mw - k  # number of fractional bits of M
            if sh > 0:
                one = 1 << sh
                half = one >> 1
                ints = {lo >> sh, (lo >> sh) + 1, (hi >> sh), (hi >> sh) - 1, ((lo >> sh) + (hi >> sh)) // 2,
                        ((lo >> sh) + (hi >> sh)) // 2 + 1}
                for n in ints:
                    for fr in (0, 1, half - 1, half, half + 1, one - 1):
                        M = n * one + fr
                        if lo <= M <= hi and (fr == 0 or (0 < fr < one)):
                            Ms.add(M)
            for _ in range(3):
                Ms.add(rng.randint(lo, hi))
            for M in sorted(Ms):
                if lo <= M <= hi:
                    vals.append(enc(k, M))
        # tiny values around epsilon and far below
        for k in [-(p - 1) - 1, -(p - 1), -(p - 1) + 1, -30, -64, -100, -(bias - 1)]:
            if -(bias - 1) <= k:
                vals += [enc(k, 1 << mw), enc(k, (1 << mw) + 1), enc(k, (1 << p) - 1)]
        # decimal literals the documentation and tests talk about
        for d in (0.1, 0.2, 0.3, 0.49999997, 0.5, 0.6, 0.7, 0.99, 1.01, 1.3, 2.5, 2.7, 3.5, 3.7, 1e-10, 1e-20, 1e10, 1e19, 1e30,
                  0.49999999999999994, 4503599627370495.5, 9007199254740993.0, 8388607.5, 8388608.5, 16777217.0):
            if name == "f32":
                try:
                    vals.append(struct.unpack("<I", struct.pack("<f", d))[0])
                except OverflowError:
                    pass
            else:
                vals.append(struct.unpack("<Q", struct.pack("<d", d))[0])
        for _ in range(200):
            vals.append(rng.getrandbits(total))
        for _ in range(200):  # random values in the interesting exponent range
            k = rng.randint(-3, p + 1)
            vals.append(enc(k, rng.randint(1 << mw, (1 << p) - 1)))
        pos = uniq(v & (signbit - 1) for v in vals)
        allv = []
        for v in pos:
            allv += [v, v | signbit]
        out[name] = allv
    return out


# small float sub-tables for the pair / triple operations (indices into the big tables are not needed:
# these are separate arrays)
def small_float_tables():
    f32 = [0x00000000, 0x80000000, 0x3F800000, 0xBF800000, 0x7F800000, 0xFF800000, 0x7FC00000, 0xFFC00000,
           0x7FA00001, 0xFFA00001, 0x00000001, 0x80000001, 0x7F7FFFFF, 0xFF7FFFFF, 0x3DCCCCCD, 0xC1200000,
           0x3F000000, 0xBF000000, 0x40490FDB, 0x00800000]
    f64 = [0x0000000000000000, 0x8000000000000000, 0x3FF0000000000000, 0xBFF0000000000000, 0x7FF0000000000000,
           0xFFF0000000000000, 0x7FF8000000000000, 0xFFF8000000000000, 0x7FF4000000000001, 0xFFF4000000000001,
           0x0000000000000001, 0x8000000000000001, 0x7FEFFFFFFFFFFFFF, 0xFFEFFFFFFFFFFFFF, 0x3FB999999999999A,
           0xC024000000000000, 0x3FE0000000000000, 0xBFE0000000000000, 0x400921FB54442D18, 0x0010000000000000]
    return {"f32": f32, "f64": f64}


# operands for fma: products that are inexact, cancellation, exact cases, zeros.  No infinities and no NaNs:
# an operation whose result is a NaN (or that overflows) is not a constant expression (GCC rejects inf - inf,
# clang 14 every NaN result), which is the language's rule, not the library's
def fma_tables():
    f32 = [0x3DCCCCCD, 0x41200000, 0xBF800000, 0x3F800000, 0x3F800001, 0x3F7FFFFF, 0x00000000, 0x80000000,
           0x4B800001, 0xCB800001, 0x34000000, 0x00800000]
    f64 = [0x3FB999999999999A, 0x4024000000000000, 0xBFF0000000000000, 0x3FF0000000000000, 0x3FF0000000000001,
           0x3FEFFFFFFFFFFFFF, 0x0000000000000000, 0x8000000000000000,
           0x4350000000000001, 0xC350000000000001, 0x3CB0000000000000, 0x0010000000000000]
    return {"f32": f32, "f64": f64}


# operands for fmod / remainder: zeros of both signs, quotients that are exact, inexact, huge (a rounded quotient
# goes wrong there), ties for remainder, subnormals (halving an odd subnormal is inexact), limits, infinities.
# No NaNs (a NaN result is printed without sign anyway)
def fmod_tables():
    import struct
    vals = [0.0, 5.0, 3.0, -3.0, 5.5, 2.0, -2.0, 7.0, 1.0, 0.5, 2.5, 1.5, -7.5, 6.0, 0.1, 0.03, 1e10, 1e17, 3e-5, 100.0,
            -0.0, 4.0, 9.0, 0.75, float("inf"), float("-inf")]
    f32 = uniq([struct.unpack("<I", struct.pack("<f", v))[0] for v in vals] + [1, 2, 3, 5, 0x80000003, 0x00800000, 0x00800001, 0x7F7FFFFF, 0x7F7FFFFE])
    f64 = uniq([struct.unpack("<Q", struct.pack("<d", v))[0] for v in vals]
               + [1, 2, 3, 5, 0x8000000000000003, 0x0010000000000000, 0x0010000000000001, 0x7FEFFFFFFFFFFFFF, 0x7FEFFFFFFFFFFFFE])
    return {"f32": f32, "f64": f64}


def string_table(rng):
    rows = []

    def row(bs):
        bs = list(bs)[:STRW - 1]
        r = bs + [0] * (STRW - len(bs))
        rows.append(r)

    base = [b"", b"a", b"b", b"ab", b"aa", b"ba", b"abc", b"abd", b"abcd", b"abcde", b"abcdefghijk", b"abcdefghijj",
            b"\x01", b"\x7f", b"\x80", b"\xff", b"a\x80", b"a\x7f", b"a\xff", b"\xff\xff", b"\x80a", b"\x7fa",
            b"hello", b"hellp", b"hell", b"help", b"zzzzzzzzzzz", b"A", b"a\x01", b"aab", b"aba"]
    for b in base:
        row(b)
    # bytes after the first terminator must not matter
    rows.append([97, 98, 0, 99, 100, 0, 1, 2, 3, 4, 5, 0])
    rows.append([97, 98, 0, 120, 100, 0, 9, 2, 3, 4, 255, 0])
    rows.append([0, 97, 98, 99, 0, 0, 0, 0, 0, 0, 0, 0])
    rows.append([0, 255, 98, 99, 0, 0, 0, 0, 0, 0, 128, 0])
    alpha = [97, 98, 1, 127, 128, 255]
    for _ in range(14):
        n = rng.randint(0, STRW - 1)
        row(bytes(rng.choice(alpha) for _ in range(n)))
    rows = [list(t) for t in uniq(tuple(r) for r in rows)]
    for r in rows:
        assert len(r) == STRW and r[-1] == 0
    return rows


def ld_table():
    """long double (x87 extended, precision 64) values as (cls, sign, mantissa, exponent): cls 0 = zero,
    1 = finite m * 2^e, 2 = infinity, 3 = NaN"""
    v = []
    for s in (0, 1):
        v += [(0, s, 0, 0), (2, s, 0, 0), (3, s, 0, 0)]
        for m, e in [(1, 0), (3, -1), (5, -1), (7, -1), (1, -1), (1, -2), (3, -2), (1, -70), (1, -16445), (1, 62), (1, 63), (1, 64),
                     (1, 100), ((1 << 64) - 1, 0), ((1 << 64) - 1, -1), ((1 << 64) - 1, -2), ((1 << 64) - 3, -1), ((1 << 63) + 1, -1),
                     ((1 << 63) + 1, 0), ((1 << 63) - 1, 0), ((1 << 63) - 1, -1), ((1 << 63) - 3, -1), ((1 << 62) + 1, -1), (9, -2), (11, -2),
                     (0x123456789ABCDEF1, -20), (0x123456789ABCDEF1, -60), (0xFFFFFFFFFFFFFFFF, -64), (0x8000000000000001, -64),
                     (0x8000000000000001, -63), (1, 16383), ((1 << 64) - 1, 16320), (3, 16380), (21, -3), (13, -2), (1, -63), (1, -64)]:
            v.append((1, s, m, e))
    return v


def ld_fmod_table():
    """long double operands for fmod / remainder: (cls, sign, mantissa, exponent) like ld_table; moderate exponent
    gaps only (the extracted model and the constant evaluator walk one binade per iteration; subnormal long doubles
    against normal ones would be 16000 iterations on 16000-bit integers per case)"""
    v = []
    for s in (0, 1):
        v += [(0, s, 0, 0), (2, s, 0, 0)]
        for m, e in [(5, 0), (3, 0), (1, 0), (1, -1), (11, -1), (7, -2), ((1 << 64) - 1, 0), ((1 << 64) - 1, -30), ((1 << 63) + 1, -63),
                     (1, 64), (3, 40), (0x123456789ABCDEF1, -70), (1, -130), (3, -130)]:
            v.append((1, s, m, e))
    return v


def tables():
    rng = random.Random(20260926)
    t = {}
    t["u8"] = list(range(256))
    for w in (16, 32, 64):
        t[f"u{w}"] = int_table(w, rng)
    for w in (16, 32, 64):
        t[f"sat_i{w}"] = sat_table(w, True, rng)
        t[f"sat_u{w}"] = sat_table(w, False, rng)
    ft = float_tables(rng)
    t["f32"], t["f64"] = ft["f32"], ft["f64"]
    sf = small_float_tables()
    t["sf32"], t["sf64"] = sf["f32"], sf["f64"]
    fm = fma_tables()
    t["fma32"], t["fma64"] = fm["f32"], fm["f64"]
    fmd = fmod_tables()
    t["fmod32"], t["fmod64"] = fmd["f32"], fmd["f64"]
    t["str"] = string_table(rng)
    t["ld"] = ld_table()
    t["ldfm"] = ld_fmod_table()
    # inputs of the single-path samples
    t["days"] = uniq([0, 1, -1, 59, 60, 365, 366, 10957, 11016, 11017, 19000, 20000, -719468, -719469, 2932896, -12687428,
                      11248737, 146096, 146097, -146097, -146098] + [rng.randint(-12687428, 11248737) for _ in range(40)])
    t["conv"] = uniq([0, 1, -1, 9, 10, 11, 99, 100, 101, -9, -10, -99, -100, 2**31 - 1, -2**31, 2**31, 2**63 - 1, -2**63,
                      -2**63 + 1, 10**18, -10**18, 10**18 - 1, 1234567890123456789] + [rng.randint(-2**63, 2**63 - 1) for _ in range(30)]
                     + [rng.randint(-10**k, 10**k) for k in range(1, 19)])
    return t


def render(t):
    L = []
    L.append("// GENERATED by props/C13/gen_table.py -- do not edit; regenerate with `python3 props/C13/gen_table.py`.")
    L.append("// Fixed input tables of the C13 harness (constant evaluation needs inputs known at compile time).")
    L.append("#pragma once")
    L.append(f"inline constexpr int STRW = {STRW};")

    def arr(ctype, name, vals, suffix):
        L.append(f"inline constexpr {ctype} {name}[] = {{")
        row = []
        for v in vals:
            if v < 0 and suffix == "LL" and v == -2**63:
                row.append("(-9223372036854775807LL - 1)")
            else:
                row.append(f"{v}{suffix}")
            if len(row) == 8:
                L.append("    " + ", ".join(row) + ",")
                row = []
        if row:
            L.append("    " + ", ".join(row) + ",")
        L.append("};")

    arr("unsigned char", "T_U8", t["u8"], "")
    arr("unsigned short", "T_U16", t["u16"], "")
    arr("unsigned int", "T_U32", t["u32"], "U")
    arr("unsigned long long", "T_U64", t["u64"], "ULL")
    arr("short", "T_SAT_I16", t["sat_i16"], "")
    arr("unsigned short", "T_SAT_U16", t["sat_u16"], "")
    arr("long long", "T_SAT_I32", t["sat_i32"], "LL")  # stored wide, converted by the harness
    arr("unsigned int", "T_SAT_U32", t["sat_u32"], "U")
    arr("long long", "T_SAT_I64", t["sat_i64"], "LL")
    arr("unsigned long long", "T_SAT_U64", t["sat_u64"], "ULL")
    arr("unsigned int", "T_F32", t["f32"], "U")
    arr("unsigned long long", "T_F64", t["f64"], "ULL")
    arr("unsigned int", "T_SF32", t["sf32"], "U")
    arr("unsigned long long", "T_SF64", t["sf64"], "ULL")
    arr("unsigned int", "T_FMA32", t["fma32"], "U")
    arr("unsigned long long", "T_FMA64", t["fma64"], "ULL")
    arr("unsigned int", "T_FMOD32", t["fmod32"], "U")
    arr("unsigned long long", "T_FMOD64", t["fmod64"], "ULL")
    arr("long long", "T_DAYS", t["days"], "LL")
    arr("long long", "T_CONV", t["conv"], "LL")
    L.append("inline constexpr char T_STR[][STRW] = {")
    for r in t["str"]:
        L.append("    {" + ", ".join(f"static_cast<char>({b})" for b in r) + "},")
    L.append("};")
    L.append("struct ld_rep { int cls; int sign; unsigned long long m; int e; };")
    L.append("inline constexpr ld_rep T_LD[] = {")
    for (c, s, m, e) in t["ld"]:
        L.append(f"    {{{c}, {s}, {m}ULL, {e}}},")
    L.append("};")
    L.append("inline constexpr ld_rep T_LDFM[] = {")
    for (c, s, m, e) in t["ldfm"]:
        L.append(f"    {{{c}, {s}, {m}ULL, {e}}},")
    L.append("};")
    return "\n".join(L) + "\n"


def main():
    txt = render(tables())
    path = HERE / "table.inc"
    if "--check" in sys.argv:
        ok = path.exists() and path.read_text() == txt
        print("table.inc up to date" if ok else "table.inc is STALE: run python3 props/C13/gen_table.py")
        return 0 if ok else 1
    path.write_text(txt)
    t = tables()
    print("wrote", path, {k: len(v) for k, v in t.items()})
    return 0


if __name__ == "__main__":
    sys.exit(main())
