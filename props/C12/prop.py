"""C12 — duration arithmetic and rounding casts: case generators and configuration.

Case line:  <op> <i> <j> <rc> <N1> <D1> <w1> <N2> <D2> <w2> <args...>
(i, j, rc index the harness' compile-time tables; N D w repeat the same information for the
OCaml driver.)  Every generated case lies inside the documented domain of its operation (the
python predicates below mirror coq/C12/Spec.v *_ok), because outside it the C++ code has
undefined behaviour (signed overflow) that the harness cannot observe as an outcome.
"""
from math import gcd
import math
import struct
from fractions import Fraction

ID = "C12"
LEVEL = "proof"
# translator tie: concrete instantiations of duration_cast / floor / ceil / round / abs and of duration + - % / are
# regenerated from /repo on every run (translate/kernels_duration.json + translate/tu_duration.cpp) and re-proved equal to
# the hand models for all arguments (coq/C12/GenEquiv.v, Properties_gen.v)
TRANSLATE = [("translate/kernels_duration.json", "coq/Gen/Gen_duration.v")]
# --nofork: the code under test is pure integer arithmetic on in-domain inputs (no crash isolation needed;
# a crash fails the run), and one write per case would dominate the run time
# The harness instantiates ~215 (period pair, rep pair) combinations: compiled as 4 parts in parallel by pcxx.py
# (~12 s instead of ~35 s; it has to be rebuilt whenever /repo/include changes).
import os as _os
_PCXX = _os.path.join(_os.path.dirname(_os.path.abspath(__file__)), "pcxx.py")
HARNESSES = [{"name": "main", "src": "harness.cpp", "compiler": _PCXX,
              "flags": ["-O0", "-DTETL_ENABLE_CONTRACT_CHECKS=1", "-DC12_NPARTS=4"], "args": ["--nofork"]},
             # the double SOURCE representation (ops d_*) is a separate build of the same file: a library change that
             # breaks mixed int/double code at compile time then still leaves the main variant running
             {"name": "fsrc", "src": "harness.cpp", "compiler": _PCXX,
              "flags": ["-O0", "-DTETL_ENABLE_CONTRACT_CHECKS=1", "-DC12_NPARTS=4", "-DC12_FSRC=1"], "args": ["--nofork"]},
             # representation types of either signedness and of 8..64 bits (ops u_*): own source file, own variant
             {"name": "urep", "src": "harness_u.cpp", "compiler": _PCXX,
              "flags": ["-O0", "-DTETL_ENABLE_CONTRACT_CHECKS=1", "-DC12_NPARTS=4"], "args": ["--nofork"]},
             # thorough only: the urep harness under UBSan (trap mode): every u_* case must run trap-free (the generator
             # filters undefined behaviour with a mirror of the model) and the uub_* cases must trap exactly where the
             # model says Ub (signed overflow in int / long after integral promotion, division by zero)
             {"name": "urep_ubsan", "src": "harness_u.cpp", "compiler": _PCXX, "thorough_only": True,
              "flags": ["-O0", "-DTETL_ENABLE_CONTRACT_CHECKS=1", "-DC12_NPARTS=4", "-DC12_UBSAN=1",
                        "-fsanitize=signed-integer-overflow,integer-divide-by-zero", "-fsanitize-undefined-trap-on-error"],
              "env": {"C12_UB_LEG": "1"}},
             # thorough only: UBSan in trap mode, one supervised child (a trap = "crash 4"); executes the "ub_*" cases
             # (inputs on which the model says Ub) and re-runs every in-domain case under the sanitizer
             {"name": "ubsan", "src": "harness.cpp", "compiler": _PCXX, "thorough_only": True,
              "flags": ["-O0", "-DTETL_ENABLE_CONTRACT_CHECKS=1", "-DC12_NPARTS=4", "-DC12_UBSAN=1",
                        "-fsanitize=signed-integer-overflow,integer-divide-by-zero", "-fsanitize-undefined-trap-on-error"],
              "env": {"C12_UB_LEG": "1"}}]

RULE = ("for every ordered pair of the 10 periods {nano, micro, milli, 1, 60, 3600, 86400, 1/3, 5/7, 1001/30000} "
        "(int64 reps): every count in [-2000, 2000] through duration_cast/floor/ceil/round, plus exact ties, exact "
        "multiples, their neighbours, values around +-2^31 and +-2^62 and the largest representable counts; the same "
        "on a stride for the int32/int32, int32/int64, int64/int32 rep combinations, for time_point wrappers, and for "
        "extra periods (weeks, months, years, pico, two unnormalised ratios); +,-,/,%,comparisons,common type, "
        "converting constructors, member operators, abs on crossed count sets incl. equal-value pairs; all cases "
        "filtered to the representable domain; non-trivial = distinct case line whose impl outcome is ok")

TRUSTED_BASE = ["reference leg: libstdc++ 12 std::chrono with the same ratios/reps, cross-checked in the harness "
                "against exact __int128 rational arithmetic",
                "floating-point representation legs (fcast_if, fconv_if): OCaml double mirror, tested only"]
ASSUMPTIONS = ["LP64: int is 32 bits, long = intmax_t is 64 bits, two's complement",
               "representation types are signed 32- or 64-bit integers (floating reps: tested only)"]

PER = [(1, 10**9), (1, 10**6), (1, 1000), (1, 1), (60, 1), (3600, 1), (86400, 1), (1, 3), (5, 7), (1001, 30000),
       (604800, 1), (2629746, 1), (31556952, 1), (1, 10**12), (120, 2), (3, 9)]
NP = len(PER)
CORE = 10
RCS = [(64, 64), (32, 32), (32, 64), (64, 32)]
MAX64 = 2**63 - 1


def norm(p):
    g = gcd(p[0], p[1])
    return (p[0] // g, p[1] // g)


def fits(w, x):
    return -(1 << (w - 1)) <= x <= (1 << (w - 1)) - 1


def factor_ok(i, j):
    n1, d1 = norm(PER[i])
    n2, d2 = norm(PER[j])
    return n1 * d2 <= MAX64 and d1 * n2 <= MAX64


NARROW = {(2, 3), (3, 2), (0, 3), (3, 0), (4, 5), (5, 4), (4, 6), (6, 4), (5, 6), (6, 5), (6, 3), (3, 6), (9, 7), (7, 9),
          (8, 9), (9, 8), (6, 6), (7, 8), (4, 2), (2, 4)}


def enabled(i, j, rc):
    """mirror of harness.cpp enabled(): which (i, j, rc) the harness instantiates"""
    if not factor_ok(i, j):
        return False
    if i < CORE and j < CORE:
        return rc == 0 or (i, j) in NARROW
    if rc != 0:
        return False
    partner = lambda k: k in (0, 3, 6, 8)
    return i == j or partner(i) or partner(j)


# ---- python mirror of Spec.v ---------------------------------------------------------------
def tquot(a, b):
    q = abs(a) // abs(b)
    return q if (a >= 0) == (b >= 0) else -q


def trem(a, b):
    return a - b * tquot(a, b)


class Pair:
    def __init__(self, i, j, rc):
        self.i, self.j, self.rc = i, j, rc
        self.n1, self.d1 = norm(PER[i])
        self.n2, self.d2 = norm(PER[j])
        self.w1, self.w2 = RCS[rc]
        self.wc = max(self.w1, self.w2)
        self.A = self.n1 * self.d2
        self.B = self.d1 * self.n2
        G = gcd(self.A, self.B)
        self.cn, self.cd = self.A // G, self.B // G
        self.g = gcd(self.n1, self.n2)
        self.l = self.d1 // gcd(self.d1, self.d2) * self.d2
        self.f1 = (self.n1 * self.l) // (self.d1 * self.g)
        self.f2 = (self.n2 * self.l) // (self.d2 * self.g)
        self.common_ok = self.l <= MAX64 and self.f1 <= MAX64 and self.f2 <= MAX64   # = Spec.common_ok

    def head(self, op):
        N1, D1 = PER[self.i]
        N2, D2 = PER[self.j]
        return f"{op} {self.i} {self.j} {self.rc} {N1} {D1} {self.w1} {N2} {D2} {self.w2}"

    def swapped(self):
        rcs = {0: 0, 1: 1, 2: 3, 3: 2}[self.rc]
        return Pair(self.j, self.i, rcs)

    def cast(self, c):
        return tquot(c * self.A, self.B)

    def floor(self, c):
        return (c * self.A) // self.B

    def ceil(self, c):
        return -((-(c * self.A)) // self.B)

    def round(self, c):
        q = self.floor(c)
        r = c * self.A - q * self.B
        if 2 * r < self.B:
            return q
        if 2 * r > self.B:
            return q + 1
        return q if q % 2 == 0 else q + 1

    def cast_ok(self, c):
        return fits(self.w1, c) and fits(64, c * self.cn) and fits(self.w2, self.cast(c))

    def both_ok(self, c1, c2):
        return (self.common_ok and fits(self.w1, c1) and fits(self.w2, c2)
                and fits(self.wc, c1 * self.f1) and fits(self.wc, c2 * self.f2))

    def plus_ok(self, c1, c2):
        return self.both_ok(c1, c2) and fits(self.wc, c1 * self.f1 + c2 * self.f2)

    def minus_ok(self, c1, c2):
        return self.both_ok(c1, c2) and fits(self.wc, c1 * self.f1 - c2 * self.f2)

    def div_ok(self, c1, c2):
        return self.both_ok(c1, c2) and c2 != 0 and fits(self.wc, tquot(c1 * self.f1, c2 * self.f2))

    def floor_ok(self, c):
        return self.cast_ok(c) and self.both_ok(c, self.cast(c)) and fits(self.w2, self.floor(c))

    def ceil_ok(self, c):
        return self.cast_ok(c) and self.both_ok(c, self.cast(c)) and fits(self.w2, self.ceil(c))

    def round_ok(self, c):
        if not self.floor_ok(c):
            return False
        f = self.floor(c)
        return fits(self.w2, f + 1) and self.minus_ok(c, f) and self.swapped().minus_ok(f + 1, c)

    def rnd4_ok(self, c):
        return self.round_ok(c) and self.ceil_ok(c)


def modinv(a, m):
    return pow(a, -1, m)


def interesting_counts(P, rng, nrand):
    """counts aimed at the case splits: exact multiples, exact ties, neighbours, type limits"""
    out = set()
    cn, cd = P.cn, P.cd
    # exact multiples of the denominator (cast is exact) and neighbours
    for k in (-3, -2, -1, 0, 1, 2, 3, 1000, -1000, 12345, -12345):
        for e in (-1, 0, 1):
            out.add(k * cd + e)
    # exact ties: c*cn = cd/2 (mod cd), possible when cd is even
    if cd % 2 == 0 and cd > 1:
        c0 = (cd // 2) * modinv(cn % cd, cd) % cd if cd > 1 else 0
        for k in (-4, -3, -2, -1, 0, 1, 2, 3, 4, 1001, -1002):
            for e in (-1, 0, 1):
                out.add(c0 + k * cd + e)
    # around powers of two and the representability limits of source, product and result
    lim_src = (1 << (P.w1 - 1)) - 1
    lim_prod = MAX64 // cn
    lim_res = (((1 << (P.w2 - 1)) - 1) * P.B) // P.A
    lim_common = (((1 << (P.wc - 1)) - 1) // P.f1) if P.common_ok else lim_prod
    for base in (1 << 31, 1 << 62, 1 << 30, 1 << 15, lim_src, lim_prod, lim_res, lim_common,
                 min(lim_src, lim_prod, lim_res), min(lim_src, lim_prod, lim_res, lim_common),
                 min(lim_src, lim_prod, lim_res, lim_common) // 2):
        for e in range(-3, 4):
            out.add(base + e)
            out.add(-base + e)
    hi = max(1, min(lim_src, lim_prod, lim_res, lim_common))
    for _ in range(nrand):
        out.add(rng.randint(-hi, hi))
        out.add(rng.randint(-min(hi, 10**6), min(hi, 10**6)))
    return sorted(out)


def dbits(x):
    return struct.unpack("<Q", struct.pack("<d", x))[0]


FBASE = [0.0, -0.0, 1.0, -1.0, 0.5, -0.5, 1.5, 2.5, -2.5, 3.5, -3.5, 1.0 / 3, -2.0 / 3, 0.1, 1e-9, 7.0, 1000.0, 1500.0,
         -1500.5, 90.0, 30.0, 86399.5, 2.0**52 + 1.0, -(2.0**53), 123456789.123, 59.99999999999999, 60.00000000000001]


def float_source_cases(P, rng, quick):
    """duration<double, P1> arguments as bit patterns; every case stays where double -> int64 is defined"""
    out = []
    h = P.head
    F = Fraction(P.A, P.B)           # exact conversion factor
    xs = list(FBASE) + [rng.uniform(-1e6, 1e6), rng.uniform(-10, 10), float(rng.randint(-10**9, 10**9))]
    # arguments whose exact image is a tie (k + 1/2) or an integer k, when such a double exists
    for k in (-3, -2, -1, 0, 1, 2, 3, 1000, -1001):
        for num in (2 * k + 1, 2 * k):
            x = Fraction(num, 2) / F
            if Fraction(float(x)) == x:
                xs.append(float(x))
                xs.append(math.nextafter(float(x), math.inf))
                xs.append(math.nextafter(float(x), -math.inf))
    if not quick:
        xs += [rng.uniform(-1e12, 1e12) for _ in range(200)] + [float(c) for c in range(-50, 51)]
    seen = set()
    for x in xs:
        b = dbits(x)
        if b in seen:
            continue
        seen.add(b)
        out.append(f"{h('d_cast')} {b}")
        if abs(Fraction(x) * F) < 2**62:
            out.append(f"{h('d_rnd4')} {b}")
    ys = [1.0, -1.0, 0.5, 2.5, -1.0 / 3, 1000.0, 7.25, rng.uniform(-100, 100)]
    xa = [0.0, 1.0, -1.0, 1.5, 1.0 / 3, 1000.0, -7.25, 2.0**53, rng.uniform(-100, 100)]
    if quick:
        xa, ys = xa[::2] + [xa[1]], ys[::2] + [ys[1]]
    # equal values: x * n1/d1 == y * n2/d2
    pairs = [(x, y) for x in xa for y in ys] + [(float(P.cd), float(P.cn)), (-float(P.cd) / 2, -float(P.cn) / 2)]
    for (x, y) in pairs:
        out.append(f"{h('d_arith')} {dbits(x)} {dbits(y)}")
    # mixed representations: an int64 count with a double count / a double scalar
    cs = [0, 1, -1, 7, -1500, 86400, 2**53 + 1, -(2**62), rng.randint(-10**9, 10**9)]
    ym = [1.0, -0.5, 2.5, 1.0 / 3, 1000.0, -7.25, 1e-9, 2.0**53, rng.uniform(-1e6, 1e6)]
    if quick:
        cs, ym = cs[::2], ym[::2] + [ym[1]]
    for c in cs:
        for y in ym:
            out.append(f"{h('d_mixed')} {c} {dbits(y)}")
            if c != 0 and P.i == P.j:
                out.append(f"{h('d_scalar')} {c} {dbits(y)}")
    for t in (1, -2, 1000):   # equal values c * n1/d1 == y * n2/d2
        out.append(f"{h('d_mixed')} {t * P.cd} {dbits(float(t * P.cn))}")
    # whole-valued counts (the domain of the theorems about + - < == on double durations): small values, equal
    # values, neighbours, values near 2^53 / factor; and a few fractional ones (spec leg na)
    lim1 = (2**53 // P.f1) if P.common_ok else 0
    lim2 = (2**53 // P.f2) if P.common_ok else 0
    w1 = [0, 1, -1, 7, -60, 1000, 86399, -2500, lim1 // 2, -(lim1 // 3), rng.randint(-10**6, 10**6)]
    w2 = [0, 1, -1, 3, 59, -1000, 30000, lim2 // 2, -(lim2 // 3), rng.randint(-10**6, 10**6)]
    if quick:
        w1, w2 = w1[::3], w2[::3]
    wp = [(a, b) for a in w1 for b in w2] + [(t * P.cd + e1, t * P.cn + e2) for t in ((1, -3) if quick else (0, 1, -3, 1000))
                                            for e1 in (-1, 0, 1) for e2 in (-1, 0, 1)]
    for (a, b) in wp:
        if abs(a) <= 2**53 and abs(b) <= 2**53:
            out.append(f"{h('d_pm')} {dbits(float(a))} {dbits(float(b))}")
            out.append(f"{h('d_mpm')} {a} {dbits(float(b))}")
    for (x, y) in [(1.5, 2.0), (0.1, -3.0), (2.0**52 + 0.5, 1.0)]:
        out.append(f"{h('d_pm')} {dbits(x)} {dbits(y)}")
        out.append(f"{h('d_mpm')} 7 {dbits(x)}")
    return out



# ---- representation types of either signedness and of 8..64 bits (ops u_*, harness_u.cpp) -----------------
# Python mirror of coq/C12/UModel.v, used ONLY to keep undefined behaviour out of the generated cases (the harness
# executes the C++; signed overflow in int / long, division by zero).  Values outside the documented domain that
# merely wrap are generated on purpose (compared with std::chrono and the model; spec leg "na").
UREPS = [8, 16, 32, 64, -8, -16, -32, -64]
UPER = [(1, 1000), (1, 1), (60, 1), (1, 3), (5, 7), (1001, 30000)]
USEL = {(3, 6), (6, 3), (3, 5), (5, 5), (2, 6), (6, 2), (7, 3), (3, 7), (1, 1), (0, 4), (4, 0), (7, 6), (1, 5), (5, 2),
        (2, 5), (0, 3), (6, 6), (7, 7)}


def uenabled(i, j, a, b):
    """mirror of harness_u.cpp uenabled()"""
    if (i, j) in ((1, 1), (0, 1)):
        return True
    if (i, j) in ((1, 0), (2, 1), (3, 4), (5, 0)):
        return (a, b) in USEL
    return False


class UBError(Exception):
    pass


def rmin(r):
    return -(1 << (r - 1)) if r > 0 else 0


def rmax(r):
    return (1 << (r - 1)) - 1 if r > 0 else (1 << -r) - 1


def in_r(r, x):
    return rmin(r) <= x <= rmax(r)


def cvt(r, x):
    m = 1 << abs(r)
    y = x % m
    return y - m if (r > 0 and y > rmax(r)) else y


def promote(r):
    return 32 if abs(r) < 32 else r


def uac(r1, r2):
    p1, p2 = promote(r1), promote(r2)
    if p1 == p2:
        return p1
    if p1 > 0 and p2 > 0:
        return max(p1, p2)
    if p1 < 0 and p2 < 0:
        return min(p1, p2)
    u, sg = min(p1, p2), max(p1, p2)
    return u if sg <= -u else sg


def common_rep(r1, r2):
    return r1 if r1 == r2 else uac(r1, r2)


def cr3(rto, rfrom):
    return common_rep(common_rep(rto, rfrom), 64)


def ar(t, v):
    if t > 0:
        if not in_r(t, v):
            raise UBError()
        return v
    return cvt(t, v)


def binop(op, ra, rb, x, y):
    t = uac(ra, rb)
    x, y = cvt(t, x), cvt(t, y)
    if op == '+':
        return ar(t, x + y)
    if op == '-':
        return ar(t, x - y)
    if op == '*':
        return ar(t, x * y)
    if y == 0 or (t > 0 and x == rmin(t) and y == -1):
        raise UBError()
    return tquot(x, y) if op == '/' else trem(x, y)


class UDur:
    def __init__(self, r, n, d):
        g = gcd(n, d)
        self.r, self.n, self.d = r, n // g, d // g

    def same(self, o):
        return (self.r, self.n, self.d) == (o.r, o.n, o.d)


def ucommon(a, b):
    return UDur(common_rep(a.r, b.r), gcd(a.n, b.n), a.d // gcd(a.d, b.d) * b.d)


def ufactor(a, b):
    A, B = a.n * b.d, a.d * b.n
    g = gcd(A, B)
    return A // g, B // g


def uconv(a, t, c):
    """converting constructor a -> t (the factor is a whole number here)"""
    if a.same(t):
        return c
    cn, cd = ufactor(a, t)
    assert cd == 1
    cr = cr3(t.r, a.r)
    p = binop('*', cr, 64, cvt(cr, c), cn)
    q = binop('/', uac(cr, 64), 64, p, cd)
    return cvt(t.r, q)


def ucast(a, t, c):
    cn, cd = ufactor(a, t)
    cr = cr3(t.r, a.r)
    x = cvt(cr, c)
    if cn == 1 and cd == 1:
        v = c
    elif cn == 1:
        v = binop('/', cr, cr, x, cvt(cr, cd))
    elif cd == 1:
        v = binop('*', cr, cr, x, cvt(cr, cn))
    else:
        v = binop('/', cr, cr, binop('*', cr, cr, x, cvt(cr, cn)), cvt(cr, cd))
    return cvt(t.r, v)


def ubin(op, a, b, c1, c2):
    """a op b for + - / % < ==; raises UBError where the C++ has undefined behaviour"""
    t = ucommon(a, b)
    x, y = uconv(a, t, c1), uconv(b, t, c2)
    if op in ('<', '=='):
        tt = uac(t.r, t.r)
        return cvt(tt, x) < cvt(tt, y) if op == '<' else cvt(tt, x) == cvt(tt, y)
    return cvt(t.r, binop(op, t.r, t.r, x, y))


def ufloor(a, t, c):
    v = ucast(a, t, c)
    if ubin('<', a, t, c, v):
        return cvt(t.r, binop('-', t.r, t.r, v, 1))
    return v


def uceil(a, t, c):
    v = ucast(a, t, c)
    if ubin('<', t, a, v, c):
        return cvt(t.r, binop('+', t.r, t.r, v, 1))
    return v


def uround(a, t, c):
    low = ufloor(a, t, c)
    high = ubin('+', t, t, low, 1)
    lo = ubin('-', a, t, c, low)
    hi = ubin('-', t, a, high, c)
    cd = ucommon(a, t)
    if ubin('<', cd, cd, lo, hi):
        return low
    if ubin('<', cd, cd, hi, lo):
        return high
    return high if low % 2 == 1 else low


def no_ub(fn, *args):
    try:
        fn(*args)
        return True
    except UBError:
        return False


UVALS = [0, 1, 2, 3, 5, 7, 59, 60, 61, 100, 127, 128, 129, 200, 255, 256, 999, 1000, 1500, 2500, 3500, 30000, 32767,
         32768, 46341, 65535, 65536, 86400, (1 << 31) - 1, 1 << 31, (1 << 32) - 1, 1 << 32, 3037000500, (1 << 63) - 1,
         1 << 63, (1 << 64) - 1]


def uvalues(r, rng, k):
    """counts of the type r: small ones, the limits of every narrower type, the type's own limits, a few random"""
    pool = [v for v in UVALS if in_r(r, v)] + [-v for v in UVALS if v and in_r(r, -v)]
    pool += [rmax(r), rmax(r) - 1, rmin(r), rmin(r) + 1, rmax(r) // 2, rmax(r) // 1000]
    pool = sorted(set(v for v in pool if in_r(r, v)))
    pick = set(rng.sample(pool, min(k, len(pool))))
    pick.update((0, 1, rmax(r), rmin(r), 5, rng.randint(rmin(r), rmax(r)), rng.randint(max(rmin(r), -3000), min(rmax(r), 3000))))
    return sorted(v for v in pick if in_r(r, v))


FLPAIRS = [(0, 1), (1, 0), (2, 1), (3, 4), (5, 0)]


def gen_urep(tier, rng):
    out = []
    quick = tier == "quick"
    z = "0 0 0 1 1 64 1 1 64"
    for t in ("u_pq", "u_pqovf", "u_ctor", "u_lcmwrap", "u_spaceship"):
        out.append(f"{t} {z}")
    # float / long double representations (compared with std::chrono inside the harness): values whose images stay far
    # inside int64 (a float -> int64 conversion out of range is undefined)
    for (i, j) in FLPAIRS:
        (N1, D1), (N2, D2) = UPER[i], UPER[j]
        F = Fraction(N1 * D2, D1 * N2)
        xs = list(FBASE) + [rng.uniform(-1e6, 1e6), rng.uniform(-10, 10), float(rng.randint(-10**6, 10**6))]
        for k in (-2, -1, 0, 1, 2, 1000):
            for num in (2 * k + 1, 2 * k):
                x = Fraction(num, 2) / F
                if Fraction(float(x)) == x:
                    xs += [float(x), math.nextafter(float(x), math.inf), math.nextafter(float(x), -math.inf)]
        ys = [1.0, -0.5, 3.0, 1000.0, 7.25, rng.uniform(-100, 100)]
        if quick:
            xs = xs[::2]
            ys = ys[::2]
        for x in xs:
            if abs(Fraction(x) * F) >= 2**40 or abs(x) >= 2**40:
                continue
            for y in ys:
                out.append(f"u_fl {i} {j} 0 {N1} {D1} 64 {N2} {D2} 64 {dbits(x)} {dbits(y)}")
    for i in range(len(UPER)):
        for j in range(len(UPER)):
            for a in range(8):
                for b in range(8):
                    if not uenabled(i, j, a, b):
                        continue
                    r1, r2 = UREPS[a], UREPS[b]
                    (N1, D1), (N2, D2) = UPER[i], UPER[j]
                    A, B = UDur(r1, N1, D1), UDur(r2, N2, D2)
                    head = f"{i} {j} {a * 8 + b} {N1} {D1} {r1} {N2} {D2} {r2}"
                    h = lambda op: f"{op} {head}"
                    out.append(h("u_ctype"))
                    out.append(h("u_limits"))
                    k = 5 if quick else 10
                    v1, v2 = uvalues(r1, rng, k), uvalues(r2, rng, k)
                    pairs = {(x, y) for x in v1 for y in v2}
                    # equal values and neighbours
                    cn, cd = ufactor(A, B)
                    for t in (0, 1, 2, 17, -1, -3, rng.randint(-100, 100)):
                        for e1 in (-1, 0, 1):
                            for e2 in (-1, 0, 1):
                                pairs.add((t * cd + e1, t * cn + e2))
                    pairs = sorted(p for p in pairs if in_r(r1, p[0]) and in_r(r2, p[1]))
                    if quick and len(pairs) > 22:
                        pairs = rng.sample(pairs, 22)
                    for (c1, c2) in pairs:
                        if no_ub(ubin, '+', A, B, c1, c2):
                            out.append(f"{h('u_plus')} {c1} {c2}")
                        if no_ub(ubin, '-', A, B, c1, c2):
                            out.append(f"{h('u_minus')} {c1} {c2}")
                        if no_ub(ubin, '/', A, B, c1, c2):
                            out.append(f"{h('u_div')} {c1} {c2}")
                            out.append(f"{h('u_mod')} {c1} {c2}")
                        if no_ub(ubin, '<', A, B, c1, c2) and no_ub(ubin, '<', B, A, c2, c1):
                            out.append(f"{h('u_cmp')} {c1} {c2}")
                    # duration<r1, P1> op scalar of type r2
                    if i == j or (a, b) in USEL:
                        S = UDur(common_rep(r1, r2), N1, D1)
                        for c in (rng.sample(v1, min(5, len(v1))) if quick else v1):
                            for x in (rng.sample(v2, min(5, len(v2))) if quick else v2):
                                if x == 0:
                                    continue

                                def sc(c=c, x=x):
                                    y = uconv(A, S, c)
                                    binop('*', S.r, r2, y, x)
                                    binop('/', S.r, r2, y, x)
                                if no_ub(sc):
                                    out.append(f"{h('u_scalar')} {c} {x}")
                    # conversions of one count
                    integral = cd == 1
                    for c in uvalues(r1, rng, 3 if quick else 30) + [t * cd + e for t in ((1, -2) if quick else (1, 2, 3, -1, -2)) for e in (-1, 0, 1)] \
                            + [(2 * t + 1) * cd // 2 + e for t in ((0, 1, -2) if quick else (0, 1, 2, -1, -2)) for e in (-1, 0, 1)]:
                        if not in_r(r1, c):
                            continue
                        if not integral or no_ub(uconv, A, B, c):
                            out.append(f"{h('u_conv')} {c}")
                        if no_ub(ucast, A, B, c) and no_ub(ufloor, A, B, c) and no_ub(uceil, A, B, c) and no_ub(uround, A, B, c):
                            out.append(f"{h('u_rnd4')} {c}")
                        elif no_ub(ucast, A, B, c):
                            out.append(f"{h('u_cast')} {c}")
                    # ---- undefined behaviour (thorough tier, UBSan variant): the model says Ub exactly here
                    if not quick:
                        rc_ = common_rep(r1, r2)
                        big1 = [rmax(r1), rmin(r1), rmax(r1) // 2 + 1, rmin(r1) // 2 - 1, 1, 0, -1 if r1 > 0 else 2, 65535, 46341]
                        big2 = [rmax(r2), rmin(r2), rmax(r2) // 2 + 1, rmin(r2) // 2 - 1, 1, 0, -1 if r2 > 0 else 2, 65535, 46341]
                        for c1 in big1:
                            for c2 in big2:
                                if not (in_r(r1, c1) and in_r(r2, c2)):
                                    continue
                                # only operands that convert to the common type without undefined behaviour
                                if not (no_ub(ubin, '<', A, B, c1, c2)):
                                    continue
                                for o, nm in (('+', 'uub_plus'), ('-', 'uub_minus'), ('/', 'uub_div'), ('/', 'uub_mod')):
                                    if not no_ub(ubin, o, A, B, c1, c2):
                                        out.append(f"{h(nm)} {c1} {c2}")
                                if i == j or (a, b) in USEL:
                                    S = UDur(rc_, N1, D1)

                                    def scu(c=c1, x=c2):
                                        y = uconv(A, S, c)
                                        binop('*', S.r, r2, y, x)
                                        binop('/', S.r, r2, y, x)
                                    if not no_ub(scu) and no_ub(uconv, A, S, c1):
                                        out.append(f"{h('uub_scalar')} {c1} {c2}")
                    # one type: member operators, abs
                    if i == j and a == b:
                        r = r1
                        for c in uvalues(r, rng, 12 if quick else 40):
                            ok = True
                            try:
                                binop('+', r, 32, c, 1)
                                binop('-', r, 32, c, 1)
                                ar(promote(r), -cvt(promote(r), c))
                            except UBError:
                                ok = False
                            if ok:
                                out.append(f"{h('u_unary')} {c}")
                            if r < 0 or no_ub(ubin, '-', A, A, 0, c):
                                out.append(f"{h('u_abs')} {c}")
                            for x in uvalues(r, rng, 4 if quick else 10):
                                if x == 0:
                                    continue
                                try:
                                    for o in '+-*/':
                                        binop(o, r, r, c, x)
                                    out.append(f"{h('u_compound')} {c} {x}")
                                except UBError:
                                    pass
    return out


# ---- mirror of coq/C12/SpecChain.v: the ten mutating member operators (order of ModelChain.all_mops) ----
NMOP, NTMOP = 10, 6     # ++d d++ --d d-- += -= *= /= %=(rep) %=(duration); time_point has the first six


def mop_effect(k, c, x):
    return (c + 1, c + 1, c - 1, c - 1, c + x, c - x, c * x,
            tquot(c, x) if x != 0 else None, trem(c, x) if x != 0 else None, trem(c, x) if x != 0 else None)[k]


def mop_step_ok(w, k, c, x):
    e = mop_effect(k, c, x)
    if e is None or not (fits(w, c) and fits(w, x) and fits(w, e)):
        return False
    return k < 7 or (x != 0 and fits(w, tquot(c, x)))


def chain_ok(w, k1, k2, c, a, b):
    if not mop_step_ok(w, k1, c, a):
        return False
    return mop_step_ok(w, k2, mop_effect(k1, c, a) if k1 not in (1, 3) else c, b)


SMALL = [0, 1, -1, 2, -2, 3, -3, 7, -7, 59, 60, -60, 61, 999, 1000, -1000, 1001, -1999, 2000, 30000, -30000, 86399]


def gen(tier, rng):
    out = []
    quick = tier == "quick"
    z = "0 0 0 1 1 64 1 1 64"
    out.append(f"typedefs {z}")
    out.append(f"typedef_bits {z}")
    out.append(f"sratio {z}")
    out.append(f"constraints {z}")
    out.extend(gen_urep(tier, rng))
    sweep = range(-2000, 2001)
    for i in range(NP):
        for j in range(NP):
            for rc in range(4):
                if not enabled(i, j, rc):
                    continue
                P = Pair(i, j, rc)
                core = i < CORE and j < CORE
                h = P.head
                out.append(h("ctype"))
                out.append(h("period"))
                out.append(h("limits"))
                # ---- conversions with one count
                if not quick:
                    cs = sweep if (core and rc == 0) else range(-2000, 2001, 3 if core else 7)
                elif core and rc == 0:
                    # quick: the results are periodic in the count with period cd (2*cd for the tie parity):
                    # every count of [-W, W] with W = 2*cd + 5 (capped at 2000) reaches every residue with both
                    # signs and both parities of the floor; outside it a stride.  Where every conversion is exact
                    # (cd == 1) or every result of the window is in {-1, 0, 1} (cd > 4000*cn) a stride only.
                    informative = P.cd > 1 and P.cd <= 4000 * P.cn
                    W = min(2000, 2 * P.cd + 5, 130) if informative else 3
                    pts = set(range(-W, W + 1)) | set(range(-2000, 2001, 29)) | {-2000, 2000}
                    if informative and P.cd > P.cn and 2 * P.cd + 5 > 130:
                        # coarsening with a long period: the counts of [-2000, 2000] next to a change of the
                        # floor, ceiling or nearest value (multiples and half-multiples of the target tick)
                        A, B = P.A, P.B
                        lo = -2001
                        F = [(c * A) // B for c in range(lo, 2002)]
                        C = [-((-(c * A)) // B) for c in range(lo, 2002)]
                        R = [(2 * c * A + B) // (2 * B) for c in range(lo, 2002)]   # floor(x + 1/2): changes at the ties
                        for c in range(-2000, 2001):
                            k = c - lo
                            if (F[k] != F[k - 1] or F[k] != F[k + 1] or C[k] != C[k - 1] or C[k] != C[k + 1]
                                    or R[k] != R[k - 1] or R[k] != R[k + 1]):
                                pts.update((c - 1, c, c + 1))
                    cs = sorted(c for c in pts if -2000 <= c <= 2000)
                elif core:
                    cs = range(-2000, 2001, 83)
                else:
                    cs = range(-2000, 2001, 211)
                for c in cs:
                    if P.rnd4_ok(c):
                        out.append(f"{h('rnd4')} {c}")
                ic = interesting_counts(P, rng, 6 if quick else 300)
                if not quick and core and rc == 0:
                    ic = sorted(set(ic) | {rng.randint(-10**12, 10**12) for _ in range(3000)})
                for c in ic:
                    if quick and P.rnd4_ok(c):
                        # one line for the four conversions; the single-op lines only where one of the
                        # four leaves the representable domain (near the limits)
                        out.append(f"{h('rnd4')} {c}")
                    else:
                        if P.cast_ok(c):
                            out.append(f"{h('cast')} {c}")
                        if P.floor_ok(c):
                            out.append(f"{h('floor')} {c}")
                        if P.ceil_ok(c):
                            out.append(f"{h('ceil')} {c}")
                        if P.round_ok(c):
                            out.append(f"{h('round')} {c}")
                    if P.cast_ok(c) and (not quick or c % 2 == 0 or abs(c) > 10**6):
                        out.append(f"{h('conv')} {c}")
                # casts whose result leaves the 32-bit target (defined: modular conversion)
                if P.w2 == 32:
                    for q in (1 << 31, (1 << 31) + 1, (1 << 32) - 1, 1 << 32, (1 << 32) + 5, 3 * (1 << 31) + 7, 1 << 40):
                        for sg in (1, -1):
                            c0 = sg * (q * P.B // P.A)
                            for c in (c0 - 1, c0, c0 + 1):
                                if fits(P.w1, c) and fits(64, c * P.cn) and not fits(32, P.cast(c)):
                                    out.append(f"{h('castw')} {c}")
                # time_point wrappers: a sample of the same counts
                tpc = list(range(-2000, 2001, 401 if quick else 23)) + ic[:: (7 if quick else 1)]
                for c in tpc:
                    if P.rnd4_ok(c):
                        out.append(f"{h('tp_rnd4')} {c}")
                    elif P.cast_ok(c):
                        out.append(f"{h('tp_cast')} {c}")
                    if P.cast_ok(c) and (c % 3 == 0):
                        out.append(f"{h('tp_conv')} {c}")
                # floating-point target representation (tested only)
                if rc == 0:
                    for c in list(range(-40, 41, 7 if not quick else 19)) + ic[::(9 if not quick else 23)]:
                        # beyond 2^53 the int -> double conversion and the product round (model: Flocq, round to
                        # nearest even); the theorems cover |c|, |c*cn| <= 2^53
                        if fits(P.w1, c):
                            out.append(f"{h('fcast_if')} {c}")
                            out.append(f"{h('fconv_if')} {c}")
                # ---- undefined behaviour (thorough tier, UBSan variant): the model says Ub exactly here
                if not quick and (core or i == j):
                    ubc = set()
                    if P.cn > 1:
                        for k in (1, 2, 3, 1000, rng.randint(1, 10**6)):
                            ubc.update((MAX64 // P.cn + k, -(MAX64 // P.cn) - 1 - k))     # c * cn leaves intmax_t
                        ubc.update((MAX64 // P.cn, -(MAX64 // P.cn) - 1, MAX64 // P.cn - 1))   # ... just does not
                    # (a multiply-only cast narrowed to int32 is not observable: g++ shortens (int32)(x * num) to a
                    #  32-bit unsigned multiplication in the front end, before UBSan instruments it)
                    for c in sorted(ubc):
                        if fits(P.w1, c) and not (P.w2 == 32 and P.cd == 1):
                            out.append(f"{h('ub_cast')} {c}")
                    if P.w2 == 32 or P.cn == 1:
                        # floor / ceil step out of the target representation: t - 1 below min, t + 1 above max
                        lo, hi = -(1 << (P.w2 - 1)), (1 << (P.w2 - 1)) - 1
                        for tgt, opn in ((lo, 'ub_floor'), (hi, 'ub_ceil')):
                            c0 = tgt * P.B // P.A
                            for c in range(c0 - 2, c0 + 3):
                                if P.cast_ok(c) and P.both_ok(c, P.cast(c)):
                                    out.append(f"{h(opn)} {c}")
                if not quick and P.common_ok and (core or i == j):
                    lo, hi = -(1 << (P.wc - 1)), (1 << (P.wc - 1)) - 1
                    l1 = min((1 << (P.w1 - 1)) - 1, hi // P.f1)
                    l2 = min((1 << (P.w2 - 1)) - 1, hi // P.f2)
                    for (c1, c2) in ((l1, l2), (l1, 1), (1, l2), (-l1, -l2), (-l1 - 1, -1), (l1, -l2), (-l1, l2),
                                     (l1 // 2 + 1, l2 // 2 + 1), (l1, 0), (0, l2), (7, 0), (-l1 - 1, 0), (lo, -1), (lo, 1)):
                        if P.both_ok(c1, c2):
                            out.append(f"{h('ub_plus')} {c1} {c2}")
                            out.append(f"{h('ub_minus')} {c1} {c2}")
                            out.append(f"{h('ub_div')} {c1} {c2}")
                            out.append(f"{h('ub_mod')} {c1} {c2}")
                # ---- floating-point source representation (core pairs, int64/double reps)
                if core and rc == 0:
                    out.extend(float_source_cases(P, rng, quick))
                # ---- two counts
                if not P.common_ok:
                    continue
                lim1 = min((1 << (P.w1 - 1)) - 1, ((1 << (P.wc - 1)) - 1) // P.f1)
                lim2 = min((1 << (P.w2 - 1)) - 1, ((1 << (P.wc - 1)) - 1) // P.f2)
                k = (3 if (core and rc == 0) else 0) if quick else (22 if (core and rc == 0) else 15)
                s1 = rng.sample(SMALL, min(k, len(SMALL))) + [lim1, -lim1, lim1 // 2, -(lim1 // 3), rng.randint(-lim1, lim1)]
                s2 = rng.sample(SMALL, min(k, len(SMALL))) + [lim2, -lim2, lim2 // 2, -(lim2 // 3), rng.randint(-lim2, lim2)]
                pairs = {(a, b) for a in s1 for b in s2}
                # equal values: c1*n1*d2 == c2*n2*d1  <=>  c1 = t*cd', c2 = t*cn' of the reduced factor
                for t in ((0, 1, -1, 17, -999, rng.randint(-10**4, 10**4)) if quick else
                          (0, 1, -1, 2, -5, 17, 1000, -999, rng.randint(-10**4, 10**4))):
                    for e1 in (-1, 0, 1):
                        for e2 in (-1, 0, 1):
                            pairs.add((t * P.cd + e1, t * P.cn + e2))
                for idx, (c1, c2) in enumerate(sorted(pairs)):
                    if quick and idx % 2 == 1:
                        # quick: +,- (and the time_point forms) on every second pair, /,% on the others, comparisons on all
                        if P.div_ok(c1, c2):
                            out.append(f"{h('div')} {c1} {c2}")
                            out.append(f"{h('mod')} {c1} {c2}")
                        if P.both_ok(c1, c2):
                            out.append(f"{h('cmp')} {c1} {c2}")
                            if (c1 + c2) % 4 == 0:
                                out.append(f"{h('tp_cmp')} {c1} {c2}")
                        continue
                    if P.plus_ok(c1, c2):
                        out.append(f"{h('plus')} {c1} {c2}")
                    if P.minus_ok(c1, c2):
                        out.append(f"{h('minus')} {c1} {c2}")
                    if P.div_ok(c1, c2) and not quick:
                        out.append(f"{h('div')} {c1} {c2}")
                        out.append(f"{h('mod')} {c1} {c2}")
                    if P.plus_ok(c1, c2) and P.minus_ok(c1, c2) and ((c1 - c2) % 3 == 0 or not quick):
                        out.append(f"{h('tp_arith')} {c1} {c2}")
                    if P.both_ok(c1, c2):
                        out.append(f"{h('cmp')} {c1} {c2}")
                        if (c1 + c2) % 4 == 0 or not quick:
                            out.append(f"{h('tp_cmp')} {c1} {c2}")
                # ---- duration (first type) op scalar (of the second representation type)
                if core or i == j:
                    l1, l2, lc = (1 << (P.w1 - 1)) - 1, (1 << (P.w2 - 1)) - 1, (1 << (P.wc - 1)) - 1
                    cs = [0, 1, -1, 7, -7, 1000, -86399, l1, -l1 - 1, l1 // 3, 1 << 31, -(1 << 31), 46341, rng.randint(-l1, l1)]
                    xs = [1, -1, 2, -3, 60, 1000, l2, -l2 - 1, 46340, 3037000499, rng.randint(-l2, l2)]
                    if quick and not (i == j or (i, j) in NARROW):
                        cs, xs = cs[::3], xs[::2]
                    for c in cs:
                        for x in xs:
                            if (x != 0 and fits(P.w1, c) and fits(P.w2, x) and fits(P.wc, c * x)
                                    and fits(P.wc, tquot(c, x))):
                                out.append(f"{h('scalar')} {c} {x}")
                # ---- one type: member operators, abs
                if j == i or (core and j == (i + 1) % CORE):
                    w = P.w1
                    lim = (1 << (w - 1)) - 1
                    cs1 = SMALL + [lim, -lim, lim - 1, -lim - 1, lim // 2, 1 << 31, -(1 << 31), (1 << 31) - 1,
                                   1 << 62, -(1 << 62)] + [rng.randint(-lim, lim) for _ in range(4 if quick else 100)]
                    for c in cs1:
                        if not fits(w, c):
                            continue
                        if fits(w, c + 1) and fits(w, c - 1) and fits(w, -c):
                            out.append(f"{h('unary')} {c}")
                            out.append(f"{h('tp_unary')} {c}")
                        if fits(w, -c):
                            out.append(f"{h('abs')} {c}")
                        for x in ((1, -1, 2, -3, 7, 1000, -86400, lim // 3, rng.randint(-lim, lim)) if (not quick or j == i)
                                  else (-1, 7, lim // 3)):
                            if x != 0 and all(fits(w, v) for v in (c + x, c - x, c * x)) and not (c == -lim - 1 and x == -1):
                                out.append(f"{h('compound')} {c} {x}")
                                out.append(f"{h('tp_compound')} {c} {x}")
                # ---- one type: chained member operators (obj @k1 a) @k2 b, all k2 per line; result types
                if j == i:
                    w = P.w1
                    lim = (1 << (w - 1)) - 1
                    out.append(h("reftypes"))
                    cs2 = [0, 7, -7, 2000, -86399, lim // 3, -(lim // 5), rng.randint(-10**6, 10**6)]
                    as2 = [1, -3, 250, rng.randint(-999, 999) or 5]
                    bs2 = [-1, 2, 1000, rng.randint(-999, 999) or 3]
                    if not quick:
                        cs2 += [1, -1, lim - 2, -lim + 1, 1 << 20] + [rng.randint(-lim, lim) for _ in range(7)]
                        as2 += [-1, 60, 46340, rng.randint(-10**5, 10**5) or 1]
                        bs2 += [1, -2, 46341, rng.randint(-10**5, 10**5) or 1]
                    for c in cs2:
                        for a in as2:
                            for b in bs2:
                                for k1 in range(NMOP):
                                    if all(chain_ok(w, k1, k2, c, a, b) for k2 in range(NMOP)):
                                        out.append(f"{h('chain')} {k1} {c} {a} {b}")
                                    if k1 < NTMOP and all(chain_ok(w, k1, k2, c, a, b) for k2 in range(NTMOP)):
                                        out.append(f"{h('tp_chain')} {k1} {c} {a} {b}")
    return out


def nontrivial(case, impl):
    return impl.startswith("ok")
