#!/usr/bin/env python3
"""Review mutants of C12 (props/C12/REVIEW.md sections 4 and 5): harmless rewrites H1-H4 (expected exit 0) and semantic
changes C1-C9 (expected exit 1 with a concrete failing input).

    git -C /repo worktree add /tmp/wt-C12r HEAD
    python3 props/C12/run_mutants_review.py [tags...]
    git -C /repo worktree remove --force /tmp/wt-C12r
"""
import subprocess, sys, os, json, glob, time, hashlib
WT='/tmp/wt-C12r'
D='include/etl/_chrono/duration.hpp'; T='include/etl/_chrono/time_point.hpp'; C='include/etl/_chrono/duration_cast.hpp'
MUTS=[
 # ---- harmless rewrites (expected exit 0)
 ("H1 floor/ceil: comparisons written the other way round", [
   ("include/etl/_chrono/floor.hpp", "    if (t > d) {", "    if (d < t) {"),
   ("include/etl/_chrono/ceil.hpp", "    if (t < d) {", "    if (not (t >= d)) {")]),
 ("H2 duration operator+/-: named locals, operands evaluated in the other order", [
   (D, "    return CD(static_cast<CR>(CD(lhs).count() + CD(rhs).count()));",
       "    auto const r = CD(rhs).count();\n    auto const l = CD(lhs).count();\n    return CD(static_cast<CR>(l + r));"),
   (D, "    return CD(static_cast<CR>(CD(lhs).count() - CD(rhs).count()));",
       "    CD const a{lhs};\n    CD const b{rhs};\n    return CD(static_cast<CR>(a.count() - b.count()));")]),
 ("H3 round: > tested before <, parity by % 2 != 0; gcd: for loop", [
   ("include/etl/_chrono/round.hpp", "    if (lowDiff < highDiff) {\n        return low;\n    }\n    if (lowDiff > highDiff) {\n        return high;\n    }\n    return low.count() & 1 ? high : low;",
    "    if (lowDiff > highDiff) {\n        return high;\n    }\n    if (highDiff > lowDiff) {\n        return low;\n    }\n    return (low.count() % 2 != 0) ? high : low;"),
   ("include/etl/_numeric/gcd.hpp", "    while (b != 0) {\n        auto const r = static_cast<U>(a % b);\n        a            = b;\n        b            = r;\n    }",
    "    for (; b != 0;) {\n        auto const old = b;\n        b = static_cast<U>(a % b);\n        a = old;\n    }")]),
 ("H4 time_point - duration via duration minus spelled out; time_point relational via <", [
   (T, "    return CT(lhs.time_since_epoch() - rhs);", "    auto const diff = lhs.time_since_epoch() - rhs;\n    return CT{diff};"),
   (T, "    return lhs.time_since_epoch() <= rhs.time_since_epoch();", "    return not (rhs.time_since_epoch() < lhs.time_since_epoch());")]),
 # ---- semantic changes (expected exit 1 with a concrete input)
 ("C1 time_point operator--(int) returns the decremented value", [
   (T, "    constexpr auto operator--(int) noexcept -> time_point { return time_point(_d--); }",
       "    constexpr auto operator--(int) noexcept -> time_point { return time_point(--_d); }")]),
 ("C2 duration / scalar narrows the scalar to the duration's rep first", [
   (D, "    return CD(CD(d).count() / s);", "    return CD(CD(d).count() / static_cast<Rep1>(s));")]),
 ("C3 period_quotient::representable off by one at the boundary (n1 < max / n2)", [
   (D, "(n1 <= max / n2) and (d1 <= max / d2)", "(n1 < max / n2) and (d1 <= max / d2)")]),
 ("C4 duration operator== by cross-multiplication (overflows for large counts of non-coprime periods)", [
   (D, "    return common_t(lhs).count() == common_t(rhs).count();",
       "    using R = typename common_t::rep;\n    return static_cast<R>(lhs.count()) * static_cast<R>(Period1::num) * static_cast<R>(Period2::den)\n        == static_cast<R>(rhs.count()) * static_cast<R>(Period2::num) * static_cast<R>(Period1::den);")]),
 ("C5 duration_cast divide-only branch divides in the target rep", [
   (C, "        return ToDuration(static_cast<to_rep>(static_cast<CR>(duration.count()) / static_cast<CR>(CF::den)));",
       "        return ToDuration(static_cast<to_rep>(duration.count()) / static_cast<to_rep>(CF::den));")]),
 ("C6 duration operator< converts the operands to the first rep instead of the common rep", [
   (D, "    return common_t(lhs).count() < common_t(rhs).count();",
       "    return static_cast<Rep1>(common_t(lhs).count()) < static_cast<Rep1>(common_t(rhs).count());")]),
 ("C7 ratio: the sign of a negative denominator is dropped", [
   ("include/etl/_ratio/ratio.hpp", "detail::sign(Num) * detail::sign(Denom) * abs(Num) / gcd(Num, Denom)", "detail::sign(Num) * abs(Num) / gcd(Num, Denom)")]),
 ("C8 duration operator%=(rep) yields the mathematical (non-negative) modulo", [
   (D, "    constexpr auto operator%=(rep const& rhs) noexcept -> duration&\n    {\n        _rep %= rhs;",
       "    constexpr auto operator%=(rep const& rhs) noexcept -> duration&\n    {\n        _rep %= rhs;\n        if (_rep < 0) { _rep += (rhs < 0 ? -rhs : rhs); }")]),
 ("C9 unary minus of a duration negates in intmax_t and converts back (wrong for uint64 > 2^63: no; equivalent) -> instead: operator+() negates twice in int", [
   (D, "        return etl::common_type_t<duration>(*this);", "        return etl::common_type_t<duration>(static_cast<rep>(static_cast<int>(_rep)));")]),
]
sel=sys.argv[1:]
key=hashlib.md5(WT.encode()).hexdigest()[:8]
for name,edits in MUTS:
    tag=name.split()[0]
    if sel and tag not in sel: continue
    subprocess.run(['git','-C',WT,'checkout','--','.'],check=True)
    for f,old,new in edits:
        p=os.path.join(WT,f); s=open(p).read()
        assert s.count(old)==1,(name,f,s.count(old))
        open(p,'w').write(s.replace(old,new))
    for r in glob.glob(f'/verif/build/alt-{key}/replay/C12-*.json'): os.remove(r)
    t=time.time()
    pr=subprocess.run(['timeout','2400','./check','C12'],cwd='/verif',env=dict(os.environ,VERIF_REPO=WT),capture_output=True,text=True)
    out=pr.stdout+pr.stderr
    viol=[l for l in out.splitlines() if 'VIOLATION' in l or 'MACHINERY' in l or 'KNOWN' in l]
    first=''
    reps=sorted(glob.glob(f'/verif/build/alt-{key}/replay/C12-*.json'))
    if reps:
        e=json.load(open(reps[0])); first=f"{e.get('case')} | impl {e.get('impl')} | ref {e.get('reference')} | model {e.get('model')} | spec {e.get('spec')} | {e.get('kind')} [{e.get('variant')}] n={e.get('failing_cases_same_op')}"
    print(f"== {name}\n   exit {pr.returncode} in {time.time()-t:.0f}s; {len(viol)} lines: {viol[:3]}\n   first: {first}",flush=True)
    if pr.returncode not in (0,1) or (not viol and pr.returncode!=0): print(out[-1500:])
subprocess.run(['git','-C',WT,'checkout','--','.'],check=True)
