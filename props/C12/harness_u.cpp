// C12 harness, variant "urep": etl::chrono duration / time_point arithmetic with representation types of either
// signedness and of 8, 16, 32, 64 bits (impl leg) vs std::chrono with the same types (reference leg).
// Every binary operator of duration and time_point (+ - / % == != < <= > >=, duration op scalar), the member
// operators, the converting constructor, duration_cast / floor / ceil / round / abs.  The C++ performs integral
// promotion, the usual arithmetic conversions, unsigned wrap-around and narrowing conversions on these types:
// mirrored by coq/C12/UModel.v.  Only ops whose name starts with "u_" are executed here (others: "skip").
//
// Case line:  <op> <i> <j> <rc> <N1> <D1> <r1> <N2> <D2> <r2> <args...>
//   i, j : indices into the period table below;  rc = a * 8 + b, a / b = indices into the type table
//   r1 r2: type codes (+bits signed, -bits unsigned), N D the ratio arguments; checked against the tables
// A count is written in decimal; every generated case is free of undefined behaviour (prop.py filters with a mirror
// of the model), values outside the documented domain wrap (and are compared with std::chrono and the model only).
#include "common.hpp"

#include <chrono>
#include <compare>
#include <cstdint>
#include <cstring>
#include <utility>
#include <limits>
#include <ratio>
#include <type_traits>

#include <etl/chrono.hpp>
#include <etl/ratio.hpp>

namespace ec = etl::chrono;
namespace sc = std::chrono;
using namespace vh;

template <int I>
struct UPer;
#define UPER(I, N, D)                                                                                                  \
    template <>                                                                                                        \
    struct UPer<I> {                                                                                                   \
        static constexpr i64 n = N;                                                                                    \
        static constexpr i64 d = D;                                                                                    \
    }
UPER(0, 1, 1000);
UPER(1, 1, 1);
UPER(2, 60, 1);
UPER(3, 1, 3);
UPER(4, 5, 7);
UPER(5, 1001, 30000);
constexpr int UNP = 6;

template <int K>
struct URep;
#define UREP(K, T, CODE)                                                                                               \
    template <>                                                                                                        \
    struct URep<K> {                                                                                                   \
        using type                = T;                                                                                 \
        static constexpr int code = CODE;                                                                              \
    }
UREP(0, std::int8_t, 8);
UREP(1, std::int16_t, 16);
UREP(2, std::int32_t, 32);
UREP(3, std::int64_t, 64);
UREP(4, std::uint8_t, -8);
UREP(5, std::uint16_t, -16);
UREP(6, std::uint32_t, -32);
UREP(7, std::uint64_t, -64);
constexpr int UNR = 8;

#ifndef C12_NPARTS
    #define C12_NPARTS 1
#endif
#ifndef C12_PART
    #define C12_PART 0
#endif
constexpr bool umine(int i, int j, int a, int b) { return (i * 7 + j * 3 + a * 5 + b) % C12_NPARTS == C12_PART; }

// which (i, j, a, b) are instantiated: all 64 type pairs on (s, s) and (ms, s); 18 selected type pairs on
// (s, ms), (min, s), (1/3, 5/7), (1001/30000, ms)   [mirrored by prop.py uenabled()]
constexpr bool usel(int a, int b)
{
    constexpr int sel[][2] = {{3, 6}, {6, 3}, {3, 5}, {5, 5}, {2, 6}, {6, 2}, {7, 3}, {3, 7}, {1, 1}, {0, 4}, {4, 0},
        {7, 6}, {1, 5}, {5, 2}, {2, 5}, {0, 3}, {6, 6}, {7, 7}};
    for (auto const& p : sel) {
        if (p[0] == a && p[1] == b) { return true; }
    }
    return false;
}
constexpr bool uenabled(int i, int j, int a, int b)
{
    if ((i == 1 && j == 1) || (i == 0 && j == 1)) { return true; }
    if ((i == 1 && j == 0) || (i == 2 && j == 1) || (i == 3 && j == 4) || (i == 5 && j == 0)) { return usel(a, b); }
    return false;
}

template <typename T>
static int code_of()
{
    static_assert(std::is_integral_v<T>);
    int const bits = static_cast<int>(sizeof(T) * 8);
    return std::is_signed_v<T> ? bits : -bits;
}
template <typename T>
static void put(Out& o, T v)
{
    o.big(static_cast<i128>(v));
}

enum UOpId {
    U_CTYPE, U_PLUS, U_MINUS, U_DIV, U_MOD, U_CMP, U_SCALAR, U_UNARY, U_COMPOUND, U_CONV, U_RND4, U_CAST, U_ABS,
    U_LIMITS, U_NONE
};
static UOpId uop_id(std::string const& s)
{
    static char const* const names[] = {"u_ctype", "u_plus", "u_minus", "u_div", "u_mod", "u_cmp", "u_scalar", "u_unary",
        "u_compound", "u_conv", "u_rnd4", "u_cast", "u_abs", "u_limits"};
    for (int k = 0; k < U_NONE; ++k) {
        if (s == names[k]) { return static_cast<UOpId>(k); }
    }
    return U_NONE;
}

template <int I, int J, int A, int B>
struct UOps {
    using R1  = typename URep<A>::type;
    using R2  = typename URep<B>::type;
    using EP1 = etl::ratio<UPer<I>::n, UPer<I>::d>;
    using EP2 = etl::ratio<UPer<J>::n, UPer<J>::d>;
    using SP1 = std::ratio<UPer<I>::n, UPer<I>::d>;
    using SP2 = std::ratio<UPer<J>::n, UPer<J>::d>;
    using E1  = ec::duration<R1, EP1>;
    using E2  = ec::duration<R2, EP2>;
    using S1  = sc::duration<R1, SP1>;
    using S2  = sc::duration<R2, SP2>;
    using ET1 = ec::time_point<ec::system_clock, E1>;
    using ET2 = ec::time_point<ec::system_clock, E2>;
    using ST1 = sc::time_point<sc::system_clock, S1>;
    using ST2 = sc::time_point<sc::system_clock, S2>;
    using ECD = etl::common_type_t<E1, E2>;
    using SCD = std::common_type_t<S1, S2>;
    using CRT = std::common_type_t<R1, R2>;
    static constexpr bool one_type = (I == J) && (A == B);

    static R1 rd1(Toks& in) { return static_cast<R1>(in.sz()); }
    static R2 rd2(Toks& in) { return static_cast<R2>(in.sz()); }

    static bool run(UOpId op, Toks& in, Out& impl, Out& ref)
    {
        switch (op) {
        case U_CTYPE: {
            // common_type of the two durations / time_points: representation (as a code), period; result types of
            // the operators (reported as a value: a changed library must show up as a failing case)
            constexpr bool types = std::is_same_v<decltype(E1{} + E2{}), ECD> && std::is_same_v<decltype(E1{} - E2{}), ECD>
                && std::is_same_v<decltype(E1{} % E2{}), ECD>
                && std::is_same_v<decltype(E1{} / E2{}), etl::common_type_t<R1, R2>>
                && std::is_same_v<typename etl::common_type_t<ET1, ET2>::duration, ECD>
                && std::is_same_v<decltype(ET1{} + E2{}), ec::time_point<ec::system_clock, ECD>>
                && std::is_same_v<decltype(E1{} + ET2{}), ec::time_point<ec::system_clock, ECD>>
                && std::is_same_v<decltype(ET1{} - E2{}), ec::time_point<ec::system_clock, ECD>>
                && std::is_same_v<decltype(ET1{} - ET2{}), ECD>
                && std::is_same_v<decltype(-E1{}), etl::common_type_t<E1>> && std::is_same_v<decltype(+E1{}), etl::common_type_t<E1>>;
            impl.tok("ok").num(code_of<typename ECD::rep>()).num(ECD::period::num).num(ECD::period::den);
            impl.num(code_of<etl::common_type_t<R1, R2>>()).num(code_of<etl::common_type_t<R2, R1, std::intmax_t>>()).b(types);
            ref.tok("ok").num(code_of<typename SCD::rep>()).num(SCD::period::num).num(SCD::period::den);
            ref.num(code_of<CRT>()).num(code_of<std::common_type_t<R2, R1, std::intmax_t>>()).b(true);
            return true;
        }
        case U_PLUS: {
            // d + d, tp + d, d + tp
            auto c1 = rd1(in);
            auto c2 = rd2(in);
            impl.tok("ok");
            put(impl, (E1{c1} + E2{c2}).count());
            put(impl, (ET1{E1{c1}} + E2{c2}).time_since_epoch().count());
            put(impl, (E1{c1} + ET2{E2{c2}}).time_since_epoch().count());
            ref.tok("ok");
            put(ref, (S1{c1} + S2{c2}).count());
            put(ref, (ST1{S1{c1}} + S2{c2}).time_since_epoch().count());
            put(ref, (S1{c1} + ST2{S2{c2}}).time_since_epoch().count());
            return true;
        }
        case U_MINUS: {
            // d - d, tp - d, tp - tp
            auto c1 = rd1(in);
            auto c2 = rd2(in);
            impl.tok("ok");
            put(impl, (E1{c1} - E2{c2}).count());
            put(impl, (ET1{E1{c1}} - E2{c2}).time_since_epoch().count());
            put(impl, (ET1{E1{c1}} - ET2{E2{c2}}).count());
            ref.tok("ok");
            put(ref, (S1{c1} - S2{c2}).count());
            put(ref, (ST1{S1{c1}} - S2{c2}).time_since_epoch().count());
            put(ref, (ST1{S1{c1}} - ST2{S2{c2}}).count());
            return true;
        }
        case U_DIV: {
            auto c1 = rd1(in);
            auto c2 = rd2(in);
            impl.tok("ok");
            put(impl, E1{c1} / E2{c2});
            ref.tok("ok");
            put(ref, S1{c1} / S2{c2});
            return true;
        }
        case U_MOD: {
            auto c1 = rd1(in);
            auto c2 = rd2(in);
            impl.tok("ok");
            put(impl, (E1{c1} % E2{c2}).count());
            ref.tok("ok");
            put(ref, (S1{c1} % S2{c2}).count());
            return true;
        }
        case U_CMP: {
            auto c1 = rd1(in);
            auto c2 = rd2(in);
            {
                E1 a{c1};
                E2 b{c2};
                ET1 ta{a};
                ET2 tb{b};
                impl.tok("ok").b(a == b).b(a != b).b(a < b).b(a <= b).b(a > b).b(a >= b);
                impl.b(ta == tb).b(ta != tb).b(ta < tb).b(ta <= tb).b(ta > tb).b(ta >= tb);
            }
            S1 a{c1};
            S2 b{c2};
            ST1 ta{a};
            ST2 tb{b};
            ref.tok("ok").b(a == b).b(a != b).b(a < b).b(a <= b).b(a > b).b(a >= b);
            ref.b(ta == tb).b(ta != tb).b(ta < tb).b(ta <= tb).b(ta > tb).b(ta >= tb);
            return true;
        }
        case U_SCALAR: {
            // duration<R1, P1> op scalar of type R2
            auto c = rd1(in);
            auto x = rd2(in);
            if constexpr (requires(E1 d, R2 v) { d * v; v * d; d / v; d % v; }) {
                E1 const d{c};
                constexpr bool types = std::is_same_v<decltype(d * x), ec::duration<CRT, EP1>>
                    && std::is_same_v<decltype(x * d), ec::duration<CRT, EP1>>
                    && std::is_same_v<decltype(d / x), ec::duration<CRT, EP1>>
                    && std::is_same_v<decltype(d % x), ec::duration<CRT, EP1>>;
                impl.tok("ok");
                put(impl, (d * x).count());
                put(impl, (x * d).count());
                put(impl, (d / x).count());
                put(impl, (d % x).count());
                impl.b(types);
            } else {
                impl.tok("illformed");
            }
            S1 const d{c};
            ref.tok("ok");
            put(ref, (d * x).count());
            put(ref, (x * d).count());
            put(ref, (d / x).count());
            put(ref, (d % x).count());
            ref.b(true);
            return true;
        }
        case U_CONV: {
            auto c = rd1(in);
            if constexpr (std::is_convertible_v<E1, E2>) {
                E2 r = E1{c};
                impl.tok("ok");
                put(impl, r.count());
            } else {
                impl.tok("illformed");
            }
            if constexpr (std::is_convertible_v<ET1, ET2>) {
                ET2 r = ET1{E1{c}};
                put(impl, r.time_since_epoch().count());
            } else {
                impl.tok("illformed");
            }
            if constexpr (std::is_convertible_v<S1, S2>) {
                S2 r = S1{c};
                ref.tok("ok");
                put(ref, r.count());
            } else {
                ref.tok("illformed");
            }
            if constexpr (std::is_convertible_v<ST1, ST2>) {
                ST2 r = ST1{S1{c}};
                put(ref, r.time_since_epoch().count());
            } else {
                ref.tok("illformed");
            }
            return true;
        }
        case U_CAST: {
            auto c = rd1(in);
            impl.tok("ok");
            put(impl, ec::duration_cast<E2>(E1{c}).count());
            put(impl, ec::time_point_cast<E2>(ET1{E1{c}}).time_since_epoch().count());
            ref.tok("ok");
            put(ref, sc::duration_cast<S2>(S1{c}).count());
            put(ref, sc::time_point_cast<S2>(ST1{S1{c}}).time_since_epoch().count());
            return true;
        }
        case U_RND4: {
            auto c = rd1(in);
            impl.tok("ok");
            put(impl, ec::duration_cast<E2>(E1{c}).count());
            put(impl, ec::floor<E2>(E1{c}).count());
            put(impl, ec::ceil<E2>(E1{c}).count());
            put(impl, ec::round<E2>(E1{c}).count());
            put(impl, ec::round<E2>(ET1{E1{c}}).time_since_epoch().count());
            ref.tok("ok");
            put(ref, sc::duration_cast<S2>(S1{c}).count());
            put(ref, sc::floor<S2>(S1{c}).count());
            put(ref, sc::ceil<S2>(S1{c}).count());
            put(ref, sc::round<S2>(S1{c}).count());
            put(ref, sc::round<S2>(ST1{S1{c}}).time_since_epoch().count());
            return true;
        }
        case U_LIMITS: {
            impl.tok("ok");
            put(impl, E1::zero().count());
            put(impl, E1::min().count());
            put(impl, E1::max().count());
            put(impl, ET1::min().time_since_epoch().count());
            put(impl, ET1::max().time_since_epoch().count());
            ref.tok("ok");
            put(ref, S1::zero().count());
            put(ref, S1::min().count());
            put(ref, S1::max().count());
            put(ref, ST1::min().time_since_epoch().count());
            put(ref, ST1::max().time_since_epoch().count());
            return true;
        }
        default: break;
        }
        if constexpr (one_type) {
            switch (op) {
            case U_UNARY: {
                auto c = rd1(in);
                {
                    E1 const d{c};
                    impl.tok("ok");
                    put(impl, (-d).count());
                    put(impl, (+d).count());
                    { E1 x{c}; auto r = ++x; put(impl, r.count()); put(impl, x.count()); }
                    { E1 x{c}; auto r = x++; put(impl, r.count()); put(impl, x.count()); }
                    { E1 x{c}; auto r = --x; put(impl, r.count()); put(impl, x.count()); }
                    { E1 x{c}; auto r = x--; put(impl, r.count()); put(impl, x.count()); }
                    auto ec_ = [](ET1 const& t) { return t.time_since_epoch().count(); };
                    { ET1 x{E1{c}}; auto r = ++x; put(impl, ec_(r)); put(impl, ec_(x)); }
                    { ET1 x{E1{c}}; auto r = x++; put(impl, ec_(r)); put(impl, ec_(x)); }
                    { ET1 x{E1{c}}; auto r = --x; put(impl, ec_(r)); put(impl, ec_(x)); }
                    { ET1 x{E1{c}}; auto r = x--; put(impl, ec_(r)); put(impl, ec_(x)); }
                }
                S1 const d{c};
                ref.tok("ok");
                put(ref, (-d).count());
                put(ref, (+d).count());
                { S1 x{c}; auto r = ++x; put(ref, r.count()); put(ref, x.count()); }
                { S1 x{c}; auto r = x++; put(ref, r.count()); put(ref, x.count()); }
                { S1 x{c}; auto r = --x; put(ref, r.count()); put(ref, x.count()); }
                { S1 x{c}; auto r = x--; put(ref, r.count()); put(ref, x.count()); }
                auto sc_ = [](ST1 const& t) { return t.time_since_epoch().count(); };
                { ST1 x{S1{c}}; auto r = ++x; put(ref, sc_(r)); put(ref, sc_(x)); }
                { ST1 x{S1{c}}; auto r = x++; put(ref, sc_(r)); put(ref, sc_(x)); }
                { ST1 x{S1{c}}; auto r = --x; put(ref, sc_(r)); put(ref, sc_(x)); }
                { ST1 x{S1{c}}; auto r = x--; put(ref, sc_(r)); put(ref, sc_(x)); }
                return true;
            }
            case U_COMPOUND: {
                auto c = rd1(in);
                auto x = rd1(in);
                impl.tok("ok");
                { E1 d{c}; d += E1{x}; put(impl, d.count()); }
                { E1 d{c}; d -= E1{x}; put(impl, d.count()); }
                { E1 d{c}; d *= x; put(impl, d.count()); }
                { E1 d{c}; d /= x; put(impl, d.count()); }
                { E1 d{c}; d %= x; put(impl, d.count()); }
                { E1 d{c}; d %= E1{x}; put(impl, d.count()); }
                { ET1 t{E1{c}}; t += E1{x}; put(impl, t.time_since_epoch().count()); }
                { ET1 t{E1{c}}; t -= E1{x}; put(impl, t.time_since_epoch().count()); }
                ref.tok("ok");
                { S1 d{c}; d += S1{x}; put(ref, d.count()); }
                { S1 d{c}; d -= S1{x}; put(ref, d.count()); }
                { S1 d{c}; d *= x; put(ref, d.count()); }
                { S1 d{c}; d /= x; put(ref, d.count()); }
                { S1 d{c}; d %= x; put(ref, d.count()); }
                { S1 d{c}; d %= S1{x}; put(ref, d.count()); }
                { ST1 t{S1{c}}; t += S1{x}; put(ref, t.time_since_epoch().count()); }
                { ST1 t{S1{c}}; t -= S1{x}; put(ref, t.time_since_epoch().count()); }
                return true;
            }
            case U_ABS: {
                auto c = rd1(in);
                if constexpr (requires(E1 d) { ec::abs(d); }) {
                    impl.tok("ok");
                    put(impl, ec::abs(E1{c}).count());
                } else {
                    impl.tok("illformed");
                }
                if constexpr (requires(S1 d) { sc::abs(d); }) {
                    ref.tok("ok");
                    put(ref, sc::abs(S1{c}).count());
                } else {
                    ref.tok("illformed");
                }
                return true;
            }
            default: break;
            }
        }
        impl.tok("not-instantiated");
        return true;
    }
};


// ---- tables that need no per-instantiation entry (part 0 only) --------------------------------------------------------
#if C12_PART == 0
template <typename A, typename B>
concept c12_three_way = requires(A a, B b) { a <=> b; };
constexpr i64 IMAX = std::numeric_limits<i64>::max();
template <typename E, typename S>
static void conv_row(Out& impl, Out& ref)
{
    impl.b(std::is_convertible_v<typename E::first_type, typename E::second_type>);
    ref.b(std::is_convertible_v<typename S::first_type, typename S::second_type>);
}
template <typename E>
static void conv_row1(Out& impl)
{
    impl.b(std::is_convertible_v<typename E::first_type, typename E::second_type>);
}
template <i64 N1, i64 D1, i64 N2, i64 D2>
struct PQ {
    using E = std::pair<ec::duration<i64, etl::ratio<N1, D1>>, ec::duration<i64, etl::ratio<N2, D2>>>;
    using S = std::pair<sc::duration<i64, std::ratio<N1, D1>>, sc::duration<i64, std::ratio<N2, D2>>>;
    using ET = std::pair<ec::time_point<ec::system_clock, typename E::first_type>, ec::time_point<ec::system_clock, typename E::second_type>>;
    using ST = std::pair<sc::time_point<sc::system_clock, typename S::first_type>, sc::time_point<sc::system_clock, typename S::second_type>>;
};
// participation of the converting constructor at the representability boundary of the period quotient
// (rows mirrored by driver.ml "u_pq" / "u_pqovf")
static void pq_rows(Out& impl, Out& ref)
{
    impl.tok("ok");
    ref.tok("ok");
    #define ROW(N1, D1, N2, D2)                                                                                        \
        conv_row<PQ<N1, D1, N2, D2>::E, PQ<N1, D1, N2, D2>::S>(impl, ref);                                             \
        conv_row<PQ<N1, D1, N2, D2>::ET, PQ<N1, D1, N2, D2>::ST>(impl, ref)
    ROW(IMAX, 1, 1, 1);
    ROW(1, 1, 1, IMAX);
    ROW(IMAX, 1, IMAX, 1);
    ROW(IMAX, 1, 7, 1);
    ROW(1, 1, IMAX, 1);
    ROW(4611686018427387904LL, 1, 1, 1);
    ROW(3037000500LL, 1, 1, 3037000499LL);
    ROW(1, 3037000499LL, 1, 3037000499LL * 3037000500LL);
    ROW(1, IMAX, 1, IMAX);
    ROW(IMAX, 2, 1, 2);
    ROW(-5, -1, 1, 1);
    ROW(1, 1000, -1, -1000000);
    #undef ROW
}
// the same where the period quotient is NOT representable: std::chrono's constraint is a hard error there (ratio_divide
// overflows), etl removes the constructor from overload resolution (detail::period_quotient): no reference leg
static void pqovf_rows(Out& impl)
{
    impl.tok("ok");
    #define ROW(N1, D1, N2, D2)                                                                                        \
        conv_row1<PQ<N1, D1, N2, D2>::E>(impl);                                                                        \
        conv_row1<PQ<N1, D1, N2, D2>::ET>(impl)
    ROW(3037000500LL, 1, 1, 3037000500LL);
    ROW(IMAX, 1, 1, 2);
    ROW(1, IMAX, 2, 1);
    ROW(1, 2, IMAX, 1);
    ROW(4611686018427387904LL, 1, 1, 3);
    ROW(1, 4611686018427387904LL, 3, 1);
    #undef ROW
}

// which constructors take part in overload resolution ([time.duration.cons], [time.point.cons])
static void ctor_rows(Out& impl, Out& ref)
{
    using EMS = ec::milliseconds; using ES = ec::seconds;
    using SMS = sc::milliseconds; using SS = sc::seconds;
    using ETM = ec::time_point<ec::system_clock, EMS>; using ETS = ec::time_point<ec::system_clock, ES>;
    using STM = sc::time_point<sc::system_clock, SMS>; using STS = sc::time_point<sc::system_clock, SS>;
    impl.tok("ok")
        .b(std::is_constructible_v<ec::duration<int>, double>).b(std::is_constructible_v<ec::duration<int>, float>)
        .b(std::is_constructible_v<ec::duration<double>, int>).b(std::is_constructible_v<ec::duration<int>, long>)
        .b(std::is_constructible_v<ec::duration<unsigned>, int>)
        .b(std::is_convertible_v<int, ec::duration<int>>).b(std::is_convertible_v<double, ec::duration<double>>)
        .b(std::is_constructible_v<ec::duration<double, etl::milli>, ES>).b(std::is_constructible_v<ES, ec::duration<double>>)
        .b(std::is_constructible_v<ES, EMS>).b(std::is_constructible_v<EMS, ES>).b(std::is_convertible_v<ES, EMS>)
        .b(std::is_constructible_v<ec::duration<float>, ec::duration<double>>)
        .b(std::is_constructible_v<ec::duration<std::uint8_t>, ec::duration<std::int64_t>>)
        .b(std::is_convertible_v<ETM, ETS>).b(std::is_convertible_v<ETS, ETM>).b(std::is_constructible_v<ETS, ETM>)
        .b(std::is_constructible_v<ETM, EMS>).b(std::is_convertible_v<EMS, ETM>).b(std::is_constructible_v<ETM, ES>);
    ref.tok("ok")
        .b(std::is_constructible_v<sc::duration<int>, double>).b(std::is_constructible_v<sc::duration<int>, float>)
        .b(std::is_constructible_v<sc::duration<double>, int>).b(std::is_constructible_v<sc::duration<int>, long>)
        .b(std::is_constructible_v<sc::duration<unsigned>, int>)
        .b(std::is_convertible_v<int, sc::duration<int>>).b(std::is_convertible_v<double, sc::duration<double>>)
        .b(std::is_constructible_v<sc::duration<double, std::milli>, SS>).b(std::is_constructible_v<SS, sc::duration<double>>)
        .b(std::is_constructible_v<SS, SMS>).b(std::is_constructible_v<SMS, SS>).b(std::is_convertible_v<SS, SMS>)
        .b(std::is_constructible_v<sc::duration<float>, sc::duration<double>>)
        .b(std::is_constructible_v<sc::duration<std::uint8_t>, sc::duration<std::int64_t>>)
        .b(std::is_convertible_v<STM, STS>).b(std::is_convertible_v<STS, STM>).b(std::is_constructible_v<STS, STM>)
        .b(std::is_constructible_v<STM, SMS>).b(std::is_convertible_v<SMS, STM>).b(std::is_constructible_v<STM, SS>);
}

// the common type of two durations whose denominators' lcm does not fit intmax_t: etl::lcm wraps around (unsigned
// arithmetic), std::common_type is ill-formed; only model = code is compared
static void lcmwrap_rows(Out& impl)
{
    using A = ec::duration<i64, etl::ratio<1, 4611686018427387904LL>>;
    using B = ec::duration<i64, etl::ratio<1, 4052555153018976267LL>>;
    using C = etl::common_type_t<A, B>;
    impl.tok("ok").num(C::period::num).num(C::period::den).num(code_of<typename C::rep>());
    impl.b(std::is_convertible_v<A, C>).b(std::is_convertible_v<B, C>);
}

// float and long double representations: every result is compared with std::chrono here (same types); the legs carry
// the number of agreeing results (the extracted model has no float / long double arithmetic)
template <typename F, int I, int J>
static int fl_agree(double xd, double yd)
{
    using EP1 = etl::ratio<UPer<I>::n, UPer<I>::d>; using EP2 = etl::ratio<UPer<J>::n, UPer<J>::d>;
    using SP1 = std::ratio<UPer<I>::n, UPer<I>::d>; using SP2 = std::ratio<UPer<J>::n, UPer<J>::d>;
    using EF1 = ec::duration<F, EP1>; using EF2 = ec::duration<F, EP2>; using EI2 = ec::duration<i64, EP2>;
    using SF1 = sc::duration<F, SP1>; using SF2 = sc::duration<F, SP2>; using SI2 = sc::duration<i64, SP2>;
    auto const x = static_cast<F>(xd);
    auto const y = static_cast<F>(yd);
    int n = 0;
    n += ec::duration_cast<EI2>(EF1{x}).count() == sc::duration_cast<SI2>(SF1{x}).count();
    n += ec::floor<EI2>(EF1{x}).count() == sc::floor<SI2>(SF1{x}).count();
    n += ec::ceil<EI2>(EF1{x}).count() == sc::ceil<SI2>(SF1{x}).count();
    n += ec::round<EI2>(EF1{x}).count() == sc::round<SI2>(SF1{x}).count();
    n += ec::duration_cast<EF2>(EF1{x}).count() == sc::duration_cast<SF2>(SF1{x}).count();
    n += EF2(EF1{x}).count() == SF2(SF1{x}).count();
    n += (EF1{x} + EF2{y}).count() == (SF1{x} + SF2{y}).count();
    n += (EF1{x} - EF2{y}).count() == (SF1{x} - SF2{y}).count();
    n += (EF1{x} / EF2{y}) == (SF1{x} / SF2{y}) || y == 0;
    n += (EF1{x} < EF2{y}) == (SF1{x} < SF2{y});
    n += (EF1{x} == EF2{y}) == (SF1{x} == SF2{y});
    n += (EF1{x} * y).count() == (SF1{x} * y).count();
    n += (EI2{static_cast<i64>(yd)} + EF1{x}).count() == (SI2{static_cast<i64>(yd)} + SF1{x}).count();
    n += ec::duration_cast<EF2>(EI2{static_cast<i64>(yd)}).count() == sc::duration_cast<SF2>(SI2{static_cast<i64>(yd)}).count();
    return n;
}
constexpr int FL_N = 14;
template <int I, int J>
static void fl_rows(Toks& in, Out& impl, Out& ref)
{
    std::uint64_t ux = in.unum(), uy = in.unum();
    double x = 0, y = 0;
    std::memcpy(&x, &ux, sizeof x);
    std::memcpy(&y, &uy, sizeof y);
    impl.tok("ok").num(fl_agree<float, I, J>(x, y)).num(fl_agree<long double, I, J>(x, y));
    ref.tok("ok").num(FL_N).num(FL_N);
}
#endif

using URunFn = bool (*)(UOpId, Toks&, Out&, Out&);
struct UEntry {
    URunFn run;
    i64 n1, d1, n2, d2;
    int r1, r2;
};

template <int I, int J, int A, int B>
constexpr UEntry umake_entry()
{
    if constexpr (uenabled(I, J, A, B) && umine(I, J, A, B)) {
        return UEntry{&UOps<I, J, A, B>::run, UPer<I>::n, UPer<I>::d, UPer<J>::n, UPer<J>::d, URep<A>::code, URep<B>::code};
    } else {
        return UEntry{nullptr, UPer<I>::n, UPer<I>::d, UPer<J>::n, UPer<J>::d, URep<A>::code, URep<B>::code};
    }
}

template <std::size_t... K>
static std::vector<UEntry> umake_table(std::index_sequence<K...>)
{
    return std::vector<UEntry>{umake_entry<static_cast<int>(K / (UNP * 64)), static_cast<int>((K / 64) % UNP),
        static_cast<int>((K / 8) % 8), static_cast<int>(K % 8)>()...};
}

#define C12_CAT2(a, b) a##b
#define C12_CAT(a, b) C12_CAT2(a, b)
std::vector<UEntry> C12_CAT(c12u_table_part_, C12_PART)() { return umake_table(std::make_index_sequence<UNP * UNP * 64>{}); }

#if C12_PART == 0
    #if C12_NPARTS > 1
std::vector<UEntry> c12u_table_part_1();
    #endif
    #if C12_NPARTS > 2
std::vector<UEntry> c12u_table_part_2();
    #endif
    #if C12_NPARTS > 3
std::vector<UEntry> c12u_table_part_3();
    #endif
    #if C12_NPARTS > 4
        #error "at most 4 parts"
    #endif

static std::vector<UEntry> const& utable()
{
    static std::vector<UEntry> const t = [] {
        auto all   = c12u_table_part_0();
        auto merge = [&all](std::vector<UEntry> const& p) {
            for (std::size_t k = 0; k < all.size(); ++k) {
                if (p[k].run != nullptr) { all[k].run = p[k].run; }
            }
        };
        (void)merge;
    #if C12_NPARTS > 1
        merge(c12u_table_part_1());
    #endif
    #if C12_NPARTS > 2
        merge(c12u_table_part_2());
    #endif
    #if C12_NPARTS > 3
        merge(c12u_table_part_3());
    #endif
        return all;
    }();
    return t;
}

// ---- in-process crash guard -------------------------------------------------------------------------------------------
// The harness runs all cases in one process (--nofork).  A changed library can make one case trap (integer division by
// zero -> SIGFPE, ...): without a guard the process dies and every later case of the variant is lost ("impl missing").
// With it the case is reported as "crash <signal>" (reference leg "na"; the driver's spec leg then yields the failing
// input) and the run continues.  Not used in the UBSan build, whose traps are reported by the forking supervisor.
#include <csetjmp>
#include <csignal>
static sigjmp_buf g_crash_jmp;
static volatile std::sig_atomic_t g_crash_armed = 0;
static void c12_crash_handler(int sig)
{
    if (g_crash_armed != 0) {
        g_crash_armed = 0;
        siglongjmp(g_crash_jmp, sig);
    }
    std::signal(sig, SIG_DFL);
    std::raise(sig);
}
static bool run_case_inner(std::string const& op, Toks& in, Out& impl, Out& ref);
bool vh::run_case(std::string const& op, Toks& in, Out& impl, Out& ref)
{
#ifdef C12_UBSAN
    return run_case_inner(op, in, impl, ref);
#else
    static bool const installed = [] {
        for (int s : {SIGFPE, SIGILL, SIGSEGV, SIGBUS, SIGABRT}) {
            struct sigaction sa {};
            sa.sa_handler = c12_crash_handler;
            sigemptyset(&sa.sa_mask);
            sa.sa_flags = SA_NODEFER;
            sigaction(s, &sa, nullptr);
        }
        return true;
    }();
    (void)installed;
    int const sig = sigsetjmp(g_crash_jmp, 1);
    if (sig != 0) {
        impl.s.clear();
        ref.s.clear();
        impl.tok("crash").num(sig);
        return true;
    }
    g_crash_armed = 1;
    bool const r = run_case_inner(op, in, impl, ref);
    g_crash_armed = 0;
    return r;
#endif
}

static bool run_case_inner(std::string const& op0, Toks& in, Out& impl, Out& ref)
{
    // "uub_<op>": an input on which the code has undefined behaviour (signed overflow in int / long after promotion,
    // division by zero).  Only the variant built with -DC12_UBSAN (UBSan in trap mode, forking supervisor: a trap is
    // reported as "crash 4") executes it, as "u_<op>".
    std::string opname = op0;
    if (opname.rfind("uub_", 0) == 0) {
#ifdef C12_UBSAN
        opname = "u_" + opname.substr(4);
#else
        impl.tok("skip");
        return true;
#endif
    }
    std::string const& op = opname;
    if (op.rfind("u_", 0) != 0) {
        impl.tok("skip");
        return true;
    }
    auto i  = static_cast<int>(in.num());
    auto j  = static_cast<int>(in.num());
    auto rc = static_cast<int>(in.num());
    i64 n1 = in.num(), d1 = in.num(), r1 = in.num(), n2 = in.num(), d2 = in.num(), r2 = in.num();
    if (op == "u_pq") { pq_rows(impl, ref); return true; }
    if (op == "u_pqovf") { pqovf_rows(impl); return true; }
    if (op == "u_ctor") { ctor_rows(impl, ref); return true; }
    if (op == "u_lcmwrap") { lcmwrap_rows(impl); return true; }
    if (op == "u_spaceship") {
        // [time.duration.comparisons], [time.point.comparisons] (C++20): operator<=> on two durations / time_points
        using ETS = ec::time_point<ec::system_clock, ec::seconds>;
        using STS = sc::time_point<sc::system_clock, sc::seconds>;
        impl.tok("ok").b(c12_three_way<ec::seconds, ec::milliseconds>).b(c12_three_way<ETS, ETS>);
        ref.tok("ok").b(c12_three_way<sc::seconds, sc::milliseconds>).b(c12_three_way<STS, STS>);
        return true;
    }
    if (op == "u_fl") {
        // float / long double representations on four period pairs (i, j index the period table)
        if (i == 0 && j == 1) { fl_rows<0, 1>(in, impl, ref); return true; }
        if (i == 1 && j == 0) { fl_rows<1, 0>(in, impl, ref); return true; }
        if (i == 2 && j == 1) { fl_rows<2, 1>(in, impl, ref); return true; }
        if (i == 3 && j == 4) { fl_rows<3, 4>(in, impl, ref); return true; }
        if (i == 5 && j == 0) { fl_rows<5, 0>(in, impl, ref); return true; }
        impl.tok("not-instantiated");
        return true;
    }
    if (i < 0 || i >= UNP || j < 0 || j >= UNP || rc < 0 || rc >= 64) {
        impl.tok("bad-index");
        return true;
    }
    auto const& e = utable()[static_cast<std::size_t>((i * UNP + j) * 64 + rc)];
    if (e.n1 != n1 || e.d1 != d1 || e.n2 != n2 || e.d2 != d2 || e.r1 != r1 || e.r2 != r2) {
        impl.tok("table-mismatch");
        return true;
    }
    if (e.run == nullptr) {
        impl.tok("not-instantiated");
        return true;
    }
    UOpId const id = uop_id(op);
    if (id == U_NONE) { return false; }
    return e.run(id, in, impl, ref);
}

VERIF_MAIN()
#endif // C12_PART == 0
