(* C12 driver: model leg = extracted Model.v functions, spec leg = extracted Spec.v functions
   (printed only inside the theorems' documented domain, i.e. when the extracted *_ok predicate
   holds; "na" otherwise).
   Case line:  <op> <i> <j> <rc> <N1> <D1> <w1> <N2> <D2> <w2> <args...>
   i j rc are the harness' compile-time table indices (ignored here); N/D are the ratio template
   arguments as written (mk_dty normalises them like ratio<>::num/den), w the rep widths. *)
(* the UBSan variant of the harness (trap mode) turns undefined behaviour into SIGILL = "crash 4" *)
let ub_leg = match Sys.getenv_opt "C12_UB_LEG" with Some _ -> "crash 4" | None -> "ub"
let tok_of = function
  | Val v -> str_of_z v
  | Ub _ -> "ub"
  | IllFormed -> "illformed"
  | Fuel -> "fuel"
let tokb_of = function
  | Val b -> b2s b
  | Ub _ -> "ub"
  | IllFormed -> "illformed"
  | Fuel -> "fuel"
let leg1 = function
  | Val v -> join [ "ok"; str_of_z v ]
  | Ub _ -> ub_leg
  | IllFormed -> "illformed"
  | Fuel -> "fuel"
let legs l = join ("ok" :: l)
let okz z = join [ "ok"; str_of_z z ]
let zi = z_of_int


(* per (types) cache of the partially applied model / spec functions: the compile-time part of
   each operation (see "Staging" in Model.v) is evaluated once per pair of duration types *)
type pc = {
  a : dty; b : dty; n1 : z; d1 : z; n2 : z; d2 : z; w1 : z; w2 : z; pok : bool;
  cast : (z -> z out) Lazy.t; floor : (z -> z out) Lazy.t; ceil : (z -> z out) Lazy.t;
  round : (z -> z out) Lazy.t; conv : (z -> z out) Lazy.t; convertible : bool out Lazy.t;
  plus : (z -> z -> z out) Lazy.t; minus : (z -> z -> z out) Lazy.t;
  div : (z -> z -> z out) Lazy.t; modu : (z -> z -> z out) Lazy.t;
  cmps : (z -> z -> bool out) list Lazy.t; absm : (z -> z out) Lazy.t;
  cast_ok : (z -> bool) Lazy.t; floor_ok : (z -> bool) Lazy.t; ceil_ok : (z -> bool) Lazy.t;
  round_ok : (z -> bool) Lazy.t; both_ok : (z -> z -> bool) Lazy.t; plus_ok : (z -> z -> bool) Lazy.t;
  minus_ok : (z -> z -> bool) Lazy.t; div_ok : (z -> z -> bool) Lazy.t;
  plus_s : (z -> z -> z) Lazy.t; minus_s : (z -> z -> z) Lazy.t; mod_s : (z -> z -> z) Lazy.t;
  cf : (z * z) out Lazy.t;
}
let cache : (string, pc option) Hashtbl.t = Hashtbl.create 1024

let make_pc n1r d1r w1 n2r d2r w2 =
  match mk_dty w1 n1r d1r, mk_dty w2 n2r d2r with
  | Val a, Val b ->
    let n1 = a.pn and d1 = a.pd and n2 = b.pn and d2 = b.pd in
    Some { a; b; n1; d1; n2; d2; w1; w2;
           pok = period_ok n1 d1 && period_ok n2 d2 && rep_ok w1 && rep_ok w2;
           cast = lazy (duration_cast_m a b); floor = lazy (floor_m a b); ceil = lazy (ceil_m a b);
           round = lazy (round_m a b); conv = lazy (conv_m a b); convertible = lazy (convertible_m a b);
           plus = lazy (plus_m a b); minus = lazy (minus_m a b); div = lazy (div_m a b); modu = lazy (mod_m a b);
           cmps = lazy [ eq_m a b; ne_m a b; lt_m a b; le_m a b; gt_m a b; ge_m a b ];
           absm = lazy (abs_m a);
           cast_ok = lazy (cast_ok w1 n1 d1 w2 n2 d2); floor_ok = lazy (floor_ok w1 n1 d1 w2 n2 d2);
           ceil_ok = lazy (ceil_ok w1 n1 d1 w2 n2 d2); round_ok = lazy (round_ok w1 n1 d1 w2 n2 d2);
           both_ok = lazy (both_ok w1 n1 d1 w2 n2 d2); plus_ok = lazy (plus_ok w1 n1 d1 w2 n2 d2);
           minus_ok = lazy (minus_ok w1 n1 d1 w2 n2 d2); div_ok = lazy (div_ok w1 n1 d1 w2 n2 d2);
           plus_s = lazy (plus_spec n1 d1 n2 d2); minus_s = lazy (minus_spec n1 d1 n2 d2);
           mod_s = lazy (mod_spec n1 d1 n2 d2);
           cf = lazy (ratio_divide_m (n1, d1) (n2, d2)) }
  | _, _ -> None

let f = Lazy.force

let run_case op t =
  let key = String.concat " " (List.filteri (fun k _ -> k < 9) t.rest) in
  let _i = next_int t in
  let _j = next_int t in
  let _rc = next_int t in
  let n1r = next_z t in let d1r = next_z t in let w1 = next_z t in
  let n2r = next_z t in let d2r = next_z t in let w2 = next_z t in
  let p = match Hashtbl.find_opt cache key with
    | Some p -> p
    | None -> let p = make_pc n1r d1r w1 n2r d2r w2 in Hashtbl.add cache key p; p in
  match p with
  | None -> ("illformed", "na")
  | Some p ->
    let n1 = p.n1 and d1 = p.d1 and n2 = p.n2 and d2 = p.d2 and pok = p.pok in
    let wc = Z.max w1 w2 in
    let op =
      if String.length op > 3 && String.sub op 0 3 = "ub_" then
        (match String.sub op 3 (String.length op - 3) with "cast" -> "castw" | o -> o)
      else op in
    (match op with
     | "cast" | "tp_cast" ->
       let c = next_z t in
       (leg1 (f p.cast c), if pok && f p.cast_ok c then okz (cast_spec n1 d1 n2 d2 c) else "na")
     | "castw" ->
       (* C12_duration_cast_total: count * numerator fits intmax_t -> the truncated quotient modulo 2^w2 *)
       let c = next_z t in
       let okd = pok && fits w1 c &&
                 (match f p.cf with Val (cn, _) -> fits (zi 64) (Z.mul c cn) | _ -> false) in
       (leg1 (f p.cast c), if okd then okz (wrap_rep w2 (cast_spec n1 d1 n2 d2 c)) else "na")
     | "floor" ->
       let c = next_z t in
       (leg1 (f p.floor c), if pok && f p.floor_ok c then okz (floor_spec n1 d1 n2 d2 c) else "na")
     | "ceil" ->
       let c = next_z t in
       (leg1 (f p.ceil c), if pok && f p.ceil_ok c then okz (ceil_spec n1 d1 n2 d2 c) else "na")
     | "round" ->
       let c = next_z t in
       (leg1 (f p.round c), if pok && f p.round_ok c then okz (round_spec n1 d1 n2 d2 c) else "na")
     | "rnd4" | "tp_rnd4" ->
       let c = next_z t in
       (legs [ tok_of (f p.cast c); tok_of (f p.floor c); tok_of (f p.ceil c); tok_of (f p.round c) ],
        if pok && f p.round_ok c && f p.ceil_ok c then
          legs (List.map str_of_z [ cast_spec n1 d1 n2 d2 c; floor_spec n1 d1 n2 d2 c;
                                    ceil_spec n1 d1 n2 d2 c; round_spec n1 d1 n2 d2 c ])
        else "na")
     | "conv" | "tp_conv" ->
       let c = next_z t in
       let m = match f p.convertible with
         | Val true -> leg1 (f p.conv c)
         | Val false -> "illformed"
         | o -> tokb_of o in
       (* [time.duration.cons]: participates iff the source period is an exact, representable
          multiple of the target period; then the value is exact (C12_converting_constructor) *)
       let exact = Z.eqb (Z.modulo (Z.mul n1 d2) (Z.mul d1 n2)) Z0
                   && Z.leb (Z.div (Z.mul n1 d2) (Z.mul d1 n2)) max64 in
       let s =
         if not pok then "na"
         else if not exact then "illformed"
         else if f p.cast_ok c then okz (cast_spec n1 d1 n2 d2 c) else "na" in
       (m, s)
     | "plus" ->
       let c1 = next_z t in let c2 = next_z t in
       (leg1 (f p.plus c1 c2), if pok && f p.plus_ok c1 c2 then okz (f p.plus_s c1 c2) else "na")
     | "minus" ->
       let c1 = next_z t in let c2 = next_z t in
       (leg1 (f p.minus c1 c2), if pok && f p.minus_ok c1 c2 then okz (f p.minus_s c1 c2) else "na")
     | "div" ->
       let c1 = next_z t in let c2 = next_z t in
       (leg1 (f p.div c1 c2), if pok && f p.div_ok c1 c2 then okz (div_spec n1 d1 n2 d2 c1 c2) else "na")
     | "mod" ->
       let c1 = next_z t in let c2 = next_z t in
       (leg1 (f p.modu c1 c2), if pok && f p.div_ok c1 c2 then okz (f p.mod_s c1 c2) else "na")
     | "cmp" | "tp_cmp" ->
       let c1 = next_z t in let c2 = next_z t in
       let e = eq_spec n1 d1 n2 d2 c1 c2 and l = lt_spec n1 d1 n2 d2 c1 c2 in
       (legs (List.map (fun g -> tokb_of (g c1 c2)) (f p.cmps)),
        if pok && f p.both_ok c1 c2 then
          legs (List.map b2s [ e; not e; l; l || e; not (l || e); not l ])
        else "na")
     | "ctype" ->
       ((match common_m p.a p.b with
           | Val t -> legs [ str_of_z t.rw; str_of_z t.pn; str_of_z t.pd ]
           | Ub _ -> "ub" | IllFormed -> "illformed" | Fuel -> "fuel"),
        if pok && common_ok n1 d1 n2 d2 then legs [ str_of_z wc; str_of_z (cnum n1 n2); str_of_z (cden d1 d2) ]
        else "na")
     | "period" ->
       (* ratio<N,D>::num, ::den of the first type *)
       let g = Z.gcd n1r d1r in
       (* core pairs: + the verdict of the compile-time comparison with std::chrono (always 1 on the model side) *)
       let ct = if _i < 10 && _j < 10 && _rc = 0 then [ "1" ] else [] in
       (legs ([ str_of_z n1; str_of_z d1 ] @ ct), legs ([ str_of_z (Z.div n1r g); str_of_z (Z.div d1r g) ] @ ct))
     | "unary" | "tp_unary" ->
       let c = next_z t in
       let one = zi 1 in
       let ms = [ neg_m w1 c; uplus_m w1 c; inc_m w1 c; inc_m w1 c; Val c; inc_m w1 c;
                  dec_m w1 c; dec_m w1 c; Val c; dec_m w1 c ] in
       let ss = [ Z.opp c; c; Z.add c one; Z.add c one; c; Z.add c one;
                  Z.sub c one; Z.sub c one; c; Z.sub c one ] in
       let (ms, ss) = if op = "unary" then (ms, ss)
         else (List.tl (List.tl ms), List.tl (List.tl ss)) in
       (legs (List.map tok_of ms),
        if rep_ok w1 && List.for_all (fits w1) (c :: ss) then legs (List.map str_of_z ss) else "na")
     | "compound" ->
       let c = next_z t in let x = next_z t in
       let ms = [ add_assign_m w1 c x; sub_assign_m w1 c x; mul_assign_m w1 c x;
                  div_assign_m w1 c x; mod_assign_m w1 c x; mod_assign_m w1 c x ] in
       let nz = not (Z.eqb x Z0) in
       let ss = if nz then [ Z.add c x; Z.sub c x; Z.mul c x; Z.quot c x; Z.rem c x; Z.rem c x ] else [] in
       (legs (List.map tok_of ms),
        if rep_ok w1 && nz && List.for_all (fits w1) (c :: x :: ss) then legs (List.map str_of_z ss) else "na")
     | "tp_compound" ->
       let c = next_z t in let x = next_z t in
       let ms = [ tp_add_assign_m w1 c x; tp_sub_assign_m w1 c x ] in
       let ss = [ Z.add c x; Z.sub c x ] in
       (legs (List.map tok_of ms),
        if rep_ok w1 && List.for_all (fits w1) (c :: x :: ss) then legs (List.map str_of_z ss) else "na")
     | "chain" | "tp_chain" ->
       (* (obj @k1 a) @k2 b for every k2 (ModelChain.v / SpecChain.v): per k2 the count left in obj and the count
          of the value of the expression; k1, k2 index all_mops (time_point: the first six) *)
       let k1 = next_int t in
       let c = next_z t in let a = next_z t in let b = next_z t in
       let tp = (op = "tp_chain") in
       let ops = List.filteri (fun k _ -> not tp || k < 6) all_mops in
       let o1 = List.nth all_mops k1 in
       let pr = function
         | Val (d, v) -> [ str_of_z d; str_of_z v ]
         | Ub _ -> [ "ub" ] | IllFormed -> [ "illformed" ] | Fuel -> [ "fuel" ] in
       let m = List.concat_map (fun o2 -> pr ((if tp then tp_chain_m else chain_m) o1 o2 w1 c a b)) ops in
       let dom = rep_ok w1 && (not tp || tp_op_spec o1) && List.for_all (fun o2 -> chain_ok w1 o1 o2 c a b) ops in
       (legs m,
        if dom then legs (List.concat_map (fun o2 -> let (d, v) = chain_spec o1 o2 c a b in [ str_of_z d; str_of_z v ]) ops)
        else "na")
     | "reftypes" ->
       (* is_same_v<decltype(obj @ x), T&> per operator, then is_same_v<decltype(obj @ x), T>; duration, then time_point *)
       let tops = List.filter tp_has_op all_mops in
       let sops = List.filter tp_op_spec all_mops in
       (legs (List.map (fun o -> b2s (returns_lvalue_m o)) all_mops
              @ List.map (fun o -> b2s (not (returns_lvalue_m o))) all_mops
              @ List.map (fun o -> b2s (tp_returns_lvalue_m o)) tops
              @ List.map (fun o -> b2s (not (tp_returns_lvalue_m o))) tops),
        legs (List.map (fun o -> b2s (returns_this_spec o)) all_mops
              @ List.map (fun o -> b2s (not (returns_this_spec o))) all_mops
              @ List.map (fun o -> b2s (returns_this_spec o)) sops
              @ List.map (fun o -> b2s (not (returns_this_spec o))) sops))
     | "scalar" ->
       (* duration<w1; n1/d1> op scalar of width w2 *)
       let c = next_z t in let x = next_z t in
       let ms = [ smul_m p.a w2 c x; smul_m p.a w2 c x; sdiv_m p.a w2 c x; smod_m p.a w2 c x ] in
       let nz = not (Z.eqb x Z0) in
       let ss = if nz then [ Z.mul c x; Z.mul c x; Z.quot c x; Z.rem c x ] else [] in
       (* the trailing 1: the result types are duration<common_type_t<Rep1, Rep2>, Period> *)
       (legs (List.map tok_of ms @ [ "1" ]),
        if pok && nz && fits w1 c && fits w2 x && List.for_all (fits wc) ss then legs (List.map str_of_z ss @ [ "1" ]) else "na")
     | "tp_arith" ->
       let c1 = next_z t in let c2 = next_z t in
       let ms = [ tp_plus_m p.a p.b c1 c2; tp_plus_r_m p.b p.a c2 c1; tp_minus_m p.a p.b c1 c2; tp_diff_m p.a p.b c1 c2 ] in
       (legs (List.map tok_of ms @ [ "1" ]),
        if pok && f p.plus_ok c1 c2 && f p.minus_ok c1 c2 then
          legs (List.map str_of_z [ f p.plus_s c1 c2; f p.plus_s c1 c2; f p.minus_s c1 c2; f p.minus_s c1 c2 ] @ [ "1" ])
        else "na")
     | "abs" ->
       let c = next_z t in
       (leg1 (f p.absm c), if pok && abs_ok w1 c then okz (abs_spec c) else "na")
     | "limits" ->
       let lo = if Z.eqb w1 (zi 32) then min32 else min64 in
       let hi = if Z.eqb w1 (zi 32) then max32 else max64 in
       (legs (List.map str_of_z [ Z0; lo; hi ]), "na")
     | "typedefs" ->
       let row ((w, n), d) ((bits, _), _) = [ str_of_z n; str_of_z d; "1"; b2s (Z.leb bits w) ] in
       (legs (List.concat (List.map2 row typedefs_m typedefs_spec)),
        legs (List.concat (List.map (fun ((_, n), d) -> [ str_of_z n; str_of_z d; "1"; "1" ]) typedefs_spec)))
     | "sratio" ->
       (* C12_ratio_signed *)
       let zs = [ (zi (-1), zi 2); (zi 1, zi (-2)); (zi (-4), zi (-6)); (Z0, zi 5); (Z0, zi (-5)); (zi (-120), zi 2);
                  (max64, Z.opp max64); (Z.opp max64, zi 3); (zi 1001, zi (-30000)) ] in
       let m = List.concat (List.map (fun (a, b) ->
           match ratio_m a b with Val (n, d) -> [ str_of_z n; str_of_z d ] | _ -> [ "bad" ]) zs) in
       let sgn a = if Z.eqb a Z0 then Z0 else if Z.leb a Z0 then zi (-1) else zi 1 in
       let sp = List.concat (List.map (fun (a, b) ->
           let g = Z.gcd a b in
           [ str_of_z (Z.mul (Z.mul (sgn a) (sgn b)) (Z.div (Z.abs a) g)); str_of_z (Z.div (Z.abs b) g) ]) zs) in
       (legs m, legs sp)
     | "constraints" ->
       (* the participation table of the standard (no Coq content): round only for a non-floating target;
          floor, ceil, duration_cast for every duration target and never for a non-duration; abs for signed reps *)
       let tbl = "ok 0 1 0 1 1 1 1 0 0 0 0 1 1" in
       (tbl, tbl)
     | "typedef_bits" ->
       (legs (List.map (fun ((w, _), _) -> str_of_z w) typedefs_m), "na")
     (* ---- floating-point target representation (duration<double, P2> from an integer count):
        model = extracted Flocq binary64 model (FModel.v), spec = the exact rational rounded once
        (computable when numerator and denominator are below 2^53); legs print the 64-bit pattern *)
     | "fcast_if" | "fconv_if" ->
       let c = next_z t in
       let m = (if op = "fcast_if" then fcast_m else fconv_m) p.a p.b c in
       ((match m with
           | Val r -> join [ "ok"; str_of_z (enc64 r) ]
           | Ub _ -> "ub" | IllFormed -> "illformed" | Fuel -> "fuel"),
        if pok && fspec_ok n1 d1 n2 d2 c then join [ "ok"; str_of_z (enc64 (fcast_spec n1 d1 n2 d2 c)) ] else "na")
     (* ---- floating-point SOURCE representation (extracted Flocq model; no Coq theorems: spec leg na) *)
     | "d_cast" ->
       let x = dec64 (next_z t) in
       ((match dd_cast_m p.a p.b x with
           | Val r -> join [ "ok"; str_of_z (enc64 r) ]
           | Ub _ -> ub_leg | IllFormed -> "illformed" | Fuel -> "fuel"), "na")
     | "d_rnd4" ->
       let x = dec64 (next_z t) in
       (legs [ tok_of (di_cast_m p.a p.b x); tok_of (di_floor_m p.a p.b x); tok_of (di_ceil_m p.a p.b x);
               tok_of (di_round_m p.a p.b x) ],
        (* C12_float_source_cast_exact / _rounding_exact: a double holding a whole number within the bounds *)
        match d_int_of x with
        | Some c when pok && fsrc_ok n1 d1 n2 d2 c ->
          legs (List.map str_of_z [ cast_spec n1 d1 n2 d2 c; floor_spec n1 d1 n2 d2 c;
                                    ceil_spec n1 d1 n2 d2 c; round_spec n1 d1 n2 d2 c ])
        | _ -> "na")
     | "d_arith" ->
       let x = dec64 (next_z t) in
       let y = dec64 (next_z t) in
       let fb = function Val r -> str_of_z (enc64 r) | Ub _ -> "ub" | IllFormed -> "illformed" | Fuel -> "fuel" in
       let nb = function Val b -> Val (not b) | o -> o in
       let lt = dd_lt_m p.a p.b x y and gt = dd_lt_m p.b p.a y x and eq = dd_eq_m p.a p.b x y in
       (legs ([ fb (dd_plus_m p.a p.b x y); fb (dd_minus_m p.a p.b x y); fb (dd_div_m p.a p.b x y) ]
              @ List.map tokb_of [ eq; nb eq; lt; nb gt; gt; nb lt ]), "na")
     | "d_pm" ->
       (* + - and the six comparisons of two double durations; spec for whole-valued counts inside [farith_ok]
          (C12_float_arith_guarded): the exact sum / difference as a double, the exact order *)
       let x = dec64 (next_z t) in
       let y = dec64 (next_z t) in
       let fb = function Val r -> str_of_z (enc64 r) | Ub _ -> "ub" | IllFormed -> "illformed" | Fuel -> "fuel" in
       let nb = function Val b -> Val (not b) | o -> o in
       let lt = dd_lt_m p.a p.b x y and gt = dd_lt_m p.b p.a y x and eq = dd_eq_m p.a p.b x y in
       (legs ([ fb (dd_plus_m p.a p.b x y); fb (dd_minus_m p.a p.b x y) ]
              @ List.map tokb_of [ eq; nb eq; lt; nb gt; gt; nb lt ]),
        match d_int_of x, d_int_of y with
        | Some c1, Some c2 when pok && farith_ok n1 d1 n2 d2 c1 c2 ->
          let e = eq_spec n1 d1 n2 d2 c1 c2 and l = lt_spec n1 d1 n2 d2 c1 c2 and g = lt_spec n2 d2 n1 d1 c2 c1 in
          legs ([ str_of_z (enc64 (d_of_Z (f p.plus_s c1 c2))); str_of_z (enc64 (d_of_Z (f p.minus_s c1 c2))) ]
                @ List.map b2s [ e; not e; l; not g; g; not l ])
        | _, _ -> "na")
     | "d_mpm" ->
       let c = next_z t in
       let y = dec64 (next_z t) in
       let fb = function Val r -> str_of_z (enc64 r) | Ub _ -> "ub" | IllFormed -> "illformed" | Fuel -> "fuel" in
       let nb = function Val b -> Val (not b) | o -> o in
       let lt = id_lt_m p.a p.b c y and eq = id_eq_m p.a p.b c y in
       (legs ([ fb (id_plus_m p.a p.b c y); fb (id_minus_m p.a p.b c y) ] @ List.map tokb_of [ eq; nb eq; lt; nb lt ]),
        match d_int_of y with
        | Some c2 when pok && farith_ok n1 d1 n2 d2 c c2 ->
          let e = eq_spec n1 d1 n2 d2 c c2 and l = lt_spec n1 d1 n2 d2 c c2 in
          legs ([ str_of_z (enc64 (d_of_Z (f p.plus_s c c2))); str_of_z (enc64 (d_of_Z (f p.minus_s c c2))) ]
                @ List.map b2s [ e; not e; l; not l ])
        | _ -> "na")
     | "d_mixed" ->
       (* duration<int64, P1>{c} with duration<double, P2>{y} *)
       let c = next_z t in
       let y = dec64 (next_z t) in
       let fb = function Val r -> str_of_z (enc64 r) | Ub _ -> "ub" | IllFormed -> "illformed" | Fuel -> "fuel" in
       let nb = function Val b -> Val (not b) | o -> o in
       let lt = id_lt_m p.a p.b c y and gt = di_lt_m p.b p.a y c and eq = id_eq_m p.a p.b c y in
       (legs ([ fb (id_plus_m p.a p.b c y); fb (id_minus_m p.a p.b c y); fb (di_minus_m p.b p.a y c) ]
              @ List.map tokb_of [ eq; nb eq; lt; nb gt; gt; nb lt; gt ]), "na")
     | "d_scalar" ->
       let c = next_z t in
       let y = dec64 (next_z t) in
       let fb = function Val r -> str_of_z (enc64 r) | Ub _ -> "ub" | IllFormed -> "illformed" | Fuel -> "fuel" in
       let e r = str_of_z (enc64 r) in
       (legs [ fb (is_mul_m p.a c y); fb (is_mul_m p.a c y); fb (is_div_m p.a c y);
               e (ds_mul_m y c); e (ds_mul_m y c); e (ds_div_m y c) ], "na")
     | _ -> raise Not_found)

(* ---- representation types of either signedness and of 8..64 bits (ops "u_*", harness variant "urep"):
   model = extracted UModel.v, spec = Spec.v values inside the extracted USpec.v domain predicates *)
type upc = {
  xa : dty; xb : dty; xn1 : z; xd1 : z; xn2 : z; xd2 : z; xr1 : z; xr2 : z; xpok : bool; xrc : z;
  xplus : (z -> z -> z out) Lazy.t; xminus : (z -> z -> z out) Lazy.t;
  xtp_plus : (z -> z -> z out) Lazy.t; xtp_plus_r : (z -> z -> z out) Lazy.t;
  xtp_minus : (z -> z -> z out) Lazy.t; xtp_diff : (z -> z -> z out) Lazy.t;
  xdiv : (z -> z -> z out) Lazy.t; xmod : (z -> z -> z out) Lazy.t;
  xcmps : (z -> z -> bool out) list Lazy.t;
  xsmul : (z -> z -> z out) Lazy.t; xsdiv : (z -> z -> z out) Lazy.t; xsmod : (z -> z -> z out) Lazy.t;
  xconv : (z -> z out) Lazy.t; xconvertible : bool out Lazy.t;
  xcast : (z -> z out) Lazy.t; xfloor : (z -> z out) Lazy.t; xceil : (z -> z out) Lazy.t; xround : (z -> z out) Lazy.t;
  xabs : (z -> z out) Lazy.t;
  xboth_ok : (z -> z -> bool) Lazy.t; xplus_ok : (z -> z -> bool) Lazy.t; xminus_ok : (z -> z -> bool) Lazy.t;
  xdiv_ok : (z -> z -> bool) Lazy.t; xcast_ok : (z -> bool) Lazy.t;
  xfloor_ok : (z -> bool) Lazy.t; xceil_ok : (z -> bool) Lazy.t; xround_ok : (z -> bool) Lazy.t;
  xplus_s : (z -> z -> z) Lazy.t; xminus_s : (z -> z -> z) Lazy.t; xmod_s : (z -> z -> z) Lazy.t;
}
let ucache : (string, upc option) Hashtbl.t = Hashtbl.create 1024

let make_upc n1r d1r r1 n2r d2r r2 =
  match mk_dty r1 n1r d1r, mk_dty r2 n2r d2r with
  | Val a, Val b ->
    let n1 = a.pn and d1 = a.pd and n2 = b.pn and d2 = b.pd in
    Some { xa = a; xb = b; xn1 = n1; xd1 = d1; xn2 = n2; xd2 = d2; xr1 = r1; xr2 = r2;
           xpok = period_ok n1 d1 && period_ok n2 d2 && urep_ok r1 && urep_ok r2;
           xrc = crep_spec r1 r2;
           xplus = lazy (uadd_m a b); xminus = lazy (usub_m a b);
           xtp_plus = lazy (utp_plus_m a b); xtp_plus_r = lazy (utp_plus_r_m a b);
           xtp_minus = lazy (utp_minus_m a b); xtp_diff = lazy (utp_diff_m a b);
           xdiv = lazy (udiv_m a b); xmod = lazy (umod_m a b);
           xcmps = lazy [ ueq_m a b; une_m a b; ult_m a b; ule_m a b; ugt_m a b; uge_m a b;
                          utp_eq_m a b; utp_ne_m a b; utp_lt_m a b; utp_le_m a b; utp_gt_m a b; utp_ge_m a b ];
           xsmul = lazy (usmul_m a r2); xsdiv = lazy (usdiv_m a r2); xsmod = lazy (usmod_m a r2);
           xconv = lazy (uconv_m a b); xconvertible = lazy (uconvertible_m a b);
           xcast = lazy (ucast_m a b); xfloor = lazy (ufloor_m a b); xceil = lazy (uceil_m a b);
           xround = lazy (uround_m a b); xabs = lazy (uabs_m a);
           xboth_ok = lazy (uboth_ok r1 n1 d1 r2 n2 d2); xplus_ok = lazy (uplus_ok r1 n1 d1 r2 n2 d2);
           xminus_ok = lazy (uminus_ok r1 n1 d1 r2 n2 d2); xdiv_ok = lazy (udiv_ok r1 n1 d1 r2 n2 d2);
           xcast_ok = lazy (ucast_ok r1 n1 d1 r2 n2 d2);
           xfloor_ok = lazy (ufloor_ok r1 n1 d1 r2 n2 d2); xceil_ok = lazy (uceil_ok r1 n1 d1 r2 n2 d2);
           xround_ok = lazy (uround_ok r1 n1 d1 r2 n2 d2);
           xplus_s = lazy (plus_spec n1 d1 n2 d2); xminus_s = lazy (minus_spec n1 d1 n2 d2);
           xmod_s = lazy (mod_spec n1 d1 n2 d2) }
  | _, _ -> None

let run_ucase op t =
  let key = String.concat " " (List.filteri (fun k _ -> k < 9) t.rest) in
  let _i = next_int t in
  let _j = next_int t in
  let _rc = next_int t in
  let n1r = next_z t in let d1r = next_z t in let r1 = next_z t in
  let n2r = next_z t in let d2r = next_z t in let r2 = next_z t in
  let p = match Hashtbl.find_opt ucache key with
    | Some p -> p
    | None -> let p = make_upc n1r d1r r1 n2r d2r r2 in Hashtbl.add ucache key p; p in
  match p with
  | None -> ("illformed", "na")
  | Some p ->
    let n1 = p.xn1 and d1 = p.xd1 and n2 = p.xn2 and d2 = p.xd2 and pok = p.xpok and rc = p.xrc in
    let sz = str_of_z in
    (match op with
     | "u_ctype" ->
       ((match ucommon_m p.xa p.xb with
           | Val t -> legs [ sz t.rw; sz t.pn; sz t.pd; sz (common_rep r1 r2); sz (cr3 r2 r1); "1" ]
           | Ub _ -> "ub" | IllFormed -> "illformed" | Fuel -> "fuel"),
        if pok && common_ok n1 d1 n2 d2 then
          legs [ sz rc; sz (cnum n1 n2); sz (cden d1 d2); sz rc; sz (crep_spec (crep_spec r2 r1) (zi 64)); "1" ]
        else "na")
     | "u_plus" ->
       let c1 = next_z t in let c2 = next_z t in
       let s = f p.xplus_s c1 c2 in
       (legs (List.map tok_of [ f p.xplus c1 c2; f p.xtp_plus c1 c2; utp_plus_r_m p.xa p.xb c1 c2 ]),
        if pok && f p.xplus_ok c1 c2 then legs [ sz s; sz s; sz s ] else "na")
     | "u_minus" ->
       let c1 = next_z t in let c2 = next_z t in
       let s = f p.xminus_s c1 c2 in
       (legs (List.map tok_of [ f p.xminus c1 c2; f p.xtp_minus c1 c2; f p.xtp_diff c1 c2 ]),
        if pok && f p.xminus_ok c1 c2 then legs [ sz s; sz s; sz s ] else "na")
     | "u_div" ->
       let c1 = next_z t in let c2 = next_z t in
       (leg1 (f p.xdiv c1 c2), if pok && f p.xdiv_ok c1 c2 then okz (div_spec n1 d1 n2 d2 c1 c2) else "na")
     | "u_mod" ->
       let c1 = next_z t in let c2 = next_z t in
       (leg1 (f p.xmod c1 c2), if pok && f p.xdiv_ok c1 c2 then okz (f p.xmod_s c1 c2) else "na")
     | "u_cmp" ->
       let c1 = next_z t in let c2 = next_z t in
       let e = eq_spec n1 d1 n2 d2 c1 c2 and l = lt_spec n1 d1 n2 d2 c1 c2 in
       let six = List.map b2s [ e; not e; l; l || e; not (l || e); not l ] in
       (legs (List.map (fun g -> tokb_of (g c1 c2)) (f p.xcmps)),
        if pok && f p.xboth_ok c1 c2 then legs (six @ six) else "na")
     | "u_scalar" ->
       let c = next_z t in let x = next_z t in
       let ms = [ f p.xsmul c x; f p.xsmul c x; f p.xsdiv c x; f p.xsmod c x ] in
       let nz = not (Z.eqb x Z0) in
       let ss = if nz then [ Z.mul c x; Z.mul c x; Z.quot c x; Z.rem c x ] else [] in
       (legs (List.map tok_of ms @ [ "1" ]),
        if pok && nz && uscalar_ok r1 r2 c x && List.for_all (ufits rc) ss then legs (List.map sz ss @ [ "1" ]) else "na")
     | "u_conv" ->
       let c = next_z t in
       let m = match f p.xconvertible with
         | Val true -> (match f p.xconv c with Val v -> legs [ sz v; sz v ] | o -> leg1 o)
         | Val false -> "illformed illformed"
         | o -> tokb_of o in
       let exact = Z.eqb (Z.modulo (Z.mul n1 d2) (Z.mul d1 n2)) Z0
                   && Z.leb (Z.div (Z.mul n1 d2) (Z.mul d1 n2)) max64 in
       let s =
         if not pok then "na"
         else if not exact then "illformed illformed"
         else if f p.xcast_ok c then (let v = cast_spec n1 d1 n2 d2 c in legs [ sz v; sz v ]) else "na" in
       (m, s)
     | "u_cast" ->
       let c = next_z t in
       let m = f p.xcast c in
       (legs [ tok_of m; tok_of m ],
        if pok && f p.xcast_ok c then (let v = cast_spec n1 d1 n2 d2 c in legs [ sz v; sz v ]) else "na")
     | "u_rnd4" ->
       let c = next_z t in
       let r = f p.xround c in
       (legs [ tok_of (f p.xcast c); tok_of (f p.xfloor c); tok_of (f p.xceil c); tok_of r; tok_of r ],
        if pok && f p.xcast_ok c && f p.xfloor_ok c && f p.xceil_ok c && f p.xround_ok c then
          (let r = round_spec n1 d1 n2 d2 c in
           legs (List.map sz [ cast_spec n1 d1 n2 d2 c; floor_spec n1 d1 n2 d2 c; ceil_spec n1 d1 n2 d2 c; r; r ]))
        else "na")
     | "u_unary" ->
       let c = next_z t in
       let one = zi 1 in
       let i = uinc_m r1 c and d = udec_m r1 c in
       let ti = utp_inc_m r1 c and td = utp_dec_m r1 c in
       let ms = [ uneg_m r1 c; uuplus_m r1 c; i; i; Val c; i; d; d; Val c; d; ti; ti; Val c; ti; td; td; Val c; td ] in
       let a = Z.add c one and b = Z.sub c one in
       let ss = [ Z.opp c; c; a; a; c; a; b; b; c; b; a; a; c; a; b; b; c; b ] in
       (legs (List.map tok_of ms),
        if urep_ok r1 && List.for_all (ufits r1) ss then legs (List.map sz ss) else "na")
     | "u_compound" ->
       let c = next_z t in let x = next_z t in
       let ms = [ uadd_assign_m r1 c x; usub_assign_m r1 c x; umul_assign_m r1 c x; udiv_assign_m r1 c x;
                  umod_assign_m r1 c x; umod_assign_m r1 c x; utp_add_assign_m r1 c x; utp_sub_assign_m r1 c x ] in
       let nz = not (Z.eqb x Z0) in
       let ss = if nz then [ Z.add c x; Z.sub c x; Z.mul c x; Z.quot c x; Z.rem c x; Z.rem c x; Z.add c x; Z.sub c x ] else [] in
       (legs (List.map tok_of ms),
        if urep_ok r1 && nz && List.for_all (ufits r1) (c :: x :: ss) then legs (List.map sz ss) else "na")
     | "u_abs" ->
       let c = next_z t in
       (leg1 (f p.xabs c),
        (* [time.duration.alg]: abs participates only for a signed representation *)
        if Z.ltb r1 Z0 then "illformed"
        else if pok && uabs_ok r1 c then okz (abs_spec c) else "na")
     | "u_limits" ->
       (* [time.traits.duration.values]: zero() = Rep(0), min() = numeric_limits<Rep>::lowest(), max() = ...::max();
          USpec.ufits is exactly "lowest() <= x <= max()" *)
       let lo = if Z.ltb r1 Z0 then Z0 else Z.opp (Z.pow (zi 2) (Z.sub r1 (zi 1))) in
       let hi = if Z.ltb r1 Z0 then Z.sub (Z.pow (zi 2) (Z.opp r1)) (zi 1) else Z.sub (Z.pow (zi 2) (Z.sub r1 (zi 1))) (zi 1) in
       (legs (List.map sz [ Z0; rmin r1; rmax r1; rmin r1; rmax r1 ]),
        if urep_ok r1 && ufits r1 lo && ufits r1 hi && not (ufits r1 (Z.sub lo (zi 1))) && not (ufits r1 (Z.add hi (zi 1)))
        then legs (List.map sz [ Z0; lo; hi; lo; hi ]) else "na")
     | _ -> raise Not_found)


(* tables of harness_u.cpp that need no duration-type pair *)
let imax = max64
let pq_rows = [ (imax, zi 1, zi 1, zi 1); (zi 1, zi 1, zi 1, imax); (imax, zi 1, imax, zi 1); (imax, zi 1, zi 7, zi 1);
                (zi 1, zi 1, imax, zi 1); (Z.pow (zi 2) (zi 62), zi 1, zi 1, zi 1);
                (zi 3037000500, zi 1, zi 1, zi 3037000499);
                (zi 1, zi 3037000499, zi 1, Z.mul (zi 3037000499) (zi 3037000500));
                (zi 1, imax, zi 1, imax); (imax, zi 2, zi 1, zi 2); (zi (-5), zi (-1), zi 1, zi 1);
                (zi 1, zi 1000, zi (-1), zi (-1000000)) ]
let pqovf_rows = [ (zi 3037000500, zi 1, zi 1, zi 3037000500); (imax, zi 1, zi 1, zi 2); (zi 1, imax, zi 2, zi 1);
                   (zi 1, zi 2, imax, zi 1); (Z.pow (zi 2) (zi 62), zi 1, zi 1, zi 3); (zi 1, Z.pow (zi 2) (zi 62), zi 3, zi 1) ]
let pq_legs rows =
  let w = zi 64 in
  let one (n1, d1, n2, d2) =
    match mk_dty w n1 d1, mk_dty w n2 d2 with
    | Val a, Val b ->
      let m = (match convertible_m a b with Val x -> b2s x | o -> tokb_of o) in
      (* C12_converting_constructor on the normalised periods *)
      let s = if period_ok a.pn a.pd && period_ok b.pn b.pd then
          b2s (Z.eqb (Z.modulo (Z.mul a.pn b.pd) (Z.mul a.pd b.pn)) Z0
               && Z.leb (Z.div (Z.mul a.pn b.pd) (Z.mul a.pd b.pn)) max64)
        else "?" in
      ([ m; m ], [ s; s ])
    | _, _ -> ([ "illformed"; "illformed" ], [ "?"; "?" ]) in
  let l = List.map one rows in
  (legs (List.concat (List.map fst l)), legs (List.concat (List.map snd l)))

let run_utable op =
  match op with
  | "u_pq" | "u_pqovf" -> Some (pq_legs (if op = "u_pq" then pq_rows else pqovf_rows))
  | "u_ctor" ->
    (* participation table of [time.duration.cons] / [time.point.cons] (no Coq content) *)
    let tbl = "ok 0 0 1 1 1 0 0 1 0 0 1 1 1 1 0 1 0 1 0 1" in Some (tbl, tbl)
  | "u_lcmwrap" ->
    (* lcm of the denominators does not fit intmax_t: etl::lcm wraps (model: lcm_m), outside every theorem *)
    let w = zi 64 in
    (match mk_dty w (zi 1) (Z.pow (zi 2) (zi 62)), mk_dty w (zi 1) (zi 4052555153018976267) with
     | Val a, Val b ->
       (match common_m a b with
        | Val t ->
          let cv x = (match convertible_m x t with Val v -> b2s v | o -> tokb_of o) in
          Some (legs [ str_of_z t.pn; str_of_z t.pd; str_of_z t.rw; cv a; cv b ], "na")
        | _ -> Some ("illformed", "na"))
     | _, _ -> Some ("illformed", "na"))
  | "u_spaceship" ->
    (* known finding KF-C12-no-spaceship: the library defines no operator<=> (the model mirrors that); the standard
       requires it for durations and time_points *)
    Some ("ok 0 0", "ok 1 1")
  | "u_fl" ->
    (* float / long double representations: the harness compares every result with std::chrono; not modelled *)
    Some ("ok 14 14", "na")
  | _ -> None

let run_case op t =
  if String.length op > 4 && String.sub op 0 4 = "uub_" then begin
    (* an input with undefined behaviour, executed by the UBSan variant only: one trap ends the whole case *)
    let (m, _) = run_ucase ("u_" ^ String.sub op 4 (String.length op - 4)) t in
    let has_ub = List.mem "ub" (String.split_on_char ' ' m) in
    ((if has_ub then ub_leg else m), "na")
  end
  else if String.length op > 2 && String.sub op 0 2 = "u_" then
    (match run_utable op with Some r -> r | None -> run_ucase op t)
  else run_case op t

let () = main run_case
