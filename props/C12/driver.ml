(* C12 driver: model leg = extracted Model.v functions, spec leg = extracted Spec.v functions
   (printed only inside the theorems' documented domain, i.e. when the extracted *_ok predicate
   holds; "na" otherwise).
   Case line:  <op> <i> <j> <rc> <N1> <D1> <w1> <N2> <D2> <w2> <args...>
   i j rc are the harness' compile-time table indices (ignored here); N/D are the ratio template
   arguments as written (mk_dty normalises them like ratio<>::num/den), w the rep widths. *)
let tok_of = function
  | Val v -> str_of_z v
  | Ub _ -> "ub"
  | IllFormed -> "illformed"
  | Fuel -> "fuel"
let tokb_of = function
  | Val b -> b2s b
  | Ub _ -> "ub"
  | IllFormed -> "illformed"
  | Fuel -> "fuel"
let leg1 = function
  | Val v -> join [ "ok"; str_of_z v ]
  | Ub _ -> "ub"
  | IllFormed -> "illformed"
  | Fuel -> "fuel"
let legs l = join ("ok" :: l)
let okz z = join [ "ok"; str_of_z z ]
let zi = z_of_int

(* floating-point legs (tested only; no Coq model): the C++ expressions re-evaluated on IEEE
   doubles by OCaml.  Values are printed as the 64-bit pattern of the double. *)
let fbits (x : float) = Printf.sprintf "%Lx" (Int64.bits_of_float x)
let float_of_zz z = Big.to_float (big_of_z z)

let run_case op t =
  let _i = next_int t in
  let _j = next_int t in
  let _rc = next_int t in
  let n1r = next_z t in let d1r = next_z t in let w1 = next_z t in
  let n2r = next_z t in let d2r = next_z t in let w2 = next_z t in
  match mk_dty w1 n1r d1r, mk_dty w2 n2r d2r with
  | Val a, Val b ->
    let n1 = a.pn and d1 = a.pd and n2 = b.pn and d2 = b.pd in
    let pok = period_ok n1 d1 && period_ok n2 d2 && rep_ok w1 && rep_ok w2 in
    let wc = Z.max w1 w2 in
    (match op with
     | "cast" | "tp_cast" ->
       let c = next_z t in
       (leg1 (duration_cast_m a b c),
        if pok && cast_ok w1 n1 d1 w2 n2 d2 c then okz (cast_spec n1 d1 n2 d2 c) else "na")
     | "floor" | "tp_floor" ->
       let c = next_z t in
       (leg1 (floor_m a b c),
        if pok && floor_ok w1 n1 d1 w2 n2 d2 c then okz (floor_spec n1 d1 n2 d2 c) else "na")
     | "ceil" | "tp_ceil" ->
       let c = next_z t in
       (leg1 (ceil_m a b c),
        if pok && ceil_ok w1 n1 d1 w2 n2 d2 c then okz (ceil_spec n1 d1 n2 d2 c) else "na")
     | "round" | "tp_round" ->
       let c = next_z t in
       (leg1 (round_m a b c),
        if pok && round_ok w1 n1 d1 w2 n2 d2 c then okz (round_spec n1 d1 n2 d2 c) else "na")
     | "rnd4" | "tp_rnd4" ->
       let c = next_z t in
       (legs [ tok_of (duration_cast_m a b c); tok_of (floor_m a b c); tok_of (ceil_m a b c);
               tok_of (round_m a b c) ],
        if pok && round_ok w1 n1 d1 w2 n2 d2 c && ceil_ok w1 n1 d1 w2 n2 d2 c then
          legs (List.map str_of_z [ cast_spec n1 d1 n2 d2 c; floor_spec n1 d1 n2 d2 c;
                                    ceil_spec n1 d1 n2 d2 c; round_spec n1 d1 n2 d2 c ])
        else "na")
     | "conv" | "tp_conv" ->
       let c = next_z t in
       let m = match convertible_m a b with
         | Val true -> leg1 (conv_m a b c)
         | Val false -> "illformed"
         | o -> tokb_of o in
       (* [time.duration.cons]: participates iff the source period is an exact multiple of the
          target period; then the value is exact *)
       let exact = Z.eqb (Z.modulo (Z.mul n1 d2) (Z.mul d1 n2)) Z0 in
       let s =
         if not pok then "na"
         else if not exact then "illformed"
         else if cast_ok w1 n1 d1 w2 n2 d2 c then okz (cast_spec n1 d1 n2 d2 c) else "na" in
       (m, s)
     | "plus" ->
       let c1 = next_z t in let c2 = next_z t in
       (leg1 (plus_m a b c1 c2),
        if pok && plus_ok w1 n1 d1 w2 n2 d2 c1 c2 then okz (plus_spec n1 d1 n2 d2 c1 c2) else "na")
     | "minus" ->
       let c1 = next_z t in let c2 = next_z t in
       (leg1 (minus_m a b c1 c2),
        if pok && minus_ok w1 n1 d1 w2 n2 d2 c1 c2 then okz (minus_spec n1 d1 n2 d2 c1 c2) else "na")
     | "div" ->
       let c1 = next_z t in let c2 = next_z t in
       (leg1 (div_m a b c1 c2),
        if pok && div_ok w1 n1 d1 w2 n2 d2 c1 c2 then okz (div_spec n1 d1 n2 d2 c1 c2) else "na")
     | "mod" ->
       let c1 = next_z t in let c2 = next_z t in
       (leg1 (mod_m a b c1 c2),
        if pok && div_ok w1 n1 d1 w2 n2 d2 c1 c2 then okz (mod_spec n1 d1 n2 d2 c1 c2) else "na")
     | "cmp" | "tp_cmp" ->
       let c1 = next_z t in let c2 = next_z t in
       let fs = if op = "cmp" then [ eq_m; ne_m; lt_m; le_m; gt_m; ge_m ]
         else [ tp_eq_m; ne_m; tp_lt_m; tp_le_m; tp_gt_m; tp_ge_m ] in
       let e = eq_spec n1 d1 n2 d2 c1 c2 and l = lt_spec n1 d1 n2 d2 c1 c2 in
       (legs (List.map (fun f -> tokb_of (f a b c1 c2)) fs),
        if pok && both_ok w1 n1 d1 w2 n2 d2 c1 c2 then
          legs (List.map b2s [ e; not e; l; l || e; not (l || e); not l ])
        else "na")
     | "ctype" ->
       ((match common_m a b with
           | Val t -> legs [ str_of_z t.rw; str_of_z t.pn; str_of_z t.pd ]
           | o -> (match o with Ub _ -> "ub" | IllFormed -> "illformed" | _ -> "fuel")),
        if pok && common_ok n1 d1 n2 d2 then legs [ str_of_z wc; str_of_z (cnum n1 n2); str_of_z (cden d1 d2) ]
        else "na")
     | "period" ->
       (* ratio<N,D>::num, ::den of the first type *)
       let g = Z.gcd n1r d1r in
       (legs [ str_of_z n1; str_of_z d1 ], legs [ str_of_z (Z.div n1r g); str_of_z (Z.div d1r g) ])
     | "unary" | "tp_unary" ->
       let c = next_z t in
       let one = zi 1 in
       let ms = [ neg_m w1 c; uplus_m w1 c; inc_m w1 c; inc_m w1 c; Val c; inc_m w1 c;
                  dec_m w1 c; dec_m w1 c; Val c; dec_m w1 c ] in
       let ss = [ Z.opp c; c; Z.add c one; Z.add c one; c; Z.add c one;
                  Z.sub c one; Z.sub c one; c; Z.sub c one ] in
       let (ms, ss) = if op = "unary" then (ms, ss)
         else (List.tl (List.tl ms), List.tl (List.tl ss)) in
       (legs (List.map tok_of ms),
        if rep_ok w1 && List.for_all (fits w1) (c :: ss) then legs (List.map str_of_z ss) else "na")
     | "compound" ->
       let c = next_z t in let x = next_z t in
       let ms = [ add_assign_m w1 c x; sub_assign_m w1 c x; mul_assign_m w1 c x;
                  div_assign_m w1 c x; mod_assign_m w1 c x; mod_assign_m w1 c x ] in
       let nz = not (Z.eqb x Z0) in
       let ss = if nz then [ Z.add c x; Z.sub c x; Z.mul c x; Z.quot c x; Z.rem c x; Z.rem c x ] else [] in
       (legs (List.map tok_of ms),
        if rep_ok w1 && nz && List.for_all (fits w1) (c :: x :: ss) then legs (List.map str_of_z ss) else "na")
     | "tp_compound" ->
       let c = next_z t in let x = next_z t in
       let ms = [ tp_add_assign_m w1 c x; tp_sub_assign_m w1 c x ] in
       let ss = [ Z.add c x; Z.sub c x ] in
       (legs (List.map tok_of ms),
        if rep_ok w1 && List.for_all (fits w1) (c :: x :: ss) then legs (List.map str_of_z ss) else "na")
     | "abs" ->
       let c = next_z t in
       (leg1 (abs_m a c), if pok && abs_ok w1 c then okz (abs_spec c) else "na")
     | "limits" ->
       let lo = if Z.eqb w1 (zi 32) then min32 else min64 in
       let hi = if Z.eqb w1 (zi 32) then max32 else max64 in
       (legs (List.map str_of_z [ Z0; lo; hi ]), "na")
     | "typedefs" ->
       let row ((w, n), d) ((bits, _), _) = [ str_of_z n; str_of_z d; "1"; b2s (Z.leb bits w) ] in
       (legs (List.concat (List.map2 row typedefs_m typedefs_spec)),
        legs (List.concat (List.map (fun ((_, n), d) -> [ str_of_z n; str_of_z d; "1"; "1" ]) typedefs_spec)))
     | "typedef_bits" ->
       (legs (List.map (fun ((w, _), _) -> str_of_z w) typedefs_m), "na")
     (* ---- floating-point representations: double mirror, tested only *)
     | "fcast_if" ->
       (* duration_cast<duration<double,P2>>(duration<int64,P1>{c}) *)
       let c = next_z t in
       (match ratio_divide_m (n1, d1) (n2, d2) with
        | Val (cn, cd) ->
          let x = float_of_zz c and fn = float_of_zz cn and fd = float_of_zz cd in
          let one = zi 1 in
          let v = if Z.eqb cn one then (if Z.eqb cd one then x else x /. fd)
            else if Z.eqb cd one then x *. fn else x *. fn /. fd in
          (join [ "ok"; fbits v ], "na")
        | _ -> ("illformed", "na"))
     | "fconv_if" ->
       (* duration<double,P2>(duration<int64,P1>{c}): always participates, == duration_cast *)
       let c = next_z t in
       (match ratio_divide_m (n1, d1) (n2, d2) with
        | Val (cn, cd) ->
          let x = float_of_zz c and fn = float_of_zz cn and fd = float_of_zz cd in
          let one = zi 1 in
          let v = if Z.eqb cn one then (if Z.eqb cd one then x else x /. fd)
            else if Z.eqb cd one then x *. fn else x *. fn /. fd in
          (join [ "ok"; fbits v ], "na")
        | _ -> ("illformed", "na"))
     | _ -> raise Not_found)
  | _, _ -> ("illformed", "na")

let () = main run_case
