#!/usr/bin/env python3
"""Parallel compile wrapper used as the 'compiler' of the C12 harness.

harness.cpp instantiates ~215 (period pair, representation pair) combinations; one translation unit
takes ~35 s at -O0.  This wrapper compiles the SAME source once per part (-DC12_PART=k, the flag
-DC12_NPARTS=N comes from prop.py), at most C12_JOBS (default 4) compiler processes at a time, and
links the objects.  It accepts the g++ command line the engine builds:
    pcxx.py <flags...> -DC12_NPARTS=N <src>.cpp -o <exe>
"""
import os
import shutil
import subprocess
import sys
import tempfile


def main(argv):
    cxx = os.environ.get("C12_CXX", "g++")
    out = src = None
    flags = []
    nparts = 1
    i = 0
    while i < len(argv):
        a = argv[i]
        if a == "-o":
            out = argv[i + 1]
            i += 2
            continue
        if a.startswith("-DC12_NPARTS="):
            nparts = int(a.split("=", 1)[1])
        if a.endswith(".cpp") and not a.startswith("-"):
            src = a
        else:
            flags.append(a)
        i += 1
    if out is None or src is None:
        sys.stderr.write("pcxx.py: need <src>.cpp and -o <exe>\n")
        return 2
    tmp = tempfile.mkdtemp(prefix="c12-build-")
    try:
        objs = [os.path.join(tmp, "part%d.o" % k) for k in range(nparts)]
        pending = [[cxx] + flags + ["-DC12_PART=%d" % k, "-c", src, "-o", objs[k]] for k in range(nparts)]
        jobs = max(1, int(os.environ.get("C12_JOBS", "4")))
        running = []
        rc = 0
        log = b""
        while pending or running:
            while pending and len(running) < jobs:
                running.append(subprocess.Popen(pending.pop(0), stdout=subprocess.PIPE, stderr=subprocess.STDOUT))
            p = running.pop(0)
            o, _ = p.communicate()
            log += o
            if p.returncode != 0:
                rc = p.returncode
                pending = []
        if rc == 0:
            p = subprocess.run([cxx] + [f for f in flags if not f.startswith("-D") and not f.startswith("-I")] + objs + ["-o", out],
                               stdout=subprocess.PIPE, stderr=subprocess.STDOUT)
            log += p.stdout
            rc = p.returncode
        sys.stderr.buffer.write(log)
        return rc
    finally:
        shutil.rmtree(tmp, ignore_errors=True)


if __name__ == "__main__":
    sys.exit(main(sys.argv[1:]))
