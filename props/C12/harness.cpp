// C12 harness: etl::chrono duration / time_point arithmetic (impl leg) vs std::chrono with the
// same ratios and representations (reference leg), cross-checked against exact __int128
// rational arithmetic (a disagreement between std and the exact value is appended to the
// reference leg as "!exact=<v>", which then shows up as a spec-validation warning).
//
// Case line:  <op> <i> <j> <rc> <N1> <D1> <w1> <N2> <D2> <w2> <args...>
//   i, j : indices into the compile-time period table below
//   rc   : representation combination 0:(int64,int64) 1:(int32,int32) 2:(int32,int64) 3:(int64,int32)
//   N D w: the same information in clear (used by the OCaml driver); checked against the table
#include "common.hpp"

#include <chrono>
#include <cstdint>
#include <cstring>
#include <limits>
#include <ratio>
#include <type_traits>
#include <utility>

#include <etl/chrono.hpp>
#include <etl/ratio.hpp>

namespace ec = etl::chrono;
namespace sc = std::chrono;
using namespace vh;

// ---- period table ------------------------------------------------------------------------
template <int I>
struct Per;
#define PER(I, N, D)                                                                                                   \
    template <>                                                                                                        \
    struct Per<I> {                                                                                                    \
        static constexpr i64 n = N;                                                                                    \
        static constexpr i64 d = D;                                                                                    \
    }
PER(0, 1, 1000000000);
PER(1, 1, 1000000);
PER(2, 1, 1000);
PER(3, 1, 1);
PER(4, 60, 1);
PER(5, 3600, 1);
PER(6, 86400, 1);
PER(7, 1, 3);
PER(8, 5, 7);
PER(9, 1001, 30000);
// beyond the property's set: the library's own weeks/months/years periods, pico (the common
// type of pico with itself needs lcm(10^12, 10^12)), and two ratios not in lowest terms
PER(10, 604800, 1);
PER(11, 2629746, 1);
PER(12, 31556952, 1);
PER(13, 1, 1000000000000);
PER(14, 120, 2);
PER(15, 3, 9);
constexpr int NP   = 16;
constexpr int CORE = 10;

// The instantiation table is split over C12_NPARTS translation units (same source, -DC12_PART=k,
// compiled in parallel by props/C12/pcxx.py); part 0 also holds run_case and main.
#ifndef C12_NPARTS
    #define C12_NPARTS 1
#endif
#ifndef C12_PART
    #define C12_PART 0
#endif
constexpr bool mine(int i, int j) { return (i * 5 + j) % C12_NPARTS == C12_PART; }

constexpr i64 cgcd(i64 a, i64 b) { return b == 0 ? a : cgcd(b, a % b); }
constexpr bool fits64(i128 x) { return x >= std::numeric_limits<i64>::min() && x <= std::numeric_limits<i64>::max(); }

// which (i, j, rc) are instantiated (compile time is proportional to their number):
//  rc 0 (int64, int64): all ordered pairs of the 10 core periods; the extra periods with
//       themselves and with nano / seconds / days / ratio<5,7> partners;
//  rc 1..3 (an int32 side): a subset of core pairs covering each duration_cast_impl
//       specialisation and the library's own int32 typedefs (minutes, hours, days)
constexpr bool narrow_pair(int i, int j)
{
    constexpr int sel[][2] = {{2, 3}, {3, 2}, {0, 3}, {3, 0}, {4, 5}, {5, 4}, {4, 6}, {6, 4}, {5, 6}, {6, 5}, {6, 3},
        {3, 6}, {9, 7}, {7, 9}, {8, 9}, {9, 8}, {6, 6}, {7, 8}, {4, 2}, {2, 4}};
    for (auto const& p : sel) {
        if (p[0] == i && p[1] == j) { return true; }
    }
    return false;
}
constexpr bool enabled(int i, int j, int rc)
{
    if (i < CORE && j < CORE) { return rc == 0 || narrow_pair(i, j); }
    if (rc != 0) { return false; }
    auto partner = [](int k) { return k == 0 || k == 3 || k == 6 || k == 8; };
    return i == j || partner(i) || partner(j);
}
template <int I, int J>
constexpr bool factor_ok()
{
    constexpr i64 g1 = cgcd(Per<I>::n, Per<I>::d), g2 = cgcd(Per<J>::n, Per<J>::d);
    constexpr i128 n1 = Per<I>::n / g1, d1 = Per<I>::d / g1, n2 = Per<J>::n / g2, d2 = Per<J>::d / g2;
    return fits64(n1 * d2) && fits64(d1 * n2) && fits64(d2 * n1) && fits64(n2 * d1);
}

// ---- exact arithmetic ----------------------------------------------------------------------
static i128 g128(i128 a, i128 b)
{
    if (a < 0) { a = -a; }
    if (b < 0) { b = -b; }
    while (b != 0) { i128 r = a % b; a = b; b = r; }
    return a;
}
static i128 fdiv(i128 a, i128 b) // floor, b > 0
{
    i128 q = a / b;
    if (a % b != 0 && a < 0) { --q; }
    return q;
}
struct Exact {
    i128 n1, d1, n2, d2;
    i128 A() const { return n1 * d2; } // exact conversion factor A/B
    i128 B() const { return d1 * n2; }
    i128 cast(i128 c) const { return (c * A()) / B(); }
    i128 floor(i128 c) const { return fdiv(c * A(), B()); }
    i128 ceil(i128 c) const { return -fdiv(-(c * A()), B()); }
    i128 round(i128 c) const
    {
        i128 q = floor(c);
        i128 r = c * A() - q * B();
        if (2 * r < B()) { return q; }
        if (2 * r > B()) { return q + 1; }
        return (q % 2 == 0) ? q : q + 1;
    }
    i128 g() const { return g128(n1, n2); }
    i128 l() const { return d1 / g128(d1, d2) * d2; }
    i128 f1() const { return (n1 * l()) / (d1 * g()); }
    i128 f2() const { return (n2 * l()) / (d2 * g()); }
};

static void put(Out& o, i128 v) { o.big(v); }

// reference leg helper: print std's value; flag a disagreement with the exact value
static void ref1(Out& ref, i128 stdv, i128 exact)
{
    ref.tok("ok").big(stdv);
    if (stdv != exact) { ref.tok("!exact=").big(exact); }
}

enum OpId {
    OP_CAST, OP_FLOOR, OP_CEIL, OP_ROUND, OP_RND4, OP_TP_CAST, OP_TP_RND4,
    OP_CONV, OP_TP_CONV, OP_PLUS, OP_MINUS, OP_DIV, OP_MOD, OP_CMP, OP_TP_CMP, OP_CTYPE, OP_PERIOD, OP_UNARY,
    OP_TP_UNARY, OP_COMPOUND, OP_TP_COMPOUND, OP_ABS, OP_LIMITS, OP_FCAST_IF, OP_FCONV_IF, OP_SCALAR, OP_TP_ARITH, OP_CASTW, OP_D_CAST, OP_D_RND4, OP_D_ARITH, OP_D_MIXED, OP_D_SCALAR, OP_D_PM, OP_D_MPM, OP_CHAIN, OP_TP_CHAIN, OP_REFTYPES, OP_NONE
};
static OpId op_id(std::string const& s)
{
    static char const* const names[] = {"cast", "floor", "ceil", "round", "rnd4", "tp_cast", "tp_rnd4", "conv", "tp_conv", "plus", "minus", "div", "mod", "cmp", "tp_cmp", "ctype", "period",
        "unary", "tp_unary", "compound", "tp_compound", "abs", "limits", "fcast_if", "fconv_if", "scalar", "tp_arith", "castw", "d_cast", "d_rnd4", "d_arith", "d_mixed", "d_scalar", "d_pm", "d_mpm", "chain", "tp_chain", "reftypes"};
    for (int k = 0; k < OP_NONE; ++k) {
        if (s == names[k]) { return static_cast<OpId>(k); }
    }
    return OP_NONE;
}

// ---- member operators as expressions: what they RETURN ---------------------------------------
// mop<K, D>(obj, x) evaluates the K-th mutating member operator of the duration type D on obj and
// returns exactly what the operator expression yields (decltype(auto): D& for an operator declared
// "-> duration&", a prvalue D for one declared "-> duration").  obj may be an lvalue or a
// temporary (the result of a previous mop): (d -= a) -= b is mop<5>(mop<5>(d, a), b).
// Order = coq/C12/ModelChain.v all_mops: ++d d++ --d d-- += -= *= /= %=(rep) %=(duration)
constexpr int NMOP  = 10;
constexpr int NTMOP = 6; // time_point has the first six only
template <int K, typename D, typename Obj>
constexpr decltype(auto) mop(Obj&& obj, typename D::rep x)
{
    if constexpr (K == 0) { return ++obj; }
    else if constexpr (K == 1) { return obj++; }
    else if constexpr (K == 2) { return --obj; }
    else if constexpr (K == 3) { return obj--; }
    else if constexpr (K == 4) { return obj += D{x}; }
    else if constexpr (K == 5) { return obj -= D{x}; }
    else if constexpr (K == 6) { return obj *= x; }
    else if constexpr (K == 7) { return obj /= x; }
    else if constexpr (K == 8) { return obj %= x; }
    else { return obj %= D{x}; }
}
// the same for a time_point type T (argument: a duration of T::duration)
template <int K, typename T, typename Obj>
constexpr decltype(auto) tmop(Obj&& obj, typename T::duration::rep x)
{
    using D = typename T::duration;
    if constexpr (K == 0) { return ++obj; }
    else if constexpr (K == 1) { return obj++; }
    else if constexpr (K == 2) { return --obj; }
    else if constexpr (K == 3) { return obj--; }
    else if constexpr (K == 4) { return obj += D{x}; }
    else { return obj -= D{x}; }
}
template <typename D>
constexpr i64 cnt_of(D const& d)
{
    if constexpr (requires { d.count(); }) { return static_cast<i64>(d.count()); }
    else { return static_cast<i64>(d.time_since_epoch().count()); }
}
// (obj @K1 a) @K2 b in ONE full expression; prints the count left in obj and the count of the value of the expression
template <typename D, int K1, int K2>
static void chain_one(Out& o, typename D::rep c, typename D::rep a, typename D::rep b)
{
    D obj{c};
    i64 const v = cnt_of(mop<K2, D>(mop<K1, D>(obj, a), b));
    o.num(cnt_of(obj)).num(v);
}
template <typename D, int K1, int... K2>
static void chain_row(Out& o, typename D::rep c, typename D::rep a, typename D::rep b, std::integer_sequence<int, K2...>)
{
    (chain_one<D, K1, K2>(o, c, a, b), ...);
}
template <typename D, int... K1>
static void chain_all(Out& o, int k1, typename D::rep c, typename D::rep a, typename D::rep b, std::integer_sequence<int, K1...>)
{
    o.tok("ok");
    ((k1 == K1 ? chain_row<D, K1>(o, c, a, b, std::make_integer_sequence<int, NMOP>{}) : void()), ...);
}
template <typename T, int K1, int K2>
static void tchain_one(Out& o, typename T::duration::rep c, typename T::duration::rep a, typename T::duration::rep b)
{
    T obj{typename T::duration{c}};
    i64 const v = cnt_of(tmop<K2, T>(tmop<K1, T>(obj, a), b));
    o.num(cnt_of(obj)).num(v);
}
template <typename T, int K1, int... K2>
static void tchain_row(Out& o, typename T::duration::rep c, typename T::duration::rep a, typename T::duration::rep b, std::integer_sequence<int, K2...>)
{
    (tchain_one<T, K1, K2>(o, c, a, b), ...);
}
template <typename T, int... K1>
static void tchain_all(Out& o, int k1, typename T::duration::rep c, typename T::duration::rep a, typename T::duration::rep b, std::integer_sequence<int, K1...>)
{
    o.tok("ok");
    ((k1 == K1 ? tchain_row<T, K1>(o, c, a, b, std::make_integer_sequence<int, NTMOP>{}) : void()), ...);
}
// the static facts: is_same_v<decltype(obj @ x), D&> per operator, then is_same_v<decltype(obj @ x), D>
template <typename D, int... K>
static void reftypes_d(Out& o, std::integer_sequence<int, K...>)
{
    (o.b(std::is_same_v<decltype(mop<K, D>(std::declval<D&>(), std::declval<typename D::rep>())), D&>), ...);
    (o.b(std::is_same_v<decltype(mop<K, D>(std::declval<D&>(), std::declval<typename D::rep>())), D>), ...);
}
template <typename T, int... K>
static void reftypes_t(Out& o, std::integer_sequence<int, K...>)
{
    (o.b(std::is_same_v<decltype(tmop<K, T>(std::declval<T&>(), std::declval<typename T::duration::rep>())), T&>), ...);
    (o.b(std::is_same_v<decltype(tmop<K, T>(std::declval<T&>(), std::declval<typename T::duration::rep>())), T>), ...);
}

static std::string dbits(double x)
{
    std::uint64_t u = 0;
    std::memcpy(&u, &x, sizeof u);
    char buf[32];
    std::snprintf(buf, sizeof buf, "%llu", static_cast<unsigned long long>(u));
    return buf;
}

template <int I, int J, int RC>
struct Ops {
    using R1 = std::conditional_t<RC == 1 || RC == 2, std::int32_t, std::int64_t>;
    using R2 = std::conditional_t<RC == 1 || RC == 3, std::int32_t, std::int64_t>;
    using EP1 = etl::ratio<Per<I>::n, Per<I>::d>;
    using EP2 = etl::ratio<Per<J>::n, Per<J>::d>;
    using SP1 = std::ratio<Per<I>::n, Per<I>::d>;
    using SP2 = std::ratio<Per<J>::n, Per<J>::d>;
    using E1  = ec::duration<R1, EP1>;
    using E2  = ec::duration<R2, EP2>;
    using S1  = sc::duration<R1, SP1>;
    using S2  = sc::duration<R2, SP2>;
    using ET1 = ec::time_point<ec::system_clock, E1>;
    using ET2 = ec::time_point<ec::system_clock, E2>;
    using ST1 = sc::time_point<sc::system_clock, S1>;
    using ST2 = sc::time_point<sc::system_clock, S2>;
    static constexpr Exact X{SP1::num, SP1::den, SP2::num, SP2::den};
    // the one-type operations are exercised on the first type of these pairs only
    static constexpr bool one_type = (I == J) || (I < CORE && J == (I + 1) % CORE);

    // impl (etl) and reference (std) evaluations, shared by the single and the grouped ops
    static i64 e_cast(R1 c) { return ec::duration_cast<E2>(E1{c}).count(); }
    static i64 e_floor(R1 c) { return ec::floor<E2>(E1{c}).count(); }
    static i64 e_ceil(R1 c) { return ec::ceil<E2>(E1{c}).count(); }
    static i64 e_round(R1 c) { return ec::round<E2>(E1{c}).count(); }
    static i64 s_cast(R1 c) { return sc::duration_cast<S2>(S1{c}).count(); }
    static i64 s_floor(R1 c) { return sc::floor<S2>(S1{c}).count(); }
    static i64 s_ceil(R1 c) { return sc::ceil<S2>(S1{c}).count(); }
    static i64 s_round(R1 c) { return sc::round<S2>(S1{c}).count(); }
    static i64 et_cast(R1 c)
    {
        ET2 r = ec::time_point_cast<E2>(ET1{E1{c}});
        return r.time_since_epoch().count();
    }
    static i64 et_floor(R1 c)
    {
        ET2 r = ec::floor<E2>(ET1{E1{c}});
        return r.time_since_epoch().count();
    }
    static i64 et_ceil(R1 c)
    {
        ET2 r = ec::ceil<E2>(ET1{E1{c}});
        return r.time_since_epoch().count();
    }
    static i64 et_round(R1 c)
    {
        ET2 r = ec::round<E2>(ET1{E1{c}});
        return r.time_since_epoch().count();
    }
    static i64 st_cast(R1 c) { return sc::time_point_cast<S2>(ST1{S1{c}}).time_since_epoch().count(); }
    static i64 st_floor(R1 c) { return sc::floor<S2>(ST1{S1{c}}).time_since_epoch().count(); }
    static i64 st_ceil(R1 c) { return sc::ceil<S2>(ST1{S1{c}}).time_since_epoch().count(); }
    static i64 st_round(R1 c) { return sc::round<S2>(ST1{S1{c}}).time_since_epoch().count(); }

    static void four(Out& impl, Out& ref, i64 const (&ev)[4], i64 const (&sv)[4], i128 c)
    {
        i128 ex[4] = {X.cast(c), X.floor(c), X.ceil(c), X.round(c)};
        impl.tok("ok");
        ref.tok("ok");
        for (int k = 0; k < 4; ++k) { impl.num(ev[k]); }
        for (int k = 0; k < 4; ++k) { ref.num(sv[k]); }
        for (int k = 0; k < 4; ++k) {
            if (sv[k] != ex[k]) { ref.tok("!exact=").big(ex[k]); }
        }
    }

    // Two harness variants are built from this file: the plain one (integer representations and the double
    // TARGET) and, with -DC12_FSRC, the one for a double SOURCE representation; each prints "skip" for the other's
    // operations.  (A library change that stops one family from compiling still leaves the other one running.)
    static bool run(OpId op, Toks& in, Out& impl, Out& ref)
    {
#ifdef C12_FSRC
        if (op != OP_D_CAST && op != OP_D_RND4 && op != OP_D_ARITH && op != OP_D_MIXED && op != OP_D_SCALAR && op != OP_D_PM && op != OP_D_MPM) {
            impl.tok("skip");
            return true;
        }
#else
        if (op == OP_D_CAST || op == OP_D_RND4 || op == OP_D_ARITH || op == OP_D_MIXED || op == OP_D_SCALAR || op == OP_D_PM || op == OP_D_MPM) {
            impl.tok("skip");
            return true;
        }
        switch (op) {
        case OP_CAST: {
            auto c = static_cast<R1>(in.num());
            impl.tok("ok").num(e_cast(c));
            ref1(ref, s_cast(c), X.cast(c));
            return true;
        }
        case OP_CASTW: {
            // a cast whose exact result does not fit the target representation: no undefined behaviour,
            // static_cast<to_rep> converts modulo 2^w (C++20); std does the same, the exact value is not compared
            auto c = static_cast<R1>(in.num());
            impl.tok("ok").num(e_cast(c));
            ref.tok("ok").num(s_cast(c));
            return true;
        }
        case OP_FLOOR: {
            auto c = static_cast<R1>(in.num());
            impl.tok("ok").num(e_floor(c));
            ref1(ref, s_floor(c), X.floor(c));
            return true;
        }
        case OP_CEIL: {
            auto c = static_cast<R1>(in.num());
            impl.tok("ok").num(e_ceil(c));
            ref1(ref, s_ceil(c), X.ceil(c));
            return true;
        }
        case OP_ROUND: {
            auto c = static_cast<R1>(in.num());
            impl.tok("ok").num(e_round(c));
            ref1(ref, s_round(c), X.round(c));
            return true;
        }
        case OP_RND4: {
            auto c = static_cast<R1>(in.num());
            i64 ev[4] = {e_cast(c), e_floor(c), e_ceil(c), e_round(c)};
            i64 sv[4] = {s_cast(c), s_floor(c), s_ceil(c), s_round(c)};
            four(impl, ref, ev, sv, c);
            return true;
        }
        case OP_TP_CAST: {
            auto c = static_cast<R1>(in.num());
            impl.tok("ok").num(et_cast(c));
            ref1(ref, st_cast(c), X.cast(c));
            return true;
        }
        case OP_TP_RND4: {
            auto c = static_cast<R1>(in.num());
            i64 ev[4] = {et_cast(c), et_floor(c), et_ceil(c), et_round(c)};
            i64 sv[4] = {st_cast(c), st_floor(c), st_ceil(c), st_round(c)};
            four(impl, ref, ev, sv, c);
            return true;
        }
        case OP_CONV: {
            auto c = static_cast<R1>(in.num());
            if constexpr (std::is_convertible_v<E1, E2>) {
                E2 r = E1{c};
                impl.tok("ok").num(r.count());
            } else {
                impl.tok("illformed");
            }
            if constexpr (std::is_convertible_v<S1, S2>) {
                S2 r = S1{c};
                ref1(ref, r.count(), X.cast(c));
            } else {
                ref.tok("illformed");
            }
            return true;
        }
        case OP_TP_CONV: {
            auto c = static_cast<R1>(in.num());
            if constexpr (std::is_convertible_v<ET1, ET2>) {
                ET2 r = ET1{E1{c}};
                impl.tok("ok").num(r.time_since_epoch().count());
            } else {
                impl.tok("illformed");
            }
            if constexpr (std::is_convertible_v<ST1, ST2>) {
                ST2 r = ST1{S1{c}};
                ref1(ref, r.time_since_epoch().count(), X.cast(c));
            } else {
                ref.tok("illformed");
            }
            return true;
        }
        case OP_PLUS: {
            auto c1 = static_cast<R1>(in.num());
            auto c2 = static_cast<R2>(in.num());
            impl.tok("ok").num((E1{c1} + E2{c2}).count());
            ref1(ref, (S1{c1} + S2{c2}).count(), c1 * X.f1() + c2 * X.f2());
            return true;
        }
        case OP_MINUS: {
            auto c1 = static_cast<R1>(in.num());
            auto c2 = static_cast<R2>(in.num());
            impl.tok("ok").num((E1{c1} - E2{c2}).count());
            ref1(ref, (S1{c1} - S2{c2}).count(), c1 * X.f1() - c2 * X.f2());
            return true;
        }
        case OP_DIV: {
            auto c1 = static_cast<R1>(in.num());
            auto c2 = static_cast<R2>(in.num());
            auto q  = E1{c1} / E2{c2};
            static_assert(std::is_same_v<decltype(q), std::common_type_t<R1, R2>>);
            impl.tok("ok").num(q);
            ref1(ref, S1{c1} / S2{c2}, (static_cast<i128>(c1) * X.n1 * X.d2) / (static_cast<i128>(c2) * X.n2 * X.d1));
            return true;
        }
        case OP_MOD: {
            auto c1 = static_cast<R1>(in.num());
            auto c2 = static_cast<R2>(in.num());
            impl.tok("ok").num((E1{c1} % E2{c2}).count());
            ref1(ref, (S1{c1} % S2{c2}).count(), (c1 * X.f1()) % (c2 * X.f2()));
            return true;
        }
        case OP_CMP: {
            auto c1 = static_cast<R1>(in.num());
            auto c2 = static_cast<R2>(in.num());
            {
                E1 a{c1};
                E2 b{c2};
                impl.tok("ok").b(a == b).b(a != b).b(a < b).b(a <= b).b(a > b).b(a >= b);
            }
            S1 a{c1};
            S2 b{c2};
            ref.tok("ok").b(a == b).b(a != b).b(a < b).b(a <= b).b(a > b).b(a >= b);
            i128 l = static_cast<i128>(c1) * X.n1 * X.d2, r = static_cast<i128>(c2) * X.n2 * X.d1;
            if ((a == b) != (l == r) || (a < b) != (l < r)) { ref.tok("!exact"); }
            return true;
        }
        case OP_TP_CMP: {
            auto c1 = static_cast<R1>(in.num());
            auto c2 = static_cast<R2>(in.num());
            {
                ET1 a{E1{c1}};
                ET2 b{E2{c2}};
                impl.tok("ok").b(a == b).b(a != b).b(a < b).b(a <= b).b(a > b).b(a >= b);
            }
            ST1 a{S1{c1}};
            ST2 b{S2{c2}};
            ref.tok("ok").b(a == b).b(a != b).b(a < b).b(a <= b).b(a > b).b(a >= b);
            return true;
        }
        case OP_SCALAR: {
            // duration<R1, P1> op scalar of type R2: d * s, s * d, d / s, d % s  [time.duration.nonmember]
            auto c = static_cast<R1>(in.num());
            auto x = static_cast<R2>(in.num());
            using CRT = std::common_type_t<R1, R2>;
            if constexpr (requires(E1 d, R2 v) { d * v; v * d; d / v; d % v; }) {
                E1 const d{c};
                // the result types, reported as a value (a changed library must show up as a failing case)
                constexpr bool types = std::is_same_v<decltype(d * x), ec::duration<CRT, EP1>>
                    && std::is_same_v<decltype(x * d), ec::duration<CRT, EP1>>
                    && std::is_same_v<decltype(d / x), ec::duration<CRT, EP1>>
                    && std::is_same_v<decltype(d % x), ec::duration<CRT, EP1>>;
                impl.tok("ok").num((d * x).count()).num((x * d).count()).num((d / x).count()).num((d % x).count());
                impl.b(types);
            } else {
                impl.tok("illformed");
            }
            S1 const d{c};
            static_assert(std::is_same_v<decltype(d * x), sc::duration<CRT, SP1>>);
            ref.tok("ok").num((d * x).count()).num((x * d).count()).num((d / x).count()).num((d % x).count()).b(true);
            return true;
        }
        case OP_TP_ARITH: {
            // tp + d, d + tp, tp - d, tp - tp  [time.point.nonmember]
            auto c1 = static_cast<R1>(in.num());
            auto c2 = static_cast<R2>(in.num());
            if constexpr (requires(ET1 t, E2 d, ET2 u) { t + d; d + t; t - d; t - u; }) {
                ET1 const t{E1{c1}};
                E2 const d{c2};
                ET2 const u{d};
                using ECD = etl::common_type_t<E1, E2>;
                constexpr bool types = std::is_same_v<decltype(t + d), ec::time_point<ec::system_clock, ECD>>
                    && std::is_same_v<decltype(d + t), ec::time_point<ec::system_clock, ECD>>
                    && std::is_same_v<decltype(t - d), ec::time_point<ec::system_clock, ECD>>
                    && std::is_same_v<decltype(t - u), ECD>;
                impl.tok("ok")
                    .num((t + d).time_since_epoch().count())
                    .num((d + t).time_since_epoch().count())
                    .num((t - d).time_since_epoch().count())
                    .num((t - u).count())
                    .b(types);
            } else {
                impl.tok("illformed");
            }
            ST1 const t{S1{c1}};
            S2 const d{c2};
            ST2 const u{d};
            ref.tok("ok")
                .num((t + d).time_since_epoch().count())
                .num((d + t).time_since_epoch().count())
                .num((t - d).time_since_epoch().count())
                .num((t - u).count())
                .b(true);
            i128 ex = c1 * X.f1() + c2 * X.f2(), exm = c1 * X.f1() - c2 * X.f2();
            if ((t + d).time_since_epoch().count() != ex || (t - u).count() != exm) { ref.tok("!exact"); }
            return true;
        }
        case OP_CTYPE: {
            using EC = etl::common_type_t<E1, E2>;
            using SC = std::common_type_t<S1, S2>;
            impl.tok("ok")
                .num(static_cast<i64>(sizeof(typename EC::rep) * 8))
                .num(EC::period::num)
                .num(EC::period::den);
            ref.tok("ok").num(static_cast<i64>(sizeof(typename SC::rep) * 8)).num(SC::period::num).num(SC::period::den);
            static_assert(std::is_signed_v<typename EC::rep>);
            // the time_point common type wraps the duration common type
            static_assert(std::is_same_v<typename etl::common_type_t<ET1, ET2>::duration, EC>);
            return true;
        }
        case OP_PERIOD: {
            // constant evaluation takes the same path: for the core pairs the four conversions, the arithmetic and the
            // comparisons of a few small counts are evaluated by the compiler and compared with std::chrono there
            if constexpr (I < CORE && J < CORE && RC == 0) {
                constexpr auto ct = [](long long v) {
                    auto const c = static_cast<R1>(v);
                    auto const k = static_cast<R2>(v / 3 + 1);
                    return ec::duration_cast<E2>(E1{c}).count() == sc::duration_cast<S2>(S1{c}).count()
                        && ec::floor<E2>(E1{c}).count() == sc::floor<S2>(S1{c}).count()
                        && ec::ceil<E2>(E1{c}).count() == sc::ceil<S2>(S1{c}).count()
                        && ec::round<E2>(E1{c}).count() == sc::round<S2>(S1{c}).count()
                        && (E1{c} + E2{k}).count() == (S1{c} + S2{k}).count()
                        && (E1{c} - E2{k}).count() == (S1{c} - S2{k}).count()
                        && (E1{c} % E2{k}).count() == (S1{c} % S2{k}).count()
                        && (E1{c} / E2{k}) == (S1{c} / S2{k})
                        && (E1{c} < E2{k}) == (S1{c} < S2{k}) && (E1{c} == E2{k}) == (S1{c} == S2{k})
                        && ec::abs(E1{c}).count() == sc::abs(S1{c}).count()
                        && (E1{c} * k).count() == (S1{c} * k).count();
                };
                // (reported as a value, not a static_assert: a changed library must show up as a failing case)
                constexpr bool agree = ct(7) && ct(-7) && ct(1500) && ct(-1500) && ct(90) && ct(-30);
                impl.tok("ok").num(E1::period::num).num(E1::period::den).b(agree);
                ref.tok("ok").num(S1::period::num).num(S1::period::den).b(true);
                return true;
            }
            impl.tok("ok").num(E1::period::num).num(E1::period::den);
            ref.tok("ok").num(S1::period::num).num(S1::period::den);
            return true;
        }
        case OP_LIMITS: {
            impl.tok("ok").num(E1::zero().count()).num(E1::min().count()).num(E1::max().count());
            ref.tok("ok").num(S1::zero().count()).num(S1::min().count()).num(S1::max().count());
            static_assert(ET1::min().time_since_epoch().count() == E1::min().count());
            static_assert(ET1::max().time_since_epoch().count() == E1::max().count());
            return true;
        }
        default: break;
        }
        if constexpr (one_type) {
            switch (op) {
            case OP_UNARY: {
                auto c = static_cast<R1>(in.num());
                {
                    E1 const d{c};
                    impl.tok("ok").num((-d).count()).num((+d).count());
                    { E1 x{c}; auto r = ++x; impl.num(r.count()).num(x.count()); }
                    { E1 x{c}; auto r = x++; impl.num(r.count()).num(x.count()); }
                    { E1 x{c}; auto r = --x; impl.num(r.count()).num(x.count()); }
                    { E1 x{c}; auto r = x--; impl.num(r.count()).num(x.count()); }
                }
                S1 const d{c};
                ref.tok("ok").num((-d).count()).num((+d).count());
                { S1 x{c}; auto r = ++x; ref.num(r.count()).num(x.count()); }
                { S1 x{c}; auto r = x++; ref.num(r.count()).num(x.count()); }
                { S1 x{c}; auto r = --x; ref.num(r.count()).num(x.count()); }
                { S1 x{c}; auto r = x--; ref.num(r.count()).num(x.count()); }
                return true;
            }
            case OP_TP_UNARY: {
                auto c = static_cast<R1>(in.num());
                auto ec_ = [](ET1 const& t) { return t.time_since_epoch().count(); };
                auto sc_ = [](ST1 const& t) { return t.time_since_epoch().count(); };
                impl.tok("ok");
                { ET1 x{E1{c}}; auto r = ++x; impl.num(ec_(r)).num(ec_(x)); }
                { ET1 x{E1{c}}; auto r = x++; impl.num(ec_(r)).num(ec_(x)); }
                { ET1 x{E1{c}}; auto r = --x; impl.num(ec_(r)).num(ec_(x)); }
                { ET1 x{E1{c}}; auto r = x--; impl.num(ec_(r)).num(ec_(x)); }
                ref.tok("ok");
                { ST1 x{S1{c}}; auto r = ++x; ref.num(sc_(r)).num(sc_(x)); }
                { ST1 x{S1{c}}; auto r = x++; ref.num(sc_(r)).num(sc_(x)); }
                { ST1 x{S1{c}}; auto r = --x; ref.num(sc_(r)).num(sc_(x)); }
                { ST1 x{S1{c}}; auto r = x--; ref.num(sc_(r)).num(sc_(x)); }
                return true;
            }
            case OP_COMPOUND: {
                auto c = static_cast<R1>(in.num());
                auto x = static_cast<R1>(in.num());
                impl.tok("ok");
                { E1 d{c}; d += E1{x}; impl.num(d.count()); }
                { E1 d{c}; d -= E1{x}; impl.num(d.count()); }
                { E1 d{c}; d *= x; impl.num(d.count()); }
                { E1 d{c}; d /= x; impl.num(d.count()); }
                { E1 d{c}; d %= x; impl.num(d.count()); }
                { E1 d{c}; d %= E1{x}; impl.num(d.count()); }
                ref.tok("ok");
                { S1 d{c}; d += S1{x}; ref.num(d.count()); }
                { S1 d{c}; d -= S1{x}; ref.num(d.count()); }
                { S1 d{c}; d *= x; ref.num(d.count()); }
                { S1 d{c}; d /= x; ref.num(d.count()); }
                { S1 d{c}; d %= x; ref.num(d.count()); }
                { S1 d{c}; d %= S1{x}; ref.num(d.count()); }
                return true;
            }
            case OP_TP_COMPOUND: {
                auto c = static_cast<R1>(in.num());
                auto x = static_cast<R1>(in.num());
                impl.tok("ok");
                { ET1 t{E1{c}}; t += E1{x}; impl.num(t.time_since_epoch().count()); }
                { ET1 t{E1{c}}; t -= E1{x}; impl.num(t.time_since_epoch().count()); }
                ref.tok("ok");
                { ST1 t{S1{c}}; t += S1{x}; ref.num(t.time_since_epoch().count()); }
                { ST1 t{S1{c}}; t -= S1{x}; ref.num(t.time_since_epoch().count()); }
                return true;
            }
            case OP_CHAIN: {
                // (d @k1 a) @k2 b for every k2: the count left in d and the count of the expression  [time.duration.arithmetic]
                if constexpr (I == J) {
                    int k1 = static_cast<int>(in.num());
                    auto c = static_cast<R1>(in.num());
                    auto a = static_cast<R1>(in.num());
                    auto b = static_cast<R1>(in.num());
                    chain_all<E1>(impl, k1, c, a, b, std::make_integer_sequence<int, NMOP>{});
                    chain_all<S1>(ref, k1, c, a, b, std::make_integer_sequence<int, NMOP>{});
                    return true;
                }
                break;
            }
            case OP_TP_CHAIN: {
                if constexpr (I == J) {
                    int k1 = static_cast<int>(in.num());
                    auto c = static_cast<R1>(in.num());
                    auto a = static_cast<R1>(in.num());
                    auto b = static_cast<R1>(in.num());
                    tchain_all<ET1>(impl, k1, c, a, b, std::make_integer_sequence<int, NTMOP>{});
                    tchain_all<ST1>(ref, k1, c, a, b, std::make_integer_sequence<int, NTMOP>{});
                    return true;
                }
                break;
            }
            case OP_REFTYPES: {
                // result types of the mutating member operators (lvalue duration& / time_point&, prvalue for postfix),
                // printed as values: a changed library must show up as a failing case, not as a build failure
                if constexpr (I == J) {
                    impl.tok("ok");
                    reftypes_d<E1>(impl, std::make_integer_sequence<int, NMOP>{});
                    reftypes_t<ET1>(impl, std::make_integer_sequence<int, NTMOP>{});
                    ref.tok("ok");
                    reftypes_d<S1>(ref, std::make_integer_sequence<int, NMOP>{});
                    reftypes_t<ST1>(ref, std::make_integer_sequence<int, NTMOP>{});
                    return true;
                }
                break;
            }
            case OP_ABS: {
                auto c = static_cast<R1>(in.num());
                impl.tok("ok").num(ec::abs(E1{c}).count());
                ref1(ref, sc::abs(S1{c}).count(), c < 0 ? -static_cast<i128>(c) : static_cast<i128>(c));
                return true;
            }
            default: break;
            }
        }
        if constexpr (RC == 0) {
            // floating-point target representation: tested against std only (and an OCaml double mirror)
            using EF = ec::duration<double, EP2>;
            using SF = sc::duration<double, SP2>;
            if (op == OP_FCAST_IF) {
                auto c = static_cast<R1>(in.num());
                impl.tok("ok").tok(dbits(ec::duration_cast<EF>(E1{c}).count()));
                ref.tok("ok").tok(dbits(sc::duration_cast<SF>(S1{c}).count()));
                return true;
            }
            if (op == OP_FCONV_IF) {
                auto c = static_cast<R1>(in.num());
                EF e = E1{c};
                SF s = S1{c};
                impl.tok("ok").tok(dbits(e.count()));
                ref.tok("ok").tok(dbits(s.count()));
                return true;
            }
        }
#endif // not C12_FSRC
#ifdef C12_FSRC
        if constexpr (RC == 0 && I < CORE && J < CORE) {
            // floating-point SOURCE representation; the double arguments arrive as their 64-bit patterns
            using ED1 = ec::duration<double, EP1>;
            using ED2 = ec::duration<double, EP2>;
            using SD1 = sc::duration<double, SP1>;
            using SD2 = sc::duration<double, SP2>;
            auto rd = [&in]() {
                std::uint64_t u = in.unum();
                double x    = 0;
                std::memcpy(&x, &u, sizeof x);
                return x;
            };
            if (op == OP_D_CAST) {
                double x = rd();
                impl.tok("ok").tok(dbits(ec::duration_cast<ED2>(ED1{x}).count()));
                ref.tok("ok").tok(dbits(sc::duration_cast<SD2>(SD1{x}).count()));
                return true;
            }
            if (op == OP_D_RND4) {
                double x = rd();
                impl.tok("ok")
                    .num(ec::duration_cast<E2>(ED1{x}).count())
                    .num(ec::floor<E2>(ED1{x}).count())
                    .num(ec::ceil<E2>(ED1{x}).count())
                    .num(ec::round<E2>(ED1{x}).count());
                ref.tok("ok")
                    .num(sc::duration_cast<S2>(SD1{x}).count())
                    .num(sc::floor<S2>(SD1{x}).count())
                    .num(sc::ceil<S2>(SD1{x}).count())
                    .num(sc::round<S2>(SD1{x}).count());
                return true;
            }
            if (op == OP_D_ARITH) {
                double x = rd();
                double y = rd();
                {
                    ED1 a{x};
                    ED2 b{y};
                    static_assert(std::is_same_v<decltype(a / b), double>);
                    impl.tok("ok").tok(dbits((a + b).count())).tok(dbits((a - b).count())).tok(dbits(a / b));
                    impl.b(a == b).b(a != b).b(a < b).b(a <= b).b(a > b).b(a >= b);
                }
                SD1 a{x};
                SD2 b{y};
                ref.tok("ok").tok(dbits((a + b).count())).tok(dbits((a - b).count())).tok(dbits(a / b));
                ref.b(a == b).b(a != b).b(a < b).b(a <= b).b(a > b).b(a >= b);
                return true;
            }
            if (op == OP_D_PM) {
                // + - and the six comparisons of two double-count durations (the part of d_arith that the theorems
                // C12_float_source_arith_exact / C12_float_arith_guarded cover for whole-valued counts)
                double x = rd();
                double y = rd();
                {
                    ED1 a{x};
                    ED2 b{y};
                    impl.tok("ok").tok(dbits((a + b).count())).tok(dbits((a - b).count()));
                    impl.b(a == b).b(a != b).b(a < b).b(a <= b).b(a > b).b(a >= b);
                }
                SD1 a{x};
                SD2 b{y};
                ref.tok("ok").tok(dbits((a + b).count())).tok(dbits((a - b).count()));
                ref.b(a == b).b(a != b).b(a < b).b(a <= b).b(a > b).b(a >= b);
                return true;
            }
            if (op == OP_D_MPM) {
                // duration<int64, P1>{c} + - == != < >= duration<double, P2>{y}  (C12_float_mixed_exact)
                auto c   = static_cast<R1>(in.num());
                double y = rd();
                {
                    E1 a{c};
                    ED2 b{y};
                    impl.tok("ok").tok(dbits((a + b).count())).tok(dbits((a - b).count()));
                    impl.b(a == b).b(a != b).b(a < b).b(a >= b);
                }
                S1 a{c};
                SD2 b{y};
                ref.tok("ok").tok(dbits((a + b).count())).tok(dbits((a - b).count()));
                ref.b(a == b).b(a != b).b(a < b).b(a >= b);
                return true;
            }
            if (op == OP_D_MIXED) {
                // duration<int64, P1>{c} with duration<double, P2>{y}, both orders
                auto c   = static_cast<R1>(in.num());
                double y = rd();
                {
                    E1 a{c};
                    ED2 b{y};
                    static_assert(std::is_same_v<decltype(a + b), decltype(b + a)>);
                    impl.tok("ok").tok(dbits((a + b).count())).tok(dbits((a - b).count())).tok(dbits((b - a).count()));
                    impl.b(a == b).b(a != b).b(a < b).b(a <= b).b(a > b).b(a >= b).b(b < a);
                }
                S1 a{c};
                SD2 b{y};
                ref.tok("ok").tok(dbits((a + b).count())).tok(dbits((a - b).count())).tok(dbits((b - a).count()));
                ref.b(a == b).b(a != b).b(a < b).b(a <= b).b(a > b).b(a >= b).b(b < a);
                return true;
            }
            if (op == OP_D_SCALAR) {
                // integer-count duration with a double scalar, double-count duration with an integer scalar
                auto c   = static_cast<R1>(in.num());
                double y = rd();
                {
                    E1 a{c};
                    ED1 b{y};
                    static_assert(std::is_same_v<decltype(a * y), ED1>);
                    impl.tok("ok").tok(dbits((a * y).count())).tok(dbits((y * a).count())).tok(dbits((a / y).count()));
                    impl.tok(dbits((b * c).count())).tok(dbits((c * b).count())).tok(dbits((b / c).count()));
                }
                S1 a{c};
                SD1 b{y};
                ref.tok("ok").tok(dbits((a * y).count())).tok(dbits((y * a).count())).tok(dbits((a / y).count()));
                ref.tok(dbits((b * c).count())).tok(dbits((c * b).count())).tok(dbits((b / c).count()));
                return true;
            }
        }
#endif // C12_FSRC
        impl.tok("not-instantiated");
        return true;
    }
};

using RunFn = bool (*)(OpId, Toks&, Out&, Out&);
struct Entry {
    RunFn run;
    i64 n1, d1, n2, d2;
    int w1, w2;
};

template <int I, int J, int RC>
constexpr Entry make_entry()
{
    constexpr int w1 = (RC == 1 || RC == 2) ? 32 : 64;
    constexpr int w2 = (RC == 1 || RC == 3) ? 32 : 64;
#ifdef C12_FSRC
    if constexpr (I < CORE && J < CORE && RC == 0 && mine(I, J) && factor_ok<I, J>()) {
#else
    if constexpr (enabled(I, J, RC) && mine(I, J) && factor_ok<I, J>()) {
#endif
        return Entry{&Ops<I, J, RC>::run, Per<I>::n, Per<I>::d, Per<J>::n, Per<J>::d, w1, w2};
    } else {
        return Entry{nullptr, Per<I>::n, Per<I>::d, Per<J>::n, Per<J>::d, w1, w2};
    }
}

template <std::size_t... K>
static std::vector<Entry> make_table(std::index_sequence<K...>)
{
    return std::vector<Entry>{make_entry<static_cast<int>(K / (NP * 4)), static_cast<int>((K / 4) % NP),
        static_cast<int>(K % 4)>()...};
}

#define C12_CAT2(a, b) a##b
#define C12_CAT(a, b) C12_CAT2(a, b)
std::vector<Entry> C12_CAT(c12_table_part_, C12_PART)() { return make_table(std::make_index_sequence<NP * NP * 4>{}); }

#if C12_PART == 0
    #if C12_NPARTS > 1
std::vector<Entry> c12_table_part_1();
    #endif
    #if C12_NPARTS > 2
std::vector<Entry> c12_table_part_2();
    #endif
    #if C12_NPARTS > 3
std::vector<Entry> c12_table_part_3();
    #endif
    #if C12_NPARTS > 4
std::vector<Entry> c12_table_part_4();
    #endif
    #if C12_NPARTS > 5
std::vector<Entry> c12_table_part_5();
    #endif
    #if C12_NPARTS > 6
        #error "at most 6 parts"
    #endif

static std::vector<Entry> const& table()
{
    static std::vector<Entry> const t = [] {
        auto all   = c12_table_part_0();
        auto merge = [&all](std::vector<Entry> const& p) {
            for (std::size_t k = 0; k < all.size(); ++k) {
                if (p[k].run != nullptr) { all[k].run = p[k].run; }
            }
        };
        (void)merge;
    #if C12_NPARTS > 1
        merge(c12_table_part_1());
    #endif
    #if C12_NPARTS > 2
        merge(c12_table_part_2());
    #endif
    #if C12_NPARTS > 3
        merge(c12_table_part_3());
    #endif
    #if C12_NPARTS > 4
        merge(c12_table_part_4());
    #endif
    #if C12_NPARTS > 5
        merge(c12_table_part_5());
    #endif
        return all;
    }();
    return t;
}

// participation in overload resolution (op "constraints")
template <typename T, typename D> concept e_round_ok = requires(D d) { ec::round<T>(d); };
template <typename T, typename D> concept e_floor_ok = requires(D d) { ec::floor<T>(d); };
template <typename T, typename D> concept e_ceil_ok  = requires(D d) { ec::ceil<T>(d); };
template <typename T, typename D> concept e_cast_ok  = requires(D d) { ec::duration_cast<T>(d); };
template <typename D> concept e_abs_ok               = requires(D d) { ec::abs(d); };
template <typename T, typename D> concept s_round_ok = requires(D d) { sc::round<T>(d); };
template <typename T, typename D> concept s_floor_ok = requires(D d) { sc::floor<T>(d); };
template <typename T, typename D> concept s_ceil_ok  = requires(D d) { sc::ceil<T>(d); };
template <typename T, typename D> concept s_cast_ok  = requires(D d) { sc::duration_cast<T>(d); };
template <typename D> concept s_abs_ok               = requires(D d) { sc::abs(d); };

// the named duration types: period, signedness and the minimum width [time.syn] requires
template <typename E, typename S, int Bits>
static void typedef_row(Out& impl, Out& ref)
{
    impl.num(E::period::num)
        .num(E::period::den)
        .b(std::is_signed_v<typename E::rep> && std::is_integral_v<typename E::rep>)
        .b(std::numeric_limits<typename E::rep>::digits + 1 >= Bits);
    ref.num(S::period::num)
        .num(S::period::den)
        .b(std::is_signed_v<typename S::rep> && std::is_integral_v<typename S::rep>)
        .b(std::numeric_limits<typename S::rep>::digits + 1 >= Bits);
}

// ---- in-process crash guard -------------------------------------------------------------------------------------------
// The harness runs all cases in one process (--nofork).  A changed library can make one case trap (integer division by
// zero -> SIGFPE, ...): without a guard the process dies and every later case of the variant is lost ("impl missing").
// With it the case is reported as "crash <signal>" (reference leg "na"; the driver's spec leg then yields the failing
// input) and the run continues.  Not used in the UBSan build, whose traps are reported by the forking supervisor.
#include <csetjmp>
#include <csignal>
static sigjmp_buf g_crash_jmp;
static volatile std::sig_atomic_t g_crash_armed = 0;
static void c12_crash_handler(int sig)
{
    if (g_crash_armed != 0) {
        g_crash_armed = 0;
        siglongjmp(g_crash_jmp, sig);
    }
    std::signal(sig, SIG_DFL);
    std::raise(sig);
}
static bool run_case_inner(std::string const& op, Toks& in, Out& impl, Out& ref);
bool vh::run_case(std::string const& op, Toks& in, Out& impl, Out& ref)
{
#ifdef C12_UBSAN
    return run_case_inner(op, in, impl, ref);
#else
    static bool const installed = [] {
        for (int s : {SIGFPE, SIGILL, SIGSEGV, SIGBUS, SIGABRT}) {
            struct sigaction sa {};
            sa.sa_handler = c12_crash_handler;
            sigemptyset(&sa.sa_mask);
            sa.sa_flags = SA_NODEFER;
            sigaction(s, &sa, nullptr);
        }
        return true;
    }();
    (void)installed;
    int const sig = sigsetjmp(g_crash_jmp, 1);
    if (sig != 0) {
        impl.s.clear();
        ref.s.clear();
        impl.tok("crash").num(sig);
        return true;
    }
    g_crash_armed = 1;
    bool const r = run_case_inner(op, in, impl, ref);
    g_crash_armed = 0;
    return r;
#endif
}

static bool run_case_inner(std::string const& op, Toks& in, Out& impl, Out& ref)
{
    // ops "u_*" / "uub_*" (representation types of either signedness, 8..64 bits) belong to the variants built from harness_u.cpp
    if (op.rfind("u_", 0) == 0 || op.rfind("uub_", 0) == 0) {
        impl.tok("skip");
        return true;
    }
    auto i  = static_cast<int>(in.num());
    auto j  = static_cast<int>(in.num());
    auto rc = static_cast<int>(in.num());
    i64 n1 = in.num(), d1 = in.num(), w1 = in.num(), n2 = in.num(), d2 = in.num(), w2 = in.num();
    // the two variants (see Ops::run) split the operations: "d_*" = double source representation
#ifdef C12_FSRC
    if (op.rfind("d_", 0) != 0) {
        impl.tok("skip");
        return true;
    }
#else
    if (op.rfind("d_", 0) == 0) {
        impl.tok("skip");
        return true;
    }
#endif
    if (op == "typedefs") {
        impl.tok("ok");
        ref.tok("ok");
        typedef_row<ec::nanoseconds, sc::nanoseconds, 64>(impl, ref);
        typedef_row<ec::microseconds, sc::microseconds, 55>(impl, ref);
        typedef_row<ec::milliseconds, sc::milliseconds, 45>(impl, ref);
        typedef_row<ec::seconds, sc::seconds, 35>(impl, ref);
        typedef_row<ec::minutes, sc::minutes, 29>(impl, ref);
        typedef_row<ec::hours, sc::hours, 23>(impl, ref);
        typedef_row<ec::days, sc::days, 25>(impl, ref);
        typedef_row<ec::weeks, sc::weeks, 22>(impl, ref);
        typedef_row<ec::months, sc::months, 20>(impl, ref);
        typedef_row<ec::years, sc::years, 17>(impl, ref);
        return true;
    }
    if (op == "sratio") {
        // ratio<N, D> with operands of either sign: num / den against std::ratio
        auto row = [&]<long long N, long long D>() {
            impl.num(etl::ratio<N, D>::num).num(etl::ratio<N, D>::den);
            ref.num(std::ratio<N, D>::num).num(std::ratio<N, D>::den);
        };
        impl.tok("ok");
        ref.tok("ok");
        row.template operator()<-1, 2>();
        row.template operator()<1, -2>();
        row.template operator()<-4, -6>();
        row.template operator()<0, 5>();
        row.template operator()<0, -5>();
        row.template operator()<-120, 2>();
        row.template operator()<9223372036854775807LL, -9223372036854775807LL>();
        row.template operator()<-9223372036854775807LL, 3>();
        row.template operator()<1001, -30000>();
        return true;
    }
    if (op == "constraints") {
        // which instantiations take part in overload resolution ([time.duration.cast], [time.duration.alg]):
        // round only for a non-floating target; floor / ceil / duration_cast for any duration target, not for a
        // non-duration; abs only for a signed representation
        using EMS = ec::milliseconds;
        using SMS = sc::milliseconds;
        using ETP = ec::time_point<ec::system_clock, EMS>;
        using STP = sc::time_point<sc::system_clock, SMS>;
        impl.tok("ok")
            .b(e_round_ok<ec::duration<double>, EMS>).b(e_round_ok<ec::seconds, EMS>)
            .b(e_round_ok<ec::duration<double>, ETP>).b(e_round_ok<ec::seconds, ETP>)
            .b(e_floor_ok<ec::duration<double>, EMS>).b(e_ceil_ok<ec::duration<double>, EMS>)
            .b(e_cast_ok<ec::duration<double>, EMS>)
            .b(e_floor_ok<long, EMS>).b(e_round_ok<long, EMS>).b(e_cast_ok<long, EMS>)
            .b(e_abs_ok<ec::duration<unsigned>>).b(e_abs_ok<ec::duration<double>>).b(e_abs_ok<EMS>);
        ref.tok("ok")
            .b(s_round_ok<sc::duration<double>, SMS>).b(s_round_ok<sc::seconds, SMS>)
            .b(s_round_ok<sc::duration<double>, STP>).b(s_round_ok<sc::seconds, STP>)
            .b(s_floor_ok<sc::duration<double>, SMS>).b(s_ceil_ok<sc::duration<double>, SMS>)
            .b(s_cast_ok<sc::duration<double>, SMS>)
            .b(s_floor_ok<long, SMS>).b(s_round_ok<long, SMS>).b(s_cast_ok<long, SMS>)
            .b(s_abs_ok<sc::duration<unsigned>>).b(s_abs_ok<sc::duration<double>>).b(s_abs_ok<SMS>);
        return true;
    }
    if (op == "typedef_bits") {
        impl.tok("ok")
            .num(sizeof(ec::nanoseconds::rep) * 8).num(sizeof(ec::microseconds::rep) * 8)
            .num(sizeof(ec::milliseconds::rep) * 8).num(sizeof(ec::seconds::rep) * 8)
            .num(sizeof(ec::minutes::rep) * 8).num(sizeof(ec::hours::rep) * 8).num(sizeof(ec::days::rep) * 8)
            .num(sizeof(ec::weeks::rep) * 8).num(sizeof(ec::months::rep) * 8).num(sizeof(ec::years::rep) * 8);
        return true;
    }
    if (i < 0 || i >= NP || j < 0 || j >= NP || rc < 0 || rc > 3) {
        impl.tok("bad-index");
        return true;
    }
    auto const& e = table()[static_cast<std::size_t>((i * NP + j) * 4 + rc)];
    if (e.n1 != n1 || e.d1 != d1 || e.n2 != n2 || e.d2 != d2 || e.w1 != w1 || e.w2 != w2) {
        impl.tok("table-mismatch");
        return true;
    }
    if (e.run == nullptr) {
        impl.tok("not-instantiated");
        return true;
    }
    // "ub_<op>": an input on which the code has undefined behaviour (signed overflow, division by zero). Only the
    // variant built with -DC12_UBSAN (UBSan in trap mode; the supervisor reports the trap as "crash 4") executes it.
    std::string name = op;
    if (name.rfind("ub_", 0) == 0) {
#ifdef C12_UBSAN
        name = name.substr(3);
        if (name == "cast") { name = "castw"; }   // the neighbours that do not overflow may leave the target type
#else
        impl.tok("skip");
        return true;
#endif
    }
    auto id = op_id(name);
    if (id == OP_NONE) { return false; }
    return e.run(id, in, impl, ref);
}

VERIF_MAIN()
#endif // C12_PART == 0
