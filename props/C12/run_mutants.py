#!/usr/bin/env python3
"""Hand-made semantic mutants of the code anchored by C12 (see NOTES.md, "Mutation testing").

Usage (from /verif; nothing else may run ./check C12 meanwhile):
    git -C /repo worktree add /tmp/wt-C12 HEAD
    python3 props/C12/run_mutants.py [tags...]      # e.g. M2 M10 F1; no tag = all
    git -C /repo worktree remove --force /tmp/wt-C12
Each mutant is applied to the scratch worktree, `VERIF_REPO=/tmp/wt-C12 ./check C12` is run, the exit status, the
number of VIOLATION lines and the first failing case (from build/alt-*/replay) are printed, and the worktree is reset.
Expected: exit 1 with a concrete case for every mutant except the equivalent one (M12).
"""
import subprocess, sys, os, json, glob, time
WT='/tmp/wt-C12'
MUTS=[
 ("M1 round: ties always go to low", "include/etl/_chrono/round.hpp", "    if (lowDiff < highDiff) {", "    if (lowDiff <= highDiff) {"),
 ("M2 floor: t > d -> t >= d (exact multiples lose a tick)", "include/etl/_chrono/floor.hpp", "    if (t > d) {", "    if (t >= d) {"),
 ("M3 duration_cast general case divides before multiplying", "include/etl/_chrono/duration_cast.hpp",
  "static_cast<CR>(duration.count()) * static_cast<CR>(CF::num) / static_cast<CR>(CF::den))",
  "static_cast<CR>(duration.count()) / static_cast<CR>(CF::den) * static_cast<CR>(CF::num))"),
 ("M4 duration operator>= is operator> (equal values only)", "include/etl/_chrono/duration.hpp", "    return !(lhs < rhs);", "    return rhs < lhs;"),
 ("M5 duration operator% does not convert lhs to the common type", "include/etl/_chrono/duration.hpp",
  "return CD(static_cast<CR>(CD(lhs).count() % CD(rhs).count()));", "return CD(static_cast<CR>(lhs.count() % CD(rhs).count()));"),
 ("M6 period_quotient::integral forgets To::num (seconds -> minutes converts implicitly)", "include/etl/_chrono/duration.hpp",
  "representable and d1 == 1 and d2 == 1;", "representable and d1 == 1;"),
 ("M7 abs leaves -1 negative", "include/etl/_chrono/abs.hpp", "if (d < duration<R, P>::zero()) {", "if (d.count() < R(-1)) {"),
 ("M8 floor(time_point) truncates instead of flooring", "include/etl/_chrono/floor.hpp",
  "return time_point<Clock, To>(floor<To>(tp.time_since_epoch()));", "return time_point<Clock, To>(duration_cast<To>(tp.time_since_epoch()));"),
 ("M9 time_point operator>= is operator>", "include/etl/_chrono/time_point.hpp",
  "return lhs.time_since_epoch() >= rhs.time_since_epoch();", "return lhs.time_since_epoch() > rhs.time_since_epoch();"),
 ("M10 round: tie test uses the high tick's parity... ties go to odd", "include/etl/_chrono/round.hpp",
  "return low.count() & 1 ? high : low;", "return low.count() & 1 ? low : high;"),
 ("M11 ceil adjusts only for positive values", "include/etl/_chrono/ceil.hpp", "    if (t < d) {", "    if (t < d and t.count() > 0) {"),
 ("M12 (equivalent mutant, expected exit 0) lcm divides b instead of a", "include/etl/_numeric/lcm.hpp",
  "static_cast<W>(a / g) * static_cast<W>(b)", "static_cast<W>(a) * static_cast<W>(b / g) + (a == b ? 0 : 0)"),
 ("M13 common_type of two durations takes the first rep", "include/etl/_chrono/duration.hpp",
  "using type = chrono::duration<common_type_t<Rep1, Rep2>, ratio<num, den>>;", "using type = chrono::duration<Rep1, ratio<num, den>>;"),
 ("M16 duration_cast computes in common_type<to_rep, Rep> without intmax_t", "include/etl/_chrono/duration_cast.hpp",
  "using cr   = common_type_t<typename ToDur::rep, Rep, intmax_t>;", "using cr   = common_type_t<typename ToDur::rep, Rep>;"),
 ("N1 duration % scalar divides (copy-paste)", "include/etl/_chrono/duration.hpp", "    return CD(CD(d).count() % s);", "    return CD(CD(d).count() / s);"),
 ("N2 time_point - duration adds", "include/etl/_chrono/time_point.hpp", "    return CT(lhs.time_since_epoch() - rhs);", "    return CT(lhs.time_since_epoch() + rhs);"),
 ("N3 time_point - time_point has the operands swapped", "include/etl/_chrono/time_point.hpp",
  "    return lhs.time_since_epoch() - rhs.time_since_epoch();", "    return rhs.time_since_epoch() - lhs.time_since_epoch();"),
 ("N4 scalar * converts the scalar to the duration's rep first", "include/etl/_chrono/duration.hpp",
  "    return CD(CD(d).count() * s);", "    return CD(CD(d).count() * static_cast<Rep1>(s));"),
 ("F1 converting constructor forgets the factor's denominator (the original 1d47cfd defect)", "include/etl/_chrono/duration.hpp",
  "static_cast<common_type_t<Rep, Rep2, intmax_t>>(other.count()) * ratio_divide<Period2, period>::num\n              / ratio_divide<Period2, period>::den",
  "static_cast<common_type_t<Rep, Rep2, intmax_t>>(other.count()) * ratio_divide<Period2, period>::num"),
 ("F2 duration_cast computes in intmax_t even for a floating target (truncates)", "include/etl/_chrono/duration_cast.hpp",
  "using cr   = common_type_t<typename ToDur::rep, Rep, intmax_t>;", "using cr   = common_type_t<Rep, intmax_t>;"),
]
sel=sys.argv[1:] 
res=[]
for name,f,old,new in MUTS:
    tag=name.split()[0]
    if sel and tag not in sel: continue
    p=os.path.join(WT,f); s=open(p).read()
    assert s.count(old)==1,(name,s.count(old))
    open(p,'w').write(s.replace(old,new))
    import hashlib
    for r in glob.glob('/verif/build/alt-'+hashlib.md5(WT.encode()).hexdigest()[:8]+'/replay/C12-*.json'): os.remove(r)
    t=time.time()
    pr=subprocess.run(['timeout','900','./check','C12'],cwd='/verif',env=dict(os.environ,VERIF_REPO=WT),capture_output=True,text=True)
    out=pr.stdout+pr.stderr
    v=[l for l in out.splitlines() if 'VIOLATION' in l]
    w=[l for l in out.splitlines() if 'MACHINERY' in l]
    case=None
    import hashlib; rp=sorted(glob.glob('/verif/build/alt-'+hashlib.md5(WT.encode()).hexdigest()[:8]+'/replay/C12-*.json'))
    if rp:
        j=json.load(open(rp[0])); case=(j.get('case'),j.get('impl'),j.get('reference'))
    res.append((name,pr.returncode,len(v),len(w),case,round(time.time()-t)))
    print(res[-1],flush=True)
    subprocess.run(['git','checkout','-q','.'],cwd=WT)
