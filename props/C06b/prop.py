"""C06b — non-mutating algorithms, binary searches, merge / set operations, min/max, numeric:
case generators and configuration (part b of C06).

Case line:  <op> <flavour> <args...>     (lists are length-prefixed)
  flavour  0 raw pointers, 1 forward-only wrapper, 2 bidirectional wrapper, 3 input (+output) wrapper,
           4 (pointer, forward) and 5 (forward, pointer) for the two-range algorithms with an
           `if constexpr` on the iterator category
  unary predicate  = two tokens "kind k": 0 is_even, 1 x == k, 2 x < k, 3 x % 3 == k
  binary predicate = id: 0 ==, 1 x%3 == y%3, 2 x < y (asymmetric: exposes swapped arguments)
  comparator       = id: 0 less, 1 greater, 2 x%3 < y%3, 3 x/16 < y/16, 4 x/16 > y/16
                     (3/4: value = key*16 + tag, so equivalent elements are distinguishable)
  numeric op       = id: 0 a+b, 1 a-b, 2 2a+b, 3 a*b
  d = 1 when the standard's precondition of the operation holds (else the reference and spec
      legs print `na`; the code and the model must still agree).
"""
import itertools
import zlib

ID = "C06b"
LEVEL = "proof"
HARNESSES = [{"name": "main", "src": "harness.cpp", "flags": ["-O1", "-DTETL_ENABLE_CONTRACT_CHECKS=1"]},
             # another build mode (thorough tier): full optimisation, contract checks compiled out
             {"name": "o2", "src": "harness.cpp", "flags": ["-O2"], "thorough_only": True},
             # the class-type predicate result (_t4) has ONLY an explicit operator bool: a use of a predicate result that is
             # not a contextual conversion to bool (arithmetic, copy-initialisation of a bool, comparison with true) does not compile
             {"name": "xbool", "src": "harness.cpp", "flags": ["-O1", "-DTETL_ENABLE_CONTRACT_CHECKS=1", "-DTRUTH_EXPLICIT"],
              "thorough_only": True}]

RULE = ("exhaustive: every sequence of length <= 5 over 3 keys (thorough: <= 6 over 4 keys, length 7 sampled; two-range "
        "operations: first range <= 6 over 3 keys), every "
        "needle / second range of length <= 3 (thorough <= 4), every count n in [-1, len+1], every probe value in "
        "[-1, keys], comparators less / greater / mod-3 / key-with-tag, predicates ==, mod-3-equivalence, < ; sorted "
        "pairs of tagged sequences for merge / set operations / includes; iterator flavours pointer, forward, "
        "bidirectional, input(+output) (all flavours on every case for the category-dependent algorithms, on a "
        "deterministic quarter of the cases for the others); plus seeded random longer inputs; a deterministic sixteenth of all "
        "case lines of the predicate- / comparator-taking operations again with a predicate returning int (truthy 2, -1, 4096) "
        "or a class type contextually convertible to bool (suffix _t1.._t4); every numeric fold (accumulate, reduce, inner_product, "
        "transform_reduce, partial_sum, adjacent_difference, iota; overloads without and with a transparent operation) on 11 "
        "combinations of (element, element, init, destination) types over unsigned char / int / long long / float / double - every "
        "list of length <= 3 over a pool per combination + random lengths 4..8 (ops nx_*); "
        "non-trivial = distinct case line whose impl outcome is ok")

# operations that take a predicate or comparator (is_permutation has no predicate overload; the numeric operations take
# value-returning callables)
PRED_OPS = {"find_if", "find_if_not", "count_if", "all_of", "any_of", "none_of", "is_partitioned", "partition_point",
            "adjacent_find", "search_n", "is_sorted", "is_sorted_until", "min_element", "max_element", "minmax_element",
            "lower_bound", "upper_bound", "equal_range", "binary_search", "search", "search_ds", "find_end", "find_first_of",
            "mismatch3", "mismatch4", "equal3", "equal4", "lexcmp", "includes", "merge", "set_union", "set_intersection",
            "set_difference", "set_symmetric_difference", "min", "max", "minmax", "clamp"}

TRUSTED_BASE = ["reference leg: libstdc++ 12 std:: algorithm of the same name on a copy of the input"]
ASSUMPTIONS = ["element type int (numeric accumulators long long); values small enough that no arithmetic overflows"]


# ------------------------------------------------------------------ python mirrors of the functor families
def p1(kind, k):
    return [lambda x: x % 2 == 0, lambda x: x == k, lambda x: x < k, lambda x: x % 3 == k][kind]


def cmp_(cid):
    return [lambda x, y: x < y, lambda x, y: x > y, lambda x, y: x % 3 < y % 3,
            lambda x, y: x // 16 < y // 16, lambda x, y: x // 16 > y // 16][cid]


def is_sorted(c, l):
    lt = cmp_(c)
    return all(not lt(l[i + 1], l[i]) for i in range(len(l) - 1))


def is_part(f, l):
    seen_false = False
    for x in l:
        if f(x):
            if seen_false:
                return False
        else:
            seen_false = True
    return True


def L(l):
    return " ".join([str(len(l))] + [str(x) for x in l])


def seqs(alpha, maxlen):
    for n in range(maxlen + 1):
        for t in itertools.product(alpha, repeat=n):
            yield list(t)


def sorted_key_seqs(nkeys, maxlen):
    for n in range(maxlen + 1):
        for t in itertools.combinations_with_replacement(range(nkeys), n):
            yield list(t)


def pick(h, q):
    """deterministic subsample: keep a case for a non-pointer flavour on 1/q of the inputs"""
    return h % q == 0


def gen(tier, rng):
    out = []
    quick = tier in ("quick", "search")
    nk = 3 if quick else 4          # keys
    ml = 5 if quick else 6          # max length
    ms = 3 if quick else 4          # max needle / second range length
    alpha = list(range(nk))
    alpha3 = list(range(3))
    S1 = list(seqs(alpha, ml))
    if not quick:
        S1 += [[rng.randrange(nk) for _ in range(7)] for _ in range(3000)]
    S1m = list(seqs(alpha3, ml))                         # haystacks of the search family
    S2 = list(seqs(alpha3, ms))                          # needles / second ranges
    alpha4 = list(range(4))
    q = 4
    cnt = 0

    def flavours(maxf, h, all_=False):
        if all_:
            return list(range(maxf + 1))
        return [0] + [f for f in range(1, maxf + 1) if pick(h + f, q)]

    # ---------------- single range, value / unary predicate
    for l in S1:
        cnt += 1
        for f in flavours(3, cnt):
            for v in range(-1, nk + 1):
                out.append(f"find {f} {v} {L(l)}")
                out.append(f"count {f} {v} {L(l)}")
            for (kind, k) in [(0, 0), (1, 1), (2, 1), (2, 2), (3, 0)]:
                for op in ("find_if", "find_if_not", "count_if", "all_of", "any_of", "none_of", "is_partitioned"):
                    out.append(f"{op} {f} {kind} {k} {L(l)}")
            out.append(f"for_each {f} {L(l)}")
            for n in range(-1, len(l) + 1):
                out.append(f"for_each_n {f} {1 if n >= 0 else 0} {n} {L(l)}")
        for f in flavours(2, cnt):
            for (kind, k) in [(0, 0), (1, 1), (2, 1), (2, 2), (3, 0)]:
                d = 1 if is_part(p1(kind, k), l) else 0
                out.append(f"partition_point {f} {d} {kind} {k} {L(l)}")
            for b in (0, 2):
                out.append(f"adjacent_find {f} {b} {L(l)}")
            for b in (0, 2):
                for n in range(-1, len(l) + 2):
                    for v in range(0, nk):
                        out.append(f"search_n {f} {b} {n} {v} {L(l)}")
            for c in (0, 1):
                for op in ("is_sorted", "is_sorted_until", "min_element", "max_element", "minmax_element"):
                    out.append(f"{op} {f} {c} {L(l)}")
                for v in range(-1, nk + 1):
                    lt = cmp_(c)
                    d1 = is_part(lambda e: lt(e, v), l)
                    d2 = is_part(lambda e: not lt(v, e), l)
                    out.append(f"lower_bound {f} {int(d1)} {c} {v} {L(l)}")
                    out.append(f"upper_bound {f} {int(d2)} {c} {v} {L(l)}")
                    out.append(f"equal_range {f} {int(d1 and d2)} {c} {v} {L(l)}")
                    out.append(f"binary_search {f} {int(d1 and d2)} {c} {v} {L(l)}")
    # the same single-range operations over 4 values with the mod-3 comparator (0 ~ 3)
    for l in seqs(alpha4, 4 if quick else 5):
        cnt += 1
        for f in flavours(2, cnt):
            c = 2
            for op in ("is_sorted", "is_sorted_until", "min_element", "max_element", "minmax_element"):
                out.append(f"{op} {f} {c} {L(l)}")
            out.append(f"adjacent_find {f} 1 {L(l)}")
            for v in range(0, 4):
                lt = cmp_(c)
                d1 = is_part(lambda e: lt(e, v), l)
                d2 = is_part(lambda e: not lt(v, e), l)
                out.append(f"lower_bound {f} {int(d1)} {c} {v} {L(l)}")
                out.append(f"upper_bound {f} {int(d2)} {c} {v} {L(l)}")
                out.append(f"equal_range {f} {int(d1 and d2)} {c} {v} {L(l)}")
                out.append(f"binary_search {f} {int(d1 and d2)} {c} {v} {L(l)}")
                for n in (1, 2, 3):
                    out.append(f"search_n {f} 1 {n} {v} {L(l)}")
    # tagged elements (key*16+tag): which of several equivalent elements is returned
    for keys in seqs(alpha, 4 if quick else 5):
        l = [k * 16 + i for i, k in enumerate(keys)]
        cnt += 1
        for f in flavours(2, cnt):
            for c in (3, 4):
                for op in ("min_element", "max_element", "minmax_element", "is_sorted_until"):
                    out.append(f"{op} {f} {c} {L(l)}")
    for a in range(0, 3):
        for b in range(0, 3):
            for c in (3, 4):
                for op in ("min", "max", "minmax"):
                    out.append(f"{op} {c} {a * 16 + 1} {b * 16 + 2}")
                for v in range(0, 3):
                    lt = cmp_(c)
                    lo, hi, vv = a * 16 + 1, b * 16 + 2, v * 16 + 3
                    out.append(f"clamp {0 if lt(hi, lo) else 1} {c} {vv} {lo} {hi}")
    for a in range(-1, 3):
        for b in range(-1, 3):
            for c in (0, 1, 2):
                for op in ("min", "max", "minmax"):
                    out.append(f"{op} {c} {a + 1} {b + 1}")
                for v in range(-1, 3):
                    lt = cmp_(c)
                    out.append(f"clamp {0 if lt(b + 1, a + 1) else 1} {c} {v + 1} {a + 1} {b + 1}")

    # ---------------- two ranges: searches (every haystack x every needle)
    for l in S1m:
        for s in S2:
            cnt += 1
            for b in (0, 2):
                for f in [0] + [g for g in (1, 2) if pick(cnt + g, 2 * q)]:
                    out.append(f"search {f} {b} {L(l)} {L(s)}")
                    out.append(f"find_end {f} {b} {L(l)} {L(s)}")
                    if b == 0 or f == 0:
                        out.append(f"search_ds {f} {b} {L(l)} {L(s)}")
                for f in [0] + [g for g in (1, 2, 3) if pick(cnt + g, 2 * q)]:
                    out.append(f"find_first_of {f} {b} {L(l)} {L(s)}")
    # ---------------- two ranges: comparisons (ordered pairs, lengths <= ml-1 and <= ms)
    SB = list(seqs(alpha3, 4 if quick else 5))
    pairs = []
    for l in SB:
        for s in S2:
            pairs.append((l, s))
            if len(l) > ms:
                pairs.append((s, l))
    for (l, s) in pairs:
        cnt += 1
        for f in range(0, 6):
            out.append(f"equal4 {f} 0 {L(l)} {L(s)}")
        for f in (0, 1):
            out.append(f"equal4 {f} 2 {L(l)} {L(s)}")
        for f in (0, 1, 2, 4, 5):
            out.append(f"is_permutation4 {f} {L(l)} {L(s)}")
        for b in (0, 2):
            for f in flavours(3, cnt):
                out.append(f"mismatch4 {f} {b} {L(l)} {L(s)}")
        for c in (0, 1):
            for f in flavours(3, cnt + c):
                out.append(f"lexcmp {f} {c} {L(l)} {L(s)}")
        if len(l) <= len(s):
            for f in flavours(3, cnt):
                out.append(f"mismatch3 {f} 0 {L(l)} {L(s)}")
                out.append(f"equal3 {f} 0 {L(l)} {L(s)}")
            out.append(f"mismatch3 0 2 {L(l)} {L(s)}")
            out.append(f"equal3 0 2 {L(l)} {L(s)}")
            for f in flavours(2, cnt):
                out.append(f"is_permutation3 {f} {L(l)} {L(s)}")
    # equal-length pairs beyond the needle length (the interesting region of equal / is_permutation)
    E = list(seqs(alpha3, 4 if quick else 5))
    for l in E:
        for s in E:
            if len(l) != len(s) or len(l) <= ms:
                continue
            cnt += 1
            for f in (0, 1, 5):
                out.append(f"is_permutation4 {f} {L(l)} {L(s)}")
            for f in flavours(2, cnt):
                out.append(f"is_permutation3 {f} {L(l)} {L(s)}")
            for f in range(0, 6):
                out.append(f"equal4 {f} 0 {L(l)} {L(s)}")
            for f in [0] + [g for g in (1, 2, 3) if pick(cnt + g, 2 * q)]:
                out.append(f"equal3 {f} 0 {L(l)} {L(s)}")
                out.append(f"mismatch3 {f} 0 {L(l)} {L(s)}")
                out.append(f"mismatch4 {f} 0 {L(l)} {L(s)}")
                out.append(f"lexcmp {f} 0 {L(l)} {L(s)}")
    # mod-3 equivalence as the binary predicate over 4 values
    for l in seqs(alpha4, 4):
        for s in seqs(alpha4, 2):
            cnt += 1
            for f in flavours(2, cnt):
                out.append(f"search {f} 1 {L(l)} {L(s)}")
                out.append(f"find_end {f} 1 {L(l)} {L(s)}")
                out.append(f"find_first_of {f} 1 {L(l)} {L(s)}")
                out.append(f"mismatch4 {f} 1 {L(l)} {L(s)}")
                out.append(f"lexcmp {f} 2 {L(l)} {L(s)}")
            for f in range(0, 6):
                out.append(f"equal4 {f} 1 {L(l)} {L(s)}")

    # ---------------- two sorted ranges: includes, merge, set operations
    SETOPS = ("includes", "merge", "set_union", "set_intersection", "set_difference", "set_symmetric_difference")
    K1 = list(sorted_key_seqs(nk, 5 if quick else 6))
    K2 = list(sorted_key_seqs(nk, 4 if quick else 5))
    for k1 in K1:
        for k2 in K2:
            cnt += 1
            # tagged: first range tags 0.., second range tags 8..  (provenance and order visible)
            a = [k * 16 + i for i, k in enumerate(k1)]
            b = [k * 16 + 8 + i for i, k in enumerate(k2)]
            for f in flavours(3, cnt):
                for op in SETOPS:
                    out.append(f"{op} {f} 1 3 {L(a)} {L(b)}")
                    out.append(f"{op} {f} 1 4 {L(a[::-1])} {L(b[::-1])}")
                    out.append(f"{op} {f} 1 0 {L(k1)} {L(k2)}")
    for l in seqs(alpha4, 4):
        for s in seqs(alpha4, 3):
            cnt += 1
            d = int(is_sorted(2, l) and is_sorted(2, s))
            if d or pick(cnt, 8):
                for op in SETOPS:
                    out.append(f"{op} 0 {d} 2 {L(l)} {L(s)}")
    for _ in range(1500 if quick else 20000):
        l = [rng.randrange(nk) for _ in range(rng.randrange(0, 6))]
        s = [rng.randrange(nk) for _ in range(rng.randrange(0, 5))]
        c = rng.choice((0, 1))
        d = int(is_sorted(c, l) and is_sorted(c, s))
        f = rng.randrange(0, 4)
        for op in SETOPS:
            out.append(f"{op} {f} {d} {c} {L(l)} {L(s)}")

    # ---------------- numeric
    NS = list(seqs([1, 2, 3], 4 if quick else 5))
    for l in NS:
        cnt += 1
        for f in flavours(3, cnt):
            for o in (0, 1, 2, 3):
                out.append(f"accumulate {f} {o} 5 {L(l)}")
                out.append(f"reduce {f} {o} 5 {L(l)}")
                out.append(f"partial_sum {f} {o} {L(l)}")
                out.append(f"adjacent_difference {f} {o} {L(l)}")
                out.append(f"transform_reduce1 {f} {o} {(o + 1) % 4} 2 {L(l)}")
        for v in (-2, 0, 7):
            for f in (0, 1, 2):
                out.append(f"iota {f} {len(l)} {v}")
    NS2 = list(seqs([1, 2, 3], 3 if quick else 4))
    for l in NS2:
        for s in NS2:
            if len(s) < len(l):
                continue
            cnt += 1
            for f in flavours(3, cnt):
                for (o1, o2) in ((0, 3), (1, 3), (2, 1), (3, 0), (0, 2)):
                    out.append(f"inner_product {f} {o1} {o2} 4 {L(l)} {L(s)}")
                    out.append(f"transform_reduce {f} {o1} {o2} 4 {L(l)} {L(s)}")

    # ---------------- seeded random, longer inputs
    for _ in range(2000 if quick else 40000):
        n = rng.randrange(0, 13)
        l = [rng.randrange(0, 5) for _ in range(n)]
        s = [rng.randrange(0, 5) for _ in range(rng.randrange(0, 5))]
        f3 = rng.randrange(0, 4)
        f2 = rng.randrange(0, 3)
        b = rng.randrange(0, 3)
        c = rng.randrange(0, 3)
        v = rng.randrange(0, 5)
        out.append(f"search {f2} {b} {L(l)} {L(s)}")
        out.append(f"find_end {f2} {b} {L(l)} {L(s)}")
        out.append(f"search_n {f2} {b} {rng.randrange(0, 4)} {v} {L(l)}")
        out.append(f"minmax_element {f2} {c} {L(l)}")
        out.append(f"min_element {f2} {c} {L(l)}")
        out.append(f"max_element {f2} {c} {L(l)}")
        out.append(f"is_sorted_until {f2} {c} {L(l)}")
        out.append(f"mismatch4 {f3} {b} {L(l)} {L(s)}")
        out.append(f"lexcmp {f3} {c} {L(l)} {L(s)}")
        out.append(f"equal4 {rng.randrange(0, 6)} {b} {L(l)} {L(s)}")
        p = l[:]
        rng.shuffle(p)
        if rng.random() < 0.3 and p:
            p[rng.randrange(len(p))] = rng.randrange(0, 5)
        out.append(f"is_permutation4 {rng.choice((0, 1, 2, 4, 5))} {L(l)} {L(p)}")
        out.append(f"is_permutation3 {f2} {L(l)} {L(p)}")
        lt = cmp_(c)
        sl = sorted(l, key=lambda x: (x % 3 if c == 2 else (-x if c == 1 else x)))
        for (arr, tag) in ((sl, 1), (l, None)):
            d1 = is_part(lambda e: lt(e, v), arr)
            d2 = is_part(lambda e: not lt(v, e), arr)
            out.append(f"lower_bound {f2} {int(d1)} {c} {v} {L(arr)}")
            out.append(f"upper_bound {f2} {int(d2)} {c} {v} {L(arr)}")
            out.append(f"binary_search {f2} {int(d1 and d2)} {c} {v} {L(arr)}")
            out.append(f"equal_range {f2} {int(d1 and d2)} {c} {v} {L(arr)}")
        ss = sorted(s, key=lambda x: (x % 3 if c == 2 else (-x if c == 1 else x)))
        for op in SETOPS:
            out.append(f"{op} {f3} 1 {c} {L(sl)} {L(ss)}")
    # ---- fix-miss round 4: predicates / comparators whose result is NOT bool (op suffix _t1 int 2, _t2 int -1, _t3 int 4096,
    # _t4 class type contextually convertible to bool) for every predicate- or comparator-taking operation: a deterministic
    # sixteenth of all their case lines (every flavour, every predicate id), the kind chosen by the same hash
    extra = []
    for c in out:
        op = c.split(" ", 1)[0]
        if op in PRED_OPS:
            h = zlib.crc32(c.encode())
            if h % 16 == 0 or op in ("min", "max", "minmax", "clamp"):     # (the four small families: every line)
                extra.append(f"{op}_t{1 + (h >> 8) % 4} {c.split(' ', 1)[1]}")
    return out + extra + nx_cases(quick, rng)


# ---- fix-miss round 5: the numeric folds on heterogeneous arithmetic types ("nx_<alg> <tp> <o> ...") -------------------------
# <tp> -> (element type of range 1, of range 2, type of init, element type of the destination); a token of a floating-point
# range / init is the value in halves.  Pools are chosen so that no signed overflow and no out-of-range float -> integer
# conversion happens (undefined behaviour) while every lossy direction occurs: fractions truncated by an int accumulator, ints
# above 2^24 rounded by a float accumulator, wrap-around of an unsigned char accumulator, promotion of unsigned char operands,
# 64 -> 32 bit narrowing, float products rounded before they reach a double accumulator.
NX_TYPES = {0: ("f64", "f64", "i32", "i32"), 1: ("i32", "i32", "f32", "f32"), 2: ("i32", "i32", "u8", "u8"),
            3: ("i32", "f64", "f64", "f64"), 4: ("f64", "i32", "i32", "f64"), 5: ("u8", "u8", "i32", "i32"),
            6: ("i64", "i32", "i32", "i32"), 7: ("f32", "f32", "f64", "f64"), 8: ("i32", "i32", "i64", "i64"),
            9: ("u8", "i32", "u8", "u8"), 10: ("i32", "i32", "f64", "i32")}
NX_POOL = {0: ((1, 3, 5), (8, 12, 4, 3), (0, 7)), 1: ((16777217, 16777219, 3), (1, 3, 5), (0, 1)),
           2: ((3, -2, 100, 200), (100, 3, -1), (0, 250)), 3: ((1, 2, 3), (1, 3, 4), (0, 1)),
           4: ((1, 3, 5), (4, 6, 3), (0, 7)), 5: ((200, 100, 7, 9), (200, 3, 255), (0, -5)),
           6: ((5000000000, 3, -7), (7, 5, -1), (7, 0)), 7: ((16777215, 3, 5), (16777215, 3, 4), (0, 1)),
           8: ((46340, 3, -7), (46340, 5, 1), (0, 4294967296)), 9: ((200, 100, 7), (3, -1, 100), (0, 250)),
           10: ((1, 2, 3), (1, 3, 4), (1, 5))}
NX_IOTA = {0: (5,), 1: (33554430, 1), 2: (254,), 3: (1,), 4: (-1,), 5: (7,), 6: (-2,), 7: (3,), 8: (2147483647,), 9: (255,), 10: (1, 4)}
NX_BOUND = {"u8": 255, "i32": 2**31 - 1, "i64": 2**53, "f32": 2**24, "f64": 2**53}
NX_RANK = ["i32", "i64", "f32", "f64"]


def nx_val(ty, tok):
    from fractions import Fraction
    return Fraction(tok, 2) if ty in ("f32", "f64") else Fraction(tok)


def nx_common(a, b):
    a = "i32" if a == "u8" else a
    b = "i32" if b == "u8" else b
    return NX_RANK[max(NX_RANK.index(a), NX_RANK.index(b))]


def nx_dom(tyT, init, terms, term_ty):
    """[reduce] / [transform.reduce]: GENERALIZED_SUM leaves the grouping (and the type of the partial sums) open - the
    reference and the spec are consulted only when every grouping gives the same value: at most one term, or only non-negative
    integers whose total is exactly representable in the type of init and in the type of the terms."""
    if len(terms) <= 1:
        return 1
    vals = [init] + terms
    if any(v < 0 or v.denominator != 1 for v in vals):
        return 0
    return int(sum(vals) <= min(NX_BOUND[tyT], NX_BOUND[term_ty]))


def nx_cases(quick, rng):
    out = []
    for tp, (e1, e2, tT, tD) in NX_TYPES.items():
        p1, p2, inits = NX_POOL[tp]
        lists = [list(x) for n in range(0, 4) for x in itertools.product(p1, repeat=n)]
        if quick and len(p1) > 3:
            lists = [l for l in lists if len(l) <= 2] + [l for i, l in enumerate(lists) if len(l) == 3 and i % 2 == 0]
        for l in lists:
            v1 = [nx_val(e1, x) for x in l]
            for init in inits:
                iv = nx_val(tT, init)
                for o in (0, 1):
                    out.append(f"nx_accumulate {tp} {o} {init} {L(l)}")
                if tp in (0, 2, 3, 4, 5, 9, 10) and len(l) <= 2:
                    out.append(f"nx_accumulate {tp} 2 {init} {L(l)}")
                for o in (0, 1, 2):
                    d = nx_dom(tT, iv, v1, e1) if o != 1 else 0
                    out.append(f"nx_reduce {tp} {o} {d} {init} {L(l)}")
                sq_ok = all(abs(x) <= 46340 for x in l) or e1 in ("f32", "f64")   # no signed overflow in x * x
                if sq_ok:
                    for o in (0, 1):
                        d = nx_dom(tT, iv, [x * x for x in v1], nx_common(e1, e1)) if o == 0 else 0
                        out.append(f"nx_transform_reduce1 {tp} {o} {d} {init} {L(l)}")
                for k in (0, 1):
                    l2 = [p2[(i + k + len(l)) % len(p2)] for i in range(len(l) + k)]
                    v2 = [nx_val(e2, x) for x in l2]
                    for o in (0, 1, 2):
                        terms = [a * b for a, b in zip(v1, v2)]
                        d = nx_dom(tT, iv, terms, nx_common(e1, e2)) if o != 2 else 0
                        out.append(f"nx_inner_product {tp} {o} {d} {init} {L(l)} {L(l2)}")
                        out.append(f"nx_transform_reduce {tp} {o} {d} {init} {L(l)} {L(l2)}")
            out.append(f"nx_reduce {tp} 3 {nx_dom(e1, nx_val(e1, 0), v1, e1)} 0 {L(l)}")
            for o in (0, 1, 2):
                out.append(f"nx_partial_sum {tp} {o} {L(l)}")
                out.append(f"nx_adjacent_difference {tp} {o} {L(l)}")
        for v in NX_IOTA[tp]:
            for n in (0, 1, 3, 4):
                out.append(f"nx_iota {tp} 0 {n} {v}")
        # longer ranges (libstdc++'s reduce / transform_reduce group four elements at a time from length 4 on)
        for _ in range(20 if quick else 400):
            n = rng.randrange(4, 9)
            small1 = [x for x in p1 if abs(x) < 1000] or [p1[-1]]
            l = [rng.choice(small1) for _ in range(n)]
            l2 = [rng.choice(p2) for _ in range(n)]
            init = rng.choice(inits)
            v1 = [nx_val(e1, x) for x in l]
            v2 = [nx_val(e2, x) for x in l2]
            iv = nx_val(tT, init)
            out.append(f"nx_accumulate {tp} 0 {init} {L(l)}")
            out.append(f"nx_reduce {tp} 0 {nx_dom(tT, iv, v1, e1)} {init} {L(l)}")
            out.append(f"nx_transform_reduce {tp} 0 {nx_dom(tT, iv, [a * b for a, b in zip(v1, v2)], nx_common(e1, e2))} {init} {L(l)} {L(l2)}")
            out.append(f"nx_inner_product {tp} 0 1 {init} {L(l)} {L(l2)}")
            out.append(f"nx_partial_sum {tp} 0 {L(l)}")
            out.append(f"nx_adjacent_difference {tp} 0 {L(l)}")
    return out


def nontrivial(case, impl):
    return impl.startswith("ok")
