// C06b harness: etl non-mutating algorithms, binary searches, merge / set operations, min/max and
// numeric algorithms (impl leg) vs the libstdc++ std:: algorithm of the same name on a copy
// (reference leg).  Iterator flavours: raw pointer, forward-only, bidirectional, input (+output)
// wrappers.  Every range sits between guard cells (777); a functor that is ever handed a guard
// value makes the impl leg end in the token `oob`, a destroyed guard of an output range in `overrun`.
#include "common.hpp"

#include <algorithm>
#include <cmath>
#include <functional>
#include <type_traits>
#include <numeric>
#include <vector>

#include <etl/algorithm.hpp>
#include <etl/functional.hpp>
#include <etl/iterator.hpp>
#include <etl/numeric.hpp>

using namespace vh;

static constexpr int GUARD = 777;
static bool g_oob          = false;
static inline void seen(long long x)
{
    if (x == GUARD) { g_oob = true; }
}

// ---- functor families (ids shared with driver.ml and prop.py) ------------------------------
// result type of the predicates / comparators: op suffix "_t<k>"
//   (none) bool; _t1 int with truthy value 2 (a masked bit); _t2 int, truthy value -1; _t3 int, truthy value 4096 (lost by a
//   narrowing to 8 bits); _t4 a class type contextually convertible to bool (through operator int; in the build xbool: explicit operator bool only).
//   [algorithms.requirements]: an algorithm may use the result of a predicate only through its conversion to bool.
static int g_tv = 2;
struct Truthy {
    int v;
#ifdef TRUTH_EXPLICIT
    explicit operator bool() const { return v != 0; }   // build "xbool": every use that is not a contextual conversion fails to compile
#else
    operator int() const { return v; }                  // contextually convertible to bool through int; arithmetic on it shows at run time
#endif
};
struct TPBool { static bool of(bool b) { return b; } };
struct TPInt { static int of(bool b) { return b ? g_tv : 0; } };
struct TPCls { static Truthy of(bool b) { return Truthy {b ? g_tv : 0}; } };

template <typename TP>
struct P1T {
    int kind;
    int k;
    bool test(int x) const
    {
        seen(x);
        switch (kind) {
        case 0: return x % 2 == 0;
        case 1: return x == k;
        case 2: return x < k;
        default: return x % 3 == k;
        }
    }
    auto operator()(int x) const { return TP::of(test(x)); }
};
template <typename TP>
struct P2T {
    int id;
    bool test(int x, int y) const
    {
        seen(x);
        seen(y);
        switch (id) {
        case 0: return x == y;
        case 1: return x % 3 == y % 3;
        default: return x < y;
        }
    }
    auto operator()(int x, int y) const { return TP::of(test(x, y)); }
};
template <typename TP>
struct CmpT {
    int id;
    bool test(int x, int y) const
    {
        seen(x);
        seen(y);
        switch (id) {
        case 0: return x < y;
        case 1: return x > y;
        case 2: return x % 3 < y % 3;
        case 3: return x / 16 < y / 16;
        default: return x / 16 > y / 16;
        }
    }
    auto operator()(int x, int y) const { return TP::of(test(x, y)); }
};
struct Op2 {
    int id;
    long long operator()(long long a, long long b) const
    {
        seen(a);
        seen(b);
        switch (id) {
        case 0: return a + b;
        case 1: return a - b;
        case 2: return 2 * a + b;
        default: return a * b;
        }
    }
};
struct Tr1 {
    Op2 tr;
    long long operator()(long long x) const { return tr(x, 3); }
};
// for_each callable: order-sensitive hash + in-place increment
struct Fe {
    long long h = 0;
    void operator()(int& x)
    {
        seen(x);
        h = (h * 31 + x) % 1000003;
        x += 1;
    }
};

// ---- iterator wrappers ---------------------------------------------------------------------
template <typename P, typename Cat>
struct It {
    using iterator_category = Cat;
    using value_type        = int;
    using difference_type   = std::ptrdiff_t;
    using pointer           = P;
    using reference         = decltype(*P {});
    P p {};
    It() = default;
    explicit It(P q) : p(q) { }
    reference operator*() const { return *p; }
    It& operator++()
    {
        ++p;
        return *this;
    }
    It operator++(int)
    {
        auto t = *this;
        ++p;
        return t;
    }
    It& operator--()
        requires(etl::is_base_of_v<etl::bidirectional_iterator_tag, Cat>)
    {
        --p;
        return *this;
    }
    It operator--(int)
        requires(etl::is_base_of_v<etl::bidirectional_iterator_tag, Cat>)
    {
        auto t = *this;
        --p;
        return t;
    }
    friend bool operator==(It a, It b) { return a.p == b.p; }
    friend bool operator!=(It a, It b) { return a.p != b.p; }
};

struct OutIt {
    using iterator_category = etl::output_iterator_tag;
    using value_type        = void;
    using difference_type   = std::ptrdiff_t;
    using pointer           = void;
    using reference         = void;
    int* p {};
    OutIt& operator*() { return *this; }
    OutIt& operator=(long long v)
    {
        *p = static_cast<int>(v);
        return *this;
    }
    OutIt& operator++()
    {
        ++p;
        return *this;
    }
    OutIt operator++(int)
    {
        auto t = *this;
        ++p;
        return t;
    }
};

struct MkPtr {
    template <typename P>
    static P mk(P p) { return p; }
    template <typename P>
    static P base(P p) { return p; }
    static int* out(int* p) { return p; }
    static int* obase(int* p) { return p; }
};
template <typename Cat>
struct MkW {
    template <typename P>
    static It<P, Cat> mk(P p) { return It<P, Cat> {p}; }
    template <typename I>
    static auto base(I i) { return i.p; }
    static int* out(int* p) { return p; }
    static int* obase(int* p) { return p; }
};
struct MkIn : MkW<etl::input_iterator_tag> {
    static OutIt out(int* p) { return OutIt {p}; }
    static int* obase(OutIt o) { return o.p; }
};
using MkFwd  = MkW<etl::forward_iterator_tag>;
using MkBidi = MkW<etl::bidirectional_iterator_tag>;

// input-iterator-capable algorithms: flavours 0..5
template <typename F>
static bool flav_in(int f, F&& fn)
{
    switch (f) {
    case 0: fn(MkPtr {}, MkPtr {}); return true;
    case 1: fn(MkFwd {}, MkFwd {}); return true;
    case 2: fn(MkBidi {}, MkBidi {}); return true;
    case 3: fn(MkIn {}, MkIn {}); return true;
    case 4: fn(MkPtr {}, MkFwd {}); return true;
    case 5: fn(MkFwd {}, MkPtr {}); return true;
    default: return false;
    }
}
// algorithms that need forward iterators: no input flavour
template <typename F>
static bool flav_fwd(int f, F&& fn)
{
    switch (f) {
    case 0: fn(MkPtr {}, MkPtr {}); return true;
    case 1: fn(MkFwd {}, MkFwd {}); return true;
    case 2: fn(MkBidi {}, MkBidi {}); return true;
    case 4: fn(MkPtr {}, MkFwd {}); return true;
    case 5: fn(MkFwd {}, MkPtr {}); return true;
    default: return false;
    }
}

// ---- guarded buffers -------------------------------------------------------------------------
struct Buf {
    std::vector<int> v;
    std::size_t n;
    explicit Buf(std::vector<i64> const& l) : v(l.size() + 2, GUARD), n(l.size())
    {
        for (std::size_t i = 0; i < n; ++i) { v[i + 1] = static_cast<int>(l[i]); }
    }
    explicit Buf(std::size_t len) : v(len + 2, GUARD), n(len) { }
    int* b() { return v.data() + 1; }
    int* e() { return v.data() + 1 + n; }
    int const* cb() const { return v.data() + 1; }
    int const* ce() const { return v.data() + 1 + n; }
    bool intact() const { return v.front() == GUARD && v.back() == GUARD; }
};

static void finish(Out& o)
{
    if (g_oob) { o.tok("oob"); }
}
template <typename T>
static void both(Out& o, T a, T b)
{
    if (!(a == b)) { o.tok("overload-differs"); }
}
static void outlist(Out& o, Buf const& d, std::ptrdiff_t ret)
{
    o.tok("ok");
    if (ret < 0 || static_cast<std::size_t>(ret) > d.n) {
        o.tok("bad-return").num(ret);
        return;
    }
    o.list(d.cb(), d.cb() + ret);
    for (auto p = d.cb() + ret; p != d.ce(); ++p) {
        if (*p != GUARD) {
            o.tok("wrote-past-return");
            break;
        }
    }
    if (!d.intact()) { o.tok("overrun"); }
}

#define IMPL(...) guarded(impl, [&](Out& o) { __VA_ARGS__; finish(o); })


// ---- fix-miss round 5: the numeric folds on HETEROGENEOUS arithmetic types: ops "nx_<alg> <tp> <o> ..." ---------------------
// <tp> selects (element type of range 1, element type of range 2, type of init, element type of the destination); a token of a
// floating-point range / init is the value in HALVES (7 -> 3.5).  Results are printed with their static type and scaled by 64
// (every value of the run is a multiple of 1/64).  The reference is the std algorithm on the same types.
template <typename T> static char const* tyname()
{
    if constexpr (std::is_same_v<T, unsigned char>) { return "u8"; }
    else if constexpr (std::is_same_v<T, int>) { return "i32"; }
    else if constexpr (std::is_same_v<T, long long>) { return "i64"; }
    else if constexpr (std::is_same_v<T, float>) { return "f32"; }
    else if constexpr (std::is_same_v<T, double>) { return "f64"; }
    else { return "other"; }
}
template <typename T> static T nx_dec(i64 t)
{
    if constexpr (std::is_floating_point_v<T>) { return static_cast<T>(t) / 2; } else { return static_cast<T>(t); }
}
template <typename T> static std::vector<T> nx_vec(std::vector<i64> const& l, std::size_t extra = 0)
{
    std::vector<T> v;
    for (auto x : l) { v.push_back(nx_dec<T>(x)); }
    for (std::size_t i = 0; i < extra; ++i) { v.push_back(T(99)); }
    return v;
}
template <typename T> static void nx_put(Out& o, T x) { o.tok(tyname<T>()).num(static_cast<i64>(std::llround(static_cast<double>(x) * 64))); }
template <typename D> static void nx_putl(Out& o, std::vector<D> const& d, std::ptrdiff_t r)
{
    o.tok("ok").tok(tyname<D>());
    if (r < 0 || static_cast<std::size_t>(r) + 1 > d.size()) { o.tok("bad-return").num(r); return; }
    o.num(r);
    for (std::ptrdiff_t i = 0; i < r; ++i) { o.num(static_cast<i64>(std::llround(static_cast<double>(d[static_cast<std::size_t>(i)]) * 64))); }
    for (std::size_t i = static_cast<std::size_t>(r); i < d.size(); ++i) { if (d[i] != D(99)) { o.tok("wrote-past-return"); break; } }
}
// transparent operations (generic: the operands arrive with their own types)
template <int K> struct GOp {
    template <typename A, typename B> constexpr auto operator()(A a, B b) const
    {
        if constexpr (K == 0) { return a + b; } else if constexpr (K == 1) { return a - b; } else { return a * b; }
    }
};
struct GSq { template <typename A> constexpr auto operator()(A a) const { return a * a; } };

template <typename E1, typename E2, typename T, typename D>
static bool nx_run(std::string const& op, Toks& in, Out& impl, Out& ref)
{
    int ko = static_cast<int>(in.num());
    if (op == "accumulate") {
        T init = nx_dec<T>(in.num()); auto a = nx_vec<E1>(in.list());
        auto b = a.data(); auto e = a.data() + a.size();
        IMPL(o.tok("ok"); if (ko == 0) { nx_put(o, etl::accumulate(b, e, init)); } else if (ko == 1) { nx_put(o, etl::accumulate(b, e, init, GOp<1> {})); } else { nx_put(o, etl::accumulate(b, e, init, GOp<2> {})); });
        ref.tok("ok");
        if (ko == 0) { nx_put(ref, std::accumulate(b, e, init)); } else if (ko == 1) { nx_put(ref, std::accumulate(b, e, init, GOp<1> {})); } else { nx_put(ref, std::accumulate(b, e, init, GOp<2> {})); }
        return true;
    }
    if (op == "reduce") {
        bool d = in.num() != 0;
        T init = nx_dec<T>(in.num()); auto a = nx_vec<E1>(in.list());
        auto b = a.data(); auto e = a.data() + a.size();
        IMPL(o.tok("ok"); if (ko == 0) { nx_put(o, etl::reduce(b, e, init)); } else if (ko == 1) { nx_put(o, etl::reduce(b, e, init, GOp<1> {})); } else if (ko == 2) { nx_put(o, etl::reduce(b, e, init, GOp<0> {})); } else { nx_put(o, etl::reduce(b, e)); });
        if (d) {
            ref.tok("ok");
            if (ko == 0) { nx_put(ref, std::reduce(b, e, init)); } else if (ko == 1) { nx_put(ref, std::reduce(b, e, init, GOp<1> {})); } else if (ko == 2) { nx_put(ref, std::reduce(b, e, init, GOp<0> {})); } else { nx_put(ref, std::reduce(b, e)); }
        }
        return true;
    }
    if (op == "inner_product" || op == "transform_reduce") {
        bool d = in.num() != 0;
        T init = nx_dec<T>(in.num()); auto a = nx_vec<E1>(in.list()); auto s = nx_vec<E2>(in.list());
        auto b = a.data(); auto e = a.data() + a.size(); auto b2 = s.data();
        if (op == "inner_product") {
            IMPL(o.tok("ok"); if (ko == 0) { nx_put(o, etl::inner_product(b, e, b2, init)); } else if (ko == 1) { nx_put(o, etl::inner_product(b, e, b2, init, GOp<0> {}, GOp<2> {})); } else { nx_put(o, etl::inner_product(b, e, b2, init, GOp<1> {}, GOp<0> {})); });
            ref.tok("ok");
            if (ko == 0) { nx_put(ref, std::inner_product(b, e, b2, init)); } else if (ko == 1) { nx_put(ref, std::inner_product(b, e, b2, init, GOp<0> {}, GOp<2> {})); } else { nx_put(ref, std::inner_product(b, e, b2, init, GOp<1> {}, GOp<0> {})); }
        } else {
            IMPL(o.tok("ok"); if (ko == 0) { nx_put(o, etl::transform_reduce(b, e, b2, init)); } else if (ko == 1) { nx_put(o, etl::transform_reduce(b, e, b2, init, GOp<0> {}, GOp<2> {})); } else { nx_put(o, etl::transform_reduce(b, e, b2, init, GOp<1> {}, GOp<0> {})); });
            if (d) {
                ref.tok("ok");
                if (ko == 0) { nx_put(ref, std::transform_reduce(b, e, b2, init)); } else if (ko == 1) { nx_put(ref, std::transform_reduce(b, e, b2, init, GOp<0> {}, GOp<2> {})); } else { nx_put(ref, std::transform_reduce(b, e, b2, init, GOp<1> {}, GOp<0> {})); }
            }
        }
        return true;
    }
    if (op == "transform_reduce1") {
        bool d = in.num() != 0;
        T init = nx_dec<T>(in.num()); auto a = nx_vec<E1>(in.list());
        auto b = a.data(); auto e = a.data() + a.size();
        IMPL(o.tok("ok"); if (ko == 0) { nx_put(o, etl::transform_reduce(b, e, init, GOp<0> {}, GSq {})); } else { nx_put(o, etl::transform_reduce(b, e, init, GOp<1> {}, GSq {})); });
        if (d) { ref.tok("ok"); if (ko == 0) { nx_put(ref, std::transform_reduce(b, e, init, GOp<0> {}, GSq {})); } else { nx_put(ref, std::transform_reduce(b, e, init, GOp<1> {}, GSq {})); } }
        return true;
    }
    if (op == "partial_sum" || op == "adjacent_difference") {
        auto l = in.list();
        auto a = nx_vec<E1>(l);
        auto b = a.data(); auto e = a.data() + a.size();
        std::vector<D> dst(l.size() + 1, D(99)); std::vector<D> rd(l.size() + 1, D(99));
        if (op == "partial_sum") {
            IMPL(auto r = (ko == 0 ? etl::partial_sum(b, e, dst.data()) : (ko == 1 ? etl::partial_sum(b, e, dst.data(), GOp<1> {}) : etl::partial_sum(b, e, dst.data(), GOp<0> {}))) - dst.data(); nx_putl(o, dst, r));
            auto r = (ko == 0 ? std::partial_sum(b, e, rd.data()) : (ko == 1 ? std::partial_sum(b, e, rd.data(), GOp<1> {}) : std::partial_sum(b, e, rd.data(), GOp<0> {}))) - rd.data();
            nx_putl(ref, rd, r);
        } else {
            IMPL(auto r = (ko == 0 ? etl::adjacent_difference(b, e, dst.data()) : (ko == 1 ? etl::adjacent_difference(b, e, dst.data(), GOp<0> {}) : etl::adjacent_difference(b, e, dst.data(), GOp<1> {}))) - dst.data(); nx_putl(o, dst, r));
            auto r = (ko == 0 ? std::adjacent_difference(b, e, rd.data()) : (ko == 1 ? std::adjacent_difference(b, e, rd.data(), GOp<0> {}) : std::adjacent_difference(b, e, rd.data(), GOp<1> {}))) - rd.data();
            nx_putl(ref, rd, r);
        }
        return true;
    }
    if (op == "iota") {
        auto n = static_cast<std::size_t>(in.num());
        T v = nx_dec<T>(in.num());
        std::vector<D> dst(n + 1, D(99)); std::vector<D> rd(n + 1, D(99));
        IMPL(etl::iota(dst.data(), dst.data() + n, v); nx_putl(o, dst, static_cast<std::ptrdiff_t>(n)));
        std::iota(rd.data(), rd.data() + n, v);
        nx_putl(ref, rd, static_cast<std::ptrdiff_t>(n));
        return true;
    }
    return false;
}
static bool nx_case(std::string const& op, Toks& in, Out& impl, Out& ref)
{
    g_oob = false;
    using u8 = unsigned char;
    using ll = long long;
    switch (in.num()) {
    case 0: return nx_run<double, double, int, int>(op, in, impl, ref);
    case 1: return nx_run<int, int, float, float>(op, in, impl, ref);
    case 2: return nx_run<int, int, u8, u8>(op, in, impl, ref);
    case 3: return nx_run<int, double, double, double>(op, in, impl, ref);
    case 4: return nx_run<double, int, int, double>(op, in, impl, ref);
    case 5: return nx_run<u8, u8, int, int>(op, in, impl, ref);
    case 6: return nx_run<ll, int, int, int>(op, in, impl, ref);
    case 7: return nx_run<float, float, double, double>(op, in, impl, ref);
    case 8: return nx_run<int, int, ll, ll>(op, in, impl, ref);
    case 9: return nx_run<u8, int, u8, u8>(op, in, impl, ref);
    case 10: return nx_run<int, int, double, int>(op, in, impl, ref);
    default: return false;
    }
}
template <typename TP>
static bool run_case_T(std::string const& op, Toks& in, Out& impl, Out& ref);
bool vh::run_case(std::string const& op_in, Toks& in, Out& impl, Out& ref)
{
    std::string op = op_in;
    if (op.rfind("nx_", 0) == 0) { return nx_case(op.substr(3), in, impl, ref); }
    int tk = 0;
    auto n = op.size();
    if (n > 3 && op[n - 3] == '_' && op[n - 2] == 't' && op[n - 1] >= '1' && op[n - 1] <= '4') { tk = op[n - 1] - '0'; op.resize(n - 3); }
    if (tk == 0) { return run_case_T<TPBool>(op, in, impl, ref); }
    if (tk == 4) { g_tv = 2; return run_case_T<TPCls>(op, in, impl, ref); }
    g_tv = tk == 1 ? 2 : (tk == 2 ? -1 : 4096);
    return run_case_T<TPInt>(op, in, impl, ref);
}
template <typename TP>
static bool run_case_T(std::string const& op, Toks& in, Out& impl, Out& ref)
{
    using P1  = P1T<TP>;
    using P2  = P2T<TP>;
    using Cmp = CmpT<TP>;
    g_oob = false;
    // ------------------------------------------------------------ min / max / minmax / clamp
    if (op == "min" || op == "max" || op == "minmax") {
        Cmp c {static_cast<int>(in.num())};
        int a = static_cast<int>(in.num());
        int b = static_cast<int>(in.num());
        if (op == "min") {
            IMPL(o.tok("ok").num(etl::min(a, b, c)); if (c.id == 0) { both(o, etl::min(a, b), etl::min(a, b, c)); });
            ref.tok("ok").num(std::min(a, b, c));
        } else if (op == "max") {
            IMPL(o.tok("ok").num(etl::max(a, b, c)); if (c.id == 0) { both(o, etl::max(a, b), etl::max(a, b, c)); });
            ref.tok("ok").num(std::max(a, b, c));
        } else {
            IMPL(auto r = etl::minmax(a, b, c); o.tok("ok").num(r.first).num(r.second); if (c.id == 0) {
                auto r2 = etl::minmax(a, b);
                both(o, r2.first, r.first);
                both(o, r2.second, r.second);
            });
            auto r = std::minmax(a, b, c);
            ref.tok("ok").num(r.first).num(r.second);
        }
        return true;
    }
    if (op == "clamp") {
        bool d = in.num() != 0;
        Cmp c {static_cast<int>(in.num())};
        int v  = static_cast<int>(in.num());
        int lo = static_cast<int>(in.num());
        int hi = static_cast<int>(in.num());
        IMPL(o.tok("ok").num(etl::clamp(v, lo, hi, c)); if (c.id == 0) { both(o, etl::clamp(v, lo, hi), etl::clamp(v, lo, hi, c)); });
        if (d) { ref.tok("ok").num(std::clamp(v, lo, hi, c)); }
        return true;
    }

    int const f = static_cast<int>(in.num());
    bool known  = true;

    // ------------------------------------------------------------ find / count
    if (op == "find" || op == "count") {
        int v = static_cast<int>(in.num());
        Buf a(in.list());
        known = flav_in(f, [&](auto M, auto) {
            if (op == "find") {
                IMPL(o.tok("ok").num(M.base(etl::find(M.mk(a.cb()), M.mk(a.ce()), v)) - a.cb()));
            } else {
                IMPL(o.tok("ok").num(etl::count(M.mk(a.cb()), M.mk(a.ce()), v)));
            }
        });
        if (op == "find") {
            ref.tok("ok").num(std::find(a.cb(), a.ce(), v) - a.cb());
        } else {
            ref.tok("ok").num(std::count(a.cb(), a.ce(), v));
        }
        return known;
    }
    if (op == "find_if" || op == "find_if_not" || op == "count_if" || op == "all_of" || op == "any_of"
        || op == "none_of" || op == "is_partitioned") {
        P1 p {static_cast<int>(in.num()), 0};
        p.k = static_cast<int>(in.num());
        Buf a(in.list());
        known = flav_in(f, [&](auto M, auto) {
            auto F = M.mk(a.cb());
            auto L = M.mk(a.ce());
            if (op == "find_if") {
                IMPL(o.tok("ok").num(M.base(etl::find_if(F, L, p)) - a.cb()));
            } else if (op == "find_if_not") {
                IMPL(o.tok("ok").num(M.base(etl::find_if_not(F, L, p)) - a.cb()));
            } else if (op == "count_if") {
                IMPL(o.tok("ok").num(etl::count_if(F, L, p)));
            } else if (op == "all_of") {
                IMPL(o.tok("ok").b(etl::all_of(F, L, p)));
            } else if (op == "any_of") {
                IMPL(o.tok("ok").b(etl::any_of(F, L, p)));
            } else if (op == "none_of") {
                IMPL(o.tok("ok").b(etl::none_of(F, L, p)));
            } else {
                IMPL(o.tok("ok").b(etl::is_partitioned(F, L, p)));
            }
        });
        auto F = a.cb();
        auto L = a.ce();
        if (op == "find_if") {
            ref.tok("ok").num(std::find_if(F, L, p) - F);
        } else if (op == "find_if_not") {
            ref.tok("ok").num(std::find_if_not(F, L, p) - F);
        } else if (op == "count_if") {
            ref.tok("ok").num(std::count_if(F, L, p));
        } else if (op == "all_of") {
            ref.tok("ok").b(std::all_of(F, L, p));
        } else if (op == "any_of") {
            ref.tok("ok").b(std::any_of(F, L, p));
        } else if (op == "none_of") {
            ref.tok("ok").b(std::none_of(F, L, p));
        } else {
            ref.tok("ok").b(std::is_partitioned(F, L, p));
        }
        return known;
    }
    if (op == "partition_point") {
        bool d = in.num() != 0;
        P1 p {static_cast<int>(in.num()), 0};
        p.k = static_cast<int>(in.num());
        Buf a(in.list());
        known = flav_fwd(f, [&](auto M, auto) {
            IMPL(o.tok("ok").num(M.base(etl::partition_point(M.mk(a.cb()), M.mk(a.ce()), p)) - a.cb()));
        });
        if (d) { ref.tok("ok").num(std::partition_point(a.cb(), a.ce(), p) - a.cb()); }
        return known;
    }
    // ------------------------------------------------------------ for_each / for_each_n
    if (op == "for_each") {
        auto l = in.list();
        Buf a(l);
        known = flav_in(f, [&](auto M, auto) {
            IMPL(auto r = etl::for_each(M.mk(a.b()), M.mk(a.e()), Fe {}); o.tok("ok").num(r.h).list(a.cb(), a.ce());
                 if (!a.intact()) { o.tok("overrun"); });
        });
        Buf c(l);
        auto r = std::for_each(c.b(), c.e(), Fe {});
        ref.tok("ok").num(r.h).list(c.cb(), c.ce());
        return known;
    }
    if (op == "for_each_n") {
        bool d = in.num() != 0;
        int n  = static_cast<int>(in.num());
        auto l = in.list();
        Buf a(l);
        Fe fe;
        known = flav_in(f, [&](auto M, auto) {
            IMPL(auto r = etl::for_each_n(M.mk(a.b()), n, [&fe](int& x) { fe(x); }); o.tok("ok").num(M.base(r) - a.b()).num(fe.h).list(a.cb(), a.ce());
                 if (!a.intact()) { o.tok("overrun"); });
        });
        if (d) {
            Buf c(l);
            Fe fe2;
            auto r = std::for_each_n(c.b(), n, [&fe2](int& x) { fe2(x); });
            ref.tok("ok").num(r - c.b()).num(fe2.h).list(c.cb(), c.ce());
        }
        return known;
    }
    // ------------------------------------------------------------ adjacent_find / search_n
    if (op == "adjacent_find") {
        P2 p {static_cast<int>(in.num())};
        Buf a(in.list());
        known = flav_fwd(f, [&](auto M, auto) {
            IMPL(auto r = M.base(etl::adjacent_find(M.mk(a.cb()), M.mk(a.ce()), p)) - a.cb(); o.tok("ok").num(r);
                 if (p.id == 0) { both(o, M.base(etl::adjacent_find(M.mk(a.cb()), M.mk(a.ce()))) - a.cb(), r); });
        });
        ref.tok("ok").num(std::adjacent_find(a.cb(), a.ce(), p) - a.cb());
        return known;
    }
    if (op == "search_n") {
        P2 p {static_cast<int>(in.num())};
        int n = static_cast<int>(in.num());
        int v = static_cast<int>(in.num());
        Buf a(in.list());
        known = flav_fwd(f, [&](auto M, auto) {
            IMPL(auto r = M.base(etl::search_n(M.mk(a.cb()), M.mk(a.ce()), n, v, p)) - a.cb(); o.tok("ok").num(r);
                 if (p.id == 0) { both(o, M.base(etl::search_n(M.mk(a.cb()), M.mk(a.ce()), n, v)) - a.cb(), r); });
        });
        ref.tok("ok").num(std::search_n(a.cb(), a.ce(), n, v, p) - a.cb());
        return known;
    }
    // ------------------------------------------------------------ single range + comparator
    if (op == "is_sorted" || op == "is_sorted_until" || op == "min_element" || op == "max_element"
        || op == "minmax_element") {
        Cmp c {static_cast<int>(in.num())};
        Buf a(in.list());
        known = flav_fwd(f, [&](auto M, auto) {
            auto F = M.mk(a.cb());
            auto L = M.mk(a.ce());
            if (op == "is_sorted") {
                IMPL(auto r = etl::is_sorted(F, L, c); o.tok("ok").b(r); if (c.id == 0) { both(o, etl::is_sorted(F, L), r); });
            } else if (op == "is_sorted_until") {
                IMPL(auto r = M.base(etl::is_sorted_until(F, L, c)) - a.cb(); o.tok("ok").num(r);
                     if (c.id == 0) { both(o, M.base(etl::is_sorted_until(F, L)) - a.cb(), r); });
            } else if (op == "min_element") {
                IMPL(auto r = M.base(etl::min_element(F, L, c)) - a.cb(); o.tok("ok").num(r);
                     if (c.id == 0) { both(o, M.base(etl::min_element(F, L)) - a.cb(), r); });
            } else if (op == "max_element") {
                IMPL(auto r = M.base(etl::max_element(F, L, c)) - a.cb(); o.tok("ok").num(r);
                     if (c.id == 0) { both(o, M.base(etl::max_element(F, L)) - a.cb(), r); });
            } else {
                IMPL(auto r = etl::minmax_element(F, L, c); o.tok("ok").num(M.base(r.first) - a.cb()).num(M.base(r.second) - a.cb());
                     if (c.id == 0) {
                         auto r2 = etl::minmax_element(F, L);
                         both(o, M.base(r2.first), M.base(r.first));
                         both(o, M.base(r2.second), M.base(r.second));
                     });
            }
        });
        auto F = a.cb();
        auto L = a.ce();
        if (op == "is_sorted") {
            ref.tok("ok").b(std::is_sorted(F, L, c));
        } else if (op == "is_sorted_until") {
            ref.tok("ok").num(std::is_sorted_until(F, L, c) - F);
        } else if (op == "min_element") {
            ref.tok("ok").num(std::min_element(F, L, c) - F);
        } else if (op == "max_element") {
            ref.tok("ok").num(std::max_element(F, L, c) - F);
        } else {
            auto r = std::minmax_element(F, L, c);
            ref.tok("ok").num(r.first - F).num(r.second - F);
        }
        return known;
    }
    if (op == "lower_bound" || op == "upper_bound" || op == "equal_range" || op == "binary_search") {
        bool d = in.num() != 0;
        Cmp c {static_cast<int>(in.num())};
        int v = static_cast<int>(in.num());
        Buf a(in.list());
        known = flav_fwd(f, [&](auto M, auto) {
            auto F = M.mk(a.cb());
            auto L = M.mk(a.ce());
            if (op == "lower_bound") {
                IMPL(auto r = M.base(etl::lower_bound(F, L, v, c)) - a.cb(); o.tok("ok").num(r);
                     if (c.id == 0) { both(o, M.base(etl::lower_bound(F, L, v)) - a.cb(), r); });
            } else if (op == "upper_bound") {
                IMPL(auto r = M.base(etl::upper_bound(F, L, v, c)) - a.cb(); o.tok("ok").num(r);
                     if (c.id == 0) { both(o, M.base(etl::upper_bound(F, L, v)) - a.cb(), r); });
            } else if (op == "equal_range") {
                IMPL(auto r = etl::equal_range(F, L, v, c); o.tok("ok").num(M.base(r.first) - a.cb()).num(M.base(r.second) - a.cb());
                     if (c.id == 0) {
                         auto r2 = etl::equal_range(F, L, v);
                         both(o, M.base(r2.first), M.base(r.first));
                         both(o, M.base(r2.second), M.base(r.second));
                     });
            } else {
                IMPL(auto r = etl::binary_search(F, L, v, c); o.tok("ok").b(r); if (c.id == 0) { both(o, etl::binary_search(F, L, v), r); });
            }
        });
        if (d) {
            auto F = a.cb();
            auto L = a.ce();
            if (op == "lower_bound") {
                ref.tok("ok").num(std::lower_bound(F, L, v, c) - F);
            } else if (op == "upper_bound") {
                ref.tok("ok").num(std::upper_bound(F, L, v, c) - F);
            } else if (op == "equal_range") {
                auto r = std::equal_range(F, L, v, c);
                ref.tok("ok").num(r.first - F).num(r.second - F);
            } else {
                ref.tok("ok").b(std::binary_search(F, L, v, c));
            }
        }
        return known;
    }
    // ------------------------------------------------------------ two ranges + binary predicate
    if (op == "search" || op == "search_ds" || op == "find_end") {
        P2 p {static_cast<int>(in.num())};
        Buf a(in.list());
        Buf s(in.list());
        known = flav_fwd(f, [&](auto M1, auto M2) {
            auto F  = M1.mk(a.cb());
            auto L  = M1.mk(a.ce());
            auto SF = M2.mk(s.cb());
            auto SL = M2.mk(s.ce());
            if (op == "search") {
                IMPL(auto r = M1.base(etl::search(F, L, SF, SL, p)) - a.cb(); o.tok("ok").num(r);
                     if (p.id == 0) { both(o, M1.base(etl::search(F, L, SF, SL)) - a.cb(), r); });
            } else if (op == "find_end") {
                IMPL(auto r = M1.base(etl::find_end(F, L, SF, SL, p)) - a.cb(); o.tok("ok").num(r);
                     if (p.id == 0) { both(o, M1.base(etl::find_end(F, L, SF, SL)) - a.cb(), r); });
            } else {
                IMPL(auto ds = etl::default_searcher<decltype(SF), P2>(SF, SL, p); auto r = etl::search(F, L, ds); auto pr = ds(F, L);
                     o.tok("ok").num(M1.base(r) - a.cb()).num(M1.base(pr.first) - a.cb()).num(M1.base(pr.second) - a.cb());
                     if (p.id == 0) {
                         auto ds0 = etl::default_searcher(SF, SL);
                         both(o, M1.base(etl::search(F, L, ds0)), M1.base(r));
                     });
            }
        });
        auto F = a.cb();
        auto L = a.ce();
        if (op == "search") {
            ref.tok("ok").num(std::search(F, L, s.cb(), s.ce(), p) - F);
        } else if (op == "find_end") {
            ref.tok("ok").num(std::find_end(F, L, s.cb(), s.ce(), p) - F);
        } else {
            auto ds = std::default_searcher(s.cb(), s.ce(), p);
            auto r  = std::search(F, L, ds);
            auto pr = ds(F, L);
            ref.tok("ok").num(r - F).num(pr.first - F).num(pr.second - F);
        }
        return known;
    }
    if (op == "find_first_of" || op == "mismatch4" || op == "mismatch3" || op == "equal3" || op == "equal4") {
        P2 p {static_cast<int>(in.num())};
        Buf a(in.list());
        Buf s(in.list());
        known = flav_in(f, [&](auto M1, auto M2) {
            auto F  = M1.mk(a.cb());
            auto L  = M1.mk(a.ce());
            auto SF = M2.mk(s.cb());
            auto SL = M2.mk(s.ce());
            if (op == "find_first_of") {
                IMPL(auto r = M1.base(etl::find_first_of(F, L, SF, SL, p)) - a.cb(); o.tok("ok").num(r);
                     if (p.id == 0) { both(o, M1.base(etl::find_first_of(F, L, SF, SL)) - a.cb(), r); });
            } else if (op == "mismatch4") {
                IMPL(auto r = etl::mismatch(F, L, SF, SL, p); o.tok("ok").num(M1.base(r.first) - a.cb()).num(M2.base(r.second) - s.cb());
                     if (p.id == 0) {
                         auto r2 = etl::mismatch(F, L, SF, SL);
                         both(o, M1.base(r2.first), M1.base(r.first));
                         both(o, M2.base(r2.second), M2.base(r.second));
                     });
            } else if (op == "mismatch3") {
                IMPL(auto r = etl::mismatch(F, L, SF, p); o.tok("ok").num(M1.base(r.first) - a.cb()).num(M2.base(r.second) - s.cb());
                     if (p.id == 0) {
                         auto r2 = etl::mismatch(F, L, SF);
                         both(o, M1.base(r2.first), M1.base(r.first));
                         both(o, M2.base(r2.second), M2.base(r.second));
                     });
            } else if (op == "equal3") {
                IMPL(auto r = etl::equal(F, L, SF, p); o.tok("ok").b(r); if (p.id == 0) { both(o, etl::equal(F, L, SF), r); });
            } else {
                IMPL(auto r = etl::equal(F, L, SF, SL, p); o.tok("ok").b(r); if (p.id == 0) { both(o, etl::equal(F, L, SF, SL), r); });
            }
        });
        auto F = a.cb();
        auto L = a.ce();
        if (op == "find_first_of") {
            ref.tok("ok").num(std::find_first_of(F, L, s.cb(), s.ce(), p) - F);
        } else if (op == "mismatch4") {
            auto r = std::mismatch(F, L, s.cb(), s.ce(), p);
            ref.tok("ok").num(r.first - F).num(r.second - s.cb());
        } else if (op == "mismatch3") {
            auto r = std::mismatch(F, L, s.cb(), p);
            ref.tok("ok").num(r.first - F).num(r.second - s.cb());
        } else if (op == "equal3") {
            ref.tok("ok").b(std::equal(F, L, s.cb(), p));
        } else {
            ref.tok("ok").b(std::equal(F, L, s.cb(), s.ce(), p));
        }
        return known;
    }
    if (op == "lexcmp") {
        Cmp c {static_cast<int>(in.num())};
        Buf a(in.list());
        Buf s(in.list());
        known = flav_in(f, [&](auto M1, auto M2) {
            auto F  = M1.mk(a.cb());
            auto L  = M1.mk(a.ce());
            auto SF = M2.mk(s.cb());
            auto SL = M2.mk(s.ce());
            IMPL(auto r = etl::lexicographical_compare(F, L, SF, SL, c); o.tok("ok").b(r);
                 if (c.id == 0) { both(o, etl::lexicographical_compare(F, L, SF, SL), r); });
        });
        ref.tok("ok").b(std::lexicographical_compare(a.cb(), a.ce(), s.cb(), s.ce(), c));
        return known;
    }
    if (op == "is_permutation3" || op == "is_permutation4") {
        Buf a(in.list());
        Buf s(in.list());
        known = flav_fwd(f, [&](auto M1, auto M2) {
            auto F  = M1.mk(a.cb());
            auto L  = M1.mk(a.ce());
            auto SF = M2.mk(s.cb());
            auto SL = M2.mk(s.ce());
            if (op == "is_permutation3") {
                IMPL(o.tok("ok").b(etl::is_permutation(F, L, SF)));
            } else {
                IMPL(o.tok("ok").b(etl::is_permutation(F, L, SF, SL)));
            }
        });
        if (op == "is_permutation3") {
            ref.tok("ok").b(std::is_permutation(a.cb(), a.ce(), s.cb()));
        } else {
            ref.tok("ok").b(std::is_permutation(a.cb(), a.ce(), s.cb(), s.ce()));
        }
        return known;
    }
    // ------------------------------------------------------------ two sorted ranges
    if (op == "includes" || op == "merge" || op == "set_union" || op == "set_intersection" || op == "set_difference"
        || op == "set_symmetric_difference") {
        bool d = in.num() != 0;
        Cmp c {static_cast<int>(in.num())};
        Buf a(in.list());
        Buf s(in.list());
        Buf dst(a.n + s.n);
        Buf rdst(a.n + s.n);
        known = flav_in(f, [&](auto M1, auto M2) {
            auto F  = M1.mk(a.cb());
            auto L  = M1.mk(a.ce());
            auto SF = M2.mk(s.cb());
            auto SL = M2.mk(s.ce());
            auto D  = M1.out(dst.b());
            if (op == "includes") {
                IMPL(auto r = etl::includes(F, L, SF, SL, c); o.tok("ok").b(r); if (c.id == 0) { both(o, etl::includes(F, L, SF, SL), r); });
            } else if (op == "merge") {
                IMPL(auto r = M1.obase(etl::merge(F, L, SF, SL, D, c)) - dst.b(); outlist(o, dst, r);
                     if (c.id == 0) {
                         Buf d2(a.n + s.n);
                         auto r2 = M1.obase(etl::merge(F, L, SF, SL, M1.out(d2.b()))) - d2.b();
                         both(o, r2, r);
                         both(o, d2.v, dst.v);
                     });
            } else if (op == "set_union") {
                IMPL(auto r = M1.obase(etl::set_union(F, L, SF, SL, D, c)) - dst.b(); outlist(o, dst, r);
                     if (c.id == 0) {
                         Buf d2(a.n + s.n);
                         auto r2 = M1.obase(etl::set_union(F, L, SF, SL, M1.out(d2.b()))) - d2.b();
                         both(o, r2, r);
                         both(o, d2.v, dst.v);
                     });
            } else if (op == "set_intersection") {
                IMPL(auto r = M1.obase(etl::set_intersection(F, L, SF, SL, D, c)) - dst.b(); outlist(o, dst, r);
                     if (c.id == 0) {
                         Buf d2(a.n + s.n);
                         auto r2 = M1.obase(etl::set_intersection(F, L, SF, SL, M1.out(d2.b()))) - d2.b();
                         both(o, r2, r);
                         both(o, d2.v, dst.v);
                     });
            } else if (op == "set_difference") {
                IMPL(auto r = M1.obase(etl::set_difference(F, L, SF, SL, D, c)) - dst.b(); outlist(o, dst, r);
                     if (c.id == 0) {
                         Buf d2(a.n + s.n);
                         auto r2 = M1.obase(etl::set_difference(F, L, SF, SL, M1.out(d2.b()))) - d2.b();
                         both(o, r2, r);
                         both(o, d2.v, dst.v);
                     });
            } else {
                IMPL(auto r = M1.obase(etl::set_symmetric_difference(F, L, SF, SL, D, c)) - dst.b(); outlist(o, dst, r);
                     if (c.id == 0) {
                         Buf d2(a.n + s.n);
                         auto r2 = M1.obase(etl::set_symmetric_difference(F, L, SF, SL, M1.out(d2.b()))) - d2.b();
                         both(o, r2, r);
                         both(o, d2.v, dst.v);
                     });
            }
        });
        if (d) {
            auto F = a.cb();
            auto L = a.ce();
            if (op == "includes") {
                ref.tok("ok").b(std::includes(F, L, s.cb(), s.ce(), c));
            } else if (op == "merge") {
                outlist(ref, rdst, std::merge(F, L, s.cb(), s.ce(), rdst.b(), c) - rdst.b());
            } else if (op == "set_union") {
                outlist(ref, rdst, std::set_union(F, L, s.cb(), s.ce(), rdst.b(), c) - rdst.b());
            } else if (op == "set_intersection") {
                outlist(ref, rdst, std::set_intersection(F, L, s.cb(), s.ce(), rdst.b(), c) - rdst.b());
            } else if (op == "set_difference") {
                outlist(ref, rdst, std::set_difference(F, L, s.cb(), s.ce(), rdst.b(), c) - rdst.b());
            } else {
                outlist(ref, rdst, std::set_symmetric_difference(F, L, s.cb(), s.ce(), rdst.b(), c) - rdst.b());
            }
        }
        return known;
    }
    // ------------------------------------------------------------ numeric
    if (op == "accumulate" || op == "reduce") {
        Op2 o2 {static_cast<int>(in.num())};
        long long init = in.num();
        Buf a(in.list());
        known = flav_in(f, [&](auto M, auto) {
            auto F = M.mk(a.cb());
            auto L = M.mk(a.ce());
            if (op == "accumulate") {
                IMPL(auto r = etl::accumulate(F, L, init, o2); o.tok("ok").num(r); if (o2.id == 0) { both(o, etl::accumulate(F, L, init), r); });
            } else {
                IMPL(auto r = etl::reduce(F, L, init, o2); o.tok("ok").num(r); if (o2.id == 0) {
                    both(o, etl::reduce(F, L, init), r);
                    both(o, static_cast<long long>(etl::reduce(F, L)) + init, r);
                });
            }
        });
        if (op == "accumulate") {
            ref.tok("ok").num(std::accumulate(a.cb(), a.ce(), init, o2));
        } else if (o2.id == 0 || o2.id == 3) {
            ref.tok("ok").num(std::reduce(a.cb(), a.ce(), init, o2));
        }
        return known;
    }
    if (op == "transform_reduce1") {
        Op2 o2 {static_cast<int>(in.num())};
        Tr1 tr {Op2 {static_cast<int>(in.num())}};
        long long init = in.num();
        Buf a(in.list());
        known = flav_in(f, [&](auto M, auto) { IMPL(o.tok("ok").num(etl::transform_reduce(M.mk(a.cb()), M.mk(a.ce()), init, o2, tr))); });
        if (o2.id == 0 || o2.id == 3) { ref.tok("ok").num(std::transform_reduce(a.cb(), a.ce(), init, o2, tr)); }
        return known;
    }
    if (op == "inner_product" || op == "transform_reduce") {
        Op2 o1 {static_cast<int>(in.num())};
        Op2 o2 {static_cast<int>(in.num())};
        long long init = in.num();
        Buf a(in.list());
        Buf s(in.list());
        known = flav_in(f, [&](auto M1, auto M2) {
            auto F  = M1.mk(a.cb());
            auto L  = M1.mk(a.ce());
            auto SF = M2.mk(s.cb());
            if (op == "inner_product") {
                IMPL(auto r = etl::inner_product(F, L, SF, init, o1, o2); o.tok("ok").num(r);
                     if (o1.id == 0 && o2.id == 3) { both(o, etl::inner_product(F, L, SF, init), r); });
            } else {
                IMPL(auto r = etl::transform_reduce(F, L, SF, init, o1, o2); o.tok("ok").num(r);
                     if (o1.id == 0 && o2.id == 3) { both(o, etl::transform_reduce(F, L, SF, init), r); });
            }
        });
        if (op == "inner_product") {
            ref.tok("ok").num(std::inner_product(a.cb(), a.ce(), s.cb(), init, o1, o2));
        } else if (o1.id == 0 || o1.id == 3) {
            ref.tok("ok").num(std::transform_reduce(a.cb(), a.ce(), s.cb(), init, o1, o2));
        }
        return known;
    }
    if (op == "partial_sum" || op == "adjacent_difference") {
        Op2 o2 {static_cast<int>(in.num())};
        Buf a(in.list());
        Buf dst(a.n);
        Buf rdst(a.n);
        known = flav_in(f, [&](auto M, auto) {
            auto F = M.mk(a.cb());
            auto L = M.mk(a.ce());
            if (op == "partial_sum") {
                IMPL(auto r = M.obase(etl::partial_sum(F, L, M.out(dst.b()), o2)) - dst.b(); outlist(o, dst, r);
                     if (o2.id == 0) {
                         Buf d2(a.n);
                         auto r2 = M.obase(etl::partial_sum(F, L, M.out(d2.b()))) - d2.b();
                         both(o, r2, r);
                         both(o, d2.v, dst.v);
                     });
            } else {
                IMPL(auto r = M.obase(etl::adjacent_difference(F, L, M.out(dst.b()), o2)) - dst.b(); outlist(o, dst, r);
                     if (o2.id == 1) {
                         Buf d2(a.n);
                         auto r2 = M.obase(etl::adjacent_difference(F, L, M.out(d2.b()))) - d2.b();
                         both(o, r2, r);
                         both(o, d2.v, dst.v);
                     });
            }
        });
        if (op == "partial_sum") {
            outlist(ref, rdst, std::partial_sum(a.cb(), a.ce(), rdst.b(), o2) - rdst.b());
        } else {
            outlist(ref, rdst, std::adjacent_difference(a.cb(), a.ce(), rdst.b(), o2) - rdst.b());
        }
        return known;
    }
    if (op == "iota") {
        auto n = static_cast<std::size_t>(in.num());
        int v  = static_cast<int>(in.num());
        Buf a(n);
        Buf r(n);
        known = flav_fwd(f, [&](auto M, auto) { IMPL(etl::iota(M.mk(a.b()), M.mk(a.e()), v); outlist(o, a, static_cast<std::ptrdiff_t>(n))); });
        std::iota(r.b(), r.e(), v);
        outlist(ref, r, static_cast<std::ptrdiff_t>(n));
        return known;
    }
    return false;
}

VERIF_MAIN()
