(* C06b driver: model leg = extracted Model.v functions, spec leg = extracted Spec.v functions.
   Elements are native ints; predicates / comparators / operations are the same small families
   as in harness.cpp, referenced by id.  Parsing and printing only. *)
let p1 kind k : int -> bool =
  match kind with
  | 0 -> (fun x -> x mod 2 = 0)
  | 1 -> (fun x -> x = k)
  | 2 -> (fun x -> x < k)
  | _ -> (fun x -> x mod 3 = k)
let p2 id : int -> int -> bool =
  match id with
  | 0 -> (fun x y -> x = y)
  | 1 -> (fun x y -> x mod 3 = y mod 3)
  | _ -> (fun x y -> x < y)
let cmp id : int -> int -> bool =
  match id with
  | 0 -> (fun x y -> x < y)
  | 1 -> (fun x y -> x > y)
  | 2 -> (fun x y -> x mod 3 < y mod 3)
  | 3 -> (fun x y -> x / 16 < y / 16)
  | _ -> (fun x y -> x / 16 > y / 16)
let op2 id : int -> int -> int =
  match id with
  | 0 -> (fun a b -> a + b)
  | 1 -> (fun a b -> a - b)
  | 2 -> (fun a b -> 2 * a + b)
  | _ -> (fun a b -> a * b)
let eqi : int -> int -> bool = fun x y -> x = y

let pos n = join [ "ok"; string_of_int (int_of_nat n) ]
let pos2 (a, b) = join [ "ok"; string_of_int (int_of_nat a); string_of_int (int_of_nat b) ]
let okb b = join [ "ok"; b2s b ]
let oki i = join [ "ok"; string_of_int i ]
let okl l = join [ "ok"; intlist_s l ]
let rres f = function Ok a -> f a | Contract -> "contract" | UB _ -> "ub" | OutOfFuel -> "fuel"
let dom d s = if d then s else "na"

(* the callable used for for_each / for_each_n: order-sensitive hash + in-place increment *)
let fe h x = ((h * 31 + x) mod 1000003, x + 1)

(* "_t<k>": result type of the predicate / comparator (int with truthy value 2, -1, 4096; class type convertible to bool):
   the code may use the result only through its conversion to bool, so the model is that of the bool predicate *)
let strip_truth op =
  let n = String.length op in
  if n > 3 && op.[n - 3] = '_' && op.[n - 2] = 't' && op.[n - 1] >= '1' && op.[n - 1] <= '4' then String.sub op 0 (n - 3) else op


(* ---- fix-miss round 5: "nx_<alg> <tp> <o> ...": the numeric folds on heterogeneous arithmetic types (coq/C06b/ModelNumT.v).
   Values are IEEE doubles (exact for every type of the run: 8/32-bit integers, integers below 2^53, float, double); `nx_conv`
   is the conversion to the type (integer types: truncation towards zero, then modulo 2^N; float: rounding to single), `nx_arith`
   the operation inside one type (signed overflow = the model leg `ub`; for + - * the double result rounded to single IS the
   single-precision result).  Tokens of a floating-point range / init are halves; results are printed scaled by 64. *)
exception Nx_ub
let f32 (x : float) = Int32.float_of_bits (Int32.bits_of_float x)
let wrap_to bits signed y =
  let m = Float.ldexp 1.0 bits in
  let r = Float.rem y m in
  let r = if r < 0.0 then r +. m else r in
  if signed && r >= m /. 2.0 then r -. m else r
let nx_conv (t : nty) (x : float) : float =
  match t with
  | NF64 -> x
  | NF32 -> f32 x
  | NU8 -> if Float.abs x >= 9.0e15 then raise Nx_ub else wrap_to 8 false (Float.trunc x)
  | NI32 -> if Float.abs x >= 9.0e15 then raise Nx_ub else wrap_to 32 true (Float.trunc x)
  | NI64 -> if Float.abs x >= 9.0e15 then raise Nx_ub else Float.trunc x
let nx_arith (o : nat) (t : nty) (x : float) (y : float) : float =
  let r = match o with O -> x +. y | S O -> x -. y | _ -> x *. y in
  match t with
  | NF64 -> r
  | NF32 -> f32 r
  | NI32 -> if r < -2147483648.0 || r >= 2147483648.0 then raise Nx_ub else r
  | NI64 -> if Float.abs r >= 9.0e15 then raise Nx_ub else r
  | NU8 -> raise Nx_ub   (* never: unsigned char is promoted *)
let nx_types = function
  | 0 -> (NF64, NF64, NI32, NI32) | 1 -> (NI32, NI32, NF32, NF32) | 2 -> (NI32, NI32, NU8, NU8) | 3 -> (NI32, NF64, NF64, NF64)
  | 4 -> (NF64, NI32, NI32, NF64) | 5 -> (NU8, NU8, NI32, NI32) | 6 -> (NI64, NI32, NI32, NI32) | 7 -> (NF32, NF32, NF64, NF64)
  | 8 -> (NI32, NI32, NI64, NI64) | 9 -> (NU8, NI32, NU8, NU8) | 10 -> (NI32, NI32, NF64, NI32) | _ -> raise Not_found
let nx_dec (t : nty) (k : int) : float tv =
  { ty = t; val0 = (match t with NF32 | NF64 -> float_of_int k /. 2.0 | _ -> float_of_int k) }
let nx_tyname = function NU8 -> "u8" | NI32 -> "i32" | NI64 -> "i64" | NF32 -> "f32" | NF64 -> "f64"
let nx_v64 (x : float) = string_of_int (int_of_float (Float.round (x *. 64.0)))
let nx_one (r : float tv) = join [ "ok"; nx_tyname r.ty; nx_v64 r.val0 ]
let nx_list (d : nty) (l : float tv list) =
  join ("ok" :: nx_tyname d :: string_of_int (List.length l) :: List.map (fun (r : float tv) -> nx_v64 r.val0) l)
let nx_guard f = try f () with Nx_ub -> "ub"
let nx_case alg t =
  let (e1, e2, ty_t, ty_d) = nx_types (next_int t) in
  let o = next_int t in
  let cv = nx_conv and ar = nx_arith in
  let n_ k = nat_of_int k in
  match alg with
  | "accumulate" ->
      let init = nx_dec ty_t (next_int t) in let l = List.map (nx_dec e1) (next_intlist t) in
      (nx_guard (fun () -> nx_one (accumulate_t cv ar (n_ o) ty_t l init)), nx_guard (fun () -> nx_one (accumulate_ts cv ar (n_ o) ty_t l init)))
  | "reduce" ->
      let d = next_bool t in
      let init = nx_dec ty_t (next_int t) in let l = List.map (nx_dec e1) (next_intlist t) in
      if o = 3 then
        (nx_guard (fun () -> nx_one (reduce0_t cv ar 0.0 e1 l)), dom d (nx_guard (fun () -> nx_one (accumulate_ts cv ar O e1 l { ty = e1; val0 = 0.0 }))))
      else
        let k = if o = 1 then n_ 1 else O in
        (nx_guard (fun () -> nx_one (reduce_t cv ar k ty_t l init)), dom d (nx_guard (fun () -> nx_one (accumulate_ts cv ar k ty_t l init))))
  | "inner_product" | "transform_reduce" ->
      let d = next_bool t in
      let init = nx_dec ty_t (next_int t) in
      let l1 = List.map (nx_dec e1) (next_intlist t) in let l2 = List.map (nx_dec e2) (next_intlist t) in
      let (o1, o2) = if o = 2 then (n_ 1, O) else (O, n_ 2) in
      let m () =
        if alg = "inner_product" then rres nx_one (inner_product_t cv ar o1 o2 ty_t l1 l2 init)
        else if o = 0 then rres nx_one (transform_reduce4_t cv ar ty_t l1 l2 init)
        else rres nx_one (transform_reduce_t cv ar o1 o2 ty_t l1 l2 init) in
      (nx_guard m, dom (alg = "inner_product" || d) (nx_guard (fun () -> nx_one (inner_product_ts cv ar o1 o2 ty_t l1 l2 init))))
  | "transform_reduce1" ->
      let d = next_bool t in
      let init = nx_dec ty_t (next_int t) in let l = List.map (nx_dec e1) (next_intlist t) in
      (nx_guard (fun () -> nx_one (transform_reduce1_t cv ar (n_ o) ty_t l init)),
       dom d (nx_guard (fun () -> nx_one (transform_reduce1_ts cv ar (n_ o) ty_t l init))))
  | "partial_sum" ->
      let l = List.map (nx_dec e1) (next_intlist t) in
      let k = if o = 1 then n_ 1 else O in
      (nx_guard (fun () -> nx_list ty_d (partial_sum_t cv ar k e1 ty_d l)), nx_guard (fun () -> nx_list ty_d (partial_sum_ts cv ar k e1 ty_d l)))
  | "adjacent_difference" ->
      let l = List.map (nx_dec e1) (next_intlist t) in
      let (dflt, k) = if o = 0 then (true, O) else if o = 1 then (false, O) else (false, n_ 1) in
      (nx_guard (fun () -> nx_list ty_d (adjacent_difference_t cv ar dflt k e1 ty_d l)),
       nx_guard (fun () -> nx_list ty_d (adjacent_difference_ts cv ar dflt k e1 ty_d l)))
  | "iota" ->
      let n = next_int t in let v = nx_dec ty_t (next_int t) in
      (nx_guard (fun () -> nx_list ty_d (iota_t cv ar 1.0 ty_t ty_d (n_ n) v)), nx_guard (fun () -> nx_list ty_d (iota_ts cv ar 1.0 ty_t ty_d (n_ n) v)))
  | _ -> raise Not_found

let run_case op t =
  let op = strip_truth op in
  if String.length op > 3 && String.sub op 0 3 = "nx_" then nx_case (String.sub op 3 (String.length op - 3)) t else
  match op with
  | "min" | "max" | "minmax" | "clamp" ->
      (match op with
       | "clamp" ->
           let d = next_bool t in
           let c = cmp (next_int t) in
           let v = next_int t in let lo = next_int t in let hi = next_int t in
           (oki (clamp_m c v lo hi), dom d (oki (clamp_s c v lo hi)))
       | _ ->
           let c = cmp (next_int t) in
           let a = next_int t in let b = next_int t in
           (match op with
            | "min" -> (oki (min_m c a b), oki (min_s c a b))
            | "max" -> (oki (max_m c a b), oki (max_s c a b))
            | _ ->
                let pr (x, y) = join [ "ok"; string_of_int x; string_of_int y ] in
                (pr (minmax_m c a b), pr (minmax_s c a b))))
  | _ ->
  let f = next_int t in
  match op with
  | "find" ->
      let v = next_int t in let l = next_intlist t in
      (pos (find_m eqi l v), pos (find_s eqi l v))
  | "count" ->
      let v = next_int t in let l = next_intlist t in
      (pos (count_m eqi l v), pos (count_s eqi l v))
  | "find_if" | "find_if_not" | "count_if" | "all_of" | "any_of" | "none_of" | "is_partitioned" ->
      let kind = next_int t in let k = next_int t in let p = p1 kind k in
      let l = next_intlist t in
      (match op with
       | "find_if" -> (pos (find_if_m p l), pos (find_if_s p l))
       | "find_if_not" -> (pos (find_if_not_m p l), pos (find_if_not_s p l))
       | "count_if" -> (pos (count_if_m p l), pos (count_if_s p l))
       | "all_of" -> (okb (all_of_m p l), okb (all_of_s p l))
       | "any_of" -> (okb (any_of_m p l), okb (any_of_s p l))
       | "none_of" -> (okb (none_of_m p l), okb (none_of_s p l))
       | _ -> (okb (is_partitioned_m p l), okb (is_partitioned_s p l)))
  | "partition_point" ->
      let d = next_bool t in
      let kind = next_int t in let k = next_int t in let p = p1 kind k in
      let l = next_intlist t in
      (pos (partition_point_m p l), dom d (pos (partition_point_s p l)))
  | "for_each" ->
      let l = next_intlist t in
      let pr (h, o) = join [ "ok"; string_of_int h; intlist_s o ] in
      (pr (for_each_m fe 0 l), pr (for_each_s fe 0 l))
  | "for_each_n" ->
      let d = next_bool t in
      let n = next_int t in let l = next_intlist t in
      let pr ((i, h), o) = join [ "ok"; string_of_int (int_of_nat i); string_of_int h; intlist_s o ] in
      (rres pr (for_each_n_m fe 0 l (z_of_int n)),
       dom d (pr (for_each_n_s fe 0 l (nat_of_int n))))
  | "adjacent_find" ->
      let b = p2 (next_int t) in let l = next_intlist t in
      (pos (adjacent_find_m b l), pos (adjacent_find_s b l))
  | "search_n" ->
      let b = p2 (next_int t) in let n = next_int t in let v = next_int t in let l = next_intlist t in
      (pos (search_n_m b l (z_of_int n) v), pos (search_n_s b l (z_of_int n) v))
  | "is_sorted" | "is_sorted_until" | "min_element" | "max_element" | "minmax_element" ->
      let c = cmp (next_int t) in let l = next_intlist t in
      (match op with
       | "is_sorted" -> (okb (is_sorted_m c l), okb (is_sorted_s c l))
       | "is_sorted_until" -> (pos (is_sorted_until_m c l), pos (is_sorted_until_s c l))
       | "min_element" -> (pos (min_element_m c l), pos (min_element_s c l))
       | "max_element" -> (pos (max_element_m c l), pos (max_element_s c l))
       | _ -> (pos2 (minmax_element_m c l), pos2 (minmax_element_s c l)))
  | "lower_bound" | "upper_bound" | "equal_range" | "binary_search" ->
      let d = next_bool t in
      let c = cmp (next_int t) in let v = next_int t in let l = next_intlist t in
      (match op with
       | "lower_bound" -> (rres pos (lower_bound_m c l v), dom d (pos (lower_bound_s c l v)))
       | "upper_bound" -> (rres pos (upper_bound_m c l v), dom d (pos (upper_bound_s c l v)))
       | "equal_range" -> (rres pos2 (equal_range_m c l v), dom d (pos2 (equal_range_s c l v)))
       | _ -> (rres okb (binary_search_m c l v), dom d (okb (binary_search_s c l v))))
  | "search" | "search_ds" | "find_end" | "find_first_of" | "mismatch4" | "mismatch3" | "equal3" | "equal4" ->
      let b = p2 (next_int t) in
      let l = next_intlist t in let s = next_intlist t in
      (match op with
       | "search" -> (pos (search_m b l s), pos (search_s b l s))
       | "search_ds" ->
           let pr i (a, c) = join [ "ok"; string_of_int (int_of_nat i); string_of_int (int_of_nat a);
                                    string_of_int (int_of_nat c) ] in
           (pr (search_searcher_m b l s) (default_searcher_m b l s),
            pr (fst (default_searcher_s b l s)) (default_searcher_s b l s))
       | "find_end" -> (rres pos (find_end_m b l s), pos (find_end_s b l s))
       | "find_first_of" -> (pos (find_first_of_m b l s), pos (find_first_of_s b l s))
       | "mismatch4" ->
           let i = mismatch4_m b l s in let j = mismatch_s b l s in
           (pos2 (i, i), pos2 (j, j))
       | "mismatch3" ->
           let j = mismatch_s b l (second_range l s) in
           (rres (fun i -> pos2 (i, i)) (mismatch3_m b l s), pos2 (j, j))
       | "equal3" -> (rres okb (equal3_m b l s), okb (equal_s b l (second_range l s)))
       | _ ->
           let ra = (f = 0) in
           (rres okb (equal4_m ra b l s), okb (equal_s b l s)))
  | "lexcmp" ->
      let c = cmp (next_int t) in
      let l = next_intlist t in let s = next_intlist t in
      (okb (lexicographical_compare_m c l s), okb (lexicographical_compare_s c l s))
  | "is_permutation3" ->
      let l = next_intlist t in let s = next_intlist t in
      (rres okb (is_permutation3_m eqi l s), okb (is_permutation_s eqi l (second_range l s)))
  | "is_permutation4" ->
      let l = next_intlist t in let s = next_intlist t in
      (rres okb (is_permutation4_m eqi l s), okb (is_permutation_s eqi l s))
  | "includes" | "merge" | "set_union" | "set_intersection" | "set_difference" | "set_symmetric_difference" ->
      let d = next_bool t in
      let c = cmp (next_int t) in
      let l = next_intlist t in let s = next_intlist t in
      (match op with
       | "includes" -> (okb (includes_m c l s), dom d (okb (includes_s c l s)))
       | "merge" -> (okl (merge_m c l s), dom d (okl (merge_s c l s)))
       | "set_union" -> (okl (set_union_m c l s), dom d (okl (set_union_s c l s)))
       | "set_intersection" -> (okl (set_intersection_m c l s), dom d (okl (set_intersection_s c l s)))
       | "set_difference" -> (okl (set_difference_m c l s), dom d (okl (set_difference_s c l s)))
       | _ -> (okl (set_symmetric_difference_m c l s), dom d (okl (set_symmetric_difference_s c l s))))
  | "accumulate" | "reduce" ->
      let oid = next_int t in
      let o = op2 oid in let init = next_int t in let l = next_intlist t in
      if op = "accumulate" then (oki (accumulate_m o l init), oki (accumulate_s o l init))
      else (* reduce: the order is unspecified unless op is associative and commutative *)
        (oki (reduce_m o l init), dom (oid = 0 || oid = 3) (oki (accumulate_s o l init)))
  | "transform_reduce1" ->
      let oid = next_int t in
      let o = op2 oid in let tr = op2 (next_int t) in let init = next_int t in
      let l = next_intlist t in
      let u x = tr x 3 in
      (oki (transform_reduce1_m o u l init), dom (oid = 0 || oid = 3) (oki (transform_reduce1_s o u l init)))
  | "inner_product" | "transform_reduce" ->
      let oid = next_int t in
      let o1 = op2 oid in let o2 = op2 (next_int t) in let init = next_int t in
      let l = next_intlist t in let s = next_intlist t in
      (rres oki (inner_product_m o1 o2 l s init),
       dom (op = "inner_product" || oid = 0 || oid = 3) (oki (inner_product_s o1 o2 l s init)))
  | "partial_sum" ->
      let o = op2 (next_int t) in let l = next_intlist t in
      (okl (partial_sum_m o l), okl (partial_sum_s o l))
  | "adjacent_difference" ->
      let o = op2 (next_int t) in let l = next_intlist t in
      (okl (adjacent_difference_m o l), okl (adjacent_difference_s o l))
  | "iota" ->
      let n = next_int t in let v = next_int t in
      (okl (iota_m (fun x -> x + 1) (nat_of_int n) v), okl (iota_s (fun x -> x + 1) (nat_of_int n) v))
  | _ -> raise Not_found

let () = main run_case
