"""Prints, per flavour and per operation, how many quick-tier histories are outside the reference domain (`na`) and how many
distinct returned outputs each operation shows.  Usage: python3 props/C01/na_share.py [seed] [tier]   (needs built harness + driver under build/C01)"""
import sys, random, importlib.util, subprocess, collections, glob, os
spec=importlib.util.spec_from_file_location('p','/verif/props/C01/prop.py'); m=importlib.util.module_from_spec(spec); spec.loader.exec_module(m)
seed=int(sys.argv[1]) if len(sys.argv)>1 else 0
tier=sys.argv[2] if len(sys.argv)>2 else 'quick'
g=m.gen(tier, random.Random(seed))
h=sorted(glob.glob('/verif/build/C01/h-main-*'), key=os.path.getmtime)[-1]
d=sorted(glob.glob('/verif/build/C01/driver-*'), key=os.path.getmtime)[-1]
inp='\n'.join(g)+'\n'
ho=subprocess.run([h],input=inp,capture_output=True,text=True).stdout.splitlines()
do=subprocess.run([d],input=inp,capture_output=True,text=True).stdout.splitlines()
print(len(g),len(ho),len(do))
ARITY={'swp':0,'rel':0,'fsw':0}
def ops_of(line):
    t=line.split(); fl=t[1]; k=int(t[3]); i=4; ops=[]
    one={"pb","pbr","eb","ebr","pba","eba","era","rsz","eif","erv","at","tpb","upb","tem","tpr","uem","upr","rit","sfr","sbk","ctn"}
    two={"icr","irv","emp","err","rsv","asn","sat","ctv","cpi","fil","ica","rva"}
    for _ in range(k):
        o=t[i]; i+=1
        if o in ('swp','rel','fsw'): ops.append(o); continue
        i+=1
        if o in one: i+=1
        elif o in two: i+=2
        elif o in ("inn","ina"): i+=3
        elif o in ('irg','mir'): i+=1; n=int(t[i]); i+=1+n
        elif o in ('irk','mik'): i+=2; n=int(t[i]); i+=1+n
        elif o in ('ask','ctk'): i+=1; n=int(t[i]); i+=1+n
        elif o in ('asr','ctr','cta','fcc','fcr'): n=int(t[i]); i+=1+n
        ops.append(o)
    return fl,ops
tot=collections.Counter(); na=collections.Counter(); flt=collections.Counter(); flna=collections.Counter()
outs=collections.defaultdict(set)
mism=0
for line,hl,dl in zip(g,ho,do):
    impl,ref=[x.strip() for x in hl.split('|')]
    model,spc=[x.strip() for x in dl.split('|')]
    if impl!=model: mism+=1
    fl,ops=ops_of(line)
    kind=m.kind(fl)
    isna = ref=='na'
    flt[fl]+=1; flna[fl]+= isna
    steps=[x.strip() for x in impl.split(';')[1:]]
    for j,o in enumerate(ops):
        tot[(kind,o)]+=1
        # an op is "judged against the reference" only when the whole history is in domain
        if isna: na[(kind,o)]+=1
        if j<len(steps): outs[(kind,o)].add(steps[j].split('/')[0].strip())
print('impl!=model',mism)
print('na share per flavour:'); 
for fl in sorted(flt): print(' ',fl,flt[fl],'%.1f%%'%(100*flna[fl]/flt[fl]))
print('per op: total, na-share, distinct returned outputs')
for k in sorted(tot): print(' ',k,tot[k],'%.1f%%'%(100*na[k]/tot[k]),len(outs[k]))
