#!/usr/bin/env python3
"""Parallel compile wrapper used as the 'compiler' of the C01 harness entries.

harness.cpp instantiates every operation for ~60 (element type, capacity) pairs; as one translation unit that is
about a minute of compile time.  This wrapper compiles the SAME source once per part (-DC01_PART=k, k < C01_NPARTS),
at most C01_JOBS (default 4) compilers at a time, and links the objects.  It accepts the g++ command line the engine
builds:   pcxx.py <flags...> -DC01_NPARTS=15 <src>.cpp -o <exe>
A part that fails to compile is replaced by a stub that reports the compiler's first error per case (see below); the full
diagnostics go to <exe>.compile-errors.txt and to stderr.
"""
import os
import re
import subprocess
import sys
import tempfile


def main(argv):
    cxx = os.environ.get("C01_CXX", "g++")
    out = src = None
    flags = []
    nparts = 1
    i = 0
    while i < len(argv):
        a = argv[i]
        if a == "-o":
            out = argv[i + 1]
            i += 2
            continue
        if a.startswith("-DC01_NPARTS="):
            nparts = int(a.split("=", 1)[1])
        elif a.endswith(".cpp") and not a.startswith("-"):
            src = a
        else:
            flags.append(a)
        i += 1
    if out is None or src is None:
        sys.stderr.write("pcxx.py: need <src>.cpp and -o <exe>\n")
        return 2
    tmp = tempfile.mkdtemp(prefix="c01-build-")
    objs = [os.path.join(tmp, "part%d.o" % k) for k in range(nparts)]
    cmds = [[cxx] + flags + ["-DC01_PART=%d" % k, "-c", src, "-o", objs[k]] for k in range(nparts)]
    jobs = max(1, int(os.environ.get("C01_JOBS", "4")))
    rc = 0
    running = []
    pending = list(enumerate(cmds))
    failed = {}
    while pending or running:
        while pending and len(running) < jobs:
            k, c = pending.pop(0)
            running.append((k, subprocess.Popen(c, stdout=subprocess.PIPE, stderr=subprocess.STDOUT)))
        k, p = running.pop(0)
        o, _ = p.communicate()
        if p.returncode != 0:
            failed[k] = o.decode("utf-8", "replace")
            sys.stderr.write("pcxx.py: HARNESS-COMPILE-FAILURE part %d\n" % k + failed[k][-6000:])
    # A part that does not compile against the library under test (a changed return type, a member that no longer accepts
    # the harness's call) must not look like "no input found": the part is replaced by a stub (harness.cpp, C01_STUB) whose
    # flavours answer `harness-does-not-compile part<k>: <first compiler error>` for every case, so that the run reports a
    # concrete input together with the fact that it is the BUILD that broke, and all other flavours still run.  Part 0
    # (main, parser, reference leg) has no stand-in: without it there is no executable.
    # (the engine builds under <dir>/.tmp-<pid>-<name>-<key> and renames to <dir>/h-<name>-<key>: the log goes next to the final name)
    m = re.match(r"\.tmp-\d+-(.*)$", os.path.basename(out))
    errlog = (os.path.join(os.path.dirname(out), "h-" + m.group(1)) if m else out) + ".compile-errors.txt"
    if os.path.exists(errlog):
        os.unlink(errlog)
    if failed:
        with open(errlog, "w") as f:
            for k in sorted(failed):
                f.write("==== part %d\n%s\n" % (k, failed[k]))
    for k in sorted(failed):
        if k == 0 or nparts == 1:
            rc = 1
            continue
        first = next((l for l in failed[k].splitlines() if "error" in l), "compiler error")
        first = re.sub(r"^.*?/include/", "", first.strip())
        msg = "harness-does-not-compile part%d: %s" % (k, re.sub(r"[^A-Za-z0-9_.:<>,()&*=+/' -]", "_", first)[:240])
        with open(os.path.join(tmp, "c01_stub_msg.h"), "w") as f:
            f.write('#define C01_STUB_MSG "%s"\n' % msg.replace("'", "`"))
        stub = [cxx] + flags + ["-I" + tmp, "-DC01_STUB=%d" % k, "-c", src, "-o", objs[k]]
        p = subprocess.run(stub, stdout=subprocess.PIPE, stderr=subprocess.STDOUT)
        if p.returncode != 0:
            rc = p.returncode
            sys.stderr.write(p.stdout.decode("utf-8", "replace")[-3000:])
    if rc == 0:
        link = [cxx] + [f for f in flags if not f.startswith("-D") and not f.startswith("-I")] + objs + ["-o", out]
        p = subprocess.run(link, stdout=subprocess.PIPE, stderr=subprocess.STDOUT)
        rc = p.returncode
        if rc != 0:
            sys.stderr.write(p.stdout.decode("utf-8", "replace")[-6000:])
    for f in objs + [os.path.join(tmp, "c01_stub_msg.h")]:
        if os.path.exists(f):
            os.unlink(f)
    os.rmdir(tmp)
    return rc


if __name__ == "__main__":
    sys.exit(main(sys.argv[1:]))
