"""C01 — fixed-capacity vectors: history generators (capacity-aware, mostly valid; a separate share of
histories ends in a precondition violation so that contract agreement impl/model is exercised too)."""
import itertools

ID = "C01"
LEVEL = "proof"
HARNESSES = [
    {"name": "main", "src": "harness.cpp", "flags": ["-O1", "-DTETL_ENABLE_CONTRACT_CHECKS=1"]},
    {"name": "asan", "src": "harness.cpp", "flags": ["-O1", "-g", "-fsanitize=address,undefined", "-fno-sanitize-recover=all",
                                                      "-DTETL_ENABLE_CONTRACT_CHECKS=1"], "thorough_only": True},
]
RULE = ("a case = a whole operation history on two vectors of one flavour (static_vector<int>, static_vector<non-trivial>, "
        "stack, inplace_vector<int>, inplace_vector<non-trivial>) and capacity in {0,1,2,3,4,8,16,254,255,256}; "
        "exhaustive part: every content state of length <= cap <= 3 over values {1,2,3} x every single operation with every "
        "position/count argument in [-1, size+1]; random part: seeded capacity-aware histories of length <= 40, ~35% of steps at or "
        "crossing full/empty, fill-to-boundary runs at 254/255/256; non-trivial = distinct history that reaches a non-empty state")
TRUSTED_BASE = ["reference leg: libstdc++ 12 std::vector<int> driven by the same history (reserve()d, so no reallocation effects)"]
ASSUMPTIONS = ["element values are ints (the non-trivial element type wraps an int and counts live instances)",
               "a moved-from vector is only cleared/assigned/destroyed afterwards (its content is unspecified in std)"]

SV_CAPS = [0, 1, 2, 3, 4, 8, 16, 254, 255, 256]
SMALL_CAPS = [0, 1, 3, 4, 16]


def L(xs):
    return " ".join([str(len(xs))] + [str(x) for x in xs])


def hist(flavour, cap, ops):
    return f"hist {flavour} {cap} {len(ops)} " + " ".join(ops)


class Sim:
    """python mirror of the list semantics, only to steer generation (validity / sizes)"""

    def __init__(self, cap):
        self.cap = cap
        self.v = [[], []]

    def apply(self, op):
        t = op.split()
        name = t[0]
        a = [int(x) for x in t[1:]]
        v = self.v
        if name == "swp":
            v[0], v[1] = v[1], v[0]
            return True
        if name == "rel":
            return True
        tg = a[0]
        x = v[tg]
        sz = len(x)
        room = self.cap - sz
        if name in ("pb", "eb", "upb"):
            if room < 1: return False
            x.append(a[1])
        elif name == "tpb":
            if room >= 1: x.append(a[1])
        elif name == "pop":
            if sz == 0: return False
            x.pop()
        elif name in ("icr", "irv", "emp"):
            if not (0 <= a[1] <= sz) or room < 1: return False
            x.insert(a[1], a[2])
        elif name == "inn":
            if not (0 <= a[1] <= sz) or not (0 <= a[2] <= room): return False
            x[a[1]:a[1]] = [a[3]] * a[2]
        elif name == "irg":
            xs = a[3:3 + a[2]]
            if not (0 <= a[1] <= sz) or len(xs) > room: return False
            x[a[1]:a[1]] = xs
        elif name == "era":
            if not (0 <= a[1] < sz): return False
            del x[a[1]]
        elif name == "err":
            if not (0 <= a[1] <= a[2] <= sz): return False
            del x[a[1]:a[2]]
        elif name in ("clr",):
            x.clear()
        elif name in ("rsz", "rsv"):
            n = a[1]
            if not (0 <= n <= self.cap): return False
            fillv = a[2] if name == "rsv" else 0
            if n <= sz: del x[n:]
            else: x.extend([fillv] * (n - sz))
        elif name == "asn":
            if not (0 <= a[1] <= self.cap): return False
            v[tg] = [a[2]] * a[1]
        elif name == "asr":
            xs = a[2:2 + a[1]]
            if len(xs) > self.cap: return False
            v[tg] = list(xs)
        elif name == "cpa":
            v[tg] = list(v[1 - tg])
        elif name == "mva":
            v[tg] = list(v[1 - tg]); v[1 - tg] = []
        elif name == "eif":
            pid = a[1]
            def p(e):
                k = e // 16
                return [(k % 2) == 0, k == 1, k < 2, True, False][pid]
            v[tg] = [e for e in x if not p(e)]
        elif name == "erv":
            v[tg] = [e for e in x if e != a[1]]
        elif name in ("at",):
            if not (0 <= a[1] < sz): return False
        elif name in ("fr", "bk"):
            if sz == 0: return False
        elif name == "ivm":
            v[tg] = []
        return True


def single_ops(t, sz, cap, vals):
    """every single operation with boundary arguments for a vector of size sz"""
    ops = []
    x = vals[0]
    for name in ("pb", "eb"):
        ops.append(f"{name} {t} {x}")
    ops.append(f"pop {t}")
    for pos in range(-1, sz + 2):
        ops += [f"icr {t} {pos} {x}", f"irv {t} {pos} {x}", f"emp {t} {pos} {x}", f"era {t} {pos}"]
        for n in range(0, cap - sz + 2):
            ops.append(f"inn {t} {pos} {n} {x}")
            ops.append(f"irg {t} {pos} {L(vals[:n] if n <= len(vals) else vals + [7] * (n - len(vals)))}")
        for l in range(pos, sz + 2):
            ops.append(f"err {t} {pos} {l}")
    ops.append(f"clr {t}")
    for n in range(0, cap + 2):
        ops += [f"rsz {t} {n}", f"rsv {t} {n} {x}", f"asn {t} {n} {x}", f"asr {t} {L((vals * 3)[:n])}"]
    ops += ["swp", f"cpa {t}", f"mva {t}", f"cpc {t}", f"mrt {t}", "rel", f"sca {t}", f"ssw {t}", f"fr {t}", f"bk {t}"]
    for pid in range(0, 5):
        ops.append(f"eif {t} {pid}")
    for v in vals[:2]:
        ops.append(f"erv {t} {v}")
    for i in range(-1, sz + 1):
        ops.append(f"at {t} {i}")
    return ops


def gen(tier, rng):
    quick = tier == "quick"
    out = []
    vals = [1, 18, 35]   # keys 0,1,2 (so predicates distinguish them)
    # ---- exhaustive single operations from every small content state
    for cap in [0, 1, 2, 3] + ([] if quick else [4]):
        for n0 in range(0, cap + 1):
            contents = list(itertools.product(vals, repeat=n0)) if (n0 <= 2 or not quick) else [tuple(vals[:n0]), tuple(reversed(vals[:n0])), (1,) * n0]
            for c0 in contents:
                for c1 in [(), tuple(vals[:min(cap, 2)])]:
                    setup = [f"asr 0 {L(list(c0))}", f"asr 1 {L(list(c1))}"]
                    for o in single_ops(0, n0, cap, vals):
                        ops = setup + [o, "rel", "cpc 0"]
                        for fl in (["sv_int", "sv_trk"] if cap in SMALL_CAPS else ["sv_int"]):
                            out.append(hist(fl, cap, ops))
    # ---- inplace_vector and stack: exhaustive short histories
    iv_alpha = ["tpb 0 2", "tpb 0 3", "upb 0 4", "pop 0", "clr 0", "fr 0", "bk 0", "at 0 0", "at 0 1", "ivc 0", "ivm 0", "tpb 1 6", "ivm 1"]
    st_alpha = ["pb 0 1", "eb 0 2", "pop 0", "bk 0", "swp", "rel", "cpc 0", "pb 1 3"]
    depth = 3 if quick else 4
    iv_unreachable = ("upb", "pop", "fr", "bk", "at")   # etl::unreachable() in inplace_vector<T, 0>: plain UB, not observable
    for cap in [0, 1, 3]:
        for h in itertools.product(iv_alpha, repeat=depth):
            if cap == 0 and sum(o.split()[0] in iv_unreachable for o in h) > 1:
                continue   # every such call is a contract violation in inplace_vector<T, 0>: one per history is enough
            out.append(hist("iv_int", cap, list(h)))
            if cap != 0 and (not quick or rng.random() < 0.3):
                out.append(hist("iv_trk", cap, list(h)))
        for h in itertools.product(st_alpha, repeat=depth):
            out.append(hist("stack", cap, list(h)))
    # ---- random capacity-aware histories
    n_rand = 2500 if quick else 120000
    for _ in range(n_rand):
        fl = rng.choice(["sv_int", "sv_int", "sv_trk", "iv_int", "iv_trk", "stack"])
        cap = rng.choice(SV_CAPS if fl in ("sv_int", "iv_int") else SMALL_CAPS)
        sim = Sim(cap)
        ops = []
        steps = rng.randint(3, 40)
        want_invalid = rng.random() < 0.12
        if cap >= 254 and rng.random() < 0.7 and fl in ("sv_int", "iv_int"):
            # go to the size-type boundary first
            n = rng.choice([cap - 1, cap, cap - 2])
            if fl == "sv_int":
                o = f"asn 0 {n} {rng.choice(vals)}"
                ops.append(o); sim.apply(o)
            else:
                for i in range(n):
                    o = f"tpb 0 {rng.choice(vals)}"
                    ops.append(o); sim.apply(o)
        for k in range(steps):
            t = rng.randint(0, 1)
            sz = len(sim.v[t])
            room = cap - sz
            x = rng.choice(vals + [52, 3])
            if fl.startswith("iv"):
                cand = [f"tpb {t} {x}", f"tpb {t} {x}", f"upb {t} {x}", f"pop {t}", f"clr {t}", f"fr {t}", f"bk {t}",
                        f"at {t} {rng.randint(0, max(0, sz - 1))}", f"ivc {t}", f"ivm {t}"]
            elif fl == "stack":
                cand = [f"pb {t} {x}", f"eb {t} {x}", f"pop {t}", f"bk {t}", "swp", "rel", f"cpc {t}"]
            else:
                pos = rng.randint(0, sz)
                n = rng.randint(0, max(0, min(room, 5)))
                if rng.random() < 0.3:
                    n = room   # exactly to full
                f = rng.randint(0, sz); l = rng.randint(f, sz)
                xs = [rng.choice(vals) for _ in range(n)]
                cand = [f"pb {t} {x}", f"eb {t} {x}", f"pop {t}", f"icr {t} {pos} {x}", f"irv {t} {pos} {x}", f"emp {t} {pos} {x}",
                        f"inn {t} {pos} {n} {x}", f"irg {t} {pos} {L(xs)}", f"era {t} {rng.randint(0, max(0, sz - 1))}", f"err {t} {f} {l}",
                        f"clr {t}", f"rsz {t} {rng.randint(0, cap)}", f"rsv {t} {rng.randint(0, cap)} {x}",
                        f"asn {t} {rng.randint(0, min(cap, 6))} {x}", f"asr {t} {L([rng.choice(vals) for _ in range(rng.randint(0, min(cap, 6)))])}",
                        "swp", f"cpa {t}", f"mva {t}", f"cpc {t}", f"mrt {t}", f"eif {t} {rng.randint(0, 4)}", f"erv {t} {x}", "rel",
                        f"at {t} {rng.randint(0, max(0, sz - 1))}", f"fr {t}", f"bk {t}", f"sca {t}", f"ssw {t}"]
            rng.shuffle(cand)
            chosen = None
            for o in cand:
                trial = Sim(cap); trial.v = [list(sim.v[0]), list(sim.v[1])]
                if trial.apply(o):
                    chosen = o
                    break
            if chosen is None:
                break
            if want_invalid and k == steps - 1:
                # end with a violating call
                bad = [f"pb {t} {x}" if room == 0 else f"inn {t} 0 {room + 1} {x}", f"inn {t} 0 -1 {x}", f"inn {t} 0 {-sz - 1} {x}", f"at {t} -1", f"at {t} {sz}", f"era {t} {sz}", f"icr {t} {sz + 1} {x}",
                       f"err {t} {min(sz, 1)} {sz + 1}", f"rsz {t} {cap + 1}"] if not fl.startswith("iv") and fl != "stack" else \
                      ([f"upb {t} {x}"] if room == 0 else [f"at {t} {sz}"]) if fl.startswith("iv") else ([f"pb {t} {x}"] if room == 0 else [f"pop {t}"] if sz == 0 else [f"bk {t}"])
                chosen = rng.choice(bad)
            ops.append(chosen)
            sim.apply(chosen)
        out.append(hist(fl, cap, ops))
    return out


def nontrivial(case, impl):
    return "; / 0 1" not in impl[:12] or len(impl) > 120
