"""C01 — fixed-capacity vectors: history generators (capacity-aware, mostly valid; a separate share of
histories ends in a precondition violation so that contract agreement impl/model is exercised too)."""
import itertools
import os

ID = "C01"
LEVEL = "proof"
HERE = os.path.dirname(os.path.abspath(__file__))
_PCXX = os.path.join(HERE, "pcxx.py")          # parallel compile wrapper: the same source in 15 parts
_NPARTS = "-DC01_NPARTS=15"
HARNESSES = [
    {"name": "main", "src": "harness.cpp", "compiler": _PCXX, "flags": ["-O1", "-DTETL_ENABLE_CONTRACT_CHECKS=1", _NPARTS]},
    {"name": "asan", "src": "harness.cpp", "compiler": _PCXX,
     "flags": ["-O1", "-g", "-fsanitize=address,undefined", "-fno-sanitize-recover=all", "-DTETL_ENABLE_CONTRACT_CHECKS=1", _NPARTS],
     "thorough_only": True},
]
RULE = ("a case = a whole operation history on two objects of one flavour: static_vector of int / Pod (trivial storage), Tracked / "
        "NxCopy (noexcept non-trivial copy, self-checking) / TdcCopy (trivial default ctor + dtor, user copy/move) / std::string / MoveOnly "
        "(non-trivial storage, Tracked and MoveOnly also at 254/255/256); stack over static_vector of "
        "int / Tracked / std::string / MoveOnly; inplace_vector of the same seven element kinds; static_vector and stack of KeyTag (records "
        "ordered by key only: operator< coarser than operator==, the six relations are six different functions; every pair of contents of "
        "length <= 3); range members with pointer / reverse_iterator / "
        "bidirectional / forward / single-pass input / random-access class sources, the SOURCE range printed after every range operation "
        "(Tracked / MoveOnly mark a moved-from object, a moved-from std::string is empty: copy vs move is observable); "
        "arguments that are elements of the vector itself; "
        "ARGUMENT types: etl::erase with a value of another arithmetic type than the elements and erase_if with a predicate parameter of "
        "another type (static_vector of int / long long / double against unsigned char, signed char, short, unsigned short, unsigned, "
        "long long, unsigned long long, double, int: element pools whose members become equal to the value only after a lossy conversion), "
        "reference std::erase / std::erase_if on std::vector<T>; emplace_back(a, b) / emplace(pos, a, b) / stack::emplace(a, b) / "
        "try_emplace_back(a, b) / unchecked_emplace_back(a, b) on element types with an initializer_list constructor next to a two-argument "
        "one (std::vector<int>, a non-trivial and a trivial record: T(a, b) != T{a, b}, T(x) != T{x}), reference "
        "std::vector<T>::emplace_back(a, b); the reference returned by emplace_back / stack::emplace / unchecked_emplace_back (and the "
        "pointer of try_emplace_back) located among the container's slots and written through; "
        "the SECOND object of every two-object operation as the call leaves it: move assignment (mvo) and move construction (mco) of "
        "static_vector / stack / inplace_vector and stack(Container&&) (fro) with nothing done to the source afterwards, for every flavour "
        "(trivial and non-trivial elements), contents of length 0 / 1 / 2 / full on both sides, followed by appends to / removals from the "
        "moved-from object and a second two-object operation; "
        "capacities {0,1,2,3,4,8,16,254,255,256} and "
        "{65534,65535,65536}; exhaustive part: every content state of length <= cap <= 3 over values {1,18,35} x every single "
        "operation (58 static_vector, 19 stack, 26 inplace_vector operations of the model) with every position/count/index "
        "argument in [-1, size+1]; short exhaustive histories for inplace_vector and stack; random part: seeded capacity-aware "
        "histories of length <= 40, ~35% of steps at or crossing full/empty, fill-to-boundary runs at 254/255/256 and 65534/65535/65536; non-trivial = distinct history that reaches a non-empty state")
TRUSTED_BASE = ["reference leg: libstdc++ 12 std::vector<int> / std::stack<int, std::vector<int>> driven by the same history "
                "(reserve()d, so no reallocation effects); the relations of the KeyTag flavours and the source range after a range member are "
                "computed with std::vector<T> / std::stack<T> of the flavour's own element type, likewise std::erase / std::erase_if with the "
                "value / parameter type of the call and the element std::vector<T>::emplace_back(a, b) constructs; the moved-from object with "
                "std::vector<T> of the flavour's own T (element-wise move through move_iterator for static_vector / stack; for inplace_vector "
                "std::vector<T>'s own move for class types - libstdc++ leaves it empty - and a copy for trivially movable T)",
                "props/C01/pcxx.py (parallel compile wrapper around g++; a harness part that does not compile against the library under test is "
                "replaced by a stub whose flavours answer `harness-does-not-compile part<k>: <first compiler error>`)"]
ASSUMPTIONS = ["element values are ints (the non-trivial element types wrap an int, count live instances and check their own identity; "
               "std::string elements are 24-digit decimal strings)",
               "what a moved-from object holds is the LIBRARY's statement (std::vector's is unspecified): static_vector / stack keep the size with "
               "moved-from elements, inplace_vector is unchanged for trivially movable T and empty otherwise (SpecMv.v); the older operations "
               "mva / mvc / ivm / mrt still clear / re-assign the source, mvo / mco / fro leave it as the call leaves it"]

SV_CAPS = [0, 1, 2, 3, 4, 8, 16, 254, 255, 256]
BIG_CAPS = [65534, 65535, 65536]
# flavour -> capacities instantiated in harness.cpp
CAPS = {
    "sv_int": SV_CAPS + BIG_CAPS, "sv_trk": [0, 1, 3, 4, 16, 254, 255, 256], "sv_pod": [3, 16], "sv_nxc": [1, 3, 4], "sv_str": [0, 1, 3, 4],
    "sv_mov": [0, 1, 3, 4, 16, 255, 256],
    "stack": [0, 1, 3, 4, 16, 256], "st_trk": [1, 3, 4, 255, 256], "st_str": [1, 3], "st_mov": [1, 3, 4],
    "iv_int": SV_CAPS + BIG_CAPS, "iv_trk": [0, 1, 3, 4, 16, 254, 255, 256], "iv_nxc": [1, 3, 4], "iv_mov": [0, 1, 3, 4], "iv_str": [1, 3, 4],
    "iv_pod": [3, 16], "iv_tdc": [1, 3, 4], "sv_tdc": [3, 4],
    # KeyTag: records ordered by key only (operator< coarser than operator==)
    "sv_kt": [2, 3, 8], "st_kt": [3, 4],
    # element types with an initializer_list constructor next to a two-argument one (T(a, b) != T{a, b}): std::vector<int>,
    # a non-trivial and a trivial record
    "sv_vi": [3, 4], "st_vi": [3], "iv_vi": [3], "sv_iln": [3], "st_iln": [3], "iv_iln": [3], "sv_ilt": [3], "st_ilt": [3], "iv_ilt": [3],
    # arithmetic element types other than int (etl::erase / erase_if with a value / parameter of another arithmetic type)
    "sv_ll": [3, 8], "sv_dbl": [3, 8],
}
IV_TRIVIAL = ("iv_int", "iv_pod", "iv_ilt")   # inplace_vector flavours whose move members are the defaulted (trivial) ones
TWO_ARG = ("vi", "iln", "ilt")          # flavours whose element type has T(a, b)
ARITH = ("sv_int", "sv_ll", "sv_dbl")   # flavours whose element type is arithmetic
# (a, b) of the two-argument emplace operations.  For std::vector<int> the b of a multi-element result is one value larger
# than every other element in use, so that the lexicographic order of the elements is the order of their codes
AB = [(2, 70), (3, 70), (1, 5), (0, 9), (4, 70)]
# value types of erh / eih by number (harness.cpp with_value): (bits, signed, is_double)
VTY = {1: (8, False, False), 2: (8, True, False), 3: (16, True, False), 4: (32, False, False), 5: (64, True, False),
       6: (64, True, True), 7: (32, True, False), 8: (64, False, False), 9: (16, False, False)}
SELF_TY = {"sv_int": 7, "sv_ll": 5, "sv_dbl": 6}


def _to_ity(ty, x):
    bits, signed, _ = ty
    x %= 1 << bits
    return x - (1 << bits) if signed and x >= (1 << (bits - 1)) else x


def _common(a, b):
    pa = (32, True, False) if a[0] < 32 else a
    pb = (32, True, False) if b[0] < 32 else b
    if pa[1] == pb[1]:
        return pb if pa[0] < pb[0] else pa
    sg, un = (pa, pb) if pa[1] else (pb, pa)
    return sg if un[0] < sg[0] else un


def held(fl, code):
    """the number an element code stands for (model: dec_id / dec_ll; doubles count quarters)"""
    return (code // 16) * 2 ** 32 + code % 16 if fl == "sv_ll" else code


def cxx_eq(fl, k, code, x):
    """python mirror of ModelArg.cxx_eq, only to steer generation"""
    t = VTY[SELF_TY[fl]]; u = VTY[k if k != 0 else SELF_TY[fl]]
    item = held(fl, code)
    if t[2]:
        return item == (x if u[2] else 4 * x)
    if u[2]:
        return 4 * item == x
    c = _common(t, u)
    return _to_ity(c, item) == _to_ity(c, x)


def cxx_conv(fl, k, code):
    t = VTY[SELF_TY[fl]]; u = VTY[k if k != 0 else SELF_TY[fl]]
    item = held(fl, code)
    if t[2]:
        return item if u[2] else _to_ity(u, int(item / 4))
    return 4 * item if u[2] else _to_ity(u, item)


def ctor2(fl, a, b):
    if fl.endswith("_vi"):
        return 0 if a <= 0 else b if a == 1 else 1000 * a + 8 * b
    return 1000 * a + b

# values of the KeyTag flavours: element = 16 * key + tag; two tags of key 1, one of key 2 (and two more in the random part)
KT_VALS = [17, 18, 33]
# operations that need a copyable element type (the harness answers `unsupported-step` for them on MoveOnly)
NEEDS_COPY = {"icr", "inn", "irg", "rsv", "asn", "asr", "cpa", "cpc", "sca", "ctv", "ctr", "cpi", "ivc", "fcc", "irk", "ask", "ctk", "pba", "eba", "ica", "ina", "rva"}
# iterator kinds of the range members (harness.cpp with_range): pointer, etl::reverse_iterator<T*>, bidirectional,
# forward, single-pass input, random-access class
KINDS = [0, 1, 2, 3, 4, 5]
NEEDS_COPY_ST = NEEDS_COPY | {"pb"}     # stack::push(value_type const&)


def L(xs):
    return " ".join([str(len(xs))] + [str(x) for x in xs])


def hist(flavour, cap, ops):
    return f"hist {flavour} {cap} {len(ops)} " + " ".join(ops)


def kind(fl):
    return "iv" if fl.startswith("iv") else "st" if fl.startswith("st") else "sv"


class Sim:
    """python mirror of the list semantics, only to steer generation (validity / sizes)"""

    def __init__(self, cap, fl="sv_int"):
        self.cap = cap
        self.fl = fl
        self.v = [[], []]

    def mutate(self, x, val):
        if x:
            x[0] = val
            x.pop()
        elif self.cap > 0:
            x.append(val)

    def apply(self, op):
        t = op.split()
        name = t[0]
        a = [int(x) for x in t[1:]]
        v = self.v
        if name in ("swp", "fsw"):
            v[0], v[1] = v[1], v[0]
            return True
        if name == "rel":
            return True
        tg = a[0]
        x = v[tg]
        sz = len(x)
        room = self.cap - sz
        if name in ("pb", "pbr", "eb", "ebr", "upb", "uem", "upr"):
            if room < 1: return False
            x.append(a[1])
        elif name in ("eb2", "ue2"):
            if room < 1: return False
            x.append(ctor2(self.fl, a[1], a[2]))
        elif name == "te2":
            if room >= 1: x.append(ctor2(self.fl, a[1], a[2]))
        elif name == "em2":
            if not (0 <= a[1] <= sz) or room < 1: return False
            x.insert(a[1], ctor2(self.fl, a[2], a[3]))
        elif name == "erh":
            v[tg] = [e for e in x if not cxx_eq(self.fl, a[1], e, a[2])]
        elif name == "eih":
            def ph(e):
                k = cxx_conv(self.fl, a[1], e) // 16
                return [(k % 2) == 0, k == 1, k < 2, True, False][a[2]]
            v[tg] = [e for e in x if not ph(e)]
        elif name in ("tpb", "tem", "tpr"):
            if room >= 1: x.append(a[1])
        elif name == "fil":
            x.extend([a[2]] * max(0, min(a[1], room)))
        elif name == "pop":
            if sz == 0: return False
            x.pop()
        elif name in ("icr", "irv", "emp"):
            if not (0 <= a[1] <= sz) or room < 1: return False
            x.insert(a[1], a[2])
        elif name == "inn":
            if not (0 <= a[1] <= sz) or not (0 <= a[2] <= room): return False
            x[a[1]:a[1]] = [a[3]] * a[2]
        elif name in ("irg", "mir"):
            xs = a[3:3 + a[2]]
            if not (0 <= a[1] <= sz) or len(xs) > room: return False
            x[a[1]:a[1]] = xs
        elif name in ("pba", "eba"):
            if not (0 <= a[1] < sz) or room < 1: return False
            x.append(x[a[1]])
        elif name == "ica":
            if not (0 <= a[2] < sz) or not (0 <= a[1] <= sz) or room < 1: return False
            x.insert(a[1], x[a[2]])
        elif name == "ina":
            if not (0 <= a[3] < sz) or not (0 <= a[1] <= sz) or not (0 <= a[2] <= room): return False
            x[a[1]:a[1]] = [x[a[3]]] * a[2]
        elif name == "rva":
            if not (0 <= a[2] < sz) or not (0 <= a[1] <= self.cap): return False
            fillv = x[a[2]]
            if a[1] <= sz: del x[a[1]:]
            else: x.extend([fillv] * (a[1] - sz))
        elif name in ("irk", "mik"):
            xs = a[4:4 + a[3]]
            if not (0 <= a[2] <= sz) or len(xs) > room: return False
            x[a[2]:a[2]] = xs
        elif name in ("ask", "ctk"):
            xs = a[3:3 + a[2]]
            if len(xs) > self.cap: return False
            v[tg] = list(xs)
        elif name == "era":
            if not (0 <= a[1] < sz): return False
            del x[a[1]]
        elif name == "err":
            if not (0 <= a[1] <= a[2] <= sz): return False
            del x[a[1]:a[2]]
        elif name in ("clr",):
            x.clear()
        elif name in ("rsz", "rsv"):
            n = a[1]
            if not (0 <= n <= self.cap): return False
            fillv = a[2] if name == "rsv" else 0
            if n <= sz: del x[n:]
            else: x.extend([fillv] * (n - sz))
        elif name in ("asn", "ctv"):
            if not (0 <= a[1] <= self.cap): return False
            v[tg] = [a[2]] * a[1]
        elif name == "ctn":
            if not (0 <= a[1] <= self.cap): return False
            v[tg] = [0] * a[1]
        elif name == "cte":
            v[tg] = []
        elif name in ("asr", "ctr", "cta", "fcc", "fcr", "fro"):
            xs = a[2:2 + a[1]]
            if len(xs) > self.cap: return False
            v[tg] = list(xs)
        elif name == "cpa":
            v[tg] = list(v[1 - tg])
        elif name == "mva":
            v[tg] = list(v[1 - tg]); v[1 - tg] = []
        elif name == "mvo":
            # the source is left as the move leaves it: static_vector / stack keep the size (moved-from elements), an
            # inplace_vector of a trivially movable T is copied, of any other T emptied
            v[tg] = list(v[1 - tg])
            if self.fl.startswith("iv") and self.fl not in IV_TRIVIAL:
                v[1 - tg] = []
        elif name == "mco":
            if self.fl.startswith("iv") and self.fl not in IV_TRIVIAL:
                v[tg] = []
        elif name == "eif":
            pid = a[1]
            def p(e):
                k = e // 16
                return [(k % 2) == 0, k == 1, k < 2, True, False][pid]
            v[tg] = [e for e in x if not p(e)]
        elif name == "erv":
            v[tg] = [e for e in x if e != a[1]]
        elif name in ("at",):
            if not (0 <= a[1] < sz): return False
        elif name == "sat":
            if not (0 <= a[1] < sz): return False
            x[a[1]] = a[2]
        elif name in ("fr", "bk"):
            if sz == 0: return False
        elif name == "sfr":
            if sz == 0: return False
            x[0] = a[1]
        elif name == "sbk":
            if sz == 0: return False
            x[-1] = a[1]
        elif name in ("ivm", "mvc"):
            v[tg] = []
        elif name == "cpi":
            if a[1] == 0:
                self.mutate(x, a[2])
        # rit cit dat mxs sma sca ssw cpc mrt ivc siz: no change, always valid
        return True


def sv_single_ops(t, sz, cap, vals):
    """every single static_vector operation with boundary arguments for a vector of size sz"""
    ops = []
    x = vals[0]
    for name in ("pb", "eb", "ebr"):
        ops.append(f"{name} {t} {x}")
    ops.append(f"pb {t} {x + 1}")      # even values: push_back of an lvalue, odd ones: of an rvalue
    # two constructor arguments (flavours with T(a, b) only, see supported())
    for a, b in AB:
        ops.append(f"eb2 {t} {a} {b}")
        for pos in range(-1, sz + 2):
            ops.append(f"em2 {t} {pos} {a} {b}")
    # a value / predicate parameter of another arithmetic type (arithmetic flavours only)
    for k in (1, 6, 5, 0):
        ops += [f"erh {t} {k} {x}", f"erh {t} {k} {vals[1]}", f"eih {t} {k} 1", f"eih {t} {k} 2"]
    ops.append(f"pop {t}")
    for pos in range(-1, sz + 2):
        ops += [f"icr {t} {pos} {x}", f"irv {t} {pos} {x}", f"emp {t} {pos} {x}", f"era {t} {pos}"]
        for n in range(0, cap - sz + 2):
            xs = vals[:n] if n <= len(vals) else vals + [7] * (n - len(vals))
            ops.append(f"inn {t} {pos} {n} {x}")
            ops.append(f"irg {t} {pos} {L(xs)}")
            ops.append(f"mir {t} {pos} {L(xs)}")
            # one non-pointer kind per (position, count), rotating; the aimed sweep in gen() has all of them
            ops.append(f"irk {t} {1 + (pos + n + sz) % 5} {pos} {L(xs)}")
            ops.append(f"mik {t} {1 + (pos + 2 * n + sz) % 5} {pos} {L(xs)}")
        for l in range(pos, sz + 2):
            ops.append(f"err {t} {pos} {l}")
    ops.append(f"clr {t}")
    for n in range(-1, cap + 2):
        if n >= 0:
            ops += [f"rsz {t} {n}", f"rsv {t} {n} {x}", f"asn {t} {n} {x}", f"asr {t} {L((vals * 3)[:n])}", f"ctr {t} {L((vals * 3)[:n])}",
                    f"ask {t} {1 + (n + sz) % 5} {L((vals * 3)[:n])}", f"ctk {t} {1 + (n + sz + 2) % 5} {L((vals * 3)[:n])}"]
        ops += [f"ctn {t} {n}", f"ctv {t} {n} {x}"]
    ops += ["swp", "fsw", f"cpa {t}", f"mva {t}", f"mvo {t}", f"mvo {1 - t}", f"mco {t}", f"cpc {t}", f"mrt {t}", "rel", f"sca {t}", f"sma {t}", f"ssw {t}", f"fr {t}", f"bk {t}",
            f"rit {t} 0", f"rit {t} 1", f"rit {t} 2", f"cit {t}", f"dat {t}", f"mxs {t}", f"sfr {t} 52", f"sbk {t} 52",
            f"cpi {t} 0 52", f"cpi {t} 1 52", f"cte {t}"]
    if cap >= 2:
        ops.append(f"cta {t} 2 {vals[1]} {vals[0]}")
    for pid in range(0, 5):
        ops.append(f"eif {t} {pid}")
    for v in vals[:2]:
        ops.append(f"erv {t} {v}")
    for i in range(-1, sz + 1):
        ops += [f"at {t} {i}", f"sat {t} {i} 52"]
        # the argument is element i of the vector itself
        ops += [f"pba {t} {i}", f"eba {t} {i}"]
        for n in range(0, cap + 2):
            ops.append(f"rva {t} {n} {i}")
        for pos in range(0, sz + 1):
            ops.append(f"ica {t} {pos} {i}")
            for n in range(0, cap - sz + 2):
                ops.append(f"ina {t} {pos} {n} {i}")
    return ops


def st_single_ops(t, sz, cap, vals):
    x = vals[0]
    ops = [f"pb {t} {x}", f"pbr {t} {x}", f"eb {t} {x}", f"ebr {t} {x}", f"pop {t}", f"bk {t}", f"sbk {t} 52", f"siz {t}", "swp", "fsw", "rel",
           f"cpc {t}", f"mvc {t}", f"cpa {t}", f"mva {t}", f"mvo {t}", f"mvo {1 - t}", f"mco {t}", f"sca {t}"] + [f"eb2 {t} {a} {b}" for a, b in AB]
    for n in range(0, cap + 2):
        ops += [f"fcc {t} {L((vals * 3)[:n])}", f"fcr {t} {L((vals * 3)[:n])}", f"fro {t} {L((vals * 3)[:n])}"]
    return ops


def iv_single_ops(t, sz, cap, vals):
    x = vals[0]
    ops = [f"tpb {t} {x}", f"tpb {t} {x + 1}", f"tem {t} {x}", f"tpr {t} {x}", f"upb {t} {x}", f"upb {t} {x + 1}", f"uem {t} {x}", f"upr {t} {x}",
           f"pop {t}", f"clr {t}", f"fr {t}", f"bk {t}", f"ivc {t}", f"ivm {t}", f"cpa {t}", f"mva {t}", f"mvo {t}", f"mvo {1 - t}", f"mco {t}", f"sca {t}", f"sma {t}",
           f"sfr {t} 52", f"sbk {t} 52", f"dat {t}", f"mxs {t}", f"cpi {t} 0 52", f"cpi {t} 1 52"]
    for a, b in AB:
        ops += [f"te2 {t} {a} {b}", f"ue2 {t} {a} {b}"]
    for n in range(-1, cap - sz + 2):
        ops.append(f"fil {t} {n} {x}")
    for i in range(-1, sz + 1):
        ops += [f"at {t} {i}", f"sat {t} {i} 52"]
    return ops


def setup_ops(fl, c0, c1):
    """bring the two objects to contents c0 / c1"""
    k = kind(fl)
    if k == "iv":
        return [f"tpb 0 {e}" for e in c0] + [f"tem 1 {e}" for e in c1]
    if k == "st":
        return [f"fcc 0 {L(list(c0))}" if fl != "st_mov" else f"fcr 0 {L(list(c0))}", f"fcr 1 {L(list(c1))}"]
    if fl == "sv_mov":
        return [f"mir 0 0 {L(list(c0))}", f"mir 1 0 {L(list(c1))}"]
    return [f"asr 0 {L(list(c0))}", f"asr 1 {L(list(c1))}"]


def supported(fl, op):
    name = op.split()[0]
    if name in ("eb2", "em2", "te2", "ue2"):
        return fl.split("_")[-1] in TWO_ARG
    if name in ("erh", "eih"):
        return fl in ARITH
    if not fl.endswith("_mov"):
        return True
    return name not in (NEEDS_COPY_ST if fl == "st_mov" else NEEDS_COPY)


def exhaustive_single(out, fl, cap, vals, full_contents, rng=None, keep=1.0):
    k = kind(fl)
    single = {"sv": sv_single_ops, "st": st_single_ops, "iv": iv_single_ops}[k]
    tail = {"sv": ["rel", "cpc 0" if fl != "sv_mov" else "mrt 0"], "st": ["rel", "cpc 0" if fl != "st_mov" else "siz 0"], "iv": ["dat 0", "dat 1"]}[k]
    for n0 in range(0, cap + 1):
        if full_contents or n0 <= 1:
            contents = list(itertools.product(vals, repeat=n0))
        else:
            contents = sorted({tuple(vals[:n0]), tuple(reversed(vals[:n0])), (vals[0],) * n0})
        for c0 in contents:
            for c1 in [(), tuple(vals[:min(cap, 2)])]:
                setup = setup_ops(fl, c0, c1)
                for o in single(0, n0, cap, vals):
                    if not supported(fl, o):
                        continue
                    if keep < 1.0 and rng.random() > keep:
                        continue
                    out.append(hist(fl, cap, setup + [o] + tail))


def moved_from_family(out, fl, cap, vals, rng=None, keep=1.0):
    """the SECOND object of every two-object operation, seen as the call leaves it and then used on: contents of length
    <= 2 (+ full) on both sides x {move assignment in both directions, move construction of either object, swap, non-member
    swap, stack(Container&&)} x {append to the moved-from object, append to the target, remove from the moved-from object} x
    a second two-object operation (so a stale size shows as wrong contents of BOTH objects), every object observed after
    every step"""
    k = kind(fl)
    x, y = 52, 69
    push = {"sv": "eb", "st": "pbr", "iv": "tpr"}[k]
    if k == "sv" and fl == "sv_mov":
        push = "eb"
    pop = "pop"
    read = {"sv": ["dat 0", "dat 1"], "st": ["siz 0", "siz 1"], "iv": ["dat 0", "dat 1"]}[k]
    firsts = ["mvo 0", "mvo 1", "mco 0", "mco 1"] + (["swp", "fsw"] if k != "iv" else []) + ([f"fro 0 {L([y, x])}"] if k == "st" and cap >= 2 else [])
    seconds = ["mvo 0", "mvo 1", "mco 1"] + (["swp"] if k != "iv" else ["mva 0"])
    lens = sorted({0, 1, min(2, cap), cap} if cap <= 4 else {0, 1, 2, cap - 1})
    for n0 in lens:
        for n1 in lens:
            if n0 > cap or n1 > cap:
                continue
            c0 = [(vals * 90)[i] for i in range(n0)]
            c1 = [(list(reversed(vals)) * 90)[i] for i in range(n1)]
            setup = setup_ops(fl, c0, c1) if max(n0, n1) <= 8 else \
                {"sv": [f"rsz 0 {n0}", f"rsz 1 {n1}"], "st": [f"fcr 0 {L(c0)}", f"fcr 1 {L(c1)}"], "iv": [f"fil 0 {n0} {vals[0]}", f"fil 1 {n1} {vals[1]}"]}[k]
            for f in firsts:
                for s2 in seconds:
                    for cont in ([f"{push} 1 {x}", f"{push} 0 {y}"], [f"{push} 0 {x}", f"{pop} 1"], [f"{pop} 0", f"{push} 1 {y}", f"{push} 1 {x}"]):
                        if keep < 1.0 and rng.random() > keep:
                            continue
                        sim = Sim(cap, fl)
                        ops = []
                        for o in setup + [f] + cont + [s2] + [f"{push} 0 {x}", f"{push} 1 {y}"] + read:
                            trial = Sim(cap, fl); trial.v = [list(sim.v[0]), list(sim.v[1])]
                            if trial.apply(o):
                                sim.apply(o); ops.append(o)
                        out.append(hist(fl, cap, ops))


def random_history(rng, fl, cap, vals, steps, want_invalid, fill_first=None):
    k = kind(fl)
    sim = Sim(cap, fl)
    ops = []
    if fill_first is not None:
        n = fill_first
        o = {"sv": f"asn 0 {n} {rng.choice(vals)}", "st": f"fcr 0 {L([rng.choice(vals)] * n)}", "iv": f"fil 0 {n} {rng.choice(vals)}"}[k]
        if fl == "sv_mov":
            o = f"rsz 0 {n}"
        if o is not None:
            ops.append(o); sim.apply(o)
    for step in range(steps):
        t = rng.randint(0, 1)
        sz = len(sim.v[t])
        room = cap - sz
        x = rng.choice(vals + [52, 3])
        i = rng.randint(0, max(0, sz - 1))
        if k == "iv":
            cand = [f"tpb {t} {x}", f"tpb {t} {x}", f"tem {t} {x}", f"tpr {t} {x}", f"upb {t} {x}", f"uem {t} {x}", f"upr {t} {x}",
                    f"pop {t}", f"clr {t}", f"fr {t}", f"bk {t}", f"at {t} {i}", f"ivc {t}", f"ivm {t}", f"cpa {t}", f"mva {t}", f"mvo {t}", f"mvo {t}", f"mco {t}",
                    f"sca {t}", f"sma {t}", f"sat {t} {i} {x}", f"sfr {t} {x}", f"sbk {t} {x}", f"dat {t}", f"mxs {t}",
                    f"cpi {t} {rng.randint(0, 1)} {x}", f"fil {t} {rng.randint(0, max(0, min(room, 4)) + 1)} {x}"]
            ab = rng.choice(AB)
            cand += [f"te2 {t} {ab[0]} {ab[1]}", f"ue2 {t} {ab[0]} {ab[1]}"] * 2
        elif k == "st":
            cand = [f"pb {t} {x}", f"pbr {t} {x}", f"eb {t} {x}", f"ebr {t} {x}", f"pop {t}", f"pop {t}", f"bk {t}", f"sbk {t} {x}", f"siz {t}", "swp", "fsw",
                    "rel", f"cpc {t}", f"mvc {t}", f"cpa {t}", f"mva {t}", f"mvo {t}", f"mvo {t}", f"mco {t}", f"sca {t}",
                    f"fro {t} {L([rng.choice(vals) for _ in range(rng.randint(0, min(cap, 5)))])}",
                    f"fcc {t} {L([rng.choice(vals) for _ in range(rng.randint(0, min(cap, 5)))])}",
                    f"fcr {t} {L([rng.choice(vals) for _ in range(rng.randint(0, min(cap, 5)))])}"]
            ab = rng.choice(AB)
            cand += [f"eb2 {t} {ab[0]} {ab[1]}"] * 3
        else:
            pos = rng.randint(0, sz)
            n = rng.randint(0, max(0, min(room, 5)))
            if rng.random() < 0.3:
                n = min(room, 300)   # exactly to full
            f = rng.randint(0, sz); l = rng.randint(f, sz)
            xs = [rng.choice(vals) for _ in range(n)]
            small = [rng.choice(vals) for _ in range(rng.randint(0, min(cap, 6)))]
            kd = rng.choice(KINDS)
            cand = [f"pb {t} {x}", f"eb {t} {x}", f"ebr {t} {x}", f"pop {t}", f"icr {t} {pos} {x}", f"irv {t} {pos} {x}", f"emp {t} {pos} {x}",
                    f"irk {t} {kd} {pos} {L(xs)}", f"mik {t} {kd} {pos} {L(xs)}", f"ask {t} {kd} {L(small)}", f"ctk {t} {kd} {L(small)}",
                    f"pba {t} {i}", f"eba {t} {i}", f"ica {t} {pos} {i}", f"ina {t} {pos} {n} {i}", f"rva {t} {rng.randint(0, cap)} {i}",
                    f"inn {t} {pos} {n} {x}", f"irg {t} {pos} {L(xs)}", f"mir {t} {pos} {L(xs)}", f"era {t} {i}", f"err {t} {f} {l}",
                    f"clr {t}", f"rsz {t} {rng.randint(0, cap)}", f"rsv {t} {rng.randint(0, cap)} {x}",
                    f"asn {t} {rng.randint(0, min(cap, 6))} {x}", f"asr {t} {L(small)}",
                    "swp", "fsw", f"cpa {t}", f"mva {t}", f"mvo {t}", f"mvo {t}", f"mco {t}", f"cpc {t}", f"mrt {t}", f"eif {t} {rng.randint(0, 4)}", f"erv {t} {x}", "rel",
                    f"at {t} {i}", f"fr {t}", f"bk {t}", f"sca {t}", f"sma {t}", f"ssw {t}",
                    f"rit {t} {rng.randint(0, 2)}", f"cit {t}", f"dat {t}", f"mxs {t}", f"sat {t} {i} {x}", f"sfr {t} {x}", f"sbk {t} {x}",
                    f"ctn {t} {rng.randint(0, min(cap, 6))}", f"ctv {t} {rng.randint(0, min(cap, 6))} {x}", f"ctr {t} {L(small)}",
                    f"cpi {t} {rng.randint(0, 1)} {x}", f"cte {t}"] + ([f"cta {t} 2 {x} {rng.choice(vals)}"] if cap >= 2 else [])
            ab = rng.choice(AB)
            cand += [f"eb2 {t} {ab[0]} {ab[1]}", f"em2 {t} {pos} {ab[0]} {ab[1]}"] * 3
            hk = rng.choice(sorted(VTY) + [0])
            cand += [f"erh {t} {hk} {x}", f"eih {t} {hk} {rng.randint(0, 4)}"] * 2
        cand = [o for o in cand if supported(fl, o)]
        rng.shuffle(cand)
        chosen = None
        for o in cand:
            trial = Sim(cap, fl); trial.v = [list(sim.v[0]), list(sim.v[1])]
            if trial.apply(o):
                chosen = o
                break
        if chosen is None:
            break
        if want_invalid and step == steps - 1:
            # end with a violating call
            if k == "sv":
                bad = [f"pb {t} {x}" if room == 0 else (f"inn {t} 0 {room + 1} {x}" if fl != "sv_mov" else f"mir {t} 0 {L([x] * (room + 1))}"),
                       f"at {t} -1", f"at {t} {sz}", f"era {t} {sz}", f"irv {t} {sz + 1} {x}", f"err {t} {min(sz, 1)} {sz + 1}", f"rsz {t} {cap + 1}",
                       f"sat {t} {sz} {x}", f"ctn {t} {cap + 1}", f"mir {t} {sz + 1} 0", f"ctn {t} -1"]
                bad += [f"mik {t} {kd} 0 {L([x] * (room + 1))}", f"mik {t} {kd} {sz + 1} 0"] + ([f"ebr {t} {x}"] if room == 0 else [])
                if fl != "sv_mov":
                    bad += [f"inn {t} 0 -1 {x}", f"inn {t} 0 {-sz - 1} {x}", f"icr {t} {sz + 1} {x}", f"ctv {t} {cap + 1} {x}", f"ctr {t} {L([x] * (cap + 1))}",
                            f"pba {t} {sz}", f"ica {t} 0 -1", f"ina {t} 0 {room + 1} 0", f"rva {t} {cap + 1} 0",
                            f"irk {t} {kd} {pos} {L([x] * (room + 1))}", f"ask {t} {kd} {L([x] * (cap + 1))}", f"ctk {t} {kd} {L([x] * (cap + 1))}"]
                if sz == 0:
                    bad += [f"sfr {t} {x}", f"sbk {t} {x}", f"pop {t}"]
            elif k == "iv":
                bad = ([f"upb {t} {x}", f"uem {t} {x}", f"upr {t} {x}"] if room == 0 else [f"at {t} {sz}", f"sat {t} {sz} {x}"]) + \
                      ([f"pop {t}", f"sfr {t} {x}", f"sbk {t} {x}", f"fr {t}"] if sz == 0 else [])
            else:
                bad = ([f"pb {t} {x}", f"pbr {t} {x}", f"eb {t} {x}", f"ebr {t} {x}"] if room == 0 else []) + \
                      ([f"pop {t}", f"bk {t}", f"sbk {t} {x}"] if sz == 0 else []) + [f"fcc {t} {L([x] * (cap + 1))}"]
            bad = [o for o in bad if supported(fl, o)]
            if bad:
                chosen = rng.choice(bad)
        ops.append(chosen)
        sim.apply(chosen)
    return hist(fl, cap, ops)


def gen(tier, rng):
    quick = tier == "quick"
    out = []
    vals = [1, 18, 35]   # keys 0,1,2 (so predicates distinguish them)
    # ---- exhaustive single operations from every small content state
    for cap in [0, 1, 2, 3] + ([] if quick else [4]):
        exhaustive_single(out, "sv_int", cap, vals, full_contents=(cap <= 2 or not quick))
        if cap in CAPS["sv_trk"]:
            exhaustive_single(out, "sv_trk", cap, vals, full_contents=(cap <= 1 or not quick))
    for fl in ("sv_nxc", "sv_str", "sv_mov", "sv_pod", "sv_tdc"):
        for cap in ([3] if quick else CAPS[fl]):
            if cap in CAPS[fl] and cap <= 4:
                exhaustive_single(out, fl, cap, vals, full_contents=False, rng=rng, keep=(0.5 if quick else 1.0))
    for fl in ("stack", "st_trk", "st_str", "st_mov"):
        for cap in [c for c in CAPS[fl] if c <= (3 if quick else 4)]:
            exhaustive_single(out, fl, cap, vals, full_contents=not quick)
    for fl in ("iv_int", "iv_trk", "iv_nxc", "iv_mov", "iv_str", "iv_pod", "iv_tdc"):
        for cap in [c for c in CAPS[fl] if c <= (3 if quick else 4)]:
            exhaustive_single(out, fl, cap, vals, full_contents=(fl == "iv_int" or not quick))
    # ---- the moved-from / second object of every two-object operation, observed as the call leaves it and used on
    for fl in sorted(CAPS):
        small = [c for c in CAPS[fl] if 1 <= c <= 4]
        big = [c for c in CAPS[fl] if 16 <= c <= 256 and fl not in ("sv_int", "iv_int", "stack")]
        for cap in small[:1] + small[-1:] + ([] if quick else small[1:-1]) + big[-1:]:
            # (the unary-nat model makes every step at capacity 255 / 256 expensive: a thin sample there)
            moved_from_family(out, fl, cap, KT_VALS if fl.endswith("_kt") else vals, rng=rng,
                              keep=((0.02 if quick else 0.2) if cap >= 16 else (0.35 if quick else 1.0)))
    # ---- records ordered by key only (operator< coarser than operator==), the element type for which the six relations
    #      are six different functions: every single operation from every content state (every history ends in `rel`) ...
    exhaustive_single(out, "sv_kt", 2, KT_VALS, full_contents=True, rng=rng, keep=(0.4 if quick else 1.0))
    exhaustive_single(out, "st_kt", 3, KT_VALS, full_contents=True)
    if not quick:
        exhaustive_single(out, "sv_kt", 3, KT_VALS, full_contents=True)
    # ... and all six relations of static_vector and of stack on EVERY pair of contents of length <= 3 (4 in the thorough
    #     tier): element-wise equivalent but unequal pairs, proper prefixes, the first difference at every position
    for fl, cap in (("sv_kt", 3), ("st_kt", 3)) if quick else (("sv_kt", 8), ("st_kt", 4)):
        conts = [c for n in range(0, (4 if quick else 5)) for c in itertools.product(KT_VALS, repeat=n)]
        for c0 in conts:
            for c1 in conts:
                out.append(hist(fl, cap, setup_ops(fl, c0, c1) + ["rel"]))
    # ---- element types with an initializer_list constructor next to a two-argument one: every single operation, among
    #      them emplace_back(a, b) / emplace(pos, a, b) / stack::emplace(a, b) / try_emplace_back(a, b) /
    #      unchecked_emplace_back(a, b), which must construct T(a, b) - and T(x), not T{x}, for the one-argument forms
    for fl in ("sv_vi", "sv_iln", "sv_ilt"):
        exhaustive_single(out, fl, 3, vals, full_contents=False, rng=rng, keep=(0.2 if quick else 1.0))
    for fl in ("st_vi", "st_iln", "st_ilt", "iv_vi", "iv_iln", "iv_ilt"):
        exhaustive_single(out, fl, 3, vals, full_contents=not quick, rng=rng, keep=(0.5 if quick else 1.0))
    for fl in ("sv_vi", "sv_iln", "sv_ilt", "st_vi", "st_iln", "st_ilt", "iv_vi", "iv_iln", "iv_ilt"):
        k = kind(fl)
        for (a, b), (a2, b2) in itertools.product(AB, repeat=2):
            if k == "sv":
                for pos in (0, 1):
                    out.append(hist(fl, 3, [f"eb2 0 {a} {b}", f"em2 0 {pos} {a2} {b2}", f"eb2 1 {a2} {b2}", "swp", f"eb2 1 {a} {b}", "dat 0", "cpc 1"]))
            elif k == "st":
                out.append(hist(fl, 3, [f"eb2 0 {a} {b}", f"eb2 0 {a2} {b2}", "bk 0", "pop 0", f"eb2 1 {a2} {b2}", "swp", f"eb2 1 {a} {b}", "cpc 1", "eb2 1 1 1"]))
            else:
                out.append(hist(fl, 3, [f"te2 0 {a} {b}", f"ue2 0 {a2} {b2}", f"te2 1 {a2} {b2}", "cpa 1", f"ue2 1 {a} {b}", f"te2 1 {a} {b}", "dat 1", "ivc 0"]))
    # ---- etl::erase(c, value) with a value of ANOTHER arithmetic type than the elements, and erase_if with a predicate whose
    #      parameter has another type: pools of elements that are different numbers but become equal to the value once
    #      converted to its type (300 / 556 / -212 -> unsigned char 44; 2^32 + 1 -> int 1; 1.25 / 1.5 / 1.75 -> int 1;
    #      -1 == 4294967295u IS true), against every value type, the elements in several orders
    het = {
        # flavour: (pool of element codes, [(value type, value), ...])
        "sv_int": ([44, 300, 556, -212, 65580, -1, 7, 11],
                   [(1, 44), (2, 44), (2, -1), (3, 44), (9, 44), (9, 65535), (4, 44), (4, 4294967295), (5, 44), (5, 4294967340), (8, 44),
                    (8, 4294967252), (6, 176), (6, 177), (7, 44), (0, 300)]),
        # long long: code 16 * h + l = h * 2^32 + l
        "sv_ll": ([1, 17, 33, 5, 21, 12, 257 * 16 + 1],
                  [(7, 1), (7, 5), (4, 1), (1, 1), (3, 12), (5, 4294967297), (5, 1), (0, 8589934593), (6, 4), (8, 1), (2, 5)]),
        # double: the code counts quarters
        "sv_dbl": ([4, 5, 6, 7, 8, 1, 1028, 0],
                   [(7, 1), (7, 2), (7, 0), (1, 1), (2, 1), (3, 257), (4, 1), (5, 2), (6, 5), (6, 4), (0, 7), (8, 1), (9, 1)]),
    }
    for fl, (pool, kxs) in het.items():
        orders = [pool, list(reversed(pool)), pool[1::2] + pool[0::2], pool[:3], pool[3:6], [pool[0], pool[1], pool[0], pool[2], pool[0]]]
        if not quick:
            orders += [list(p) for p in itertools.permutations(pool[:5], 4)]
        for k, x in kxs:
            for c in orders:
                c = c[:8]
                out.append(hist(fl, 8, [f"asr 0 {L(c)}", f"erh 0 {k} {x}", f"asr 1 {L(c)}", f"eih 1 {k} {(k + len(c)) % 3}", "dat 0"]))
            out.append(hist(fl, 3, [f"asr 0 {L(pool[:3])}", f"asr 1 {L(pool[1:4])}", f"erh 0 {k} {x}", f"erh 1 {k} {x}", f"eih 1 {k} 2"]))
    for fl, v3 in (("sv_ll", [1, 17, 33]), ("sv_dbl", [4, 5, 16])):
        exhaustive_single(out, fl, 3, v3, full_contents=False, rng=rng, keep=(0.2 if quick else 1.0))
    # signed value types only: negative doubles (-1.25 -> int -1; a negative double -> unsigned is undefined, not generated)
    for k, x in ((7, -1), (5, -1), (3, -2), (2, -1), (6, -5)):
        for c in ([-4, -5, -6, -8, 4], [-8, -7, -5, -4, -3, 0], [-5, -4]):
            out.append(hist("sv_dbl", 8, [f"asr 0 {L(c)}", f"erh 0 {k} {x}", f"asr 1 {L(c)}", f"eih 1 {k} 0", "dat 0"]))
    # ---- inplace_vector and stack: exhaustive short histories
    iv_alpha = ["tpb 0 2", "tem 0 3", "upb 0 4", "pop 0", "clr 0", "bk 0", "at 0 1", "ivc 0", "ivm 0", "tpr 1 6", "mva 0", "cpa 1", "sbk 0 9"]
    st_alpha = ["pb 0 1", "eb 0 2", "pop 0", "bk 0", "swp", "rel", "cpc 0", "pbr 1 3", "mva 0", "cpa 1", "ebr 0 4"]
    depth = 3 if quick else 4
    iv_unreachable = ("upb", "pop", "fr", "bk", "at", "sbk")   # every such call is a contract violation in inplace_vector<T, 0>
    for cap in [0, 1, 3]:
        for h in itertools.product(iv_alpha, repeat=depth):
            if cap == 0 and sum(o.split()[0] in iv_unreachable for o in h) > 1:
                continue   # one per history is enough
            out.append(hist("iv_int", cap, list(h)))
            if cap != 0 and (not quick or rng.random() < 0.25):
                out.append(hist(rng.choice(["iv_trk", "iv_nxc", "iv_str", "iv_tdc"]), cap, list(h)))
        for h in itertools.product(st_alpha, repeat=depth):
            if not quick or rng.random() < 0.5:
                out.append(hist("stack", cap, list(h)))
    # ---- aimed at the swap-cycle rotate behind insert and at the move-down behind erase: every (size, position, count)
    #      at capacity 8 (and 16 in the thorough tier) with pairwise distinct elements, so a misplaced element shows
    for cap in ([8] if quick else [8, 16]):
        for sz0 in range(0, cap + 1):
            base = [100 + i for i in range(sz0)]
            for pos in range(0, sz0 + 1):
                for n in range(1, cap - sz0 + 1):
                    new = [200 + i for i in range(n)]
                    out.append(hist("sv_int", cap, [f"asr 0 {L(base)}", f"irg 0 {pos} {L(new)}", f"inn 0 {min(pos, 1)} 0 7", f"mir 1 0 {L(base[:pos])}"]))
                for last in range(pos + 1, sz0 + 1):
                    out.append(hist("sv_int", cap, [f"asr 0 {L(base)}", f"err 0 {pos} {last}", "dat 0"]))
    for cap in (4, 16):
        for sz0 in range(0, cap + 1):
            base = [100 + i for i in range(sz0)]
            for pos in range(0, sz0 + 1):
                for n in range(1, min(cap - sz0, 5) + 1):
                    new = [200 + i for i in range(n)]
                    for fl in ("sv_trk", "sv_mov"):
                        if quick and rng.random() > 0.25:
                            continue
                        ins = f"irg 0 {pos} {L(new)}" if fl != "sv_mov" else f"mir 0 {pos} {L(new)}"
                        out.append(hist(fl, cap, [f"mir 0 0 {L(base)}", ins, f"era 0 {pos}", "rit 0 0"]))
    # ---- the range members with a source of every iterator kind: every (size, position, count) at capacity 4 incl. one
    #      element too many (forward / input sources have no up-front capacity check: the emplace_back loop must stop them)
    for fl in ("sv_int", "sv_trk", "sv_str", "sv_mov"):
        cap = 4
        for sz0 in range(0, cap + 1):
            base = [100 + i for i in range(sz0)]
            for kd in KINDS:
                for pos in range(0, sz0 + 1):
                    for n in range(0, cap - sz0 + 2):
                        if quick and fl != "sv_int" and rng.random() > 0.3:
                            continue
                        new = [200 + i for i in range(n)]
                        ins = f"irk 0 {kd} {pos} {L(new)}" if (fl != "sv_mov" and (pos + n) % 2 == 0) else f"mik 0 {kd} {pos} {L(new)}"
                        out.append(hist(fl, cap, [f"mik 0 {(kd + 1) % 6} 0 {L(base)}", ins, "dat 0", "ebr 0 7"]))
                if fl != "sv_mov":
                    for n in range(0, cap + 2):
                        new = [200 + i for i in range(n)]
                        out.append(hist(fl, cap, [f"ask 0 {kd} {L(base)}", f"ctk 1 {kd} {L(new)}", f"ask 0 {(kd + 3) % 6} {L(new)}", "rel"]))
    for cap in (0, 1, 255, 256):
        for kd in KINDS:
            fillc = [7] * max(0, cap - 1)
            out.append(hist("sv_int", cap, [f"ask 0 {kd} {L(fillc)}", f"irk 0 {kd} 0 1 5", f"mik 0 {(kd + 2) % 6} {cap} 1 6"]))
    # ---- an argument that is an element of the vector itself, pairwise distinct elements: every (size, position, count)
    #      with the element just before / at / after the insertion point and the first / last one
    for fl, cap in (("sv_int", 8), ("sv_trk", 4), ("sv_str", 4), ("sv_nxc", 4), ("sv_pod", 16)):
        top = min(cap, 8)
        for sz0 in range(1, top + 1):
            base = [100 + i for i in range(sz0)]
            for pos in range(0, sz0 + 1):
                for k in sorted({0, sz0 - 1, max(0, pos - 1), min(sz0 - 1, pos)}):
                    for n in range(0, top - sz0 + 1):
                        if quick and fl != "sv_int" and rng.random() > 0.5:
                            continue
                        out.append(hist(fl, cap, [f"asr 0 {L(base)}", f"ina 0 {pos} {n} {k}", f"rva 0 {min(top, sz0 + n + 1)} {k}", "dat 0"]))
                    if sz0 < top:
                        out.append(hist(fl, cap, [f"asr 0 {L(base)}", f"ica 0 {pos} {k}", f"pba 0 {pos}", "dat 0"] + ([f"eba 0 {k}"] if sz0 + 2 < top else [])))
    # ---- dirty storage: slots at and above size() that held elements before must not show through a later growth
    for fl, caps in (("sv_int", [1, 2, 3, 4, 8]), ("sv_pod", [3]), ("sv_trk", [3]), ("sv_str", [3])):
        for cap in caps:
            for k in range(0, cap):
                out.append(hist(fl, cap, [f"asn 0 {cap} 35", f"rsz 0 {k}", f"rsz 0 {cap}"]))
                out.append(hist(fl, cap, [f"asn 0 {cap} 35", f"err 0 {k} {cap}", f"ctn 1 {cap}", "swp", f"rsz 1 {cap}"]))
    # ---- erase_if / erase over every keep/remove pattern of length <= 6 (7 in the thorough tier): remove_if's two cursors
    for n in range(0, (7 if quick else 8)):
        for pat in itertools.product([1, 18], repeat=n):
            xs = [v + (i % 3) * 32 for i, v in enumerate(pat)]   # keys 0/1 (+2k), tags distinguish positions
            out.append(hist("sv_int", 8, [f"asr 0 {L(xs)}", "eif 0 1", f"asr 1 {L(xs)}", "erv 1 18"]))
            if n <= 4 or not quick:
                fl = rng.choice(["sv_trk", "sv_str", "sv_mov"] if n <= 4 else ["sv_trk", "sv_mov"])
                out.append(hist(fl, 4 if n <= 4 else 16, [f"mir 0 0 {L(xs)}", "eif 0 1", "rel"]))
    # ---- the size-type boundaries 65534 / 65535 / 65536 (uint16 up to 65534, uint32 from 65535): short histories on the
    #      empty objects, then fill to capacity - 1, step over the boundary and back.  Only operations that are cheap
    #      in the extracted model (no copies / swaps / reads of a whole vector); the fills themselves run through the
    #      closed form fill_fast (Properties_ext.C01_fast_model_equal)
    for cap in BIG_CAPS:
        out.append(hist("sv_int", cap, ["pb 0 1", "ctv 1 3 18", "irv 0 0 35", "mxs 0", "rel", "rit 0 0", "fsw", "cpi 0 1 7"]))
        out.append(hist("iv_int", cap, ["tpb 0 1", "fil 1 3 18", "tem 0 35", "mxs 0", "cpa 1", "sbk 1 7", "mva 0", "dat 0"]))
        out.append(hist("sv_int", cap, [f"inn 0 0 {cap - 1} 1", "pb 0 18", "mxs 0", "bk 0", f"at 0 {cap - 1}", f"sat 0 {cap - 1} 7", "pop 0",
                                        f"era 0 {cap - 2}", f"irv 0 {cap - 2} 5", "pb 0 3"]))
        out.append(hist("iv_int", cap, [f"fil 0 {cap - 1} 1", "tpb 0 18", "tem 0 35", "mxs 0", "bk 0", f"at 0 {cap - 1}", f"sat 0 {cap - 1} 7",
                                        "cpa 1", "pop 0", "tpr 0 3", "upb 0 4"]))
    # ---- the same boundary walk for the NON-TRIVIAL storage implementations at the uint8 / uint16 boundary
    for cap in (254, 255, 256):
        out.append(hist("sv_trk", cap, [f"inn 0 0 {cap - 1} 1", "pb 0 18", "mxs 0", "bk 0", f"at 0 {cap - 1}", f"sat 0 {cap - 1} 7", "pop 0",
                                        f"era 0 {cap - 2}", f"irv 0 {cap - 2} 5", "ebr 0 3", "rel", "swp", f"rsz 1 {cap - 3}", f"rsz 1 {cap}"]))
        out.append(hist("iv_trk", cap, [f"fil 0 {cap - 1} 1", "tpb 0 18", "tem 0 35", "mxs 0", "bk 0", f"at 0 {cap - 1}", f"sat 0 {cap - 1} 7",
                                        "cpa 1", "pop 0", "tpr 0 3", "upb 0 4", "ivc 1"]))
        if cap != 254:
            out.append(hist("sv_mov", cap, [f"rsz 0 {cap - 1}", "pb 0 18", "mxs 0", "bk 0", "pop 0", f"era 0 {cap - 2}", f"irv 0 {cap - 2} 5", "ebr 0 3",
                                            "swp", f"rsz 1 {cap}"]))
            out.append(hist("st_trk", cap, [f"fcr 0 {L([7] * (cap - 1))}", "ebr 0 3", "bk 0", "pop 0", "pb 0 4", "siz 0", "cpa 1", "rel", "mvc 0"]))
    if not quick:
        for cap in BIG_CAPS:
            out.append(hist("sv_int", cap, [f"inn 0 0 {cap} 35", "mxs 0", f"at 0 {cap}", "pop 0", "emp 0 0 1", "clr 0", f"inn 0 0 {cap + 1} 1"]))
            out.append(hist("iv_int", cap, [f"fil 0 {cap + 7} 35", "tpr 0 1", "mva 1", f"fil 0 {cap - 2} 18", "tem 0 1", "tem 0 3", "tem 0 5", "uem 0 7"]))
    # ---- random capacity-aware histories
    n_rand = 2600 if quick else (20000 if tier == "search" else 120000)
    flavours = ["sv_int"] * 5 + ["sv_trk"] * 2 + ["sv_nxc", "sv_str", "sv_mov", "sv_mov", "sv_pod", "sv_tdc"] + \
               ["stack", "stack", "st_trk", "st_str", "st_mov"] + ["iv_int"] * 3 + ["iv_trk", "iv_nxc", "iv_mov", "iv_str", "iv_pod", "iv_tdc"] + \
               ["sv_kt", "sv_kt", "st_kt"] + ["sv_vi", "sv_iln", "sv_ilt", "st_vi", "st_iln", "st_ilt", "iv_vi", "iv_iln", "iv_ilt", "sv_ll", "sv_dbl"]
    for _ in range(n_rand):
        fl = rng.choice(flavours)
        cap = rng.choice([c for c in CAPS[fl] if c < 60000])
        steps = rng.randint(3, 40)
        want_invalid = rng.random() < 0.12
        fill = None
        if cap >= 254 and rng.random() < 0.7:
            # go to the size-type boundary first
            fill = rng.choice([cap - 1, cap, cap - 2])
            steps = min(steps, 12)
        rvals = (KT_VALS + [1, 34]) if fl.endswith("_kt") else {"sv_ll": [1, 17, 33], "sv_dbl": [4, 5, 16]}.get(fl, vals)
        out.append(random_history(rng, fl, cap, rvals, steps, want_invalid, fill))
    return out


def nontrivial(case, impl):
    return "; / 0 1" not in impl[:12] or len(impl) > 120
