// C01 harness: histories on two etl fixed-capacity vectors (impl leg) vs two std::vector (reference leg).
#include "common.hpp"

#include <algorithm>
#include <vector>

#include <etl/inplace_vector.hpp>
#include <etl/stack.hpp>
#include <etl/vector.hpp>

using namespace vh;

// non-trivial element: selects static_vector_non_trivial_storage / the non-defaulted special members
struct Tracked {
    static inline long live = 0;
    int v{0};
    Tracked() { ++live; }
    Tracked(int x) : v{x} { ++live; }   // NOLINT
    Tracked(Tracked const& o) : v{o.v} { ++live; }
    Tracked(Tracked&& o) noexcept : v{o.v} { ++live; }
    auto operator=(Tracked const& o) -> Tracked& { v = o.v; return *this; }
    auto operator=(Tracked&& o) noexcept -> Tracked& { v = o.v; return *this; }
    ~Tracked() { --live; }
    operator int() const { return v; }   // NOLINT
    friend bool operator==(Tracked const& a, Tracked const& b) { return a.v == b.v; }
    friend bool operator<(Tracked const& a, Tracked const& b) { return a.v < b.v; }
};

static bool pred_of(int id, int v)
{
    auto key = v >= 0 ? v / 16 : -((-v + 15) / 16);
    switch (id) {
    case 0: return (key % 2) == 0;
    case 1: return key == 1;
    case 2: return key < 2;
    case 3: return true;
    default: return false;
    }
}

struct Step {
    std::string op;
    int t{0};
    std::vector<i64> a;
    std::vector<i64> xs;
};

static std::vector<Step> parse(Toks& in)
{
    std::vector<Step> steps;
    auto k = in.num();
    for (i64 i = 0; i < k; ++i) {
        Step s;
        s.op = in.str();
        auto need = [&](int n) { for (int j = 0; j < n; ++j) { s.a.push_back(in.num()); } };
        auto const& o = s.op;
        if (o == "swp" || o == "rel") { }
        else {
            s.t = static_cast<int>(in.num());
            if (o == "pb" || o == "eb" || o == "era" || o == "rsz" || o == "eif" || o == "erv" || o == "at" || o == "tpb" || o == "upb") { need(1); }
            else if (o == "icr" || o == "irv" || o == "emp" || o == "err" || o == "rsv" || o == "asn") { need(2); }
            else if (o == "inn") { need(3); }
            else if (o == "irg") { need(1); s.xs = in.list(); }
            else if (o == "asr") { s.xs = in.list(); }
        }
        steps.push_back(s);
    }
    return steps;
}

using SV = std::vector<int>;

template <typename Vec>
static void observe_one(Out& o, Vec const& v)
{
    o.num(static_cast<i64>(v.size())).b(v.empty());
    if constexpr (requires { v.full(); }) { o.b(v.full()); } else { o.b(v.size() == v.capacity()); }
    o.num(static_cast<i64>(v.end() - v.begin()));
    for (auto const& x : v) { o.num(static_cast<int>(x)); }
}
static void observe_std(Out& o, SV const& v, std::size_t cap)
{
    o.num(static_cast<i64>(v.size())).b(v.empty()).b(v.size() == cap).num(static_cast<i64>(v.size()));
    for (auto x : v) { o.num(x); }
}

// ---- reference: std::vector with the documented preconditions; false = outside the domain
static bool std_step(Step const& s, SV (&v)[2], std::size_t cap, Out& o)
{
    auto& x   = v[s.t];
    auto& y   = v[1 - s.t];
    auto sz   = static_cast<i64>(x.size());
    auto room = static_cast<i64>(cap) - sz;
    auto const& op = s.op;
    auto A = [&](int i) { return s.a[static_cast<std::size_t>(i)]; };
    if (op == "pb" || op == "eb") { if (room < 1) { return false; } x.push_back(static_cast<int>(A(0))); }
    else if (op == "pop") { if (sz == 0) { return false; } x.pop_back(); }
    else if (op == "icr" || op == "irv" || op == "emp") {
        if (A(0) < 0 || A(0) > sz || room < 1) { return false; }
        { auto it = x.insert(x.begin() + A(0), static_cast<int>(A(1))); o.num(it - x.begin()); }
    } else if (op == "inn") {
        if (A(0) < 0 || A(0) > sz || A(1) < 0 || A(1) > room) { return false; }
        { auto it = x.insert(x.begin() + A(0), static_cast<std::size_t>(A(1)), static_cast<int>(A(2))); o.num(it - x.begin()); }
    } else if (op == "irg") {
        if (A(0) < 0 || A(0) > sz || static_cast<i64>(s.xs.size()) > room) { return false; }
        SV src(s.xs.begin(), s.xs.end());
        { auto it = x.insert(x.begin() + A(0), src.begin(), src.end()); o.num(it - x.begin()); }
    } else if (op == "era") {
        if (A(0) < 0 || A(0) >= sz) { return false; }
        o.num(x.erase(x.begin() + A(0)) - x.begin());
    } else if (op == "err") {
        if (A(0) < 0 || A(0) > A(1) || A(1) > sz) { return false; }
        o.num(x.erase(x.begin() + A(0), x.begin() + A(1)) - x.begin());
    } else if (op == "clr") { x.clear(); }
    else if (op == "rsz") { if (A(0) < 0 || A(0) > static_cast<i64>(cap)) { return false; } x.resize(static_cast<std::size_t>(A(0))); }
    else if (op == "rsv") { if (A(0) < 0 || A(0) > static_cast<i64>(cap)) { return false; } x.resize(static_cast<std::size_t>(A(0)), static_cast<int>(A(1))); }
    else if (op == "asn") { if (A(0) < 0 || A(0) > static_cast<i64>(cap)) { return false; } x.assign(static_cast<std::size_t>(A(0)), static_cast<int>(A(1))); }
    else if (op == "asr") { if (s.xs.size() > cap) { return false; } SV src(s.xs.begin(), s.xs.end()); x.assign(src.begin(), src.end()); }
    else if (op == "swp") { v[0].swap(v[1]); }
    else if (op == "cpa") { x = y; }
    else if (op == "mva") { x = std::move(y); y.clear(); }
    else if (op == "cpc") { SV c(x); o.b(c == x).num(static_cast<i64>(c.size())); for (auto e : c) { o.num(e); } }
    else if (op == "mrt") { SV tmp(std::move(x)); o.num(static_cast<i64>(tmp.size())); for (auto e : tmp) { o.num(e); } x = std::move(tmp); }
    else if (op == "eif") { auto id = static_cast<int>(A(0)); o.num(static_cast<i64>(std::erase_if(x, [&](int e) { return pred_of(id, e); }))); }
    else if (op == "erv") { o.num(static_cast<i64>(std::erase(x, static_cast<int>(A(0))))); }
    else if (op == "rel") { auto& a = v[0]; auto& b = v[1]; o.b(a == b).b(a != b).b(a < b).b(a <= b).b(a > b).b(a >= b); }
    else if (op == "at") { if (A(0) < 0 || A(0) >= sz) { return false; } o.num(x[static_cast<std::size_t>(A(0))]); }
    else if (op == "fr") { if (sz == 0) { return false; } o.num(x.front()); }
    else if (op == "bk") { if (sz == 0) { return false; } o.num(x.back()); }
    else if (op == "sca") { auto& r = x; x = r; }
    else if (op == "ssw") { x.swap(x); }
    // inplace_vector interface
    else if (op == "tpb") { if (room < 1) { o.b(false); } else { x.push_back(static_cast<int>(A(0))); o.b(true); } }
    else if (op == "upb") { if (room < 1) { return false; } x.push_back(static_cast<int>(A(0))); }
    else if (op == "ivc") { SV c(x); o.num(static_cast<i64>(c.size())); for (auto e : c) { o.num(e); } }
    else if (op == "ivm") { SV c(std::move(x)); x.clear(); o.num(static_cast<i64>(c.size())); for (auto e : c) { o.num(e); } }
    else { return false; }
    return true;
}

// position -> iterator without pointer arithmetic on invalid positions (the harness must not commit UB itself
// when it hands the library an out-of-range position; for capacity 0, begin() is a null pointer)
template <typename It>
static auto at_off(It b, i64 off) -> It
{
    using P = decltype(&*b);
    (void)sizeof(P);
    return reinterpret_cast<It>(reinterpret_cast<std::uintptr_t>(b) + static_cast<std::uintptr_t>(off) * sizeof(*b));
}

// ---- impl: static_vector
template <typename Vec, typename T>
static void sv_step(Step const& s, Vec (&v)[2], Out& o)
{
    auto& x = v[s.t];
    auto& y = v[1 - s.t];
    auto const& op = s.op;
    auto A = [&](int i) { return s.a[static_cast<std::size_t>(i)]; };
    auto val = [&](int i) { return T(static_cast<int>(A(i))); };
    if (op == "pb") { x.push_back(val(0)); }
    else if (op == "eb") { x.emplace_back(static_cast<int>(A(0))); }
    else if (op == "pop") { x.pop_back(); }
    else if (op == "icr") { T c = val(1); o.num(x.insert(at_off(x.begin(), A(0)), c) - x.begin()); }
    else if (op == "irv") { o.num(x.insert(at_off(x.begin(), A(0)), val(1)) - x.begin()); }
    else if (op == "emp") { o.num(x.emplace(at_off(x.begin(), A(0)), static_cast<int>(A(1))) - x.begin()); }
    else if (op == "inn") { T c = val(2); o.num(x.insert(at_off(x.begin(), A(0)), static_cast<std::size_t>(A(1)), c) - x.begin()); }
    else if (op == "irg") { std::vector<T> src(s.xs.begin(), s.xs.end()); o.num(x.insert(at_off(x.begin(), A(0)), src.data(), src.data() + src.size()) - x.begin()); }
    else if (op == "era") { o.num(x.erase(at_off(x.begin(), A(0))) - x.begin()); }
    else if (op == "err") { o.num(x.erase(at_off(x.begin(), A(0)), at_off(x.begin(), A(1))) - x.begin()); }
    else if (op == "clr") { x.clear(); }
    else if (op == "rsz") { x.resize(static_cast<std::size_t>(A(0))); }
    else if (op == "rsv") { T c = val(1); x.resize(static_cast<std::size_t>(A(0)), c); }
    else if (op == "asn") { T c = val(1); x.assign(static_cast<std::size_t>(A(0)), c); }
    else if (op == "asr") { std::vector<T> src(s.xs.begin(), s.xs.end()); x.assign(src.data(), src.data() + src.size()); }
    else if (op == "swp") { v[0].swap(v[1]); }
    else if (op == "cpa") { x = y; }
    else if (op == "mva") { x = etl::move(y); y.clear(); }
    else if (op == "cpc") { Vec c(x); o.b(c == x).num(static_cast<i64>(c.size())); for (auto const& e : c) { o.num(static_cast<int>(e)); } }
    else if (op == "mrt") { Vec tmp(etl::move(x)); o.num(static_cast<i64>(tmp.size())); for (auto const& e : tmp) { o.num(static_cast<int>(e)); } x = etl::move(tmp); }
    else if (op == "eif") { auto id = static_cast<int>(A(0)); o.num(static_cast<i64>(etl::erase_if(x, [&](T const& e) { return pred_of(id, static_cast<int>(e)); }))); }
    else if (op == "erv") { o.num(static_cast<i64>(etl::erase(x, val(0)))); }
    else if (op == "rel") { auto& a = v[0]; auto& b = v[1]; o.b(a == b).b(a != b).b(a < b).b(a <= b).b(a > b).b(a >= b); }
    else if (op == "at") { o.num(static_cast<int>(x[static_cast<std::size_t>(A(0))])); }
    else if (op == "fr") { o.num(static_cast<int>(x.front())); }
    else if (op == "bk") { o.num(static_cast<int>(x.back())); }
    else if (op == "sca") { auto& r = x; x = r; }
    else if (op == "ssw") { x.swap(x); }
    else { o.tok("unknown-step"); }
}

// ---- impl: stack<int, static_vector<int, N>> (observed through a derived class that exposes c)
template <typename C>
struct OpenStack : etl::stack<typename C::value_type, C> {
    auto cont() const -> C const& { return this->c; }
};
template <typename St>
static void st_step(Step const& s, St (&v)[2], Out& o)
{
    auto& x = v[s.t];
    auto const& op = s.op;
    auto A = [&](int i) { return s.a[static_cast<std::size_t>(i)]; };
    if (op == "pb") { int c = static_cast<int>(A(0)); x.push(c); }
    else if (op == "eb") { x.emplace(static_cast<int>(A(0))); }
    else if (op == "pop") { x.pop(); }
    else if (op == "bk") { o.num(x.top()); }
    else if (op == "swp") { v[0].swap(v[1]); }
    else if (op == "rel") { auto& a = v[0]; auto& b = v[1]; o.b(a == b).b(a != b).b(a < b).b(a <= b).b(a > b).b(a >= b); }
    else if (op == "cpc") { St c(x); o.b(c == x).num(static_cast<i64>(c.size())); for (auto const& e : c.cont()) { o.num(e); } }
    else { o.tok("unknown-step"); }
}

// ---- impl: inplace_vector
template <typename Vec, typename T>
static void iv_step(Step const& s, Vec* (&v)[2], Out& o)
{
    auto& x = *v[s.t];
    auto const& op = s.op;
    auto A = [&](int i) { return s.a[static_cast<std::size_t>(i)]; };
    if (op == "tpb") { T c(static_cast<int>(A(0))); auto* p = (A(0) % 2 == 0) ? x.try_push_back(c) : x.try_emplace_back(static_cast<int>(A(0))); o.b(p != nullptr); if (p != nullptr && static_cast<int>(*p) != static_cast<int>(A(0))) { o.tok("bad-ptr"); } }
    else if (op == "upb") { if (A(0) % 2 == 0) { x.unchecked_push_back(T(static_cast<int>(A(0)))); } else { x.unchecked_emplace_back(static_cast<int>(A(0))); } }
    else if (op == "pop") { x.pop_back(); }
    else if (op == "clr") { x.clear(); }
    else if (op == "at") { o.num(static_cast<int>(x[static_cast<std::size_t>(A(0))])); }
    else if (op == "fr") { o.num(static_cast<int>(x.front())); }
    else if (op == "bk") { o.num(static_cast<int>(x.back())); }
    else if (op == "ivc") { Vec c(x); o.num(static_cast<i64>(c.size())); for (auto const& e : c) { o.num(static_cast<int>(e)); } }
    else if (op == "ivm") {
        // the moved-from state is valid but unspecified (trivial T: bitwise copy, source keeps its size;
        // non-trivial T: source emptied): the op is "move-construct, then clear() the source"
        Vec c(etl::move(x)); x.clear();
        o.num(static_cast<i64>(c.size())); for (auto const& e : c) { o.num(static_cast<int>(e)); }
    }
    else { o.tok("unknown-step"); }
}

static bool g_contract_seen = false;
template <typename F>
static void run_steps(std::vector<Step> const& steps, Out& impl, F&& one)
{
    g_contract_seen = false;
    for (auto const& s : steps) {
        Out stepo;
        guarded(stepo, [&](Out& o) { one(s, o); });
        impl.tok(";");
        impl.tok(stepo.s.empty() ? "-" : stepo.s);
        if (stepo.s == "contract") { g_contract_seen = true; break; }
    }
}

template <std::size_t N, typename T>
static void run_sv(std::vector<Step> const& steps, Out& impl)
{
    long before = Tracked::live;
    {
        using Vec = etl::static_vector<T, N>;
        Vec v[2];
        run_steps(steps, impl, [&](Step const& s, Out& o) {
            sv_step<Vec, T>(s, v, o);
            o.tok("/"); observe_one(o, v[0]); observe_one(o, v[1]);
            if (v[0].capacity() != N || v[1].capacity() != N || v[0].max_size() != N) { o.tok("capacity-changed"); }
        });
    }
    // leaving a call through the assert handler (longjmp) skips destructors of temporaries: no leak verdict then
    impl.tok("; live").num(g_contract_seen ? 0 : Tracked::live - before);
}
template <std::size_t N>
static void run_stack(std::vector<Step> const& steps, Out& impl)
{
    using C  = etl::static_vector<int, N>;
    using St = OpenStack<C>;
    St v[2];
    run_steps(steps, impl, [&](Step const& s, Out& o) {
        st_step(s, v, o);
        o.tok("/"); observe_one(o, v[0].cont()); observe_one(o, v[1].cont());
        if (v[0].size() != v[0].cont().size() || v[0].empty() != v[0].cont().empty()) { o.tok("adapter-mismatch"); }
    });
    impl.tok("; live").num(0);
}
template <std::size_t N, typename T>
static void run_iv(std::vector<Step> const& steps, Out& impl)
{
    long before = Tracked::live;
    {
        using Vec = etl::inplace_vector<T, N>;
        Vec a{};
        Vec b{};
        Vec* v[2] = {&a, &b};
        run_steps(steps, impl, [&](Step const& s, Out& o) {
            iv_step<Vec, T>(s, v, o);
            o.tok("/");
            for (auto* p : v) {
                o.num(static_cast<i64>(p->size())).b(p->empty()).b(p->size() == p->capacity()).num(static_cast<i64>(p->end() - p->begin()));
                for (auto const& e : *p) { o.num(static_cast<int>(e)); }
                if (p->capacity() != N || p->max_size() != N) { o.tok("capacity-changed"); }
            }
        });
    }
    // leaving a call through the assert handler (longjmp) skips destructors of temporaries: no leak verdict then
    impl.tok("; live").num(g_contract_seen ? 0 : Tracked::live - before);
}

template <typename F>
static bool with_cap(i64 cap, F&& f)
{
    switch (cap) {
    case 0: f.template operator()<0>(); return true;
    case 1: f.template operator()<1>(); return true;
    case 2: f.template operator()<2>(); return true;
    case 3: f.template operator()<3>(); return true;
    case 4: f.template operator()<4>(); return true;
    case 8: f.template operator()<8>(); return true;
    case 16: f.template operator()<16>(); return true;
    case 254: f.template operator()<254>(); return true;
    case 255: f.template operator()<255>(); return true;
    case 256: f.template operator()<256>(); return true;
    default: return false;
    }
}
template <typename F>
static bool with_small_cap(i64 cap, F&& f)
{
    switch (cap) {
    case 0: f.template operator()<0>(); return true;
    case 1: f.template operator()<1>(); return true;
    case 3: f.template operator()<3>(); return true;
    case 4: f.template operator()<4>(); return true;
    case 16: f.template operator()<16>(); return true;
    default: return false;
    }
}

bool vh::run_case(std::string const& op, Toks& in, Out& impl, Out& ref)
{
    if (op != "hist") { return false; }
    auto flavour = in.str();
    auto cap     = in.num();
    auto steps   = parse(in);
    bool ok      = false;
    if (flavour == "sv_int") { ok = with_cap(cap, [&]<std::size_t N>() { run_sv<N, int>(steps, impl); }); }
    else if (flavour == "sv_trk") { ok = with_small_cap(cap, [&]<std::size_t N>() { run_sv<N, Tracked>(steps, impl); }); }
    else if (flavour == "stack") { ok = with_small_cap(cap, [&]<std::size_t N>() { run_stack<N>(steps, impl); }); }
    else if (flavour == "iv_int") { ok = with_cap(cap, [&]<std::size_t N>() { run_iv<N, int>(steps, impl); }); }
    else if (flavour == "iv_trk") { ok = with_small_cap(cap, [&]<std::size_t N>() { run_iv<N, Tracked>(steps, impl); }); }
    if (!ok) { impl.tok("bad-instantiation"); return true; }
    // reference
    SV v[2];
    v[0].reserve(static_cast<std::size_t>(cap) + 8);
    v[1].reserve(static_cast<std::size_t>(cap) + 8);
    Out r;
    bool dom = true;
    for (auto const& s : steps) {
        Out so;
        if (!std_step(s, v, static_cast<std::size_t>(cap), so)) { dom = false; break; }
        so.tok("/"); observe_std(so, v[0], static_cast<std::size_t>(cap)); observe_std(so, v[1], static_cast<std::size_t>(cap));
        r.tok(";"); r.tok(so.s);
    }
    if (dom) { r.tok("; live").num(0); ref = r; }
    return true;
}

VERIF_MAIN()
