// C01 harness: histories on two etl fixed-capacity vectors / stacks (impl leg) vs two std::vector / std::stack
// (reference leg).
//
// The file is one translation unit when compiled plainly, and is compiled in parts (-DC01_PART=k, see pcxx.py) by the
// check so that the element-type x capacity instantiations build in parallel (15 parts): part 0 holds main(), the parser and the
// reference leg, every part holds the flavours listed in its `#if PART(k)` block.
#if defined(C01_STUB)
// stand-in for part C01_STUB when that part does not compile against the library under test (pcxx.py): no library header
// is included; the flavours of the part answer with the compiler's first error instead of values
    #include "common.hpp"
    #include "c01_stub_msg.h"   // C01_STUB_MSG, written by pcxx.py
    #include <vector>
    #define C01_STUB_FN2(k) c01_part##k
    #define C01_STUB_FN(k) C01_STUB_FN2(k)
struct Step;
int C01_STUB_FN(C01_STUB)(std::string const&, vh::i64, std::vector<Step> const&, vh::Out& impl)
{
    impl.tok(C01_STUB_MSG);
    return -2;
}
#else
#include "common.hpp"

#include <algorithm>
#include <forward_list>
#include <initializer_list>
#include <iterator>
#include <list>
#include <memory>
#include <stack>
#include <string>
#include <type_traits>
#include <vector>

#include <etl/inplace_vector.hpp>
#include <etl/iterator.hpp>
#include <etl/stack.hpp>
#include <etl/vector.hpp>

using namespace vh;

#if defined(C01_PART)
    #define PART(k) (C01_PART == (k))
#else
    #define PART(k) 1
#endif
#if !defined(C01_NPARTS)
    #define C01_NPARTS 15
#endif

// ---------------------------------------------------------------------------------------------------------------------
// element types.  get(e) is the int an element stands for; a self-checking element answers a poison value when it
// was not produced by one of its constructors / assignments (e.g. by a bytewise copy of the storage).
inline long g_live = 0;   // live instances of the instrumented element types
static bool pred_of(int id, int v);   // the shared predicate family (defined below)

// non-trivial element: selects static_vector_non_trivial_storage / the non-defaulted special members; the copy
// constructor is NOT noexcept.  A COPY leaves its source alone, a MOVE marks it (-555): a member that moves from a
// range it should copy (or the other way round) shows in the source range printed after every range operation
struct Tracked {
    int v{0};
    Tracked() { ++g_live; }
    Tracked(int x) : v{x} { ++g_live; }   // NOLINT
    Tracked(Tracked const& o) : v{o.v} { ++g_live; }
    Tracked(Tracked&& o) noexcept : v{o.v} { o.v = -555; ++g_live; }
    auto operator=(Tracked const& o) -> Tracked& { v = o.v; return *this; }
    auto operator=(Tracked&& o) noexcept -> Tracked& { if (this != &o) { v = o.v; o.v = -555; } return *this; }
    ~Tracked() { --g_live; }
    friend bool operator==(Tracked const& a, Tracked const& b) { return a.v == b.v; }
    friend bool operator<(Tracked const& a, Tracked const& b) { return a.v < b.v; }
};
// noexcept but non-trivial copy/move: every object remembers its own address, so an object that came into being by
// copying bytes is recognised (its self pointer is the source's address)
struct NxCopy {
    int v{0};
    NxCopy const* self{this};
    NxCopy() noexcept { ++g_live; }
    NxCopy(int x) noexcept : v{x} { ++g_live; }   // NOLINT
    NxCopy(NxCopy const& o) noexcept : v{o.ok() ? o.v : -777} { ++g_live; }
    NxCopy(NxCopy&& o) noexcept : v{o.ok() ? o.v : -777} { ++g_live; }
    auto operator=(NxCopy const& o) noexcept -> NxCopy& { v = o.ok() ? o.v : -777; return *this; }
    auto operator=(NxCopy&& o) noexcept -> NxCopy& { v = o.ok() ? o.v : -777; return *this; }
    ~NxCopy() { --g_live; }
    [[nodiscard]] bool ok() const noexcept { return self == this; }
    friend bool operator==(NxCopy const& a, NxCopy const& b) { return a.v == b.v; }
    friend bool operator<(NxCopy const& a, NxCopy const& b) { return a.v < b.v; }
};
// move-only, self-checking; a moved-from object is marked
struct MoveOnly {
    int v{0};
    MoveOnly const* self{this};
    MoveOnly() noexcept { ++g_live; }
    MoveOnly(int x) noexcept : v{x} { ++g_live; }   // NOLINT
    MoveOnly(MoveOnly const&) = delete;
    MoveOnly(MoveOnly&& o) noexcept : v{o.ok() ? o.v : -777} { o.v = -555; ++g_live; }
    auto operator=(MoveOnly const&) -> MoveOnly& = delete;
    auto operator=(MoveOnly&& o) noexcept -> MoveOnly&
    {
        if (this != &o) { v = o.ok() ? o.v : -777; o.v = -555; }
        return *this;
    }
    ~MoveOnly() { --g_live; }
    [[nodiscard]] bool ok() const noexcept { return self == this; }
    friend bool operator==(MoveOnly const& a, MoveOnly const& b) { return a.v == b.v; }
    friend bool operator<(MoveOnly const& a, MoveOnly const& b) { return a.v < b.v; }
};
// trivially default constructible and trivially destructible, but with user-provided (noexcept) copy / move
// operations: uninitialized_array keeps such elements in a plain T[N] (its `sufficiently_trivial` specialisation) while
// inplace_vector must still copy them one by one (the class of library fix 5d7098b); static_vector uses the non-trivial
// storage.  Self-checking like NxCopy; a value-initialised object (v = 0, self = null) is what T{} gives.
struct TdcCopy {
    int v;
    TdcCopy const* self;
    TdcCopy() = default;
    TdcCopy(int x) noexcept : v{x}, self{this} { }   // NOLINT
    TdcCopy(TdcCopy const& o) noexcept : v{o.val()}, self{this} { }
    TdcCopy(TdcCopy&& o) noexcept : v{o.val()}, self{this} { }
    auto operator=(TdcCopy const& o) noexcept -> TdcCopy& { v = o.val(); self = this; return *this; }
    auto operator=(TdcCopy&& o) noexcept -> TdcCopy& { v = o.val(); self = this; return *this; }
    ~TdcCopy() = default;
    [[nodiscard]] bool ok() const noexcept { return self == this || (self == nullptr && v == 0); }
    [[nodiscard]] int val() const noexcept { return ok() ? v : -777; }
    friend bool operator==(TdcCopy const& a, TdcCopy const& b) { return a.v == b.v; }
    friend bool operator<(TdcCopy const& a, TdcCopy const& b) { return a.v < b.v; }
};
static_assert(std::is_trivially_default_constructible_v<TdcCopy> && std::is_trivially_destructible_v<TdcCopy>);
static_assert(!std::is_trivially_copy_constructible_v<TdcCopy> && !std::is_trivially_move_constructible_v<TdcCopy> && !std::is_trivial_v<TdcCopy>);
// trivial, but not an arithmetic type (trivial storage: array<Pod, N>); w shadows v
struct Pod {
    int v;
    int w;
};
inline bool operator==(Pod const& a, Pod const& b) { return a.v == b.v && a.w == b.w; }
inline bool operator<(Pod const& a, Pod const& b) { return a.v < b.v; }
static_assert(std::is_trivial_v<Pod>);
// a record (key, tag) stored as v = 16 * key + tag (the keying of pred_of):  operator<  orders by the KEY only (a strict
// weak order),  operator==  compares key AND tag, so two elements can be equivalent under < without being equal.  With
// such a type  a >= b  (= !(a < b))  and  "a > b or a == b"  are different functions, likewise <= ; a total order
// cannot tell them apart.
struct KeyTag {
    int v;
};
inline int kt_key(int v) { return v >= 0 ? v / 16 : -((-v + 15) / 16); }
inline bool operator==(KeyTag const& a, KeyTag const& b) { return a.v == b.v; }
inline bool operator<(KeyTag const& a, KeyTag const& b) { return kt_key(a.v) < kt_key(b.v); }
static_assert(std::is_trivial_v<KeyTag>);
static_assert(!std::is_trivially_copy_constructible_v<NxCopy> && std::is_nothrow_copy_constructible_v<NxCopy>);
// element types of the usual container shape: a (count, value)-like two-argument constructor NEXT TO an initializer_list
// constructor, so that  T(a, b)  and  T{a, b}  (and  T(x)  and  T{x})  are different objects.  emplace_back(args...) and
// its relatives must construct T(args...) ([sequence.reqmts]: allocator_traits::construct = parentheses).
//   IlN  non-trivial (counted, user copy)  -> static_vector_non_trivial_storage, uninitialized_array byte storage
//   IlT  trivial                            -> static_vector_trivial_storage (slot = T(args...))
//   VI   std::vector<int> itself: (2, 7) = {7, 7}, {2, 7} = {2, 7}
struct IlN {
    int v{0};
    IlN() { ++g_live; }
    IlN(int x) : v{x} { ++g_live; }   // NOLINT
    IlN(int a, int b) : v{1000 * a + b} { ++g_live; }
    IlN(std::initializer_list<int> l) : v{-4000} { for (auto e : l) { v -= e; } ++g_live; }
    IlN(IlN const& o) : v{o.v} { ++g_live; }
    auto operator=(IlN const& o) -> IlN& { v = o.v; return *this; }
    ~IlN() { --g_live; }
    friend bool operator==(IlN const& a, IlN const& b) { return a.v == b.v; }
    friend bool operator<(IlN const& a, IlN const& b) { return a.v < b.v; }
};
struct IlT {
    int v;
    IlT() = default;
    IlT(int x) : v{x} { }   // NOLINT
    IlT(int a, int b) : v{1000 * a + b} { }
    IlT(std::initializer_list<int> l) : v{-4000} { for (auto e : l) { v -= e; } }
    friend bool operator==(IlT const& a, IlT const& b) { return a.v == b.v; }
    friend bool operator<(IlT const& a, IlT const& b) { return a.v < b.v; }
};
static_assert(std::is_trivial_v<IlT> && !std::is_trivially_copyable_v<IlN>);
using VI = std::vector<int>;
// T(a, b) exists (the two-argument emplace operations eb2 / em2 / te2 / ue2)
template <typename T> inline constexpr bool two_arg_v = std::is_same_v<T, IlN> || std::is_same_v<T, IlT> || std::is_same_v<T, VI>;

template <typename T> inline T mk(int v) { return T(v); }
template <> inline Pod mk<Pod>(int v) { return Pod{v, v * 7}; }
template <> inline KeyTag mk<KeyTag>(int v) { return KeyTag{v}; }
// std::vector<int>: 0 = the empty vector (T{}, a moved-from one), v = the one-element vector (v)
template <> inline VI mk<VI>(int v) { return v == 0 ? VI() : VI(1, v); }
// arithmetic element types other than int.  long long: code 16 * h + l stands for h * 2^32 + l (elements that differ
// beyond bit 31, so that a conversion to int loses something); double: the code counts quarters (1.25 = code 5)
inline i64 floor_div(i64 a, i64 b) { i64 q = a / b; return (a % b != 0 && ((a < 0) != (b < 0))) ? q - 1 : q; }
template <> inline long long mk<long long>(int v) { i64 h = floor_div(v, 16); return h * 4294967296LL + (v - 16 * h); }
template <> inline double mk<double>(int v) { return static_cast<double>(v) / 4.0; }
// std::string: 0 is the empty string (what T{} gives), v > 0 a zero-padded 24-digit string (heap-allocated, and
// lexicographic order = numeric order)
template <> inline std::string mk<std::string>(int v)
{
    if (v == 0) { return {}; }
    auto d = std::to_string(v);
    return std::string(24 - d.size(), '0') + d;
}
inline int get(int e) { return e; }
inline int get(Tracked const& e) { return e.v; }
inline int get(NxCopy const& e) { return e.ok() ? e.v : -999; }
inline int get(MoveOnly const& e) { return e.ok() ? e.v : -999; }
inline int get(Pod const& e) { return e.w == e.v * 7 ? e.v : -999; }
inline int get(KeyTag const& e) { return e.v; }
inline int get(TdcCopy const& e) { return e.ok() ? e.v : -999; }
inline int get(std::string const& e) { return e.empty() ? 0 : (e.size() == 24 ? std::stoi(e) : -999); }
inline int get(IlN const& e) { return e.v; }
inline int get(IlT const& e) { return e.v; }
// a vector of n >= 2 elements (only T(a, b) / T{a, b} make one) reads as 1000 * n + front + 7 * back
inline int get(VI const& e) { return e.empty() ? 0 : (e.size() == 1 ? e[0] : static_cast<int>(1000 * e.size()) + e.front() + 7 * e.back()); }
inline int get(long long e) { i64 h = floor_div(e, 4294967296LL); i64 l = e - h * 4294967296LL; return l < 16 ? static_cast<int>(16 * h + l) : -999; }
inline int get(double e) { double q = e * 4.0; return (q == static_cast<double>(static_cast<int>(q))) ? static_cast<int>(q) : -999; }
template <typename T> inline constexpr bool counted_v = std::is_same_v<T, Tracked> || std::is_same_v<T, NxCopy> || std::is_same_v<T, MoveOnly> || std::is_same_v<T, IlN>;
// the argument handed to emplace-style members: the int itself where T is constructed from an int
template <typename T> inline auto mkarg(int v)
{
    if constexpr (std::is_same_v<T, int> || counted_v<T> || std::is_same_v<T, TdcCopy> || std::is_same_v<T, IlT>) { return v; } else { return mk<T>(v); }
}
template <typename T> inline std::vector<T> mkvec(std::vector<i64> const& xs)
{
    std::vector<T> r;
    r.reserve(xs.size());
    for (auto x : xs) { r.push_back(mk<T>(static_cast<int>(x))); }
    return r;
}

// ---------------------------------------------------------------------------------------------------------------------
// source ranges of every iterator category for the range members of static_vector (insert / move_insert / assign /
// range constructor are templates over the iterator type and branch on its category):
//   kind 0  T*                                   pointer          (ordering + capacity precondition)
//   kind 1  etl::reverse_iterator<T*>            random access    (capacity precondition; the array holds xs backwards)
//   kind 2  BidiIt<T>                            bidirectional    (no up-front precondition)
//   kind 3  FwdIt<T>                             forward
//   kind 4  OnceIt<T>                            single-pass input: remembers how far ANY copy has advanced and flags a
//                                                dereference of a position behind that frontier (`second-pass`)
//   kind 5  RaIt<T>                              a random-access class type that is neither a pointer nor a reverse_iterator
template <typename T, typename Tag>
struct TagIt {
    using iterator_category = Tag;
    using value_type        = T;
    using difference_type   = etl::ptrdiff_t;
    using pointer           = T*;
    using reference         = T&;
    T* p{nullptr};
    auto operator*() const -> T& { return *p; }
    auto operator->() const -> T* { return p; }
    auto operator++() -> TagIt& { ++p; return *this; }
    auto operator++(int) -> TagIt { auto t = *this; ++p; return t; }
    auto operator--() -> TagIt& requires(!std::is_same_v<Tag, etl::forward_iterator_tag>) { --p; return *this; }
    auto operator--(int) -> TagIt requires(!std::is_same_v<Tag, etl::forward_iterator_tag>) { auto t = *this; --p; return t; }
    friend auto operator==(TagIt a, TagIt b) -> bool { return a.p == b.p; }
    friend auto operator!=(TagIt a, TagIt b) -> bool { return a.p != b.p; }
};
template <typename T> using BidiIt = TagIt<T, etl::bidirectional_iterator_tag>;
template <typename T> using FwdIt  = TagIt<T, etl::forward_iterator_tag>;
template <typename T>
struct OnceState {
    T* base{nullptr};
    std::size_t frontier{0};
    bool reread{false};
};
template <typename T>
struct OnceIt {
    using iterator_category = etl::input_iterator_tag;
    using value_type        = T;
    using difference_type   = etl::ptrdiff_t;
    using pointer           = T*;
    using reference         = T&;
    T* p{nullptr};
    OnceState<T>* st{nullptr};
    auto operator*() const -> T& { if (static_cast<std::size_t>(p - st->base) < st->frontier) { st->reread = true; } return *p; }
    auto operator++() -> OnceIt& { ++p; st->frontier = std::max(st->frontier, static_cast<std::size_t>(p - st->base)); return *this; }
    auto operator++(int) -> OnceIt { auto t = *this; ++*this; return t; }
    friend auto operator==(OnceIt a, OnceIt b) -> bool { return a.p == b.p; }
    friend auto operator!=(OnceIt a, OnceIt b) -> bool { return a.p != b.p; }
};
template <typename T>
struct RaIt {
    using iterator_category = etl::random_access_iterator_tag;
    using value_type        = T;
    using difference_type   = etl::ptrdiff_t;
    using pointer           = T*;
    using reference         = T&;
    T* p{nullptr};
    auto operator*() const -> T& { return *p; }
    auto operator->() const -> T* { return p; }
    auto operator[](difference_type n) const -> T& { return p[n]; }
    auto operator++() -> RaIt& { ++p; return *this; }
    auto operator++(int) -> RaIt { auto t = *this; ++p; return t; }
    auto operator--() -> RaIt& { --p; return *this; }
    auto operator--(int) -> RaIt { auto t = *this; --p; return t; }
    auto operator+=(difference_type n) -> RaIt& { p += n; return *this; }
    auto operator-=(difference_type n) -> RaIt& { p -= n; return *this; }
    friend auto operator+(RaIt a, difference_type n) -> RaIt { return RaIt{a.p + n}; }
    friend auto operator+(difference_type n, RaIt a) -> RaIt { return RaIt{a.p + n}; }
    friend auto operator-(RaIt a, difference_type n) -> RaIt { return RaIt{a.p - n}; }
    friend auto operator-(RaIt a, RaIt b) -> difference_type { return a.p - b.p; }
    friend auto operator==(RaIt a, RaIt b) -> bool { return a.p == b.p; }
    friend auto operator!=(RaIt a, RaIt b) -> bool { return a.p != b.p; }
    friend auto operator<(RaIt a, RaIt b) -> bool { return a.p < b.p; }
    friend auto operator<=(RaIt a, RaIt b) -> bool { return a.p <= b.p; }
    friend auto operator>(RaIt a, RaIt b) -> bool { return a.p > b.p; }
    friend auto operator>=(RaIt a, RaIt b) -> bool { return a.p >= b.p; }
};
static_assert(etl::detail::RandomAccessIterator<etl::reverse_iterator<int*>> && etl::detail::RandomAccessIterator<RaIt<int>>);
static_assert(etl::detail::InputIterator<BidiIt<int>> && !etl::detail::RandomAccessIterator<BidiIt<int>>);
static_assert(etl::detail::InputIterator<FwdIt<int>> && !etl::detail::RandomAccessIterator<FwdIt<int>>);
static_assert(etl::detail::InputIterator<OnceIt<int>> && !etl::detail::ForwardIterator<OnceIt<int>>);

// the SOURCE range after a range operation, in iteration order: a member that copies leaves it as it was, a member
// that moves leaves moved-from elements (what that is depends on T: nothing for int, "" for std::string, -555 for the
// instrumented types); the elements are non-const, so a library that moves where it should copy is free to do so
template <typename C>
static void show_source(Out& o, C const& src, bool backwards = false)
{
    if (backwards) { for (auto it = src.rbegin(); it != src.rend(); ++it) { o.num(get(*it)); } }
    else { for (auto const& e : src) { o.num(get(e)); } }
}
// calls f(first, last) with the range xs given by iterators of kind k, then prints the source range; false = no such kind
template <typename T, typename F>
static bool with_range(i64 kind, std::vector<i64> const& xs, Out& o, F&& f)
{
    auto src = mkvec<T>(xs);
    auto* b  = src.data();
    auto* e  = src.data() + src.size();
    switch (kind) {
    case 0: f(b, e); break;
    case 1: {
        std::reverse(src.begin(), src.end());
        f(etl::reverse_iterator<T*>(e), etl::reverse_iterator<T*>(b));
        break;
    }
    case 2: f(BidiIt<T>{b}, BidiIt<T>{e}); break;
    case 3: f(FwdIt<T>{b}, FwdIt<T>{e}); break;
    case 4: {
        OnceState<T> st{b, 0, false};
        f(OnceIt<T>{b, &st}, OnceIt<T>{e, &st});
        if (st.reread) { o.tok("second-pass"); }
        break;
    }
    case 5: f(RaIt<T>{b}, RaIt<T>{e}); break;
    default: return false;
    }
    show_source(o, src, kind == 1);
    return true;
}

// ---------------------------------------------------------------------------------------------------------------------
// values of ANOTHER arithmetic type than the element type (etl::erase(c, value) takes any U; a predicate may take any
// parameter type).  with_value(k, x, f) calls f with the number x held in type number k (doubles: x quarters):
//   1 unsigned char  2 signed char  3 short  4 unsigned  5 long long  6 double  7 int  8 unsigned long long  9 unsigned short
// 0 = the element type itself (self_kind)
template <typename T> inline constexpr i64 self_kind = std::is_same_v<T, long long> ? 5 : std::is_same_v<T, double> ? 6 : 7;
template <typename F>
static bool with_value(i64 k, i64 x, F&& f)
{
    switch (k) {
    case 1: f(static_cast<unsigned char>(x)); return true;
    case 2: f(static_cast<signed char>(x)); return true;
    case 3: f(static_cast<short>(x)); return true;
    case 4: f(static_cast<unsigned>(x)); return true;
    case 5: f(static_cast<long long>(x)); return true;
    case 6: f(static_cast<double>(x) / 4.0); return true;
    case 7: f(static_cast<int>(x)); return true;
    case 8: f(static_cast<unsigned long long>(x)); return true;
    case 9: f(static_cast<unsigned short>(x)); return true;
    default: return false;
    }
}
// the number a value holds, in the units of the model (doubles: quarters)
// (128 bits: an unsigned long long above 2^63 keeps its value)
template <typename U> inline i128 num_of(U e) { if constexpr (std::is_floating_point_v<U>) { return static_cast<i128>(e * 4.0); } else { return static_cast<i128>(e); } }
static bool pred_of64(int id, i128 v);
// the number an element of an arithmetic flavour holds (the model's dec_*): what  item == value  compares
inline i64 held(int e) { return e; }
inline i64 held(long long e) { return e; }
inline i64 held(double e) { return static_cast<i64>(e * 4.0); }

// the slot of the container that p points to, -1 when p points elsewhere (e.g. to a copy of an element)
template <typename C, typename T>
static i64 slot_of(C const& c, T const* p)
{
    for (std::size_t k = 0; k < c.size(); ++k) { if (c.data() + k == p) { return static_cast<i64>(k); } }
    return -1;
}
inline constexpr int k_probe = 77777;   // written through a returned reference, then put back

struct Step {
    std::string op;
    int t{0};
    std::vector<i64> a;
    std::vector<i64> xs;
};

// position -> iterator without pointer arithmetic on invalid positions (the harness must not commit UB itself
// when it hands the library an out-of-range position; for capacity 0, begin() is a null pointer)
template <typename It>
static auto at_off(It b, i64 off) -> It
{
    return reinterpret_cast<It>(reinterpret_cast<std::uintptr_t>(b) + static_cast<std::uintptr_t>(off) * sizeof(*b));
}

inline bool g_contract_seen = false;
template <typename F>
static void run_steps(std::vector<Step> const& steps, Out& impl, F&& one)
{
    g_contract_seen = false;
    for (auto const& s : steps) {
        Out stepo;
        guarded(stepo, [&](Out& o) { one(s, o); });
        impl.tok(";");
        impl.tok(stepo.s.empty() ? "-" : stepo.s);
        if (stepo.s == "contract") { g_contract_seen = true; break; }
    }
}

template <typename Vec>
static void observe_one(Out& o, Vec const& v)
{
    o.num(static_cast<i64>(v.size())).b(v.empty());
    if constexpr (requires { v.full(); }) { o.b(v.full()); } else { o.b(v.size() == v.capacity()); }
    o.num(static_cast<i64>(v.end() - v.begin()));
    for (auto const& x : v) { o.num(get(x)); }
}
template <typename Vec>
static void print_vec(Out& o, Vec const& c)
{
    o.num(static_cast<i64>(c.size()));
    for (auto const& e : c) { o.num(get(e)); }
}

// ---------------------------------------------------------------------------------------------------------------------
// impl: static_vector
template <typename Vec, typename T, std::size_t N>
static void sv_step(Step const& s, Vec (&v)[2], Out& o)
{
    constexpr bool copyable = std::is_copy_constructible_v<T>;
    auto& x = v[s.t];
    auto& y = v[1 - s.t];
    auto const& cx = x;
    auto const& op = s.op;
    auto A = [&](int i) { return s.a[static_cast<std::size_t>(i)]; };
    auto val = [&](int i) { return mk<T>(static_cast<int>(A(i))); };
    auto unsupported = [&] { o.tok("unsupported-step"); };
    if (op == "pb") {
        // push_back(U&&) is one template: even values go in as an lvalue (U = T const&), odd ones as an rvalue
        if constexpr (copyable) { if (A(0) % 2 == 0) { T const c = val(0); x.push_back(c); } else { x.push_back(val(0)); } }
        else { x.push_back(val(0)); }
    }
    else if (op == "eb") { x.emplace_back(mkarg<T>(static_cast<int>(A(0)))); }
    else if (op == "ebr") {
        // emplace_back returns a reference to the new element (std::vector since C++17)
        // (std::vector since C++17): its address is a slot of the vector, writing through it changes back()
        auto&& r = x.emplace_back(mkarg<T>(static_cast<int>(A(0))));
        if constexpr (!std::is_same_v<decltype(x.emplace_back(mkarg<T>(0))), T&>) { o.tok("returns-no-reference"); }
        o.num(slot_of(x, &r)).num(get(r));
        if (&r != &x.back()) { o.tok("bad-ref"); }
        r = mk<T>(k_probe);
        if (get(x.back()) != k_probe) { o.tok("write-through-lost"); }
        x.back() = val(0);
    }
    // two arguments: the new element is T(a, b) - parentheses, also when T has an initializer_list constructor
    else if (op == "eb2") {
        if constexpr (two_arg_v<T>) {
            auto&& r = x.emplace_back(static_cast<int>(A(0)), static_cast<int>(A(1)));
            o.num(slot_of(x, &r)).num(get(r));
            if (&r != &x.back()) { o.tok("bad-ref"); }
        } else { unsupported(); }
    }
    else if (op == "em2") {
        if constexpr (two_arg_v<T>) { o.num(x.emplace(at_off(x.begin(), A(0)), static_cast<int>(A(1)), static_cast<int>(A(2))) - x.begin()); }
        else { unsupported(); }
    }
    // a value / a predicate parameter of ANOTHER arithmetic type than the elements: std::erase compares  elem == value
    // as they are, std::erase_if hands the element to the predicate (which converts it if its parameter says so)
    else if (op == "erh") {
        if constexpr (std::is_arithmetic_v<T>) {
            if (!with_value(A(0) == 0 ? self_kind<T> : A(0), A(1), [&](auto value) { o.num(static_cast<i64>(etl::erase(x, value))); })) { unsupported(); }
        } else { unsupported(); }
    }
    else if (op == "eih") {
        if constexpr (std::is_arithmetic_v<T>) {
            auto id = static_cast<int>(A(1));
            if (!with_value(A(0) == 0 ? self_kind<T> : A(0), 0, [&](auto dummy) {
                    using U = decltype(dummy);
                    o.num(static_cast<i64>(etl::erase_if(x, [&](U e) { return pred_of64(id, num_of(e)); })));
                })) { unsupported(); }
        } else { unsupported(); }
    }
    // the argument is an element of the vector itself (std::vector must accept that for these five members)
    else if (op == "pba") { if constexpr (copyable) { x.push_back(x[static_cast<std::size_t>(A(0))]); } else { unsupported(); } }
    else if (op == "eba") { if constexpr (copyable) { x.emplace_back(x[static_cast<std::size_t>(A(0))]); } else { unsupported(); } }
    else if (op == "ica") { if constexpr (copyable) { o.num(x.insert(at_off(x.begin(), A(0)), x[static_cast<std::size_t>(A(1))]) - x.begin()); } else { unsupported(); } }
    else if (op == "ina") { if constexpr (copyable) { o.num(x.insert(at_off(x.begin(), A(0)), static_cast<std::size_t>(A(1)), x[static_cast<std::size_t>(A(2))]) - x.begin()); } else { unsupported(); } }
    else if (op == "rva") { if constexpr (copyable) { x.resize(static_cast<std::size_t>(A(0)), x[static_cast<std::size_t>(A(1))]); } else { unsupported(); } }
    else if (op == "irk") {
        if constexpr (copyable) {
            if (!with_range<T>(A(0), s.xs, o, [&](auto f, auto l) { o.num(x.insert(at_off(x.begin(), A(1)), f, l) - x.begin()); })) { unsupported(); }
        } else { unsupported(); }
    }
    else if (op == "mik") {
        if (!with_range<T>(A(0), s.xs, o, [&](auto f, auto l) { o.num(x.move_insert(at_off(x.begin(), A(1)), f, l) - x.begin()); })) { unsupported(); }
    }
    else if (op == "ask") {
        if constexpr (copyable) { if (!with_range<T>(A(0), s.xs, o, [&](auto f, auto l) { x.assign(f, l); })) { unsupported(); } }
        else { unsupported(); }
    }
    else if (op == "ctk") {
        if constexpr (copyable) {
            if (!with_range<T>(A(0), s.xs, o, [&](auto f, auto l) { Vec tmp(f, l); print_vec(o, tmp); x = etl::move(tmp); })) { unsupported(); }
        } else { unsupported(); }
    }
    else if (op == "pop") { x.pop_back(); }
    else if (op == "icr") { if constexpr (copyable) { T c = val(1); o.num(x.insert(at_off(x.begin(), A(0)), c) - x.begin()); } else { unsupported(); } }
    else if (op == "irv") { o.num(x.insert(at_off(x.begin(), A(0)), val(1)) - x.begin()); }
    else if (op == "emp") { o.num(x.emplace(at_off(x.begin(), A(0)), mkarg<T>(static_cast<int>(A(1)))) - x.begin()); }
    else if (op == "inn") { if constexpr (copyable) { T c = val(2); o.num(x.insert(at_off(x.begin(), A(0)), static_cast<std::size_t>(A(1)), c) - x.begin()); } else { unsupported(); } }
    else if (op == "irg") { if constexpr (copyable) { auto src = mkvec<T>(s.xs); o.num(x.insert(at_off(x.begin(), A(0)), src.data(), src.data() + src.size()) - x.begin()); show_source(o, src); } else { unsupported(); } }
    else if (op == "mir") { auto src = mkvec<T>(s.xs); o.num(x.move_insert(at_off(x.begin(), A(0)), src.data(), src.data() + src.size()) - x.begin()); show_source(o, src); }
    else if (op == "era") { o.num(x.erase(at_off(x.begin(), A(0))) - x.begin()); }
    else if (op == "err") { o.num(x.erase(at_off(x.begin(), A(0)), at_off(x.begin(), A(1))) - x.begin()); }
    else if (op == "clr") { x.clear(); }
    else if (op == "rsz") { x.resize(static_cast<std::size_t>(A(0))); }
    else if (op == "rsv") { if constexpr (copyable) { T c = val(1); x.resize(static_cast<std::size_t>(A(0)), c); } else { unsupported(); } }
    else if (op == "asn") { if constexpr (copyable) { T c = val(1); x.assign(static_cast<std::size_t>(A(0)), c); } else { unsupported(); } }
    else if (op == "asr") { if constexpr (copyable) { auto src = mkvec<T>(s.xs); x.assign(src.data(), src.data() + src.size()); show_source(o, src); } else { unsupported(); } }
    else if (op == "swp") { v[0].swap(v[1]); }
    else if (op == "fsw") { using etl::swap; swap(v[0], v[1]); }
    else if (op == "cpa") { if constexpr (copyable) { x = y; } else { unsupported(); } }
    else if (op == "mva") { x = etl::move(y); y.clear(); }
    else if (op == "cpc") { if constexpr (copyable) { Vec c(x); o.b(c == x); print_vec(o, c); } else { unsupported(); } }
    else if (op == "mrt") { Vec tmp(etl::move(x)); print_vec(o, tmp); x = etl::move(tmp); }
    // the moves with the source LEFT AS IT IS (observed after the step like every object, and used on by the next steps)
    else if (op == "mvo") { x = etl::move(y); }
    else if (op == "mco") { Vec c(etl::move(x)); print_vec(o, c); }
    else if (op == "eif") { auto id = static_cast<int>(A(0)); o.num(static_cast<i64>(etl::erase_if(x, [&](T const& e) { return pred_of(id, get(e)); }))); }
    else if (op == "erv") { o.num(static_cast<i64>(etl::erase(x, val(0)))); }
    else if (op == "rel") { auto& a = v[0]; auto& b = v[1]; o.b(a == b).b(a != b).b(a < b).b(a <= b).b(a > b).b(a >= b); }
    else if (op == "at") { o.num(get(x[static_cast<std::size_t>(A(0))])); if (&cx[static_cast<std::size_t>(A(0))] != &x[static_cast<std::size_t>(A(0))]) { o.tok("const-mismatch"); } }
    else if (op == "fr") { o.num(get(x.front())); if (&cx.front() != &x.front()) { o.tok("const-mismatch"); } }
    else if (op == "bk") { o.num(get(x.back())); if (&cx.back() != &x.back()) { o.tok("const-mismatch"); } }
    else if (op == "sca") { if constexpr (copyable) { auto& r = x; x = r; } else { unsupported(); } }
    else if (op == "sma") { auto& r = x; x = etl::move(r); }
    else if (op == "ssw") { x.swap(x); }
    else if (op == "rit") {
        auto pr = [&](auto rb, auto re) {
            o.num(rb.base() - cx.begin()).num(re.base() - cx.begin()).num(re - rb);
            for (auto it = rb; it != re; ++it) { o.num(get(*it)); }
        };
        if (A(0) == 0) { pr(x.rbegin(), x.rend()); } else if (A(0) == 1) { pr(cx.rbegin(), cx.rend()); } else { pr(x.crbegin(), x.crend()); }
    }
    else if (op == "cit") {
        o.num(x.cbegin() - cx.begin()).num(x.cend() - cx.begin());
        for (auto it = x.cbegin(); it != x.cend(); ++it) { o.num(get(*it)); }
        if (cx.cbegin() != x.cbegin() || cx.cend() != x.cend() || cx.begin() != x.begin() || cx.end() != x.end()) { o.tok("const-mismatch"); }
    }
    else if (op == "sat") { auto& r = x[static_cast<std::size_t>(A(0))]; r = val(1); o.num(&r - x.data()); }
    else if (op == "sfr") { auto& r = x.front(); r = val(0); o.num(&r - x.data()); }
    else if (op == "sbk") { auto& r = x.back(); r = val(0); o.num(&r - x.data()); }
    else if (op == "dat") {
        o.num(x.end() - x.data());
        for (std::size_t k = 0; k < x.size(); ++k) { o.num(get(x.data()[k])); }
        if (cx.data() != x.data() || x.data() != x.begin()) { o.tok("const-mismatch"); }
    }
    else if (op == "mxs") { o.num(static_cast<i64>(x.max_size())).num(static_cast<i64>(x.capacity())); }
    else if (op == "ctn") { Vec tmp(static_cast<std::size_t>(A(0))); print_vec(o, tmp); x = etl::move(tmp); }
    else if (op == "ctv") { if constexpr (copyable) { T c = val(1); Vec tmp(static_cast<std::size_t>(A(0)), c); print_vec(o, tmp); x = etl::move(tmp); } else { unsupported(); } }
    else if (op == "ctr") { if constexpr (copyable) { auto src = mkvec<T>(s.xs); Vec tmp(src.data(), src.data() + src.size()); print_vec(o, tmp); x = etl::move(tmp); show_source(o, src); } else { unsupported(); } }
    else if (op == "cta") {
        // static_vector(c_array<T, 2>&&); a larger array than the capacity does not compile (requires-clause)
        if constexpr (N >= 2) {
            T arr[2] = {mk<T>(static_cast<int>(s.xs.at(0))), mk<T>(static_cast<int>(s.xs.at(1)))};
            Vec tmp(etl::move(arr)); print_vec(o, tmp); x = etl::move(tmp);
            o.num(get(arr[0])).num(get(arr[1]));   // the array the constructor moved from
        } else { unsupported(); }
    }
    else if (op == "cte") { Vec tmp(etl::empty_c_array{}); print_vec(o, tmp); x = etl::move(tmp); }
    else if (op == "cpi") {
        if constexpr (copyable) {
            Vec c(x);
            auto mut = [&](Vec& w) { if (!w.empty()) { w[0] = val(1); w.pop_back(); } else if (!w.full()) { w.push_back(val(1)); } };
            if (A(0) != 0) { mut(c); } else { mut(x); }
            print_vec(o, c);
        } else { unsupported(); }
    }
    else { o.tok("unknown-step"); }
}

// ---- impl: stack<T, static_vector<T, N>> (observed through a derived class that exposes c)
template <typename C>
struct OpenStack : etl::stack<typename C::value_type, C> {
    using base = etl::stack<typename C::value_type, C>;
    using base::base;
    auto cont() const -> C const& { return this->c; }
};
template <typename St, typename C, typename T>
static void st_step(Step const& s, St (&v)[2], Out& o)
{
    constexpr bool copyable = std::is_copy_constructible_v<T>;
    auto& x = v[s.t];
    auto& y = v[1 - s.t];
    auto const& cx = x;
    auto const& op = s.op;
    auto A = [&](int i) { return s.a[static_cast<std::size_t>(i)]; };
    auto val = [&](int i) { return mk<T>(static_cast<int>(A(i))); };
    auto unsupported = [&] { o.tok("unsupported-step"); };
    if (op == "pb") { if constexpr (copyable) { T c = val(0); x.push(c); } else { unsupported(); } }
    else if (op == "pbr") { x.push(val(0)); }
    else if (op == "eb") { x.emplace(mkarg<T>(static_cast<int>(A(0)))); }
    else if (op == "ebr") {
        // std::stack::emplace returns what c.emplace_back returns: a reference to the new top
        // (the lifetime of a returned COPY is extended by auto&&, so every check below is defined either way)
        auto&& r = x.emplace(mkarg<T>(static_cast<int>(A(0))));
        if constexpr (!std::is_same_v<decltype(x.emplace(mkarg<T>(0))), T&>) { o.tok("returns-no-reference"); }
        o.num(slot_of(x.cont(), &r)).num(get(r));
        if (&r != &x.top()) { o.tok("bad-ref"); }
        r = mk<T>(k_probe);   // writing through the reference changes top() ...
        if (get(x.top()) != k_probe) { o.tok("write-through-lost"); }
        x.top() = val(0);     // ... and is put back
    }
    else if (op == "eb2") {
        if constexpr (two_arg_v<T>) {
            auto&& r = x.emplace(static_cast<int>(A(0)), static_cast<int>(A(1)));
            if constexpr (!std::is_same_v<decltype(x.emplace(1, 2)), T&>) { o.tok("returns-no-reference"); }
            o.num(slot_of(x.cont(), &r)).num(get(r));
            if (&r != &x.top()) { o.tok("bad-ref"); }
        } else { unsupported(); }
    }
    else if (op == "pop") { x.pop(); }
    else if (op == "bk") { o.num(get(x.top())); if (&cx.top() != &x.top()) { o.tok("const-mismatch"); } }
    else if (op == "sbk") { x.top() = val(0); }
    else if (op == "siz") { o.num(static_cast<i64>(x.size())).b(x.empty()); }
    else if (op == "swp") { v[0].swap(v[1]); }
    else if (op == "fsw") { using etl::swap; swap(static_cast<typename St::base&>(v[0]), static_cast<typename St::base&>(v[1])); }
    else if (op == "rel") { auto& a = v[0]; auto& b = v[1]; o.b(a == b).b(a != b).b(a < b).b(a <= b).b(a > b).b(a >= b); }
    else if (op == "cpc") { if constexpr (copyable) { St c(x); o.b(c == x); print_vec(o, c.cont()); } else { unsupported(); } }
    else if (op == "mvc") { St c(etl::move(x)); x = St{}; print_vec(o, c.cont()); }
    else if (op == "cpa") { if constexpr (copyable) { x = y; } else { unsupported(); } }
    else if (op == "mva") { x = etl::move(y); y = St{}; }
    else if (op == "mvo") { x = etl::move(y); }
    else if (op == "mco") { St c(etl::move(x)); print_vec(o, c.cont()); }
    else if (op == "fro") {
        // stack(Container&&): the container argument is printed as the constructor leaves it
        auto src = mkvec<T>(s.xs);
        C cont;
        cont.move_insert(cont.begin(), src.data(), src.data() + src.size());
        St tmp(etl::move(cont)); o.num(static_cast<i64>(tmp.size())); print_vec(o, cont); x = etl::move(tmp);
    }
    else if (op == "sca") { if constexpr (copyable) { auto& r = x; x = r; } else { unsupported(); } }
    else if (op == "fcc") {
        if constexpr (copyable) { auto src = mkvec<T>(s.xs); C cont(src.data(), src.data() + src.size()); St tmp(cont); o.num(static_cast<i64>(tmp.size())); x = etl::move(tmp); }
        else { unsupported(); }
    }
    else if (op == "fcr") {
        auto src = mkvec<T>(s.xs);
        C cont;
        cont.move_insert(cont.begin(), src.data(), src.data() + src.size());   // a container holding xs (any T)
        St tmp(etl::move(cont)); o.num(static_cast<i64>(tmp.size())); x = etl::move(tmp);
    }
    else { o.tok("unknown-step"); }
}

// ---- impl: inplace_vector
template <typename Vec, typename T>
static void iv_step(Step const& s, Vec* (&v)[2], Out& o)
{
    constexpr bool copyable = std::is_copy_constructible_v<T>;
    auto& x = *v[s.t];
    auto& y = *v[1 - s.t];
    auto const& cx = x;
    auto const& op = s.op;
    auto A = [&](int i) { return s.a[static_cast<std::size_t>(i)]; };
    auto val = [&](int i) { return mk<T>(static_cast<int>(A(i))); };
    auto unsupported = [&] { o.tok("unsupported-step"); };
    auto ptr = [&](T* p, int want) { o.b(p != nullptr); if (p != nullptr && (get(*p) != want || p != &x.back())) { o.tok("bad-ptr"); } };
    auto ref = [&](T& r, int want) { if (get(r) != want || &r != &x.back()) { o.tok("bad-ref"); } };
    if (op == "tpb") {
        auto w = static_cast<int>(A(0));
        if constexpr (copyable) { if (w % 2 == 0) { T c = val(0); ptr(x.try_push_back(c), w); } else { ptr(x.try_emplace_back(mkarg<T>(w)), w); } }
        else { ptr(x.try_emplace_back(mkarg<T>(w)), w); }
    }
    else if (op == "fil") {
        // A(0) calls in a row, alternating between the three try_ members; how many answered non-null
        i64 cnt = 0;
        auto w  = static_cast<int>(A(1));
        for (i64 k = 0; k < A(0); ++k) {
            T* p = nullptr;
            if constexpr (copyable) { if (k % 3 == 0) { T c = val(1); p = x.try_push_back(c); } else if (k % 3 == 1) { p = x.try_push_back(val(1)); } else { p = x.try_emplace_back(mkarg<T>(w)); } }
            else { if (k % 2 == 0) { p = x.try_push_back(val(1)); } else { p = x.try_emplace_back(mkarg<T>(w)); } }
            if (p != nullptr) { ++cnt; if (get(*p) != w || p != &x.back()) { o.tok("bad-ptr"); } }
        }
        o.num(cnt);
    }
    else if (op == "tem") {
        auto w = static_cast<int>(A(0));
        T* p = x.try_emplace_back(mkarg<T>(w));
        ptr(p, w);
        if (p != nullptr) { *p = mk<T>(k_probe); if (get(x.back()) != k_probe) { o.tok("write-through-lost"); } x.back() = val(0); }
    }
    else if (op == "te2") {
        if constexpr (two_arg_v<T>) { T* p = x.try_emplace_back(static_cast<int>(A(0)), static_cast<int>(A(1))); o.b(p != nullptr); if (p != nullptr && p != &x.back()) { o.tok("bad-ptr"); } }
        else { unsupported(); }
    }
    else if (op == "ue2") {
        if constexpr (two_arg_v<T>) { auto&& r = x.unchecked_emplace_back(static_cast<int>(A(0)), static_cast<int>(A(1))); if (&r != &x.back()) { o.tok("bad-ref"); } }
        else { unsupported(); }
    }
    else if (op == "tpr") { auto w = static_cast<int>(A(0)); ptr(x.try_push_back(val(0)), w); }
    else if (op == "upb") {
        auto w = static_cast<int>(A(0));
        if constexpr (copyable) { if (w % 2 == 0) { T c = val(0); ref(x.unchecked_push_back(c), w); } else { ref(x.unchecked_emplace_back(mkarg<T>(w)), w); } }
        else { ref(x.unchecked_emplace_back(mkarg<T>(w)), w); }
    }
    else if (op == "uem") {
        auto w = static_cast<int>(A(0));
        auto&& r = x.unchecked_emplace_back(mkarg<T>(w));
        if constexpr (!std::is_same_v<decltype(x.unchecked_emplace_back(mkarg<T>(0))), T&>) { o.tok("returns-no-reference"); }
        ref(r, w);
        r = mk<T>(k_probe);
        if (get(x.back()) != k_probe) { o.tok("write-through-lost"); }
        x.back() = val(0);
    }
    else if (op == "upr") { auto w = static_cast<int>(A(0)); ref(x.unchecked_push_back(val(0)), w); }
    else if (op == "pop") { x.pop_back(); }
    else if (op == "clr") { x.clear(); }
    else if (op == "at") { o.num(get(x[static_cast<std::size_t>(A(0))])); if (&cx[static_cast<std::size_t>(A(0))] != &x[static_cast<std::size_t>(A(0))]) { o.tok("const-mismatch"); } }
    else if (op == "fr") { o.num(get(x.front())); if (&cx.front() != &x.front()) { o.tok("const-mismatch"); } }
    else if (op == "bk") { o.num(get(x.back())); if (&cx.back() != &x.back()) { o.tok("const-mismatch"); } }
    else if (op == "ivc") { if constexpr (copyable) { Vec c(x); print_vec(o, c); } else { unsupported(); } }
    else if (op == "ivm") {
        // the moved-from state is valid but unspecified (trivial T: bitwise copy, source keeps its size;
        // non-trivial T: source emptied): the op is "move-construct, then clear() the source"
        Vec c(etl::move(x)); x.clear();
        print_vec(o, c);
    }
    else if (op == "cpa") { if constexpr (copyable) { x = y; } else { unsupported(); } }
    else if (op == "mva") { x = etl::move(y); y.clear(); }
    else if (op == "mvo") { x = etl::move(y); }
    else if (op == "mco") { Vec c(etl::move(x)); print_vec(o, c); }
    else if (op == "sca") { if constexpr (copyable) { auto& r = x; x = r; } else { unsupported(); } }
    else if (op == "sma") { auto& r = x; x = etl::move(r); }
    else if (op == "sat") { auto& r = x[static_cast<std::size_t>(A(0))]; r = val(1); o.num(&r - x.data()); }
    else if (op == "sfr") { auto& r = x.front(); r = val(0); o.num(&r - x.data()); }
    else if (op == "sbk") { auto& r = x.back(); r = val(0); o.num(&r - x.data()); }
    else if (op == "dat") {
        o.num(x.end() - x.data());
        for (std::size_t k = 0; k < x.size(); ++k) { o.num(get(x.data()[k])); }
        if (cx.data() != x.data() || x.data() != x.begin() || cx.begin() != x.begin() || cx.end() != x.end()) { o.tok("const-mismatch"); }
    }
    else if (op == "mxs") { o.num(static_cast<i64>(Vec::max_size())).num(static_cast<i64>(Vec::capacity())); }
    else if (op == "cpi") {
        if constexpr (copyable) {
            Vec c(x);
            auto mut = [&](Vec& w) { if (!w.empty()) { w[0] = val(1); w.pop_back(); } else { (void)w.try_push_back(val(1)); } };
            if (A(0) != 0) { mut(c); } else { mut(x); }
            print_vec(o, c);
        } else { unsupported(); }
    }
    else { o.tok("unknown-step"); }
}

template <std::size_t N, typename T>
static void run_sv(std::vector<Step> const& steps, Out& impl)
{
    long before = g_live;
    {
        using Vec = etl::static_vector<T, N>;
        static_assert(std::is_copy_assignable_v<Vec> == std::is_copy_constructible_v<T>);
        static_assert(std::is_move_assignable_v<Vec>);
        Vec v[2];
        run_steps(steps, impl, [&](Step const& s, Out& o) {
            sv_step<Vec, T, N>(s, v, o);
            o.tok("/"); observe_one(o, v[0]); observe_one(o, v[1]);
            if (v[0].capacity() != N || v[1].capacity() != N || v[0].max_size() != N) { o.tok("capacity-changed"); }
        });
    }
    // leaving a call through the assert handler (longjmp) skips destructors of temporaries: no leak verdict then
    impl.tok("; live").num((g_contract_seen || !counted_v<T>) ? 0 : g_live - before);
}
template <std::size_t N, typename T>
static void run_stack(std::vector<Step> const& steps, Out& impl)
{
    long before = g_live;
    {
        using C  = etl::static_vector<T, N>;
        using St = OpenStack<C>;
        static_assert(std::is_copy_assignable_v<etl::stack<T, C>> == std::is_copy_constructible_v<T> && std::is_move_assignable_v<etl::stack<T, C>>);
        static_assert(std::is_same_v<decltype(etl::stack(std::declval<C>())), etl::stack<T, C>>);   // deduction guide stack(Container)
        St v[2];
        run_steps(steps, impl, [&](Step const& s, Out& o) {
            st_step<St, C, T>(s, v, o);
            o.tok("/"); observe_one(o, v[0].cont()); observe_one(o, v[1].cont());
            for (auto const& st : v) {
                if (st.size() != st.cont().size() || st.empty() != st.cont().empty()) { o.tok("adapter-mismatch"); }
                if (!st.empty() && &st.top() != &st.cont().back()) { o.tok("adapter-mismatch"); }
            }
        });
    }
    impl.tok("; live").num((g_contract_seen || !counted_v<T>) ? 0 : g_live - before);
}
template <std::size_t N, typename T>
static void run_iv(std::vector<Step> const& steps, Out& impl)
{
    long before = g_live;
    {
        using Vec = etl::inplace_vector<T, N>;
        static_assert(std::is_copy_assignable_v<Vec> && std::is_move_assignable_v<Vec>);
        Vec a{};
        Vec b{};
        Vec* v[2] = {&a, &b};
        run_steps(steps, impl, [&](Step const& s, Out& o) {
            iv_step<Vec, T>(s, v, o);
            o.tok("/");
            for (auto* p : v) {
                o.num(static_cast<i64>(p->size())).b(p->empty()).b(p->size() == p->capacity()).num(static_cast<i64>(p->end() - p->begin()));
                for (auto const& e : *p) { o.num(get(e)); }
                if (p->capacity() != N || p->max_size() != N) { o.tok("capacity-changed"); }
            }
        });
    }
    // leaving a call through the assert handler (longjmp) skips destructors of temporaries: no leak verdict then
    impl.tok("; live").num((g_contract_seen || !counted_v<T>) ? 0 : g_live - before);
}

template <std::size_t... Ns, typename F>
static bool with_caps(i64 cap, F&& f)
{
    bool hit = false;
    ((cap == static_cast<i64>(Ns) ? (f.template operator()<Ns>(), hit = true) : false), ...);
    return hit;
}

static bool pred_of(int id, int v) { return pred_of64(id, v); }
static bool pred_of64(int id, i128 v)
{
    auto key = v >= 0 ? v / 16 : -((-v + 15) / 16);
    switch (id) {
    case 0: return (key % 2) == 0;
    case 1: return key == 1;
    case 2: return key < 2;
    case 3: return true;
    default: return false;
    }
}

// ---------------------------------------------------------------------------------------------------------------------
// the parts: part k answers for the flavours / capacities it instantiates (-1 = not mine)
#define MK_SV(T, ...) (with_caps<__VA_ARGS__>(cap, [&]<std::size_t N>() { run_sv<N, T>(steps, impl); }) ? 1 : -1)
#define MK_IV(T, ...) (with_caps<__VA_ARGS__>(cap, [&]<std::size_t N>() { run_iv<N, T>(steps, impl); }) ? 1 : -1)
#define MK_ST(T, ...) (with_caps<__VA_ARGS__>(cap, [&]<std::size_t N>() { run_stack<N, T>(steps, impl); }) ? 1 : -1)
using Steps = std::vector<Step>;
int c01_part0(std::string const& fl, i64 cap, Steps const& steps, Out& impl);
int c01_part1(std::string const& fl, i64 cap, Steps const& steps, Out& impl);
int c01_part2(std::string const& fl, i64 cap, Steps const& steps, Out& impl);
int c01_part3(std::string const& fl, i64 cap, Steps const& steps, Out& impl);
int c01_part4(std::string const& fl, i64 cap, Steps const& steps, Out& impl);
int c01_part5(std::string const& fl, i64 cap, Steps const& steps, Out& impl);
int c01_part6(std::string const& fl, i64 cap, Steps const& steps, Out& impl);
int c01_part7(std::string const& fl, i64 cap, Steps const& steps, Out& impl);
int c01_part8(std::string const& fl, i64 cap, Steps const& steps, Out& impl);
int c01_part9(std::string const& fl, i64 cap, Steps const& steps, Out& impl);
int c01_part10(std::string const& fl, i64 cap, Steps const& steps, Out& impl);
int c01_part11(std::string const& fl, i64 cap, Steps const& steps, Out& impl);
int c01_part12(std::string const& fl, i64 cap, Steps const& steps, Out& impl);
int c01_part13(std::string const& fl, i64 cap, Steps const& steps, Out& impl);
int c01_part14(std::string const& fl, i64 cap, Steps const& steps, Out& impl);

#if PART(0)
int c01_part0(std::string const& fl, i64 cap, Steps const& steps, Out& impl)
{
    if (fl == "sv_int") { return MK_SV(int, 0, 1, 2, 3, 4, 8, 16); }
    return -1;
}
#endif
#if PART(1)
int c01_part1(std::string const& fl, i64 cap, Steps const& steps, Out& impl)
{
    if (fl == "sv_int") { return MK_SV(int, 254, 255, 256, 65534, 65535, 65536); }
    return -1;
}
#endif
#if PART(2)
int c01_part2(std::string const& fl, i64 cap, Steps const& steps, Out& impl)
{
    if (fl == "sv_trk") { return MK_SV(Tracked, 0, 1, 3, 4, 16); }
    if (fl == "sv_pod") { return MK_SV(Pod, 3, 16); }
    return -1;
}
#endif
#if PART(3)
int c01_part3(std::string const& fl, i64 cap, Steps const& steps, Out& impl)
{
    if (fl == "sv_nxc") { return MK_SV(NxCopy, 1, 3, 4); }
    if (fl == "sv_str") { return MK_SV(std::string, 0, 1, 3, 4); }
    return -1;
}
#endif
#if PART(4)
int c01_part4(std::string const& fl, i64 cap, Steps const& steps, Out& impl)
{
    if (fl == "sv_mov") { return MK_SV(MoveOnly, 0, 1, 3, 4, 16); }
    return -1;
}
#endif
#if PART(5)
int c01_part5(std::string const& fl, i64 cap, Steps const& steps, Out& impl)
{
    if (fl == "stack") { return MK_ST(int, 0, 1, 3, 4, 16, 256); }
    if (fl == "st_trk") { return MK_ST(Tracked, 1, 3, 4); }
    if (fl == "st_str") { return MK_ST(std::string, 1, 3); }
    return -1;
}
#endif
// a part of its own: a stack member that stops compiling for move-only elements (e.g. one that starts to copy) then takes
// only this flavour out of the run (stub, see pcxx.py), the other stack flavours still report values
#if PART(14)
int c01_part14(std::string const& fl, i64 cap, Steps const& steps, Out& impl)
{
    if (fl == "st_mov") { return MK_ST(MoveOnly, 1, 3, 4); }
    return -1;
}
#endif
#if PART(6)
int c01_part6(std::string const& fl, i64 cap, Steps const& steps, Out& impl)
{
    if (fl == "iv_int") { return MK_IV(int, 0, 1, 2, 3, 4, 8, 16, 254, 255, 256, 65534, 65535, 65536); }
    return -1;
}
#endif
#if PART(7)
int c01_part7(std::string const& fl, i64 cap, Steps const& steps, Out& impl)
{
    if (fl == "iv_trk") { return MK_IV(Tracked, 0, 1, 3, 4, 16); }
    if (fl == "iv_nxc") { return MK_IV(NxCopy, 1, 3, 4); }
    if (fl == "iv_mov") { return MK_IV(MoveOnly, 0, 1, 3, 4); }
    if (fl == "iv_str") { return MK_IV(std::string, 1, 3, 4); }
    if (fl == "iv_pod") { return MK_IV(Pod, 3, 16); }
    return -1;
}
#endif

// the non-trivial storage implementations at the uint8 / uint16 size-type boundary (review round: they were only
// instantiated up to capacity 16, so their own size arithmetic never met a boundary)
#if PART(8)
int c01_part8(std::string const& fl, i64 cap, Steps const& steps, Out& impl)
{
    if (fl == "sv_trk") { return MK_SV(Tracked, 254, 255, 256); }
    if (fl == "st_trk") { return MK_ST(Tracked, 255, 256); }
    return -1;
}
#endif
#if PART(9)
int c01_part9(std::string const& fl, i64 cap, Steps const& steps, Out& impl)
{
    if (fl == "iv_trk") { return MK_IV(Tracked, 254, 255, 256); }
    if (fl == "sv_mov") { return MK_SV(MoveOnly, 255, 256); }
    if (fl == "iv_tdc") { return MK_IV(TdcCopy, 1, 3, 4); }
    if (fl == "sv_tdc") { return MK_SV(TdcCopy, 3, 4); }
    return -1;
}
#endif

// records ordered by key only: the relations of static_vector and of stack with an order coarser than equality
#if PART(10)
int c01_part10(std::string const& fl, i64 cap, Steps const& steps, Out& impl)
{
    if (fl == "sv_kt") { return MK_SV(KeyTag, 2, 3, 8); }
    if (fl == "st_kt") { return MK_ST(KeyTag, 3, 4); }
    return -1;
}
#endif

// element types with an initializer_list constructor next to a two-argument one: emplace_back(a, b) etc. must give T(a, b)
#if PART(11)
int c01_part11(std::string const& fl, i64 cap, Steps const& steps, Out& impl)
{
    if (fl == "sv_vi") { return MK_SV(VI, 3, 4); }
    if (fl == "st_vi") { return MK_ST(VI, 3); }
    if (fl == "iv_vi") { return MK_IV(VI, 3); }
    return -1;
}
#endif
#if PART(12)
int c01_part12(std::string const& fl, i64 cap, Steps const& steps, Out& impl)
{
    if (fl == "sv_iln") { return MK_SV(IlN, 3); }
    if (fl == "st_iln") { return MK_ST(IlN, 3); }
    if (fl == "iv_iln") { return MK_IV(IlN, 3); }
    if (fl == "sv_ilt") { return MK_SV(IlT, 3); }
    if (fl == "st_ilt") { return MK_ST(IlT, 3); }
    if (fl == "iv_ilt") { return MK_IV(IlT, 3); }
    return -1;
}
#endif
// arithmetic element types other than int: etl::erase / erase_if with a value / predicate parameter of another type
#if PART(13)
int c01_part13(std::string const& fl, i64 cap, Steps const& steps, Out& impl)
{
    if (fl == "sv_ll") { return MK_SV(long long, 3, 8); }
    if (fl == "sv_dbl") { return MK_SV(double, 3, 8); }
    return -1;
}
#endif

#if PART(0)
// ---------------------------------------------------------------------------------------------------------------------
static std::vector<Step> parse(Toks& in)
{
    std::vector<Step> steps;
    auto k = in.num();
    for (i64 i = 0; i < k; ++i) {
        Step s;
        s.op = in.str();
        auto need = [&](int n) { for (int j = 0; j < n; ++j) { s.a.push_back(in.num()); } };
        auto is = [&](std::initializer_list<char const*> l) { for (auto const* e : l) { if (s.op == e) { return true; } } return false; };
        if (is({"swp", "rel", "fsw"})) { }
        else {
            s.t = static_cast<int>(in.num());
            if (is({"pb", "pbr", "eb", "ebr", "pba", "eba", "era", "rsz", "eif", "erv", "at", "tpb", "upb", "tem", "tpr", "uem", "upr", "rit", "sfr", "sbk", "ctn"})) { need(1); }
            else if (is({"icr", "irv", "emp", "err", "rsv", "asn", "sat", "ctv", "cpi", "fil", "ica", "rva", "erh", "eih", "eb2", "te2", "ue2"})) { need(2); }
            else if (is({"inn", "ina", "em2"})) { need(3); }
            else if (is({"irg", "mir"})) { need(1); s.xs = in.list(); }
            else if (is({"irk", "mik"})) { need(2); s.xs = in.list(); }     // kind, position, range
            else if (is({"ask", "ctk"})) { need(1); s.xs = in.list(); }     // kind, range
            else if (is({"asr", "ctr", "cta", "fcc", "fcr", "fro"})) { s.xs = in.list(); }
        }
        steps.push_back(s);
    }
    return steps;
}

using RV = std::vector<int>;
static void observe_std(Out& o, RV const& v, std::size_t cap)
{
    o.num(static_cast<i64>(v.size())).b(v.empty()).b(v.size() == cap).num(static_cast<i64>(v.size()));
    for (auto x : v) { o.num(x); }
}
static void print_std(Out& o, RV const& c)
{
    o.num(static_cast<i64>(c.size()));
    for (auto e : c) { o.num(e); }
}
static void ref_mutate(RV& w, int x, std::size_t cap)
{
    if (!w.empty()) { w[0] = x; w.pop_back(); } else if (cap > 0) { w.push_back(x); }
}

// the same source kinds for the reference leg, from the standard library's own iterator zoo
struct StdIn {
    using iterator_category = std::input_iterator_tag;
    using value_type        = int;
    using difference_type   = std::ptrdiff_t;
    using pointer           = int const*;
    using reference         = int const&;
    int const* p{nullptr};
    auto operator*() const -> int const& { return *p; }
    auto operator++() -> StdIn& { ++p; return *this; }
    auto operator++(int) -> StdIn { auto t = *this; ++p; return t; }
    friend auto operator==(StdIn a, StdIn b) -> bool { return a.p == b.p; }
    friend auto operator!=(StdIn a, StdIn b) -> bool { return a.p != b.p; }
};
template <typename F>
static bool with_std_range(i64 kind, std::vector<i64> const& xs, F&& f)
{
    RV src(xs.begin(), xs.end());
    switch (kind) {
    case 0: f(src.data(), src.data() + src.size()); return true;
    case 1: std::reverse(src.begin(), src.end()); f(src.rbegin(), src.rend()); return true;
    case 2: { std::list<int> l(src.begin(), src.end()); f(l.begin(), l.end()); return true; }
    case 3: { std::forward_list<int> l(src.begin(), src.end()); f(l.begin(), l.end()); return true; }
    case 4: f(StdIn{src.data()}, StdIn{src.data() + src.size()}); return true;
    case 5: f(src.begin(), src.end()); return true;
    default: return false;
    }
}

// ---- reference: what the element type matters for.  The reference vectors hold the ints the elements stand for; the
// two observations that depend on the element type itself are computed with std::vector<T> of the flavour's own T:
//   * the six relations (KeyTag: operator< coarser than operator==),
//   * the source range after insert(p, i, j) / assign(i, j) / X(i, j) (copies: untouched) and after
//     insert(p, make_move_iterator(i), make_move_iterator(j)) (the standard's spelling of move_insert: moved-from)
inline std::string g_elem = "int";   // element type of the running flavour: int trk pod nxc str mov tdc kt vi iln ilt ll dbl
template <typename T>
static void std_source_after_t(Out& o, int how, std::vector<i64> const& xs)
{
    auto src = mkvec<T>(xs);
    {
        std::vector<T> dst;
        if constexpr (std::is_copy_constructible_v<T>) {
            if (how == 0) { dst.insert(dst.begin(), src.begin(), src.end()); }
            else if (how == 1) { dst.assign(src.begin(), src.end()); }
            else if (how == 2) { std::vector<T> tmp(src.begin(), src.end()); dst = std::move(tmp); }
        }
        if (how == 3) { dst.insert(dst.begin(), std::make_move_iterator(src.begin()), std::make_move_iterator(src.end())); }
    }
    for (auto const& e : src) { o.num(get(e)); }
}
static void std_source_after(Out& o, int how, std::vector<i64> const& xs)
{
    if (g_elem == "trk") { std_source_after_t<Tracked>(o, how, xs); }
    else if (g_elem == "pod") { std_source_after_t<Pod>(o, how, xs); }
    else if (g_elem == "nxc") { std_source_after_t<NxCopy>(o, how, xs); }
    else if (g_elem == "str") { std_source_after_t<std::string>(o, how, xs); }
    else if (g_elem == "mov") { std_source_after_t<MoveOnly>(o, how, xs); }
    else if (g_elem == "tdc") { std_source_after_t<TdcCopy>(o, how, xs); }
    else if (g_elem == "kt") { std_source_after_t<KeyTag>(o, how, xs); }
    else if (g_elem == "vi") { std_source_after_t<VI>(o, how, xs); }
    else if (g_elem == "iln") { std_source_after_t<IlN>(o, how, xs); }
    else if (g_elem == "ilt") { std_source_after_t<IlT>(o, how, xs); }
    else { std_source_after_t<int>(o, how, xs); }
}
// ---- reference: the object a move leaves behind, with the flavour's own element type T.
//   how 0  static_vector / stack: a fixed-capacity vector has no allocation to hand over, its move members move the elements
//          one by one: the source keeps its size, each element is a moved-from T
//          (std::vector<T> dst(make_move_iterator(first), make_move_iterator(last)) leaves exactly that)
//   how 1  inplace_vector move construction, how 2 move assignment: trivially movable T -> the container is trivially
//          movable itself ([inplace.vector.overview]), the source is unchanged; otherwise what std::vector<T> leaves: empty
inline bool g_iv = false;   // the running flavour is an inplace_vector
template <typename T>
static RV std_after_move_t(RV const& codes, int how)
{
    std::vector<T> src;
    for (auto c : codes) { src.push_back(mk<T>(c)); }
    if (how == 0) { std::vector<T> dst(std::make_move_iterator(src.begin()), std::make_move_iterator(src.end())); }
    else if (how == 1) {
        if constexpr (!std::is_trivially_move_constructible_v<T>) { std::vector<T> dst(std::move(src)); }
    } else {
        if constexpr (!(std::is_trivially_move_assignable_v<T> && std::is_trivially_move_constructible_v<T> && std::is_trivially_destructible_v<T>)) {
            std::vector<T> dst;
            dst = std::move(src);
        }
    }
    RV out;
    for (auto const& e : src) { out.push_back(get(e)); }   // NOLINT(bugprone-use-after-move): the point of the exercise
    return out;
}
static RV std_after_move(RV const& codes, int how)
{
    if (g_elem == "trk") { return std_after_move_t<Tracked>(codes, how); }
    if (g_elem == "pod") { return std_after_move_t<Pod>(codes, how); }
    if (g_elem == "nxc") { return std_after_move_t<NxCopy>(codes, how); }
    if (g_elem == "str") { return std_after_move_t<std::string>(codes, how); }
    if (g_elem == "mov") { return std_after_move_t<MoveOnly>(codes, how); }
    if (g_elem == "tdc") { return std_after_move_t<TdcCopy>(codes, how); }
    if (g_elem == "kt") { return std_after_move_t<KeyTag>(codes, how); }
    if (g_elem == "vi") { return std_after_move_t<VI>(codes, how); }
    if (g_elem == "iln") { return std_after_move_t<IlN>(codes, how); }
    if (g_elem == "ilt") { return std_after_move_t<IlT>(codes, how); }
    return std_after_move_t<int>(codes, how);   // int, long long, double: a move is a copy
}
template <typename C>
static void six_relations(Out& o, C const& a, C const& b) { o.b(a == b).b(a != b).b(a < b).b(a <= b).b(a > b).b(a >= b); }
static void std_relations(Out& o, RV const& a, RV const& b, bool as_stack)
{
    if (g_elem == "kt") {
        std::vector<KeyTag> ka;
        std::vector<KeyTag> kb;
        for (auto e : a) { ka.push_back(KeyTag{e}); }
        for (auto e : b) { kb.push_back(KeyTag{e}); }
        if (as_stack) { six_relations(o, std::stack<KeyTag, std::vector<KeyTag>>(ka), std::stack<KeyTag, std::vector<KeyTag>>(kb)); }
        else { six_relations(o, ka, kb); }
    } else if (as_stack) { six_relations(o, std::stack<int, RV>(a), std::stack<int, RV>(b)); }
    else { six_relations(o, a, b); }
}

// ---- reference: what the ARGUMENT types matter for, again computed with the flavour's own element type T:
//   * std::erase(std::vector<T>&, U) / std::erase_if(std::vector<T>&, pred taking U) for a value / parameter type U != T,
//   * the element std::vector<T>::emplace_back(a, b) constructs (allocator_traits::construct: T(a, b)).
template <typename T>
static i64 std_erase_het_t(RV& codes, bool is_if, i64 k, i64 arg)
{
    std::vector<T> tmp;
    for (auto c : codes) { tmp.push_back(mk<T>(c)); }
    i64 r = -1;
    if (!with_value(k == 0 ? self_kind<T> : k, is_if ? 0 : arg, [&](auto value) {
            using U = decltype(value);
            if (is_if) { auto id = static_cast<int>(arg); r = static_cast<i64>(std::erase_if(tmp, [&](U e) { return pred_of64(id, num_of(e)); })); }
            else { r = static_cast<i64>(std::erase(tmp, value)); }
        })) { return -1; }
    codes.clear();
    for (auto const& e : tmp) { codes.push_back(get(e)); }
    return r;
}
static i64 std_erase_het(RV& codes, bool is_if, i64 k, i64 arg)
{
    if (g_elem == "int") { return std_erase_het_t<int>(codes, is_if, k, arg); }
    if (g_elem == "ll") { return std_erase_het_t<long long>(codes, is_if, k, arg); }
    if (g_elem == "dbl") { return std_erase_het_t<double>(codes, is_if, k, arg); }
    return -1;
}
template <typename T>
static int std_ctor2_t(int a, int b)
{
    std::vector<T> tmp;
    tmp.emplace_back(a, b);
    return get(tmp.back());
}
// false: the flavour's element type has no T(a, b)
static bool std_ctor2(int a, int b, int& code)
{
    if (g_elem == "vi") { code = std_ctor2_t<VI>(a, b); return true; }
    if (g_elem == "iln") { code = std_ctor2_t<IlN>(a, b); return true; }
    if (g_elem == "ilt") { code = std_ctor2_t<IlT>(a, b); return true; }
    return false;
}

// ---- reference: std::vector with the documented preconditions; false = outside the domain
static bool std_step(Step const& s, RV (&v)[2], std::size_t cap, Out& o)
{
    auto& x   = v[s.t];
    auto& y   = v[1 - s.t];
    auto sz   = static_cast<i64>(x.size());
    auto room = static_cast<i64>(cap) - sz;
    auto icap = static_cast<i64>(cap);
    auto const& op = s.op;
    auto A = [&](int i) { return s.a[static_cast<std::size_t>(i)]; };
    auto I = [&](int i) { return static_cast<int>(s.a[static_cast<std::size_t>(i)]); };
    if (op == "pb" || op == "eb" || op == "upb" || op == "uem" || op == "upr") { if (room < 1) { return false; } x.push_back(I(0)); }
    else if (op == "ebr") { if (room < 1) { return false; } auto& r = x.emplace_back(I(0)); o.num(&r - x.data()).num(r); }
    else if (op == "eb2" || op == "ue2") {
        int code = 0;
        if (room < 1 || !std_ctor2(I(0), I(1), code)) { return false; }
        auto& r = x.emplace_back(code);
        if (op == "eb2") { o.num(&r - x.data()).num(r); }
    }
    else if (op == "te2") {
        int code = 0;
        if (!std_ctor2(I(0), I(1), code)) { return false; }
        if (room < 1) { o.b(false); } else { x.push_back(code); o.b(true); }
    }
    else if (op == "em2") {
        int code = 0;
        if (A(0) < 0 || A(0) > sz || room < 1 || !std_ctor2(I(1), I(2), code)) { return false; }
        { auto it = x.insert(x.begin() + A(0), code); o.num(it - x.begin()); }
    }
    else if (op == "erh" || op == "eih") {
        auto r = std_erase_het(x, op == "eih", A(0), A(1));
        if (r < 0) { return false; }
        o.num(r);
    }
    else if (op == "pba") { if (A(0) < 0 || A(0) >= sz || room < 1) { return false; } x.push_back(x[static_cast<std::size_t>(A(0))]); }
    else if (op == "eba") { if (A(0) < 0 || A(0) >= sz || room < 1) { return false; } x.emplace_back(x[static_cast<std::size_t>(A(0))]); }
    else if (op == "ica") {
        if (A(1) < 0 || A(1) >= sz || A(0) < 0 || A(0) > sz || room < 1) { return false; }
        { auto it = x.insert(x.begin() + A(0), x[static_cast<std::size_t>(A(1))]); o.num(it - x.begin()); }
    } else if (op == "ina") {
        if (A(2) < 0 || A(2) >= sz || A(0) < 0 || A(0) > sz || A(1) < 0 || A(1) > room) { return false; }
        { auto it = x.insert(x.begin() + A(0), static_cast<std::size_t>(A(1)), x[static_cast<std::size_t>(A(2))]); o.num(it - x.begin()); }
    } else if (op == "rva") {
        if (A(1) < 0 || A(1) >= sz || A(0) < 0 || A(0) > icap) { return false; }
        x.resize(static_cast<std::size_t>(A(0)), x[static_cast<std::size_t>(A(1))]);
    }
    else if (op == "irk" || op == "mik") {
        if (A(1) < 0 || A(1) > sz || static_cast<i64>(s.xs.size()) > room) { return false; }
        if (!with_std_range(A(0), s.xs, [&](auto f, auto l) { auto it = x.insert(x.begin() + A(1), f, l); o.num(it - x.begin()); })) { return false; }
        std_source_after(o, op == "irk" ? 0 : 3, s.xs);
    }
    else if (op == "ask") {
        if (s.xs.size() > cap) { return false; }
        if (!with_std_range(A(0), s.xs, [&](auto f, auto l) { x.assign(f, l); })) { return false; }
        std_source_after(o, 1, s.xs);
    }
    else if (op == "ctk") {
        if (s.xs.size() > cap) { return false; }
        if (!with_std_range(A(0), s.xs, [&](auto f, auto l) { RV tmp(f, l); print_std(o, tmp); x = std::move(tmp); })) { return false; }
        std_source_after(o, 2, s.xs);
    }
    else if (op == "pop") { if (sz == 0) { return false; } x.pop_back(); }
    else if (op == "icr" || op == "irv" || op == "emp") {
        if (A(0) < 0 || A(0) > sz || room < 1) { return false; }
        { auto it = x.insert(x.begin() + A(0), I(1)); o.num(it - x.begin()); }
    } else if (op == "inn") {
        if (A(0) < 0 || A(0) > sz || A(1) < 0 || A(1) > room) { return false; }
        { auto it = x.insert(x.begin() + A(0), static_cast<std::size_t>(A(1)), I(2)); o.num(it - x.begin()); }
    } else if (op == "irg" || op == "mir") {
        if (A(0) < 0 || A(0) > sz || static_cast<i64>(s.xs.size()) > room) { return false; }
        RV src(s.xs.begin(), s.xs.end());
        { auto it = x.insert(x.begin() + A(0), std::make_move_iterator(src.begin()), std::make_move_iterator(src.end())); o.num(it - x.begin()); }
        std_source_after(o, op == "irg" ? 0 : 3, s.xs);
    } else if (op == "era") {
        if (A(0) < 0 || A(0) >= sz) { return false; }
        o.num(x.erase(x.begin() + A(0)) - x.begin());
    } else if (op == "err") {
        if (A(0) < 0 || A(0) > A(1) || A(1) > sz) { return false; }
        o.num(x.erase(x.begin() + A(0), x.begin() + A(1)) - x.begin());
    } else if (op == "clr") { x.clear(); }
    else if (op == "rsz") { if (A(0) < 0 || A(0) > icap) { return false; } x.resize(static_cast<std::size_t>(A(0))); }
    else if (op == "rsv") { if (A(0) < 0 || A(0) > icap) { return false; } x.resize(static_cast<std::size_t>(A(0)), I(1)); }
    else if (op == "asn") { if (A(0) < 0 || A(0) > icap) { return false; } x.assign(static_cast<std::size_t>(A(0)), I(1)); }
    else if (op == "asr") { if (s.xs.size() > cap) { return false; } RV src(s.xs.begin(), s.xs.end()); x.assign(src.begin(), src.end()); std_source_after(o, 1, s.xs); }
    else if (op == "swp") { v[0].swap(v[1]); }
    else if (op == "fsw") { using std::swap; swap(v[0], v[1]); }
    else if (op == "cpa") { x = y; }
    else if (op == "mva") { x = std::move(y); y.clear(); }
    else if (op == "mvo") { x = y; y = std_after_move(y, g_iv ? 2 : 0); }
    else if (op == "mco") { print_std(o, x); x = std_after_move(x, g_iv ? 1 : 0); }
    else if (op == "cpc") { RV c(x); o.b(c == x); print_std(o, c); }
    else if (op == "mrt") { RV tmp(std::move(x)); print_std(o, tmp); x = std::move(tmp); }
    else if (op == "eif") { auto id = I(0); o.num(static_cast<i64>(std::erase_if(x, [&](int e) { return pred_of(id, e); }))); }
    else if (op == "erv") { o.num(static_cast<i64>(std::erase(x, I(0)))); }
    else if (op == "rel") { std_relations(o, v[0], v[1], false); }
    else if (op == "at") { if (A(0) < 0 || A(0) >= sz) { return false; } o.num(x[static_cast<std::size_t>(A(0))]); }
    else if (op == "fr") { if (sz == 0) { return false; } o.num(x.front()); }
    else if (op == "bk") { if (sz == 0) { return false; } o.num(x.back()); }
    else if (op == "sca") { auto& r = x; x = r; }
    else if (op == "sma") { }   // self-move-assignment leaves a std::vector in a valid but unspecified state; the fixed-capacity vectors keep their value
    else if (op == "ssw") { x.swap(x); }
    else if (op == "rit") {
        o.num(x.rbegin().base() - x.begin()).num(x.rend().base() - x.begin()).num(x.rend() - x.rbegin());
        for (auto it = x.rbegin(); it != x.rend(); ++it) { o.num(*it); }
    }
    else if (op == "cit") { o.num(x.cbegin() - x.begin()).num(x.cend() - x.begin()); for (auto it = x.cbegin(); it != x.cend(); ++it) { o.num(*it); } }
    else if (op == "sat") { if (A(0) < 0 || A(0) >= sz) { return false; } auto& r = x[static_cast<std::size_t>(A(0))]; r = I(1); o.num(&r - x.data()); }
    else if (op == "sfr") { if (sz == 0) { return false; } auto& r = x.front(); r = I(0); o.num(&r - x.data()); }
    else if (op == "sbk") { if (sz == 0) { return false; } auto& r = x.back(); r = I(0); o.num(&r - x.data()); }
    else if (op == "dat") { o.num((x.data() + x.size()) - x.data()); for (std::size_t k = 0; k < x.size(); ++k) { o.num(x.data()[k]); } }
    else if (op == "mxs") { o.num(icap).num(icap); }   // [inplace.vector.capacity]: max_size() == capacity() == N
    else if (op == "ctn") { if (A(0) < 0 || A(0) > icap) { return false; } RV tmp(static_cast<std::size_t>(A(0))); print_std(o, tmp); x = std::move(tmp); }
    else if (op == "ctv") { if (A(0) < 0 || A(0) > icap) { return false; } RV tmp(static_cast<std::size_t>(A(0)), I(1)); print_std(o, tmp); x = std::move(tmp); }
    else if (op == "ctr") { if (s.xs.size() > cap) { return false; } RV tmp(s.xs.begin(), s.xs.end()); print_std(o, tmp); x = std::move(tmp); std_source_after(o, 2, s.xs); }
    else if (op == "cta") { if (s.xs.size() != 2 || cap < 2) { return false; } RV tmp{static_cast<int>(s.xs[0]), static_cast<int>(s.xs[1])}; print_std(o, tmp); x = std::move(tmp); std_source_after(o, 3, s.xs); }
    else if (op == "cte") { RV tmp; print_std(o, tmp); x = std::move(tmp); }
    else if (op == "cpi") { RV c(x); if (A(0) != 0) { ref_mutate(c, I(1), cap); } else { ref_mutate(x, I(1), cap); } print_std(o, c); }
    // inplace_vector interface
    else if (op == "tpb" || op == "tem" || op == "tpr") { if (room < 1) { o.b(false); } else { x.push_back(I(0)); o.b(true); } }
    else if (op == "fil") { i64 cnt = 0; for (i64 k = 0; k < A(0); ++k) { if (static_cast<i64>(x.size()) < icap) { x.push_back(I(1)); ++cnt; } } o.num(cnt); }
    else if (op == "ivc") { RV c(x); print_std(o, c); }
    else if (op == "ivm") { RV c(std::move(x)); x.clear(); print_std(o, c); }
    else { return false; }
    return true;
}

// ---- reference: std::stack<int, std::vector<int>>
struct RefStack : std::stack<int, RV> {
    using std::stack<int, RV>::stack;
    auto cont() const -> RV const& { return this->c; }
};
static bool std_stack_step(Step const& s, RefStack (&v)[2], std::size_t cap, Out& o)
{
    auto& x   = v[s.t];
    auto& y   = v[1 - s.t];
    auto sz   = static_cast<i64>(x.size());
    auto room = static_cast<i64>(cap) - sz;
    auto const& op = s.op;
    auto I = [&](int i) { return static_cast<int>(s.a[static_cast<std::size_t>(i)]); };
    if (op == "pb") { if (room < 1) { return false; } int c = I(0); x.push(c); }
    else if (op == "pbr") { if (room < 1) { return false; } x.push(I(0)); }
    else if (op == "eb") { if (room < 1) { return false; } x.emplace(I(0)); }
    else if (op == "ebr") { if (room < 1) { return false; } decltype(auto) r = x.emplace(I(0)); o.num(&r - x.cont().data()).num(r); }
    else if (op == "eb2") {
        int code = 0;
        if (room < 1 || !std_ctor2(I(0), I(1), code)) { return false; }
        decltype(auto) r = x.emplace(code); o.num(&r - x.cont().data()).num(r);
    }
    else if (op == "pop") { if (sz == 0) { return false; } x.pop(); }
    else if (op == "bk") { if (sz == 0) { return false; } o.num(x.top()); }
    else if (op == "sbk") { if (sz == 0) { return false; } x.top() = I(0); }
    else if (op == "siz") { o.num(static_cast<i64>(x.size())).b(x.empty()); }
    else if (op == "swp") { v[0].swap(v[1]); }
    else if (op == "fsw") { using std::swap; swap(static_cast<std::stack<int, RV>&>(v[0]), static_cast<std::stack<int, RV>&>(v[1])); }
    else if (op == "rel") { std_relations(o, v[0].cont(), v[1].cont(), true); }
    else if (op == "cpc") { RefStack c(x); o.b(c == x); print_std(o, c.cont()); }
    else if (op == "mvc") { RefStack c(std::move(x)); x = RefStack{}; print_std(o, c.cont()); }
    else if (op == "cpa") { x = y; }
    else if (op == "mva") { x = std::move(y); y = RefStack{}; }
    else if (op == "mvo") { RV l = y.cont(); x = RefStack(l); y = RefStack(std_after_move(l, 0)); }
    else if (op == "mco") { RV l = x.cont(); print_std(o, l); x = RefStack(std_after_move(l, 0)); }
    else if (op == "fro") { if (s.xs.size() > cap) { return false; } RV cont(s.xs.begin(), s.xs.end()); RefStack tmp(cont); o.num(static_cast<i64>(tmp.size())); print_std(o, std_after_move(cont, 0)); x = std::move(tmp); }
    else if (op == "sca") { auto& r = x; x = r; }
    else if (op == "fcc") { if (s.xs.size() > cap) { return false; } RV cont(s.xs.begin(), s.xs.end()); RefStack tmp(cont); o.num(static_cast<i64>(tmp.size())); x = std::move(tmp); }
    else if (op == "fcr") { if (s.xs.size() > cap) { return false; } RV cont(s.xs.begin(), s.xs.end()); RefStack tmp(std::move(cont)); o.num(static_cast<i64>(tmp.size())); x = std::move(tmp); }
    else { return false; }
    return true;
}

bool vh::run_case(std::string const& op, Toks& in, Out& impl, Out& ref)
{
    if (op != "hist") { return false; }
    auto flavour = in.str();
    auto cap     = in.num();
    auto steps   = parse(in);
    int r        = -1;
    using part_fn = int (*)(std::string const&, i64, Steps const&, Out&);
    // a part that did not compile against the library under test is replaced by a stub (pcxx.py) that answers -2 and
    // says why: its flavours then report `harness-does-not-compile ...` instead of values - a broken BUILD is told apart
    // from a wrong VALUE, and the other flavours still run
    bool stubbed = false;
    Out why;
    for (part_fn f : {c01_part0, c01_part1, c01_part2, c01_part3, c01_part4, c01_part5, c01_part6, c01_part7, c01_part8, c01_part9, c01_part10,
                      c01_part11, c01_part12, c01_part13, c01_part14}) {
        Out tmp;
        r = f(flavour, cap, steps, tmp);
        if (r == -2) { stubbed = true; why.tok(tmp.s); r = -1; continue; }   // which stub owns the flavour is unknown: all are named
        if (r != -1) { impl = tmp; break; }
    }
    if (r == -1) { impl.tok(stubbed ? why.s : std::string("bad-instantiation")); if (!stubbed) { return true; } }
    {
        auto us = flavour.find('_');
        g_elem  = (us == std::string::npos || flavour == "stack") ? std::string("int") : flavour.substr(us + 1);
        g_iv    = flavour.rfind("iv", 0) == 0;
    }
    // reference
    Out rr;
    bool dom    = true;
    auto ucap   = static_cast<std::size_t>(cap);
    if (flavour.rfind("st", 0) == 0) {
        RefStack v[2];
        for (auto const& s : steps) {
            Out so;
            if (!std_stack_step(s, v, ucap, so)) { dom = false; break; }
            so.tok("/"); observe_std(so, v[0].cont(), ucap); observe_std(so, v[1].cont(), ucap);
            rr.tok(";"); rr.tok(so.s);
        }
    } else {
        RV v[2];
        v[0].reserve(ucap + 8);
        v[1].reserve(ucap + 8);
        for (auto const& s : steps) {
            Out so;
            if (!std_step(s, v, ucap, so)) { dom = false; break; }
            so.tok("/"); observe_std(so, v[0], ucap); observe_std(so, v[1], ucap);
            rr.tok(";"); rr.tok(so.s);
        }
    }
    if (dom) { rr.tok("; live").num(0); ref = rr; }
    return true;
}

VERIF_MAIN()
#endif
#endif   // C01_STUB
