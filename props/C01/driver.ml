(* C01 driver: histories through the extracted model (Model.run / iv_run) and spec (Spec.spec_run) *)
let b t = next_int t <> 0
let parse_ops (t : toks) : op list * iv_op list =
  let k = next_int t in
  let ops = ref [] and ivs = ref [] in
  for _ = 1 to k do
    let o = next_str t in
    let push x = ops := x :: !ops in
    let pushi x = ivs := x :: !ivs in
    (match o with
     | "swp" -> push Swap
     | "rel" -> push Relations
     | _ ->
       let tg = b t in
       (match o with
        | "pb" -> let x = next_z t in push (PushBack (tg, x))
        | "eb" -> let x = next_z t in push (EmplaceBack (tg, x))
        | "pop" -> push (PopBack tg); pushi (IvPop tg)
        | "icr" -> let p = next_z t in let x = next_z t in push (InsertCR (tg, p, x))
        | "irv" -> let p = next_z t in let x = next_z t in push (InsertRV (tg, p, x))
        | "emp" -> let p = next_z t in let x = next_z t in push (EmplaceAt (tg, p, x))
        | "inn" -> let p = next_z t in let n = next_z t in let x = next_z t in push (InsertN (tg, p, n, x))
        | "irg" -> let p = next_z t in let xs = next_zlist t in push (InsertRange (tg, p, xs))
        | "era" -> let p = next_z t in push (EraseAt (tg, p))
        | "err" -> let f = next_z t in let l = next_z t in push (EraseRange (tg, f, l))
        | "clr" -> push (Clear tg); pushi (IvClear tg)
        | "rsz" -> let n = next_z t in push (Resize (tg, n))
        | "rsv" -> let n = next_z t in let x = next_z t in push (ResizeVal (tg, n, x))
        | "asn" -> let n = next_z t in let x = next_z t in push (AssignN (tg, n, x))
        | "asr" -> let xs = next_zlist t in push (AssignRange (tg, xs))
        | "cpa" -> push (CopyAssign tg)
        | "mva" -> push (MoveAssign tg)
        | "cpc" -> push (CopyConstruct tg)
        | "mrt" -> push (MoveRoundTrip tg)
        | "eif" -> let p = next_z t in push (EraseIf (tg, p))
        | "erv" -> let x = next_z t in push (EraseVal (tg, x))
        | "at" -> let i = next_z t in push (At (tg, i)); pushi (IvAt (tg, i))
        | "fr" -> push (Front tg); pushi (IvFront tg)
        | "bk" -> push (Back tg); pushi (IvBack tg)
        | "sca" -> push (SelfCopyAssign tg)
        | "ssw" -> push (SelfSwap tg)
        | "tpb" -> let x = next_z t in pushi (IvTryPush (tg, x))
        | "upb" -> let x = next_z t in pushi (IvUncheckedPush (tg, x))
        | "ivc" -> pushi (IvCopyConstruct tg)
        | "ivm" -> pushi (IvMoveConstruct tg)
        | _ -> raise Not_found))
  done;
  (List.rev !ops, List.rev !ivs)

(* one step is printed as  "; <returned values> / <observation>"  exactly like the harness *)
let fmt_step ((o, obs) : z list * z list) =
  "; " ^ String.concat " " (List.map str_of_z o @ ["/"] @ List.map str_of_z obs)

let render (rs : (z list * z list) res list) : string =
  let buf = Buffer.create 256 in
  List.iter (fun r ->
      match r with
      | Ok p -> Buffer.add_string buf (fmt_step p); Buffer.add_char buf ' '
      | Contract -> Buffer.add_string buf "; contract "
      | UB _ -> Buffer.add_string buf "; ub "
      | OutOfFuel -> Buffer.add_string buf "; out-of-fuel ") rs;
  Buffer.add_string buf "; live 0";
  Buffer.contents buf

let run_case op t =
  match op with
  | "hist" ->
      let flavour = next_str t in
      let capi = next_int t in
      let (ops, ivs) = parse_ops t in
      let s0 = (empty_vec (nat_of_int capi), empty_vec (nat_of_int capi)) in
      let is_iv = String.length flavour >= 2 && String.sub flavour 0 2 = "iv" in
      if is_iv then begin
        let m = render (iv_run s0 ivs) in
        (* spec *)
        let rec go s = function
          | [] -> Some []
          | o :: rest ->
            (match iv_spec_step (z_of_int capi) s o with
             | None -> None
             | Some (s', out) ->
               (match go s' rest with
                | Some r -> Some ((out, spec_observe (z_of_int capi) s') :: r)
                | None -> None)) in
        let sp = match go ([], []) ivs with
          | None -> "na"
          | Some outs -> render (List.map (fun l -> Ok l) outs) in
        (m, sp)
      end else begin
        let m = render (run pred_of s0 ops) in
        let sp = match spec_run pred_of (z_of_int capi) ([], []) ops with
          | None -> "na"
          | Some outs -> render (List.map (fun l -> Ok l) outs) in
        (m, sp)
      end
  | _ -> raise Not_found

let () = main run_case
