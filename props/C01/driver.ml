(* C01 driver: histories through the extracted model (ModelMv.vrun_fast / st_vrun / iv_vrun_fast - the
   fast forms proved equal to vrun / iv_vrun on every invariant state, Properties_mv.C01_vfast_model_equal)
   and spec (SpecMv.vspec_run / st_vspec_run / iv_vspec_run).
   `mvo t` / `mco t` / `fro t xs` are the moves with the source left as the call leaves it (ModelMv.v); for inplace_vector
   the flavour says whether its move members are the defaulted ones (ivt_of_fl).
   The argument types of the flavour enter as ModelArg.argt (arg_of_fl): the language's == between an element and a
   value of another arithmetic type, the conversion of an element, the element T(a, b).
   The element type of the flavour enters as ModelEl.elt: its operator< / operator== (records ordered by key only for the
   `_kt` flavours, the integer order otherwise) and the value a moved-from element is left with. *)
let b t = next_int t <> 0

(* static_vector flavours: every operation as an xop (the operations of Model.v are wrapped in Base) *)
let itcat_of (k : int) : itcat =
  match k with
  | 0 -> ItPtr | 1 | 5 -> ItRandom | 2 -> ItBidi | 3 -> ItForward | 4 -> ItInput
  | _ -> raise Not_found

(* flavour -> element type: sv_<e> / st_<e> / iv_<e>, `stack` = int *)
let elt_of (flavour : string) : elt =
  let e = match String.index_opt flavour '_' with
    | Some i -> String.sub flavour (i + 1) (String.length flavour - i - 1)
    | None -> "int" in
  match e with
  | "kt" -> elt_keytag
  | "trk" | "mov" -> elt_total (mv_const (z_of_int (-555)))   (* the instrumented types mark a moved-from object *)
  | "str" | "vi" -> elt_total (mv_const (z_of_int 0))          (* a moved-from std::string / std::vector<int> is empty *)
  | _ -> elt_total mv_keep                                     (* int, Pod, NxCopy, TdcCopy: a move is a copy *)

(* flavour -> argument types (ModelArg.argt): what  item == value  means for a value of another arithmetic type, what a
   conversion of the element gives, which element T(a, b) is *)
let arg_of_fl (flavour : string) : argt =
  let e = match String.index_opt flavour '_' with
    | Some i -> String.sub flavour (i + 1) (String.length flavour - i - 1)
    | None -> "int" in
  match e with
  | "ll" -> arg_ll
  | "dbl" -> arg_dbl
  | "vi" -> arg_vi
  | "iln" | "ilt" -> arg_il
  | _ -> arg_int

(* inplace_vector<T, N>: are the move constructor / the move assignment the defaulted ones (requires-clauses of the header:
   is_trivially_move_constructible_v<T>;  is_trivially_move_assignable_v<T> and is_trivially_move_constructible_v<T> and
   is_trivially_destructible_v<T>). *)
let ivt_of_fl (flavour : string) : ivt =
  let e = match String.index_opt flavour '_' with
    | Some i -> String.sub flavour (i + 1) (String.length flavour - i - 1)
    | None -> "int" in
  match e with
  | "int" | "pod" | "ilt" -> ivt_trivial
  | _ -> ivt_class

let parse_sv (t : toks) : vop list =
  let k = next_int t in
  let ops = ref [] in
  let vpush x = ops := x :: !ops in
  let wpush x = vpush (VW x) in
  let zpush x = wpush (WZ x) in
  let ypush x = zpush (ZY x) in
  let push x = ypush (XBase x) in
  let base x = push (Base x) in
  for _ = 1 to k do
    let o = next_str t in
    (match o with
     | "swp" -> base Swap
     | "rel" -> zpush ZRelations
     | "fsw" -> push SwapFree
     | _ ->
       let tg = b t in
       (match o with
        | "pb" -> let x = next_z t in base (PushBack (tg, x))
        | "eb" -> let x = next_z t in base (EmplaceBack (tg, x))
        | "pop" -> base (PopBack tg)
        | "icr" -> let p = next_z t in let x = next_z t in base (InsertCR (tg, p, x))
        | "irv" -> let p = next_z t in let x = next_z t in base (InsertRV (tg, p, x))
        | "emp" -> let p = next_z t in let x = next_z t in base (EmplaceAt (tg, p, x))
        | "inn" -> let p = next_z t in let n = next_z t in let x = next_z t in base (InsertN (tg, p, n, x))
        | "irg" -> let p = next_z t in let xs = next_zlist t in zpush (ZInsertRange (tg, ItPtr, p, xs))
        | "era" -> let p = next_z t in base (EraseAt (tg, p))
        | "err" -> let f = next_z t in let l = next_z t in base (EraseRange (tg, f, l))
        | "clr" -> base (Clear tg)
        | "rsz" -> let n = next_z t in base (Resize (tg, n))
        | "rsv" -> let n = next_z t in let x = next_z t in base (ResizeVal (tg, n, x))
        | "asn" -> let n = next_z t in let x = next_z t in base (AssignN (tg, n, x))
        | "asr" -> let xs = next_zlist t in zpush (ZAssignRange (tg, ItPtr, xs))
        | "cpa" -> base (CopyAssign tg)
        | "mva" -> base (MoveAssign tg)
        | "cpc" -> base (CopyConstruct tg)
        | "mrt" -> base (MoveRoundTrip tg)
        | "eif" -> let p = next_z t in base (EraseIf (tg, p))
        | "erv" -> let x = next_z t in base (EraseVal (tg, x))
        | "at" -> let i = next_z t in base (At (tg, i))
        | "fr" -> base (Front tg)
        | "bk" -> base (Back tg)
        | "sca" -> base (SelfCopyAssign tg)
        | "ssw" -> base (SelfSwap tg)
        | "rit" -> let k = next_z t in push (RIter (tg, k))
        | "cit" -> push (CIter tg)
        | "sat" -> let i = next_z t in let x = next_z t in push (SetAt (tg, i, x))
        | "sfr" -> let x = next_z t in push (SetFront (tg, x))
        | "sbk" -> let x = next_z t in push (SetBack (tg, x))
        | "dat" -> push (DataRead tg)
        | "mxs" -> push (MaxSize tg)
        | "sma" -> push (SelfMoveAssign tg)
        | "mir" -> let p = next_z t in let xs = next_zlist t in zpush (ZMoveInsertRange (tg, ItPtr, p, xs))
        | "ctn" -> let n = next_z t in push (CtorN (tg, n))
        | "ctv" -> let n = next_z t in let x = next_z t in push (CtorNVal (tg, n, x))
        | "ctr" -> let xs = next_zlist t in zpush (ZCtorRange (tg, ItPtr, xs))
        | "cta" -> let xs = next_zlist t in zpush (ZCtorArr (tg, xs))
        | "cte" -> push (CtorArr (tg, []))
        | "cpi" -> let d = b t in let x = next_z t in push (CopyIndep (tg, d, x))
        | "ebr" -> let x = next_z t in ypush (EmplaceBackRef (tg, x))
        | "pba" -> let k = next_z t in ypush (PushBackAt (tg, k))
        | "eba" -> let k = next_z t in ypush (EmplaceBackAt (tg, k))
        | "ica" -> let p = next_z t in let k = next_z t in ypush (InsertCRAt (tg, p, k))
        | "ina" -> let p = next_z t in let n = next_z t in let k = next_z t in ypush (InsertNAt (tg, p, n, k))
        | "rva" -> let n = next_z t in let k = next_z t in ypush (ResizeValAt (tg, n, k))
        | "irk" -> let c = itcat_of (next_int t) in let p = next_z t in let xs = next_zlist t in zpush (ZInsertRange (tg, c, p, xs))
        | "mik" -> let c = itcat_of (next_int t) in let p = next_z t in let xs = next_zlist t in zpush (ZMoveInsertRange (tg, c, p, xs))
        | "ask" -> let c = itcat_of (next_int t) in let xs = next_zlist t in zpush (ZAssignRange (tg, c, xs))
        | "ctk" -> let c = itcat_of (next_int t) in let xs = next_zlist t in zpush (ZCtorRange (tg, c, xs))
        | "erh" -> let k = next_z t in let x = next_z t in wpush (WEraseValHet (tg, k, x))
        | "eih" -> let k = next_z t in let p = next_z t in wpush (WEraseIfHet (tg, k, p))
        | "eb2" -> let a = next_z t in let b = next_z t in wpush (WEmplaceBack2 (tg, a, b))
        | "em2" -> let p = next_z t in let a = next_z t in let b = next_z t in wpush (WEmplaceAt2 (tg, p, a, b))
        | "mvo" -> vpush (VMoveAssign tg)
        | "mco" -> vpush (VMoveConstruct tg)
        | _ -> raise Not_found))
  done;
  List.rev !ops

let parse_st (t : toks) : st_vop list =
  let k = next_int t in
  let ops = ref [] in
  let vpush x = ops := x :: !ops in
  let wpush x = vpush (StV x) in
  let zpush x = wpush (StW x) in
  let ypush x = zpush (StZ x) in
  let push x = ypush (StBase x) in
  for _ = 1 to k do
    let o = next_str t in
    (match o with
     | "swp" -> push StSwap
     | "fsw" -> push StSwapFree
     | "rel" -> zpush StZRelations
     | _ ->
       let tg = b t in
       (match o with
        | "pb" -> let x = next_z t in push (StPush (tg, x))
        | "pbr" -> let x = next_z t in push (StPushRv (tg, x))
        | "eb" -> let x = next_z t in push (StEmplace (tg, x))
        | "ebr" -> let x = next_z t in ypush (StEmplaceRef (tg, x))
        | "pop" -> push (StPop tg)
        | "bk" -> push (StTop tg)
        | "sbk" -> let x = next_z t in push (StSetTop (tg, x))
        | "siz" -> push (StSize tg)
        | "cpc" -> push (StCopyConstruct tg)
        | "mvc" -> push (StMoveConstruct tg)
        | "cpa" -> push (StCopyAssign tg)
        | "mva" -> push (StMoveAssign tg)
        | "sca" -> push (StSelfAssign tg)
        | "fcc" -> let xs = next_zlist t in push (StFromContainer (tg, xs))
        | "fcr" -> let xs = next_zlist t in push (StFromContainerRv (tg, xs))
        | "eb2" -> let a = next_z t in let b = next_z t in wpush (StWEmplace2 (tg, a, b))
        | "mvo" -> vpush (StVMoveAssign tg)
        | "mco" -> vpush (StVMoveConstruct tg)
        | "fro" -> let xs = next_zlist t in vpush (StVFromContainerRv (tg, xs))
        | _ -> raise Not_found))
  done;
  List.rev !ops

let parse_iv (t : toks) : iv_vop list =
  let k = next_int t in
  let ops = ref [] in
  let vpush x = ops := x :: !ops in
  let wpush x = vpush (IvV x) in
  let push x = wpush (IvW x) in
  let base x = push (IvBase x) in
  for _ = 1 to k do
    let o = next_str t in
    let tg = b t in
    (match o with
     | "tpb" -> let x = next_z t in base (IvTryPush (tg, x))
     | "upb" -> let x = next_z t in base (IvUncheckedPush (tg, x))
     | "pop" -> base (IvPop tg)
     | "clr" -> base (IvClear tg)
     | "at" -> let i = next_z t in base (IvAt (tg, i))
     | "fr" -> base (IvFront tg)
     | "bk" -> base (IvBack tg)
     | "ivc" -> base (IvCopyConstruct tg)
     | "ivm" -> base (IvMoveConstruct tg)
     | "fil" -> let n = next_z t in let x = next_z t in push (IvFill (tg, n, x))
     | "tem" -> let x = next_z t in push (IvTryEmplace (tg, x))
     | "tpr" -> let x = next_z t in push (IvTryPushRv (tg, x))
     | "uem" -> let x = next_z t in push (IvUncheckedEmplace (tg, x))
     | "upr" -> let x = next_z t in push (IvUncheckedPushRv (tg, x))
     | "cpa" -> push (IvCopyAssign tg)
     | "mva" -> push (IvMoveAssign tg)
     | "sca" -> push (IvSelfCopyAssign tg)
     | "sma" -> push (IvSelfMoveAssign tg)
     | "sat" -> let i = next_z t in let x = next_z t in push (IvSetAt (tg, i, x))
     | "sfr" -> let x = next_z t in push (IvSetFront (tg, x))
     | "sbk" -> let x = next_z t in push (IvSetBack (tg, x))
     | "dat" -> push (IvDataRead tg)
     | "mxs" -> push (IvMaxSize tg)
     | "cpi" -> let d = b t in let x = next_z t in push (IvCopyIndep (tg, d, x))
     | "te2" -> let a = next_z t in let b = next_z t in wpush (IvWTryEmplace2 (tg, a, b))
     | "ue2" -> let a = next_z t in let b = next_z t in wpush (IvWUncheckedEmplace2 (tg, a, b))
     | "mvo" -> vpush (IvVMoveAssign tg)
     | "mco" -> vpush (IvVMoveConstruct tg)
     | _ -> raise Not_found)
  done;
  List.rev !ops

(* one step is printed as  "; <returned values> / <observation>"  exactly like the harness *)
let add_step buf ((o, obs) : z list * z list) =
  Buffer.add_string buf "; ";
  List.iter (fun x -> Buffer.add_string buf (str_of_z x); Buffer.add_char buf ' ') o;
  Buffer.add_string buf "/";
  List.iter (fun x -> Buffer.add_char buf ' '; Buffer.add_string buf (str_of_z x)) obs

let render (rs : (z list * z list) res list) : string =
  let buf = Buffer.create 256 in
  List.iter (fun r ->
      match r with
      | Ok p -> add_step buf p; Buffer.add_char buf ' '
      | Contract -> Buffer.add_string buf "; contract "
      | UB _ -> Buffer.add_string buf "; ub "
      | OutOfFuel -> Buffer.add_string buf "; out-of-fuel ") rs;
  Buffer.add_string buf "; live 0";
  Buffer.contents buf

let render_spec = function
  | None -> "na"
  | Some outs -> render (List.map (fun l -> Ok l) outs)

let has_prefix s p = String.length s >= String.length p && String.sub s 0 (String.length p) = p

let run_case op t =
  match op with
  | "hist" ->
      let flavour = next_str t in
      let capi = next_int t in
      let s0 = (empty_vec (nat_of_int capi), empty_vec (nat_of_int capi)) in
      let cz = z_of_int capi in
      if has_prefix flavour "iv" then begin
        let ops = parse_iv t in
        let a = arg_of_fl flavour in
        let i = ivt_of_fl flavour in
        (render (iv_vrun_fast a i s0 ops), render_spec (iv_vspec_run a cz i ([], []) ops))
      end else if has_prefix flavour "st" then begin
        let ops = parse_st t in
        let a = arg_of_fl flavour in
        (render (st_vrun a (elt_of flavour) s0 ops), render_spec (st_vspec_run a (elt_of flavour) cz ([], []) ops))
      end else begin
        let ops = parse_sv t in
        let a = arg_of_fl flavour in
        (render (vrun_fast a (elt_of flavour) pred_of s0 ops), render_spec (vspec_run a (elt_of flavour) pred_of cz ([], []) ops))
      end
  | _ -> raise Not_found

let () = main run_case
