"""C14 — bit and integer utilities: case generators and configuration."""
ID = "C14"
LEVEL = "proof"
# translator tie: coq/Gen/Gen_bits.v is regenerated from $VERIF_REPO on every run; coq/C14/GenEquiv.v re-proves
# generated = model (Properties_gen.v)
TRANSLATE = [("translate/kernels_bits.json", "coq/Gen/Gen_bits.v"),
             # second batch (64 kernels): coq/C14/GenEquivB.v, Properties_genB.v
             ("translate/kernels_bits2.json", "coq/Gen/Gen_bits2.v")]
HARNESSES = [
    {"name": "main", "src": "harness.cpp", "flags": ["-O1", "-DTETL_ENABLE_CONTRACT_CHECKS=1"]},
    # same cases under UBSan: undefined behaviour on an input of the documented domain aborts the
    # case ("crash") instead of silently producing some value
    {"name": "ubsan", "src": "harness.cpp",
     "flags": ["-O1", "-DTETL_ENABLE_CONTRACT_CHECKS=1", "-DC14_CT_TABLE", "-fsanitize=undefined", "-fno-sanitize-recover=all"]},
    # same cases compiled by clang++ 14 with its UBSan: a second front end (rejects what GCC only warns about:
    # bit_ceil<unsigned char> did not compile, fix c19f940), a second constant evaluator for `ctbits`, clang's expansion
    # of the builtins, and a sanitizer that instruments BEFORE narrowing: g++ turns `(unsigned short)(int * int)` into
    # 16-bit arithmetic and never traps on the int overflow, clang does (mutation M5 in REVIEW.md)
    {"name": "clang", "src": "harness.cpp", "compiler": "clang++",
     "flags": ["-O1", "-DTETL_ENABLE_CONTRACT_CHECKS=1", "-DC14_CT_TABLE", "-fsanitize=undefined", "-fno-sanitize-recover=all"]},
]
# -DC14_CT_TABLE: the `ctbits` table is a constexpr object (constant evaluators of g++ / clang++); without it (`main`) the
# same values are evaluated at run time, so that UB met by a constant evaluator (= a build that does not compile) still
# leaves one build that reports the failing input

RULE = ("8-bit types: every value (unary) and every pair (binary, same-type pairs and (i8,u8) for cmp; mixed-type pairs of gcd/lcm "
        "and the mirrored (u8,i8) cmp pair are thinned in the quick tier; every word x every position 0..255 for the "
        "single-bit functions; every value x every count in [-130,130] for rotl/rotr); 16-bit types: every value (unary); "
        "binary: boundary values (2 per argument position in quick, ~25 in thorough) x a sample of the 256-value chunks of the other "
        "argument (3 chunks at each end, 5 around zero/the middle, every 6th in between); 32/64-bit: every single bit, all-ones-below-bit, +-1 neighbours, type limits "
        "(and their cross product for binary functions) plus seeded random values/pairs; rotation counts [-130,130] and "
        "the int limits; all 64 (T,U) pairs of the eight fixed-width types for cmp_*/in_range/saturate_cast/gcd/lcm over the "
"limits+-1 of every type (long long / unsigned long long as either type of a pair over the 32/64-bit limits); the template<Pos> single-bit overloads for every Pos of every type (u8: every word; wider: boundary + random words); ipow<Base> for seven bases; "
        "'swp'/'swx' cases = the full 2^16 sweep of one argument of a 16-bit binary function with the other fixed (limits in quick, the whole boundary set in both orders in thorough), legs digested; "
        "'row' cases evaluate 256 (or 261) inputs per line; 'ctbits' = the <bit> functions on a 10-value table per unsigned type "
        "evaluated by the constant evaluator (constexpr table in the harness); "
        "non-trivial = distinct case line whose impl leg is not unknown-op/crash")

TRUSTED_BASE = ["reference leg: libstdc++ 12 <bit>/<numeric>/<utility> (std::popcount ... std::midpoint, std::cmp_*, std::in_range), "
                "glibc htons/htonl, and exact __int128 arithmetic for saturation, gcd/lcm, idiv, ipow, abs, single-bit updates"]
ASSUMPTIONS = ["LP64: int 32 bits, long 64 bits, two's complement, little-endian host (hton/ntoh swap bytes unconditionally)",
               "TETL_ENABLE_CONTRACT_CHECKS=1 (preconditions observable as contract outcomes)",
               "run-time paths use __builtin_popcount*/__builtin_bswap*/__builtin_add_overflow (modelled by their documented meaning); "
               "the portable fallbacks are called directly through etl::detail"]

TYPES = {"i8": (8, True), "u8": (8, False), "i16": (16, True), "u16": (16, False),
         "i32": (32, True), "u32": (32, False), "i64": (64, True), "u64": (64, False)}
FIXED = list(TYPES)
UNS = ["u8", "u16", "u32", "u64"]
ALIAS = {"ill": "i64", "ull": "u64"}


def lim(t):
    w, s = TYPES[ALIAS.get(t, t)]
    return (-(1 << (w - 1)), (1 << (w - 1)) - 1) if s else (0, (1 << w) - 1)


def clip(t, vals):
    lo, hi = lim(t)
    return sorted({v for v in vals if lo <= v <= hi})


import functools


@functools.lru_cache(maxsize=None)
def _boundary(t):
    """every single bit, all-ones-below-bit, +-1 neighbours, limits (and negatives for signed types)"""
    w, s = TYPES[ALIAS.get(t, t)]
    v = {0, 1, 2, 3}
    for k in range(w + 1):
        for d in (-2, -1, 0, 1, 2):
            v.add((1 << k) + d)
            v.add(-(1 << k) + d)
    lo, hi = lim(t)
    v |= {lo, lo + 1, lo + 2, hi, hi - 1, hi - 2, hi // 2, hi // 2 + 1, lo // 2}
    if not s:
        v |= {hi ^ (1 << k) for k in range(w)}           # all ones except one bit
        v |= {(hi >> k) << k for k in range(w)}          # ones above bit k
        v |= {0x5555555555555555 & hi, 0xAAAAAAAAAAAAAAAA & hi, 0x0123456789ABCDEF & hi, 0xFF00FF00FF00FF00 & hi}
    return tuple(clip(t, v))


def boundary(t):
    return list(_boundary(t))


def small_boundary(t):
    w, s = TYPES[ALIAS.get(t, t)]
    lo, hi = lim(t)
    v = {0, 1, 2, 3, 5, 6, 7, 10, 12, 100, 127, 128, 255, 256, lo, lo + 1, hi, hi - 1, hi // 2, hi // 2 + 1, hi // 3,
         1 << (w - 2), (1 << (w - 2)) + 1, (1 << (w // 2)), (1 << (w // 2)) - 1, (1 << (w // 2)) + 1}
    if s:
        v |= {-x for x in list(v)} | {lo // 2, lo // 2 - 1}
    return clip(t, v)


# limits +-1 of every fixed-width type: the interesting values for mixed-type comparisons / conversions
LIMITS = sorted({v + d for t in FIXED for v in lim(t) for d in (-1, 0, 1)} | {0, 1, -1, 2, -2, 100, -100})


def rnd(rng, t):
    lo, hi = lim(t)
    r = rng.random()
    if r < 0.5:
        return rng.randint(lo, hi)
    if r < 0.8:   # random magnitude
        k = rng.randint(0, TYPES[ALIAS.get(t, t)][0])
        v = rng.randint(0, (1 << k))
        if lo < 0 and rng.random() < 0.5:
            v = -v
        return min(max(v, lo), hi)
    return rng.choice(boundary(t))


def rows(out, lo, hi, tail, chunk=256, head="row", sample=False):
    """row cases covering [lo, hi] in chunks; sample=True keeps the chunks at both ends, around zero / the middle
    and every 6th chunk in between (quick tier of the 16-bit binary grid)"""
    chunks = []
    a = lo
    while a <= hi:
        b = min(hi, a + chunk - 1)
        chunks.append((a, b))
        a = b + 1
    n = len(chunks)
    for i, (a, b) in enumerate(chunks):
        if sample and not (i < 3 or i >= n - 3 or abs(i - n // 2) <= 2 or i % 6 == 1):
            continue
        out.append(f"{head} {a} {b} {tail}")


def ipow_no_ub(t, b, e):
    """mirror of the loop's arithmetic: False if a multiplication would overflow a signed (promoted) type"""
    w, s = TYPES[ALIAS.get(t, t)]
    lo, hi = lim(t)
    pw, ps = (32, True) if w < 32 else (w, s)
    r = 1
    if e > 400:
        return False
    for _ in range(max(0, e)):
        p = r * b
        if ps:
            if not (-(1 << (pw - 1)) <= p < (1 << (pw - 1))):
                return False
        else:
            p %= (1 << pw)
        # conversion back to Int
        p %= (1 << w)
        if s and p >= (1 << (w - 1)):
            p -= (1 << w)
        r = p
    return True


def gen(tier, rng):
    out = []
    quick = tier == "quick"
    nrand = 800 if quick else 20000

    # ------------------------------------------------------------------ 8-bit: exhaustive
    rows(out, 0, 255, "bits u8")
    for x in range(256):
        out.append(f"row -130 130 rot u8 {x}")
        out.append(f"row 0 255 bit u8 {x}")
        out.append(f"row 0 7 tbit u8 {x}")       # template<Pos> overloads: every word x every Pos
    for t in ("i8", "u8"):
        lo, hi = lim(t)
        rows(out, lo, hi, f"bswap {t}")
        rows(out, lo, hi, f"hton {t}")
        if t == "i8":
            rows(out, lo, hi, "hton c8")          # the `char` overloads
        rows(out, lo, hi, f"abs {t}")
        rows(out, lo, hi, f"ilog2 {t}")
        out.append(f"row 0 31 ipow2 {t}")
        for x in range(lo, hi + 1):
            for op in ("add_sat", "div_sat", "midpoint"):
                out.append(f"row {lo} {hi} {op} {t} {x}")
            out.append(f"row {max(lo, -3)} 12 ipow {t} {x}")
            for e in (31, 64, 127, 255):
                if e <= hi:
                    out.append(f"ipow {t} {x} {e}")
            if lo < 0:
                out.append(f"row {lo} -1 idiv {t} {x}")
            out.append(f"row 1 {hi} idiv {t} {x}")
            for t2 in ("i8", "u8"):
                l2, h2 = lim(t2)
                # quick: (i8,i8), (u8,u8) and the mixed pair (i8,u8) in full; the mirrored mixed pair (u8,i8) for
                # every 4th x (cmp_greater(t,u) = cmp_less(u,t) is already part of every cmp case)
                if not quick or not (t == "u8" and t2 == "i8") or x % 4 == 0:
                    out.append(f"row {l2} {h2} cmp {t} {t2} {x}")
                # gcd / lcm: same-type pairs in full; the mixed pair (i8,u8) for every 2nd x in quick, (u8,i8) thorough only
                if t2 == t or not quick or (t2 == "u8" and x % 2 == 0):
                    out.append(f"row {l2} {h2} gcd {t} {t2} {x}")
                    out.append(f"row {l2} {h2} lcm {t} {t2} {x}")
        for to in FIXED:
            rows(out, lo, hi, f"conv {to} {t}")

    # constant-evaluated table (must list exactly ct_bits<T>::vals of harness.cpp)
    for t in UNS:
        mx = lim(t)[1]
        out.append(f"ctbits {t} " + " ".join(str(v) for v in (0, 1, 2, 3, 5, mx // 3, mx // 2, mx // 2 + 1, mx - 1, mx)))

    # ------------------------------------------------------------------ 16-bit: every value (unary)
    rows(out, 0, 65535, "bits u16")
    rows(out, 0, 65535, "bswap u16")
    rows(out, 0, 65535, "hton u16")
    rows(out, -32768, 32767, "bswap i16", sample=quick)
    rows(out, -32768, 32767, "abs i16")
    rows(out, -32768, 32767, "ilog2 i16", sample=quick)
    rows(out, 0, 65535, "ilog2 u16")
    for t in ("i16", "u16"):
        lo, hi = lim(t)
        for to in FIXED:
            # quick: every value for the narrowing conversion to the 8-bit type of the same signedness, a sample
            # of the chunks for the 16-bit type of the other signedness
            if quick and to not in ("i8" if lo < 0 else "u8", "u16" if lo < 0 else "i16"):
                continue
            rows(out, lo, hi, f"conv {to} {t}", sample=quick and to in ("i16", "u16"))
        out.append(f"row 0 31 ipow2 {t}")
        # binary: every value x boundary set, both argument orders (quick: two boundary values per order and a
        # sample of the chunks, see rows())
        one = -1 if lo < 0 else 1
        # thorough: every other value of the boundary set (both ends kept) x the same chunk sample; the full
        # 2^16 x boundary grid would be ~60 M evaluations / 1.5 GB of text per leg, more than the engine can hold
        full = small_boundary(t)
        full = sorted(set(full[::2] + [full[0], full[-1]]))
        for bv in (full if not quick else [lo, hi]):
            for op in ("add_sat", "div_sat", "midpoint"):
                rows(out, lo, hi, f"{op} {t} {bv}", sample=True)
            if lo < 0:
                rows(out, lo, -1, f"idiv {t} {bv}", sample=True)
            rows(out, 1, hi, f"idiv {t} {bv}", sample=True)
            for t2 in ("i16", "u16"):
                l2, h2 = lim(t2)
                rows(out, l2, h2, f"cmp {t} {t2} {bv}", sample=True)
        for bv in (full if not quick else [hi, one]):
            for op in ("add_sat", "div_sat", "midpoint"):
                rows(out, lo, hi, f"{op} {t} {bv}", head="rox", sample=True)
            if bv != 0:
                rows(out, lo, hi, f"idiv {t} {bv}", head="rox", sample=True)
        for bv in (full if not quick else [hi, 27720 if lo < 0 else 30030]):
            for op in ("gcd", "lcm"):
                rows(out, lo, hi, f"{op} {t} {t} {bv}", sample=True)
    # the FULL 2^16 x boundary grid of the binary functions, legs digested (swp / swx: count, hash of the 65536
    # sub-legs, first disagreeing value): quick = the two limits as the fixed argument, thorough = the whole boundary set,
    # both argument orders
    for t in ("i16", "u16"):
        lo, hi = lim(t)
        other = "u16" if t == "i16" else "i16"
        SBV = small_boundary(t)
        for bv in ([lo if lo < 0 else hi // 2 + 1, hi] if quick else SBV):
            for op in ("add_sat", "div_sat", "midpoint"):
                out.append(f"swp {lo} {hi} {op} {t} {bv}")
                if not quick:
                    out.append(f"swx {lo} {hi} {op} {t} {bv}")
            out.append(f"swp {lim(other)[0]} {lim(other)[1]} cmp {t} {other} {bv}")
            if not quick:
                out.append(f"swp {lo} {hi} cmp {t} {t} {bv}")
                if lo < 0:
                    out.append(f"swp {lo} -1 idiv {t} {bv}")
                out.append(f"swp 1 {hi} idiv {t} {bv}")
                if bv != 0:
                    out.append(f"swx {lo} {hi} idiv {t} {bv}")
        for bv in ([hi] if quick else SBV[::3] + [hi]):
            out.append(f"swp {lo} {hi} gcd {t} {t} {bv}")
            if not quick:
                out.append(f"swp {lo} {hi} lcm {t} {t} {bv}")
                out.append(f"swp {lim(other)[0]} {lim(other)[1]} gcd {t} {other} {bv}")
    if not quick:
        for x in range(0, 65536, 37):
            out.append(f"row -130 130 rot u16 {x}")
    for i, x in enumerate(boundary("u16")):
        if i % 3 == 0 or not quick:
            out.append(f"row -130 130 rot u16 {x}")
        out.append(f"row 0 40 bit u16 {x}")
        out.append(f"row 0 15 tbit u16 {x}")
        for p in (255, 256, 32768, 65535):
            out.append(f"bit u16 {x} {p}")

    # ------------------------------------------------------------------ 32/64-bit (and long long)
    for t in ("u32", "u64", "ull"):
        w = TYPES[ALIAS.get(t, t)][0]
        lo, hi = lim(t)
        B = boundary(t)
        vals = B + [rnd(rng, t) for _ in range(nrand)]
        for x in vals:
            out.append(f"bits {t} {x}")
            out.append(f"bswap {t} {x}")
        if t == "u32":
            for x in vals:
                out.append(f"hton {t} {x}")
        for x in ([] if (quick and t == "ull") else B[:: (16 if quick else 1)] + [rnd(rng, t) for _ in range(8 if quick else 3000)]):
            out.append(f"row -130 130 rot {t} {x}")
            out.append(f"row 0 {w - 1} bit {t} {x}")
            for p in (w, w + 1, 255, 256, (1 << 31) - 1, 1 << 31, (1 << 31) + 3, hi, hi - 1, (1 << 32) % (hi + 1),
                      ((1 << 32) + 5) % (hi + 1), (1 << 63) % (hi + 1)):
                out.append(f"bit {t} {x} {p}")
            for s in (-2147483648, -2147483647, 2147483647, 2147483646, -65536, 65536, 1 << 30, -(1 << 30), 1000003, -1000003):
                out.append(f"rot {t} {x} {s}")
        for _ in range(nrand):
            out.append(f"rot {t} {rnd(rng, t)} {rng.randint(-2**31, 2**31 - 1)}")
        # template<Pos> overloads: every Pos x boundary words (bit set / bit clear at every position occurs: single
        # bits, all-ones-but-one, alternating patterns) and random words
        for x in (B[::3] if quick else B) + [0, hi, hi // 3, hi - hi // 3] + [rnd(rng, t) for _ in range(16 if quick else 2000)]:
            out.append(f"row 0 {w - 1} tbit {t} {x}")
    for t in ("i32", "i64", "ill"):
        for x in boundary(t) + [rnd(rng, t) for _ in range(nrand)]:
            out.append(f"bswap {t} {x}")
    for t in ("i32", "u32", "i64", "u64", "ill", "ull"):
        lo, hi = lim(t)
        w = TYPES[ALIAS.get(t, t)][0]
        B = boundary(t)
        for x in B + [rnd(rng, t) for _ in range(nrand)]:
            if not (lo < 0 and x == lo):
                out.append(f"abs {t} {x}")
            out.append(f"ilog2 {t} {x}")
        for e in range(0, w):
            out.append(f"ipow2 {t} {e}")
        SB = small_boundary(t)
        if quick:
            SB = clip(t, [lo, lo + 1, lo // 2, -256, -255, -2, -1, 0, 1, 2, 3, 255, 256, (1 << (w // 2)) - 1, 1 << (w // 2),
                          (1 << (w // 2)) + 1, hi // 2, hi // 2 + 1, hi - 1, hi, -(1 << (w // 2)), 1 << (w - 2), -(1 << (w - 2))])
        pairs = [(x, y) for x in SB for y in SB]
        pairs += [(rnd(rng, t), rnd(rng, t)) for _ in range(nrand * 2)]
        pairs += [(x, y) for x in B[::5] for y in (lo, lo + 1, hi, hi - 1, 0, 1, 2) + ((-1, -2) if lo < 0 else ())]
        pairs += [(y, x) for x in B[::5] for y in (lo, lo + 1, hi, hi - 1, 0, 1, 2) + ((-1, -2) if lo < 0 else ())]
        for (x, y) in pairs:
            out.append(f"add_sat {t} {x} {y}")
            out.append(f"div_sat {t} {x} {y}")
            out.append(f"midpoint {t} {x} {y}")
            if y != 0 and not (lo < 0 and x == lo and y == -1):
                out.append(f"idiv {t} {x} {y}")
    # ipow: only inputs without undefined behaviour in the loop (signed / promoted multiplication overflow)
    for t in ("i16", "u16", "i32", "u32", "i64", "u64"):
        lo, hi = lim(t)
        bases = clip(t, [-10, -7, -3, -2, -1, 0, 1, 2, 3, 5, 7, 10, 15, 16, 17, 181, 182, 255, 256, 257, -181, -182, -256,
                         1290, 1291, 46340, 46341, -46340, -46341, 65535, 65536, 2097151, 2097152, -2097152, 3037000499,
                         3037000500, 4294967295, 4294967296, lo, hi, lo + 1, hi - 1])
        for b in bases + [rnd(rng, t) for _ in range(8 if quick else 100)]:
            for e in list(range(0, 18)) + [30, 31, 32, 33, 39, 40, 41, 62, 63, 64, 65, 100, -1, -5, lo] + ([] if quick else list(range(18, 70)) + [200, 255]):
                if lo <= e <= hi and ipow_no_ub(t, b, e):
                    out.append(f"ipow {t} {b} {e}")

    # ipow<Base>(exponent): Base == 2 is a shift (exponent must be a valid shift count of the promoted type), every
    # other Base forwards to ipow(Base, exponent)
    for t in ("i8", "u8", "i16", "u16", "i32", "u32", "i64", "u64", "ill", "ull"):
        lo, hi = lim(t)
        w = TYPES[ALIAS.get(t, t)][0]
        for b in (0, 1, 2, 3, 10, -1, -2):
            if not lo <= b <= hi:
                continue
            for e in list(range(0, 70)) + [100, 127, -1, -5, lo]:
                if not lo <= e <= hi:
                    continue
                if (0 <= e < max(32, w)) if b == 2 else ipow_no_ub(t, b, e):
                    out.append(f"ipowb {t} {b} {e}")

    # ------------------------------------------------------------------ all 64 type pairs
    for ta in FIXED:
        Va = clip(ta, LIMITS) + [rnd(rng, ta) for _ in range(4 if quick else 40)]
        for tb in FIXED:
            Vb = clip(tb, LIMITS) + [rnd(rng, tb) for _ in range(4 if quick else 40)]
            for a in Va:
                out.append(f"conv {tb} {ta} {a}")
                for b in Vb:
                    out.append(f"cmp {ta} {tb} {a} {b}")
            G = [(0, 0), (0, 5), (5, 0), (4, 6), (6, 4), (12, 18), (3, 258), (258, 3), (100, 75), (17, 13), (1, 1), (127, 127),
                 (2, 128), (255, 85), (196608, 131072), (65535, 65535), (65536, 65536), (46341, 46341), (4294967296, 6),
                 (3037000500, 3037000500), (-4, 6), (4, -6), (-4, -6), (-4, 0), (0, -4), (-128, 64), (-128, -128), (-32768, 16384),
                 (-2147483648, 65536), (-2147483648, -2147483648), (2147483647, 2147483647), (lim(ta)[0], lim(tb)[0]),
                 (lim(ta)[1], lim(tb)[1]), (lim(ta)[0], lim(tb)[1]), (lim(ta)[1], lim(tb)[0]), (lim(ta)[0], 1), (1, lim(tb)[0]),
                 (lim(ta)[0], -1), (lim(ta)[1], 2), (lim(ta)[1] // 2 + 1, 2), (lim(ta)[1] // 3, 3)]
            G += [(rnd(rng, ta), rnd(rng, tb)) for _ in range(10 if quick else 300)]
            G += [(rng.randint(1, 200) * g, rng.randint(1, 200) * g) for g in (1, 2, 3, 7, 64, 1000) for _ in range(2)]
            for (m, n) in G:
                if lim(ta)[0] <= m <= lim(ta)[1] and lim(tb)[0] <= n <= lim(tb)[1]:
                    out.append(f"gcd {ta} {tb} {m} {n}")
                    out.append(f"lcm {ta} {tb} {m} {n}")
    # ------------------------------------------------------------------ long long / unsigned long long in the two-type
    # functions (distinct types from long / unsigned long with the same representation: make_unsigned_t, common_type_t)
    LL = ["ill", "ull"]
    LLV = sorted({v for t in ("i32", "u32", "i64", "u64") for v in lim(t)} | {0, 1, -1})
    for ta in FIXED + LL:
        for tb in FIXED + LL:
            if ta not in LL and tb not in LL:
                continue
            Va = clip(ta, LLV if quick else LIMITS) + [rnd(rng, ta) for _ in range(2 if quick else 20)]
            Vb = clip(tb, LLV if quick else LIMITS) + [rnd(rng, tb) for _ in range(2 if quick else 20)]
            for a in Va:
                out.append(f"conv {tb} {ta} {a}")
                for b in Vb:
                    out.append(f"cmp {ta} {tb} {a} {b}")
            G = [(0, 0), (4, 6), (-4, 6), (4, -6), (-4, -6), (0, -4), (196608, 131072), (-2147483648, 65536), (4294967296, 6),
                 (lim(ta)[0], lim(tb)[0]), (lim(ta)[1], lim(tb)[1]), (lim(ta)[0], 1), (1, lim(tb)[0]), (lim(ta)[0], lim(tb)[1])]
            G += [(rnd(rng, ta), rnd(rng, tb)) for _ in range(2 if quick else 100)]
            for (m, n) in G:
                if lim(ta)[0] <= m <= lim(ta)[1] and lim(tb)[0] <= n <= lim(tb)[1]:
                    out.append(f"gcd {ta} {tb} {m} {n}")
                    out.append(f"lcm {ta} {tb} {m} {n}")
    return out


def nontrivial(case, impl):
    return not (impl.startswith("unknown-op") or impl.startswith("crash") or impl.startswith("missing"))


# ---------------------------------------------------------------------------------------------------------------------
# compile-time obligations: the template<size_t Pos> overloads of set/reset/flip/test_bit accept every Pos < digits and
# reject every other Pos with their static_assert.  Two translation units per compiler (g++, clang++): one with all
# accepted instantiations (must compile), one with all rejected ones, one per line (every line must be reported as the
# origin of a failed static assertion).  The expectation is the MODEL's: `tbit <ut> 1 <Pos>` through the driver
# (`ok ...` = Some, `static_assert` = None).  Results are cached per include-tree hash.
CT_TYPES = [("u8", "unsigned char", 8), ("u16", "unsigned short", 16), ("u32", "unsigned int", 32), ("u64", "unsigned long", 64),
            ("ull", "unsigned long long", 64)]
CT_FUNCS = [("set_bit", "{f}<{p}>(w)"), ("set_bit_val", "etl::set_bit<{p}>(w, false)"), ("reset_bit", "{f}<{p}>(w)"),
            ("flip_bit", "{f}<{p}>(w)"), ("test_bit", "{f}<{p}>(w)")]


def ct_probes():
    """(ut, ctype, function, Pos) for every probe"""
    out = []
    for ut, ct, w in CT_TYPES:
        for pos in (0, w - 1, w, w + 1, 255, 1 << 31, 1 << 32, (1 << 32) + 3, (1 << 63), (1 << 64) - 1):
            for fn, _ in CT_FUNCS:
                out.append((ut, ct, fn, pos))
    return out


def ct_expr(fn, pos):
    pat = dict(CT_FUNCS)[fn]
    return pat.format(f="etl::" + fn, p=f"{pos}ULL")


def extra_checks(ctx):
    import hashlib
    import json
    import re
    import subprocess
    import sys
    from pathlib import Path
    root = Path(__file__).resolve().parent.parent.parent
    sys.path.insert(0, str(root))
    from vlib import engine
    items = []
    probes = ct_probes()
    # the model's answer for every probe
    drv = engine.build_driver(ID)
    cases = [f"tbit {ut} 1 {pos}" for (ut, ct, fn, pos) in probes]
    _, lines, _ = engine.run_bin(drv, cases)
    expect = [engine.split_legs(l)[0] for l in lines]            # model leg: "ok ..." or "static_assert"
    work = engine.HBUILD / ID / "ct"
    work.mkdir(parents=True, exist_ok=True)
    key = hashlib.sha256((engine.include_hash() + repr(probes) + repr(CT_FUNCS) + "v2").encode()).hexdigest()[:20]
    cache_path = work / "probe-cache.json"
    try:
        cache = json.loads(cache_path.read_text())
    except Exception:
        cache = {}
    if cache.get("key") != key:
        cache = {"key": key, "results": {}}
        for cxx in ("g++", "clang++"):
            pos_lines, neg_lines = [], []
            head = "#include <etl/bit.hpp>\n"
            pos_tu = head
            neg_tu = head
            for i, (ut, ct, fn, pos) in enumerate(probes):
                line = f"auto p{i}({ct} w) {{ return {ct_expr(fn, pos)}; }}\n"
                # every probe goes into BOTH units at a known line: into the unit the model predicts and - for the
                # opposite verdict - nowhere; a wrong prediction shows up as a compile error / a missing error there
                if expect[i].startswith("ok"):
                    pos_tu += line
                    pos_lines.append((pos_tu.count("\n"), i))
                else:
                    neg_tu += line
                    neg_lines.append((neg_tu.count("\n"), i))
            res = {}
            for name, tu in (("pos", pos_tu), ("neg", neg_tu)):
                f = work / f"probe_{cxx.replace('+', 'x')}_{name}.cpp"
                f.write_text(tu)
                # clang stops after 20 errors by default; g++ has no limit
                lim = ["-ferror-limit=0"] if cxx == "clang++" else []
                r = subprocess.run([cxx, "-std=c++20", "-fsyntax-only"] + lim + [f"-I{engine.REPO}/include", str(f)],
                                   capture_output=True, text=True, timeout=600)
                res[name] = (r.returncode, r.stderr)
            bad = []
            # accepted unit: must compile; on failure name the probes whose line is mentioned
            if res["pos"][0] != 0:
                hit = {int(m) for m in re.findall(r"probe_\w+_pos\.cpp:(\d+):", res["pos"][1])}
                named = [i for (ln, i) in pos_lines if ln in hit] or [pos_lines[0][1]]
                for i in named[:5]:
                    bad.append((i, "does not compile: " + res["pos"][1][-300:]))
            # rejected unit: every line must be the origin of a failed static assertion
            hit = {int(m) for m in re.findall(r"probe_\w+_neg\.cpp:(\d+):", res["neg"][1])}
            n_static = len(re.findall(r"static[_ ]assert", res["neg"][1]))
            for (ln, i) in neg_lines:
                if ln not in hit or n_static == 0:
                    bad.append((i, "compiles (no static assertion failed at this instantiation)"))
            cache["results"][cxx] = {"bad": bad[:20], "accepted": len(pos_lines), "rejected": len(neg_lines)}
        cache_path.write_text(json.dumps(cache))
    total = 0
    for cxx, r in cache["results"].items():
        total += r["accepted"] + r["rejected"]
        for i, why in r["bad"][:3]:
            ut, ct, fn, pos = probes[i]
            items.append({"kind": "violation", "found_input": True,
                          "text": f"compile-time obligation: {fn}<{pos}>({ct}) with {cxx}: {why}; model: {expect[i]}",
                          "payload": {"property": ID, "kind": "compile-time obligation (template<Pos> static_assert)",
                                      "case": cases[i], "compiler": cxx, "impl": why, "model": expect[i],
                                      "expression": ct_expr(fn, pos), "type": ct}})
    ctx.evidence = dict(getattr(ctx, "evidence", {}), compile_time_probes=total)
    return items
