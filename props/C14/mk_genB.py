"""regenerates coq/C14/GenEquivB.v and coq/C14/Properties_genB.v (translator tie, second batch) from the lists PAIRS / SAT;
keep the lists equal to those of translate/mk_kernels_bits2.py.  Usage: python3 props/C14/mk_genB.py"""
PAIRS=[("i32","u32"),("i8","u64"),("u32","i64"),("i64","u64"),("u8","i8"),("i16","i32"),("u32","i32")]
SAT=[("u8","i32"),("i8","i32"),("i32","u32"),("u32","i64"),("i64","u64"),("u64","i8")]
out=[]
A=out.append
A('''(* C14, translator tie, second batch (translate/kernels_bits2.json -> coq/Gen/Gen_bits2.v, regenerated from /repo on every run):
   generated definition = hand model (C14/Model.v) for ALL arguments of the documented domain.
   - cmp_greater / cmp_less_equal / cmp_greater_equal / cmp_not_equal for the six mixed (T, U) pairs of the first batch plus (unsigned, int) and
     in_range<U>(T) for the same pairs: every value of T (and of U); the generated text CALLS the generated cmp_less /
     cmp_equal instantiations it forwards to (translated on demand, `auto_callees`), which are unfolded here;
   - saturate_cast<To>(From) for six (To, From) pairs: every value of From;
   - detail::byteswap_fallback for uint16/32/64, experimental::net::ntoh / hton for uint8/16/32: every value of the type;
   - detail::add_sat_fallback for long / unsigned long (the straight-line branch): ALL integer pairs (long), values of the
     type (unsigned long);
   - abs for int / long: all integers (abs(min) is None on both sides);
   - the template<Pos> single-bit wrappers set_bit<Pos>(w), set_bit<Pos>(w, v), reset_bit<Pos>, flip_bit<Pos>, test_bit<Pos>
     for (unsigned char, Pos = 7) and (unsigned, Pos = 31): every word.
   [ok_of]: Ok v -> Some v, every other model outcome -> None (GenEquiv.v). *)
From Tetl Require Import Lib.Base Lib.MachOps C14.Spec C14.Model C14.Arith C14.Bits C14.ProofsRot C14.ProofsCmp C14.GenEquiv.
From Tetl Require Gen.Gen_bits2.
From Coq Require Import ZifyBool Btauto.
Local Open Scope Z_scope.
Ltac Zify.zify_post_hook ::= Z.to_euclidean_division_equations.

(** * calls between generated definitions: unfold every generated callee (whatever its name), keep the checked
      machine operations *)
Ltac head_of t := lazymatch t with ?f _ => head_of f | _ => t end.
Ltac unfold_calls :=
  repeat (cbn [obind];
          match goal with
          | |- context [?c] =>
              lazymatch type of c with option _ => idtac end;
              let h := head_of c in
              lazymatch h with
              | chk => fail | shl_chk => fail | shr_chk => fail | div_chk => fail | rem_chk => fail
              | @obind => fail | @ok_of => fail
              | _ => is_const h; unfold h
              end
          end);
  cbn [obind].

Ltac unwrap_all := unfold wrap_ty, wrapu, wraps in *; cbn [sgn bits u8 u16 u32 u64 i8 i16 i32 i64] in *.
Ltac ranges :=
  repeat match goal with H : in_ty _ _ = true |- _ => apply in_ty_range in H end; consts.
Ltac ifs_lia :=
  repeat first [ progress cbn [obind] | match goal with |- context [if ?c then _ else _] =>
                     lazymatch c with context [if _ then _ else _] => fail | _ => destruct c eqn:? end end ];
  try reflexivity; try (f_equal; lia); try lia.

(** * cmp_greater / cmp_less_equal / cmp_greater_equal / cmp_not_equal: values of the two types *)
Ltac cmpB := unfold_calls; ranges; unwrap_all; consts; ifs_lia.
''')
SPEC={"cmp_greater":"cmp_greater","cmp_less_equal":"cmp_less_equal","cmp_greater_equal":"cmp_greater_equal","cmp_not_equal":"cmp_not_equal"}
for f in SPEC:
    for t,u in PAIRS:
        A(f'''Lemma {f}_{t}_{u}_eq t u : in_ty {t} t = true -> in_ty {u} u = true ->
  Gen_bits2.{f}_{t}_{u}_g t u = Some ({f}_m {t} {u} t u).
Proof.
  intros Ht Hu. rewrite ({f}_ok {t} {u} t u ltac:(wt) ltac:(wt) Ht Hu).
  unfold Gen_bits2.{f}_{t}_{u}_g, {f}_spec. cmpB.
Qed.''')
A("\n(** * in_range<R>(T t): every value of T *)")
for t,u in PAIRS:
    A(f'''Lemma in_range_{u}_of_{t}_eq t : in_ty {t} t = true ->
  Gen_bits2.in_range_{u}_of_{t}_g t = Some (in_range_m {u} {t} t).
Proof.
  intros Ht. rewrite (in_range_ok {u} {t} t ltac:(wt) ltac:(wt) Ht).
  unfold Gen_bits2.in_range_{u}_of_{t}_g, in_range_spec, in_ty. cmpB.
Qed.''')
A("\n(** * saturate_cast<To>(From x): every value of From *)")
for to,fr in SAT:
    A(f'''Lemma saturate_cast_{to}_of_{fr}_eq x : in_ty {fr} x = true ->
  Gen_bits2.saturate_cast_{to}_of_{fr}_g x = ok_of (saturate_cast_m {to} {fr} x).
Proof.
  intros Hx. rewrite (saturate_cast_ok {to} {fr} x ltac:(wt) ltac:(wt) Hx). cbn [ok_of].
  unfold Gen_bits2.saturate_cast_{to}_of_{fr}_g, saturate_cast_spec, sat, clamp. cmpB.
Qed.''')
open("/verif/coq/C14/GenEquivB.v","w").write("\n".join(out)+"\n")

out=[open("/verif/coq/C14/GenEquivB.v").read()]
A=out.append
A('''
(** * detail::byteswap_fallback (uint16/32/64), experimental::net::ntoh / hton (uint8/16/32): EVERY integer argument
      (both sides run the same checked shifts in the same order; lockstep) *)
Ltac ev_eqb :=
  repeat match goal with
         | |- context [?a =? ?b] => is_closed_z a; is_closed_z b;
             let v := eval vm_compute in (a =? b) in change (a =? b) with v
         end; cbv iota.
Ltac bswap_tac :=
  unfold_calls; cbv zeta; ev_eqb;
  rewrite ?shl_res, ?shr_res by (cbn; lia); prom;
  repeat match goal with
         | |- context [shl_chk ?t ?x ?k] => destruct (shl_chk t x k) eqn:?; cbn [obind rbind res_of ok_of]; [|reflexivity]
         | |- context [shr_chk ?t ?x ?k] => destruct (shr_chk t x k) eqn:?; cbn [obind rbind res_of ok_of]; [|reflexivity]
         end;
  cbn [obind rbind res_of ok_of]; rewrite ?wu_wrapu by lia; unwrap; try reflexivity;
  (* the operands of | may come in any order / association in the source *)
  try (match goal with
       | |- Some (wrapu ?w ?a) = Some (wrapu ?w ?b) => apply (f_equal (fun z => Some (wrapu w z)))
       | |- Some ?a = Some ?b => apply (f_equal (@Some Z))
       end; apply Z.bits_inj'; intros ? ?; rewrite ?Z.lor_spec; btauto).
''')
for w in (16,32,64):
    A(f'''Lemma byteswap_fallback_u{w}_eq val : Gen_bits2.byteswap_fallback_u{w}_g val = ok_of (byteswap_fallback_m {w} val).
Proof. unfold Gen_bits2.byteswap_fallback_u{w}_g, byteswap_fallback_m. bswap_tac. Qed.''')
for f in ("ntoh","hton"):
    for w in (8,16,32):
        A(f'''Lemma {f}_u{w}_eq v : Gen_bits2.{f}_u{w}_g v = ok_of ({f}_m {w} v).
Proof. unfold Gen_bits2.{f}_u{w}_g, hton_m, ntoh_m. bswap_tac. Qed.''')
A('''
(** * detail::add_sat_fallback, long / unsigned long (the branch without a wider type): ALL integer pairs *)
Lemma add_sat_fallback_i64_eq x y : Gen_bits2.add_sat_fallback_i64_g x y = ok_of (add_sat_fallback_m i64 x y).
Proof.
  unfold Gen_bits2.add_sat_fallback_i64_g, add_sat_fallback_m, arith. cbv zeta. cbn [bits sgn i64]. ev_eqb.
  change (64 <? 32) with false. cbv iota. change (promote i64) with i64. consts. cmp_norm.
  rewrite !arith_signed_res by reflexivity.
  destruct (0 <=? x);
    (match goal with |- context [chk i64 (?c - x)] => destruct (chk i64 (c - x)) as [d|] eqn:? end;
     cbn [obind rbind ok_of]; [|reflexivity];
     match goal with |- context [if ?c then _ else _] => destruct c end; cbn [obind rbind ok_of]; [reflexivity|];
     rewrite ?arith_signed_res by reflexivity; mid_signed_fin WT_i64).
Qed.

Lemma add_sat_fallback_u64_eq x y : Gen_bits2.add_sat_fallback_u64_g x y = ok_of (add_sat_fallback_m u64 x y).
Proof.
  unfold Gen_bits2.add_sat_fallback_u64_g, add_sat_fallback_m, arith. cbv zeta. cbn [bits sgn u64]. ev_eqb.
  change (64 <? 32) with false. cbv iota. change (promote u64) with u64. consts. cmp_norm.
  rewrite !arith_in_unsigned by reflexivity. cbn [bits u64 rbind].
  rewrite ?cast_wrap_ty, ?wu_wrapu by (cbn; lia). unwrap.
  destruct (0 <=? x); cbn [rbind];
    (match goal with |- context [if ?c then _ else _] => destruct c end; cbn [obind rbind ok_of]; [reflexivity|];
     rewrite ?arith_in_unsigned by reflexivity; cbn [rbind ok_of bits u64];
     rewrite ?cast_wrap_ty, ?wu_wrapu by (cbn; lia); unwrap; rewrite ?wrapu_idem by lia; reflexivity).
Qed.

(** * abs for int / long: all integers (abs(min): None = signed overflow on both sides) *)
Lemma abs_i32_eq x : Gen_bits2.abs_i32_g x = ok_of (abs_m i32 x).
Proof.
  unfold Gen_bits2.abs_i32_g, abs_m, arith. cbn [sgn i32 andb]. change (promote i32) with i32. cmp_norm.
  destruct (x <? 0); [|reflexivity]. rewrite Z.sub_0_l, arith_signed_res by reflexivity. mid_signed_fin WT_i32'.
Qed.
Lemma abs_i64_eq x : Gen_bits2.abs_i64_g x = ok_of (abs_m i64 x).
Proof.
  unfold Gen_bits2.abs_i64_g, abs_m, arith. cbn [sgn i64 andb]. change (promote i64) with i64. cmp_norm.
  destruct (x <? 0); [|reflexivity]. rewrite Z.sub_0_l, arith_signed_res by reflexivity. mid_signed_fin WT_i64.
Qed.

(** * the template<size_t Pos> single-bit wrappers for (unsigned char, Pos = 7) and (unsigned, Pos = 31): every word.
      The wrapper is generated as a CALL of the run-time overload it forwards to (translated on demand from the same
      source as the first batch's kernel, so the two texts are convertible); [None] of the model = static_assert. *)
Lemma obind_some_id {A} (o : option A) : obind o (fun t => Some t) = o.
Proof. destruct o; reflexivity. Qed.
''')
for (w,pos,t) in ((8,7,"u8"),(32,31,"u32")):
    for f,m,extra,args in (("set_bit","set_bit",""," word"),("reset_bit","reset_bit",""," word"),("flip_bit","flip_bit",""," word"),("test_bit","test_bit",""," word"),("set_bit_val","assign_bit"," v"," word v")):
        gen=f"{f}_tpl{pos}_{t}_g"
        orig=f"Gen_bits.{f}_{t}_g word {pos}{extra}"
        A(f'''Lemma {f}_tpl{pos}_{t}_eq word{extra} : 0 <= word < 2 ^ {w} ->
  Some (Gen_bits2.{gen} word{extra}) = option_map ok_of ({m}_tpl_m {w} {pos}{args}).
Proof.
  intros Hw. unfold Gen_bits2.{gen}, {m}_tpl_m, tpl_pos. change ({pos} <? {w}) with true. cbv iota. cbn [option_map]. f_equal.
  change (wrap_ty {t} {pos}) with {pos}. change (wu {w} {pos}) with {pos}. rewrite obind_some_id.
  rewrite <- ({f}_{t}_eq word {pos}{extra} Hw ltac:(lia)). reflexivity.
Qed.''')
open("/verif/coq/C14/GenEquivB.v","w").write("\n".join(out)+"\n")

# ---- summary lemmas + Properties_genB.v
PAIRS=[("i32","u32"),("i8","u64"),("u32","i64"),("i64","u64"),("u8","i8"),("i16","i32"),("u32","i32")]
SAT=[("u8","i32"),("i8","i32"),("i32","u32"),("u32","i64"),("i64","u64"),("u64","i8")]
G="Gen_bits2."
def conj(xs,ind="  "): return ("\n"+ind+"/\\ ").join(xs)
# ---------- model statement
cmp_blocks=[]
for t,u in PAIRS:
    cs=[f"{G}{f}_{t}_{u}_g t u = Some ({f}_m {t} {u} t u)" for f in ("cmp_greater","cmp_less_equal","cmp_greater_equal","cmp_not_equal")]
    cmp_blocks.append(f"(in_ty {t} t = true -> in_ty {u} u = true ->\n      "+conj(cs,"      ")+")")
inr=[f"(in_ty {t} t = true -> {G}in_range_{u}_of_{t}_g t = Some (in_range_m {u} {t} t))" for t,u in PAIRS]
sat=[f"(in_ty {fr} x = true -> {G}saturate_cast_{to}_of_{fr}_g x = ok_of (saturate_cast_m {to} {fr} x))" for to,fr in SAT]
bs=[f"{G}byteswap_fallback_u{w}_g v = ok_of (byteswap_fallback_m {w} v)" for w in (16,32,64)]
bs+=[f"{G}{f}_u{w}_g v = ok_of ({f}_m {w} v)" for f in ("ntoh","hton") for w in (8,16,32)]
ar=[f"{G}add_sat_fallback_i64_g x y = ok_of (add_sat_fallback_m i64 x y)", f"{G}add_sat_fallback_u64_g x y = ok_of (add_sat_fallback_m u64 x y)",
    f"{G}abs_i32_g x = ok_of (abs_m i32 x)", f"{G}abs_i64_g x = ok_of (abs_m i64 x)"]
tpl=[]
for (w,pos,t) in ((8,7,"u8"),(32,31,"u32")):
    cs=[f"Some ({G}{f}_tpl{pos}_{t}_g word) = option_map ok_of ({f}_tpl_m {w} {pos} word)" for f in ("set_bit","reset_bit","flip_bit","test_bit")]
    cs.append(f"Some ({G}set_bit_val_tpl{pos}_{t}_g word v) = option_map ok_of (assign_bit_tpl_m {w} {pos} word v)")
    tpl.append(f"(0 <= word < 2 ^ {w} ->\n      "+conj(cs,"      ")+")")
model_stmt=f'''  (forall t u,
    {conj(cmp_blocks,"    ")})
  /\\ (forall t,
    {conj(inr,"    ")})
  /\\ (forall x,
    {conj(sat,"    ")})
  /\\ (forall v,
    {conj(bs,"    ")})
  /\\ (forall x y,
    {conj(ar,"    ")})
  /\\ (forall word v,
    {conj(tpl,"    ")})'''
# ---------- spec statement
cmp_s=[]
SP={"cmp_greater":"cmp_greater_spec t u","cmp_less_equal":"cmp_less_equal_spec t u","cmp_greater_equal":"cmp_greater_equal_spec t u","cmp_not_equal":"cmp_not_equal_spec t u"}
for t,u in PAIRS:
    cs=[f"{G}{f}_{t}_{u}_g t u = Some ({SP[f]})" for f in SP]
    cmp_s.append(f"(in_ty {t} t = true -> in_ty {u} u = true ->\n      "+conj(cs,"      ")+")")
inr_s=[f"(in_ty {t} t = true -> {G}in_range_{u}_of_{t}_g t = Some (in_range_spec {u} t))" for t,u in PAIRS]
sat_s=[f"(in_ty {fr} x = true -> {G}saturate_cast_{to}_of_{fr}_g x = Some (saturate_cast_spec {to} x))" for to,fr in SAT]
bs_s=[f"(0 <= v < 2 ^ {w} -> {G}byteswap_fallback_u{w}_g v = Some (byteswap_u_spec {w//8} v))" for w in (16,32,64)]
bs_s+=[f"(0 <= v < 2 ^ {w} -> {G}{f}_u{w}_g v = Some (hton_spec {w} v))" for f in ("ntoh","hton") for w in (8,16,32)]
ar_s=[f"(in_ty i64 x = true -> in_ty i64 y = true -> {G}add_sat_fallback_i64_g x y = Some (add_sat_spec i64 x y))",
      f"(in_ty u64 x = true -> in_ty u64 y = true -> {G}add_sat_fallback_u64_g x y = Some (add_sat_spec u64 x y))",
      f"(in_ty i32 x = true -> in_ty i32 (Z.abs x) = true -> {G}abs_i32_g x = Some (abs_spec x))",
      f"(in_ty i64 x = true -> in_ty i64 (Z.abs x) = true -> {G}abs_i64_g x = Some (abs_spec x))",
      f"{G}abs_i32_g (imin i32) = None", f"{G}abs_i64_g (imin i64) = None"]
tpl_s=[]
for (w,pos,t) in ((8,7,"u8"),(32,31,"u32")):
    cs=[f"{G}set_bit_tpl{pos}_{t}_g word = Some (set_bit_spec word {pos})", f"{G}reset_bit_tpl{pos}_{t}_g word = Some (reset_bit_spec word {pos})",
        f"{G}flip_bit_tpl{pos}_{t}_g word = Some (flip_bit_spec word {pos})", f"{G}test_bit_tpl{pos}_{t}_g word = Some (test_bit_spec word {pos})",
        f"{G}set_bit_val_tpl{pos}_{t}_g word v = Some (assign_bit_spec word {pos} v)"]
    tpl_s.append(f"(0 <= word < 2 ^ {w} ->\n      "+conj(cs,"      ")+")")
spec_stmt=f'''  (forall t u,
    {conj(cmp_s,"    ")})
  /\\ (forall t,
    {conj(inr_s,"    ")})
  /\\ (forall x,
    {conj(sat_s,"    ")})
  /\\ (forall v,
    {conj(bs_s,"    ")})
  /\\ (forall x y,
    {conj(ar_s,"    ")})
  /\\ (forall word v,
    {conj(tpl_s,"    ")})'''
eqs=[f"{f}_{t}_{u}_eq" for f in SP for t,u in PAIRS]+[f"in_range_{u}_of_{t}_eq" for t,u in PAIRS]+[f"saturate_cast_{to}_of_{fr}_eq" for to,fr in SAT]
eqs+=[f"byteswap_fallback_u{w}_eq" for w in (16,32,64)]+[f"{f}_u{w}_eq" for f in ("ntoh","hton") for w in (8,16,32)]
eqs+=["add_sat_fallback_i64_eq","add_sat_fallback_u64_eq","abs_i32_eq","abs_i64_eq"]
eqs+=[f"{f}_tpl{pos}_{t}_eq" for (pos,t) in ((7,"u8"),(31,"u32")) for f in ("set_bit","reset_bit","flip_bit","test_bit","set_bit_val")]
apply_any="first [ "+" | ".join(f"apply {e}" for e in eqs)+" ]"
src=open("/verif/coq/C14/GenEquivB.v").read()
mark="\n(** * summary: generated = model, generated = mathematical definition *)"
if mark in src: src=src[:src.index(mark)]
src=src.replace("C14.ProofsRot C14.ProofsCmp C14.GenEquiv.","C14.ProofsRot C14.ProofsCmp C14.ProofsSat C14.ProofsNum C14.ProofsSwap C14.ProofsBit C14.GenEquiv C14.GenSpec.")

def cj(xs):
    return xs[0] if len(xs)==1 else f"(conj {xs[0]} {cj(xs[1:])})"
CF=("cmp_greater","cmp_less_equal","cmp_greater_equal","cmp_not_equal")
def term(sfx):
    cmp_t=cj([f"(fun Ht Hu => {cj([f'({f}_{t}_{u}_{sfx} t u Ht Hu)' for f in CF])})" for t,u in PAIRS])
    inr_t=cj([f"(in_range_{u}_of_{t}_{sfx} t)" for t,u in PAIRS])
    sat_t=cj([f"(saturate_cast_{to}_of_{fr}_{sfx} x)" for to,fr in SAT])
    bs_t=cj([f"(byteswap_fallback_u{w}_{sfx} v)" for w in (16,32,64)]+[f"({f}_u{w}_{sfx} v)" for f in ("ntoh","hton") for w in (8,16,32)])
    return cmp_t,inr_t,sat_t,bs_t
cmp_t,inr_t,sat_t,bs_t=term("eq")
ar_t=cj(["(add_sat_fallback_i64_eq x y)","(add_sat_fallback_u64_eq x y)","(abs_i32_eq x)","(abs_i64_eq x)"])
tpl_t=cj([f"(fun Hw => {cj([f'({f}_tpl{pos}_{t}_eq word Hw)' for f in ('set_bit','reset_bit','flip_bit','test_bit')]+[f'(set_bit_val_tpl{pos}_{t}_eq word v Hw)'])})" for (pos,t) in ((7,"u8"),(31,"u32"))])
model_term=f"(conj (fun t u => {cmp_t}) (conj (fun t => {inr_t}) (conj (fun x => {sat_t}) (conj (fun v => {bs_t}) (conj (fun x y => {ar_t}) (fun word v => {tpl_t}))))))"
sp=[]
for f in CF:
    for t,u in PAIRS:
        sp.append(f"Lemma {f}_{t}_{u}_sp t u : in_ty {t} t = true -> in_ty {u} u = true -> {G}{f}_{t}_{u}_g t u = Some ({f}_spec t u).\nProof. intros Ht Hu. rewrite ({f}_{t}_{u}_eq t u Ht Hu), ({f}_ok {t} {u} t u ltac:(wt) ltac:(wt) Ht Hu). reflexivity. Qed.")
for t,u in PAIRS:
    sp.append(f"Lemma in_range_{u}_of_{t}_sp t : in_ty {t} t = true -> {G}in_range_{u}_of_{t}_g t = Some (in_range_spec {u} t).\nProof. intros Ht. rewrite (in_range_{u}_of_{t}_eq t Ht), (in_range_ok {u} {t} t ltac:(wt) ltac:(wt) Ht). reflexivity. Qed.")
for to,fr in SAT:
    sp.append(f"Lemma saturate_cast_{to}_of_{fr}_sp x : in_ty {fr} x = true -> {G}saturate_cast_{to}_of_{fr}_g x = Some (saturate_cast_spec {to} x).\nProof. intros Hx. rewrite (saturate_cast_{to}_of_{fr}_eq x Hx), (saturate_cast_ok {to} {fr} x ltac:(wt) ltac:(wt) Hx). reflexivity. Qed.")
for w in (16,32,64):
    sp.append(f"Lemma byteswap_fallback_u{w}_sp v : 0 <= v < 2 ^ {w} -> {G}byteswap_fallback_u{w}_g v = Some (byteswap_u_spec {w//8} v).\nProof. intros Hv. rewrite byteswap_fallback_u{w}_eq, (byteswap_fallback{w}_ok v Hv). reflexivity. Qed.")
for f in ("ntoh","hton"):
    for w in (8,16,32):
        pick = "proj2" if f=="ntoh" else "proj1"
        sp.append(f"Lemma {f}_u{w}_sp v : 0 <= v < 2 ^ {w} -> {G}{f}_u{w}_g v = Some (hton_spec {w} v).\nProof. intros Hv. rewrite {f}_u{w}_eq, ({pick} (hton_ok {w} v ltac:(lia) Hv)). reflexivity. Qed.")
sp.append(f"""Lemma add_sat_fallback_i64_sp x y : in_ty i64 x = true -> in_ty i64 y = true -> {G}add_sat_fallback_i64_g x y = Some (add_sat_spec i64 x y).
Proof. intros Hx Hy. rewrite add_sat_fallback_i64_eq, (add_sat_fallback_ok i64 ltac:(wt) x y Hx Hy). reflexivity. Qed.
Lemma add_sat_fallback_u64_sp x y : in_ty u64 x = true -> in_ty u64 y = true -> {G}add_sat_fallback_u64_g x y = Some (add_sat_spec u64 x y).
Proof. intros Hx Hy. rewrite add_sat_fallback_u64_eq, (add_sat_fallback_ok u64 ltac:(wt) x y Hx Hy). reflexivity. Qed.
Lemma abs_i32_sp x : in_ty i32 x = true -> in_ty i32 (Z.abs x) = true -> {G}abs_i32_g x = Some (abs_spec x).
Proof. intros Hx Ha. rewrite abs_i32_eq, (abs_ok i32 ltac:(wt) x Hx Ha). reflexivity. Qed.
Lemma abs_i64_sp x : in_ty i64 x = true -> in_ty i64 (Z.abs x) = true -> {G}abs_i64_g x = Some (abs_spec x).
Proof. intros Hx Ha. rewrite abs_i64_eq, (abs_ok i64 ltac:(wt) x Hx Ha). reflexivity. Qed.
Lemma abs_min_none : {G}abs_i32_g (imin i32) = None /\\ {G}abs_i64_g (imin i64) = None.
Proof. split; vm_compute; reflexivity. Qed.""")
cmp_s_t,inr_s_t,sat_s_t,bs_s_t=term("sp")
ar_s_t=cj(["(add_sat_fallback_i64_sp x y)","(add_sat_fallback_u64_sp x y)","(abs_i32_sp x)","(abs_i64_sp x)","(proj1 abs_min_none)","(proj2 abs_min_none)"])
spec_term=f"(conj (fun t u => {cmp_s_t}) (conj (fun t => {inr_s_t}) (conj (fun x => {sat_s_t}) (conj (fun v => {bs_s_t}) (fun x y => {ar_s_t})))))"
# the spec statement without the template block
spec_stmt=spec_stmt[:spec_stmt.rindex("  /\\ (forall word v,")].rstrip()
nl="\n"
src+=mark+f"""
Lemma genB_model :
{model_stmt}.
Proof.
  exact {model_term}.
Qed.

{nl.join(sp)}

Lemma genB_spec :
{spec_stmt}.
Proof.
  exact {spec_term}.
Qed.
"""
open("/verif/coq/C14/GenEquivB.v","w").write(src)
prop=f'''(* C14 — translator obligations, second batch: the 64 kernels regenerated from /repo's cmp_greater.hpp, cmp_less_equal.hpp,
   cmp_greater_equal.hpp, cmp_not_equal.hpp, in_range.hpp (with the cmp_less / cmp_equal instantiations they call),
   saturate_cast.hpp, byteswap.hpp (detail::byteswap_fallback), experimental/net/byte_order.hpp, add_sat.hpp
   (detail::add_sat_fallback, 64-bit branch), abs.hpp (int, long) and the template<Pos> wrappers of set_bit.hpp, reset_bit.hpp,
   flip_bit.hpp, test_bit.hpp ON THIS RUN (coq/Gen/Gen_bits2.v, configuration translate/kernels_bits2.json) compute what the
   hand-written model computes, for ALL arguments of the documented domain (GenEquivB.v), hence the mathematical definition
   of Spec.v.  [ok_of]: Ok v -> Some v, any other model outcome -> None.  A semantic edit of one of these kernels (or of a
   function they call) breaks the build of GenEquivB.v / this file. *)
From Tetl Require Import Lib.Base C14.Spec C14.Model C14.GenEquiv C14.GenEquivB.
From Tetl Require Gen.Gen_bits2.
Local Open Scope Z_scope.

(** generated = model *)
Theorem C14_genB_model :
{model_stmt}.
Proof. exact genB_model. Qed.

(** end to end: the regenerated kernels return the mathematical definition on the documented domain
    (abs(min) of int / long: None, signed overflow) *)
Theorem C14_genB_spec :
{spec_stmt}.
Proof. exact genB_spec. Qed.

Definition C14_genB_theorems := (C14_genB_model, C14_genB_spec).
Print Assumptions C14_genB_theorems.
'''
open("/verif/coq/C14/Properties_genB.v","w").write(prop)
