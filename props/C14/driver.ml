(* C14 driver: model leg = extracted Model.v functions, spec leg = extracted Spec.v functions.
   Same case lines and the same leg layout as props/C14/harness.cpp. *)
let ty_of = function
  | "i8" -> i8 | "u8" -> u8 | "i16" -> i16 | "u16" -> u16 | "i32" -> i32 | "u32" -> u32
  | "c8" -> i8 | "i64" | "ill" -> i64 | "u64" | "ull" -> u64
  | _ -> raise Not_found
let is_fixed = function "i8" | "u8" | "i16" | "u16" | "i32" | "u32" | "i64" | "u64" | "ill" | "ull" -> true | _ -> false
let uty_of s = let t = ty_of s in if t.sgn then raise Not_found else t

let zi = z_of_int
let zb b = if b then "1" else "0"
(* one component of a leg *)
let rz = function Ok z -> str_of_z z | Contract -> "contract" | UB _ -> "ub" | OutOfFuel -> "fuel"
let rb = function Ok b -> zb b | Contract -> "contract" | UB _ -> "ub" | OutOfFuel -> "fuel"
(* a whole leg from components: the C++ side is one guarded block, so a contract failure (or UB)
   in any component is the outcome of the whole case *)
let leg (comps : string list) =
  if List.mem "contract" comps then "contract"
  else if List.mem "ub" comps then "ub"
  else if List.mem "fuel" comps then "fuel"
  else join ("ok" :: comps)
let inty t x = in_ty t x
let okz z = join [ "ok"; str_of_z z ]

let big_lt a b = Big.lt (big_of_z a) (big_of_z b)

let rec run_one op t : string * string =
  match op with
  | "bits" ->
      let ut = uty_of (next_str t) in
      let w = ut.bits in
      let x = next_z t in
      let dom = bit_ceil_dom w x in
      let m = leg [ rz (popcount_m w x); rz (popcount_fallback_m w x); rz (countl_zero_m w x); rz (countl_one_m w x);
                    rz (countr_zero_m w x); rz (countr_one_m w x); rz (bit_width_m w x); rz (bit_floor_m w x);
                    rb (has_single_bit_m w x);
                    (if dom then rz (bit_ceil_m w x)
                     else (match bit_ceil_m w x with UB _ -> "-" | r -> "defined:" ^ rz r)) ] in
      let s = join [ "ok"; str_of_z (popcount_spec w x); str_of_z (popcount_spec w x); str_of_z (countl_zero_spec w x);
                     str_of_z (countl_one_spec w x); str_of_z (countr_zero_spec w x); str_of_z (countr_one_spec w x);
                     str_of_z (bit_width_spec x); str_of_z (bit_floor_spec x); zb (has_single_bit_spec x);
                     (if dom then str_of_z (bit_ceil_spec x) else "-") ] in
      (m, s)
  | "rot" ->
      let ut = uty_of (next_str t) in
      let w = ut.bits in
      let x = next_z t in
      let s = next_z t in
      (leg [ rz (rotl_m w x s); rz (rotr_m w x s) ],
       join [ "ok"; str_of_z (rotl_spec w x s); str_of_z (rotr_spec w x s) ])
  | "bit" ->
      let ut = uty_of (next_str t) in
      let w = ut.bits in
      let word = next_z t in
      let pos = next_z t in
      let m = leg [ rz (set_bit_m w word pos); rz (reset_bit_m w word pos); rz (flip_bit_m w word pos);
                    rb (test_bit_m w word pos); rz (assign_bit_m w word pos false); rz (assign_bit_m w word pos true) ] in
      let s = if big_lt pos w then
          join [ "ok"; str_of_z (set_bit_spec word pos); str_of_z (reset_bit_spec word pos); str_of_z (flip_bit_spec word pos);
                 zb (test_bit_spec word pos); str_of_z (assign_bit_spec word pos false); str_of_z (assign_bit_spec word pos true) ]
        else "na" in
      (m, s)
  | "tbit" ->
      let ut = uty_of (next_str t) in
      let w = ut.bits in
      let word = next_z t in
      let pos = next_z t in
      (* None = the instantiation does not compile (static_assert) *)
      let oz = function Some r -> rz r | None -> "static_assert" in
      let ob = function Some r -> rb r | None -> "static_assert" in
      let comps = [ oz (set_bit_tpl_m w pos word); oz (reset_bit_tpl_m w pos word); oz (flip_bit_tpl_m w pos word);
                    ob (test_bit_tpl_m w pos word); oz (assign_bit_tpl_m w pos word false);
                    oz (assign_bit_tpl_m w pos word true) ] in
      let m = if List.mem "static_assert" comps then "static_assert" else leg comps in
      let s = if big_lt pos w then
          join [ "ok"; str_of_z (set_bit_spec word pos); str_of_z (reset_bit_spec word pos); str_of_z (flip_bit_spec word pos);
                 zb (test_bit_spec word pos); str_of_z (assign_bit_spec word pos false); str_of_z (assign_bit_spec word pos true) ]
        else "na" in
      (m, s)
  | "bswap" ->
      let ty = ty_of (next_str t) in
      let x = next_z t in
      let fb = (not ty.sgn) && int_of_z ty.bits > 8 in
      let m = leg (rz (byteswap_m ty x) :: (if fb then [ rz (byteswap_fallback_m ty.bits x) ] else [])) in
      let sv = str_of_z (byteswap_spec ty x) in
      (m, join ("ok" :: sv :: (if fb then [ sv ] else [])))
  | "hton" ->
      let ts = next_str t in
      if not (List.mem ts [ "u8"; "i8"; "c8"; "u16"; "u32" ]) then raise Not_found;
      let ty = ty_of ts in
      let x = next_z t in
      let m = leg [ rz (hton_m ty.bits x); rz (ntoh_m ty.bits x) ] in
      let sv = if ty.sgn then str_of_z x else str_of_z (hton_spec ty.bits x) in
      (m, join [ "ok"; sv; sv ])
  | "add_sat" ->
      let ty = ty_of (next_str t) in
      let x = next_z t in let y = next_z t in
      let sv = str_of_z (add_sat_spec ty x y) in
      (leg [ rz (add_sat_m ty x y); rz (add_sat_fallback_m ty x y) ], join [ "ok"; sv; sv ])
  | "div_sat" ->
      let ty = ty_of (next_str t) in
      let x = next_z t in let y = next_z t in
      (leg [ rz (div_sat_m ty x y) ], if y = Z0 then "na" else okz (div_sat_spec ty x y))
  | "midpoint" ->
      let ty = ty_of (next_str t) in
      let a = next_z t in let b = next_z t in
      (leg [ rz (midpoint_m ty a b) ], okz (midpoint_spec a b))
  | "gcd" | "lcm" ->
      let sm = next_str t in let sn = next_str t in
      if not (is_fixed sm && is_fixed sn) then raise Not_found;
      let tm = ty_of sm in let tn = ty_of sn in
      let m = next_z t in let n = next_z t in
      let r = common_type tm tn in
      if op = "gcd" then
        let g = gcd_spec m n in
        (leg [ rz (gcd_m tm tn m n) ], if inty r g then okz g else "na")
      else
        let l = lcm_spec m n in
        (leg [ rz (lcm_m tm tn m n) ], if inty r l then okz l else "na")
  | "abs" ->
      let ty = ty_of (next_str t) in
      let x = next_z t in
      (leg [ rz (abs_m ty x) ], if inty ty (abs_spec x) then okz (abs_spec x) else "na")
  | "idiv" ->
      let ty = ty_of (next_str t) in
      let x = next_z t in let y = next_z t in
      let m = (match idiv_m ty x y with
          | Ok (q, r) -> join [ "ok"; str_of_z q; str_of_z r ] | Contract -> "contract" | UB _ -> "ub" | OutOfFuel -> "fuel") in
      let s = if y = Z0 then "na" else
          let (q, r) = idiv_spec x y in
          if inty ty q then join [ "ok"; str_of_z q; str_of_z r ] else "na" in
      (m, s)
  | "ipow" | "ipowb" ->
      let ty = ty_of (next_str t) in
      let b = next_z t in let e = next_z t in
      if op = "ipowb" && not (inty ty b) then ("no-instantiation", "na") else
      let s = if big_lt e Z0 then "na" else
          (* exact power, evaluated only while it can still be representable *)
          let bb = Big.abs (big_of_z b) in
          let eb = big_of_z e in
          if Big.leq bb Big.one then begin
            (* b in {-1, 0, 1}: the power depends only on e = 0 / parity; avoids a huge exponent in Z.pow *)
            let ee = if Big.equal eb Big.zero then Z0 else if Big.testbit eb 0 then zi 1 else zi 2 in
            okz (ipow_spec b ee)
          end
          else if Big.gt eb (Big.of_int 64) || (Big.numbits bb - 1) * Big.to_int eb > 64 then "na"   (* |b|^e > 2^64 *)
          else
            let p = ipow_spec b e in
            if inty ty p then okz p else "na" in
      (leg [ rz (if op = "ipowb" then ipow_base_m ty b e else ipow_m ty b e) ], s)
  | "ipow2" ->
      let ty = ty_of (next_str t) in
      let e = next_z t in
      let s = if big_lt e Z0 || Big.gt (big_of_z e) (Big.of_int 126) then "na"
        else let p = ipow_spec (zi 2) e in if inty ty p then okz p else "na" in
      (leg [ rz (ipow2_m ty e) ], s)
  | "ilog2" ->
      let ty = ty_of (next_str t) in
      let x = next_z t in
      (leg [ rz (ilog2_m ty x) ], if big_lt x (zi 1) then "na" else okz (ilog2_spec x))
  | "cmp" ->
      let sa = next_str t in let sb = next_str t in
      if not (is_fixed sa && is_fixed sb) then raise Not_found;
      let ta = ty_of sa in let tb = ty_of sb in
      let a = next_z t in let b = next_z t in
      (join [ "ok"; zb (cmp_equal_m ta tb a b); zb (cmp_not_equal_m ta tb a b); zb (cmp_less_m ta tb a b);
              zb (cmp_greater_m ta tb a b); zb (cmp_less_equal_m ta tb a b); zb (cmp_greater_equal_m ta tb a b) ],
       join [ "ok"; zb (cmp_equal_spec a b); zb (cmp_not_equal_spec a b); zb (cmp_less_spec a b);
              zb (cmp_greater_spec a b); zb (cmp_less_equal_spec a b); zb (cmp_greater_equal_spec a b) ])
  | "conv" ->
      let sa = next_str t in let sb = next_str t in
      if not (is_fixed sa && is_fixed sb) then raise Not_found;
      let to_ = ty_of sa in let from = ty_of sb in
      let x = next_z t in
      (leg [ zb (in_range_m to_ from x); rz (saturate_cast_m to_ from x) ],
       join [ "ok"; zb (in_range_spec to_ x); str_of_z (saturate_cast_spec to_ x) ])
  | _ -> raise Not_found

let run_case op t =
  if op = "ctbits" then begin
    (* the constant-evaluated table: the legs of `bits` for every listed value *)
    let ty = next_str t in
    let vals = t.rest in
    let legs = List.map (fun v -> run_one "bits" { rest = [ ty; v ] }) vals in
    (String.concat " ; " (List.map fst legs), String.concat " ; " (List.map snd legs))
  end
  else if op <> "row" && op <> "rox" && op <> "swp" && op <> "swx" then run_one op t
  else if op = "swp" || op = "swx" then begin
    (* as row / rox, the legs digested (same two polynomial hashes as harness.cpp): "ok n=<count> h=<a>.<b> bad=<first y
       whose model sub-leg differs from the spec sub-leg, or ->" *)
    let lo = next_int t in
    let hi = next_int t in
    let sub = next_str t in
    let args = t.rest in
    let ma = ref 7 and mb = ref 11 and sa = ref 7 and sb = ref 11 in
    let add a b s =
      String.iter (fun c -> a := (!a * 1000003 + Char.code c) mod 2147483647; b := (!b * 999983 + Char.code c) mod 2147483629) s;
      a := (!a * 1000003 + 59) mod 2147483647; b := (!b * 999983 + 59) mod 2147483629 in
    let bad = ref "-" in
    let n = ref 0 in
    for y = lo to hi do
      let tk =
        if op = "swx" && args <> [] then
          (let r = List.rev args in { rest = List.rev (List.hd r :: string_of_int y :: List.tl r) })
        else { rest = args @ [ string_of_int y ] } in
      let (m, s) = run_one sub tk in
      let m = if m = "" then "void" else m in
      let s = if s = "" || s = "na" then m else s in
      add ma mb m; add sa sb s; incr n;
      if !bad = "-" && m <> s then bad := string_of_int y
    done;
    (Printf.sprintf "ok n=%d h=%d.%d bad=%s" !n !ma !mb !bad, Printf.sprintf "ok n=%d h=%d.%d bad=-" !n !sa !sb)
  end
  else begin
    let lo = next_int t in
    let hi = next_int t in
    let sub = next_str t in
    let args = t.rest in
    let ms = ref [] and ss = ref [] in
    for y = lo to hi do
      let tk =
        if op = "rox" && args <> [] then
          (let r = List.rev args in { rest = List.rev (List.hd r :: string_of_int y :: List.tl r) })
        else { rest = args @ [ string_of_int y ] } in
      let (m, s) = run_one sub tk in
      let m = if m = "" then "void" else m in
      (* outside the documented domain (spec "na") only impl = model is compared *)
      let s = if s = "" || s = "na" then m else s in
      ms := m :: !ms;
      ss := s :: !ss
    done;
    (String.concat " ; " (List.rev !ms), String.concat " ; " (List.rev !ss))
  end

let () = main run_case
